#!/bin/bash
# quick_all.sh <seed> [ids...] — quick tier of every claimed property at one VERIF_SEED; one summary line each
seed=$1; shift
IDS=${@:-$(python3 -c "import json;print(' '.join(c['property_id'] for c in json.load(open('/verif/MANIFEST.json'))['checks']))")}
for id in $IDS; do
  s=$(date +%s)
  out=$(/verif/check $id --seed $seed 2>&1); rc=$?
  echo "$id seed=$seed rc=$rc wall=$(( $(date +%s) - s ))s $(echo "$out" | grep -v KNOWN-FINDING | tail -1 | cut -c1-200)"
done
