#!/usr/bin/env python3
"""seedkeep.py <ID> <a|b> <detected|missed|neutralised|other-property> "<which check / notes>"  — files a confirmed seeded change under /verif/seeded/."""
import sys, os, json, shutil
ID, v, status, notes = sys.argv[1], sys.argv[2], sys.argv[3], sys.argv[4]
src = '/tmp/seed-out/%s/%s' % (ID, v)
dst = '/verif/seeded/%s-%s' % (ID, v)
if os.path.exists(dst):
    shutil.rmtree(dst)
os.makedirs(dst)
shutil.copy(src + '/patch.diff', dst + '/patch.diff')
shutil.copytree(src + '/demo', dst + '/demo')
meta = json.load(open(src + '/meta.json'))
val = open(src + '/validation.txt').read() if os.path.exists(src + '/validation.txt') else ''
res = [l for l in val.splitlines() if l.startswith('RESULT')]
meta['breaks_property'] = ID
meta['maintainer_validation'] = {
    'scratch_worktree_of': 'repo HEAD at validation time',
    'ran': 'seedvalidate.sh %s %s: demo without patch / demo with patch (tags "badger filelog") / pinned baseline with patch (no engine tag)' % (ID, v),
    'result': res[-1] if res else 'not recorded',
}
meta['check_result'] = {'status': status, 'notes': notes}
json.dump(meta, open(dst + '/meta.json', 'w'), indent=1)
print('kept', dst)
