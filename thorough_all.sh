#!/bin/bash
# thorough_all.sh [ids...] — runs the thorough tier of each property in turn, full output in /tmp/thorough/<id>.log
mkdir -p /tmp/thorough
IDS=${@:-$(python3 -c "import json;print(' '.join(c['property_id'] for c in json.load(open('/verif/MANIFEST.json'))['checks']))")}
for id in $IDS; do
  s=$(date +%s)
  /verif/check $id --tier thorough > /tmp/thorough/$id.log 2>&1; rc=$?
  echo "$id rc=$rc wall=$(( $(date +%s) - s ))s $(grep -v KNOWN-FINDING /tmp/thorough/$id.log | tail -1 | cut -c1-160)"
done
