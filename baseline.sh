#!/bin/bash
# baseline.sh — runs the pinned test suite (command of /root/.vp/BASELINE.json, no build tags, i.e. with the verif guard off)
# on /repo's current working tree and compares with its stable_pass list.
export GOFLAGS=-mod=mod GOPROXY=off GOSUMDB=off GOTOOLCHAIN=local
cd ${VERIF_REPO:-/repo} || exit 2
OUT=$(mktemp)
go test -vet=off -count=1 -json -timeout 25m ./... 2>/dev/null > $OUT
python3 - "$OUT" <<'PY'
import json,sys
want=set(json.load(open('/root/.vp/BASELINE.json'))['stable_pass'])
got=set()
for l in open(sys.argv[1]):
    try: r=json.loads(l)
    except: continue
    if r.get('Action')=='pass' and r.get('Test'): got.add(r['Package']+'::'+r['Test'])
missing=sorted(want-got)
print('baseline_pass=%d/%d missing=%s'%(len(want&got),len(want),missing))
sys.exit(0 if not missing else 1)
PY
RC=$?
rm -f $OUT
git -C ${VERIF_REPO:-/repo} status --short | head -5
exit $RC
