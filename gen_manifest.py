#!/usr/bin/env python3
"""Regenerates MANIFEST.json from checks_config.py + manifest_text.py (claimed checks) and lists the rest under not_applicable."""
import json, os, sys
V = os.path.dirname(os.path.abspath(__file__))
sys.path.insert(0, V)
from checks_config import CHECKS
from manifest_text import TEXT, NOT_APPLICABLE, HOOK_COMMITS

props = [json.loads(l)["id"] for l in open(os.path.join(V, "properties.jsonl"))]
checks = []
for pid in props:
    if pid not in CHECKS or pid not in TEXT:
        continue
    t = TEXT[pid]
    checks.append({
        "property_id": pid,
        "quick_cmd": "./check %s --tier quick" % pid,
        "thorough_cmd": "./check %s --tier thorough" % pid,
        "evidence_file": "evidence/%s.json" % pid,
        "replay_cmd_template": "./check %s --replay {path}" % pid,
        "engine": "rapid+gofuzz",
        "level_claimed": {"category": CHECKS[pid].get("level", "exploration"), "text": t["level_text"], "design_ref": "DESIGN.md §5 " + pid},
        "level_note": t["level_note"],
        "technique": t["technique"],
    })
na = []
for pid in props:
    if pid in CHECKS and pid in TEXT:
        continue
    na.append({"property_id": pid, "reason": NOT_APPLICABLE.get(pid, "check not built yet in this session (planned, see DESIGN.md §5); not claimed until it runs")})
m = {
    "version": 1,
    "setup_cmd": "./check --setup",
    "hooks": {
        "guard": "verif",
        "enable": "go build tag: -tags \"badger filelog verif\" (every harness build uses it; without the tag dvid.VerifPoint is an empty function and the *_verif.go shims are not compiled)",
        "baseline_off_cmd": "cd /repo && go test -mod=mod -vet=off -count=1 -timeout 25m ./...",
        "source_commits": HOOK_COMMITS,
        "add_only": True,
    },
    "engines": [
        {"name": "rapid+gofuzz", "path": "harness/", "serves_properties": [c["property_id"] for c in checks],
         "kind_free_text": "Go module 'verif' (pgregory.net/rapid v1.3.0 property tests + native go fuzz targets) compiled against /repo's working tree via a generated modfile; python3 driver ./check shards, merges stats, confirms failures in a fresh process and writes evidence"}
    ],
    "checks": checks,
    "not_applicable": na,
    "notes": "Exit codes: 0 held, 1 VIOLATION (with replay file), 2 inconclusive (harness trouble/timeouts; never a verdict). Known findings and fixed defects: KNOWN_FINDINGS.txt. Seeded breakages used for sensitivity testing: seeded/.",
}
json.dump(m, open(os.path.join(V, "MANIFEST.json"), "w"), indent=1)
print("claimed:", [c["property_id"] for c in checks])
