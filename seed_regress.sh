#!/bin/bash
# seed_regress.sh [ids...] — applies every filed seeded change to /repo in turn, runs the quick check that is recorded
# as catching it, undoes the change; prints one line per seed (expected: rc=1 for detected seeds).
declare -A OVER=( [C02-a]=C03 [C02-b]=C03 [C20-b]=C13 [C08-c]=C03 )
cd /verif/seeded
for d in ${@:-$(ls)}; do
  st=$(python3 -c "import json;print(json.load(open('$d/meta.json'))['check_result']['status'])")
  if [ "$st" != "detected" ]; then echo "$d skipped ($st)"; continue; fi
  chk=${OVER[$d]:-${d%-*}}
  if ! git -C /repo apply --check /verif/seeded/$d/patch.diff 2>/dev/null; then echo "$d patch-does-not-apply (tree changed by later fixes)"; continue; fi
  git -C /repo apply /verif/seeded/$d/patch.diff
  out=$(/verif/check $chk 2>&1); rc=$?
  git -C /repo checkout -- . ; git -C /repo clean -fdq
  echo "$d check=$chk rc=$rc $(echo "$out" | grep -o 'sig=[^ ]*' | head -1)"
done
git -C /repo status --short | head -3
