# Per-property prose for MANIFEST.json.
HOOK_COMMITS = ["c0392a7 verif hook: dvid.VerifPoint (no-op unless built with tag verif)", "086a371 verif hook: read-only identifier-map introspection shim (build tag verif)", "f834000 verif hook: RPC switchboard and server-mode shims (build tag verif)", "7b8e95b verif hook: write points in the Badger engine (VerifPoint before/after put, delete, batch commit)", "d6199fd verif hook: write points in the file log (header / payload / sync)", "7302290 verif hook: write points in the server mutation log", "e72c67b verif hook: yield points at read-modify-write sites (annotation, labelmap, neuronjson, datastore)", "8de5a16 verif hook: yield point before the keyvalue batch commit"]
NOT_APPLICABLE = {}
TEXT = {
    "C15": {
        "technique": "property-based testing (rapid): round-trip oracle + exhaustive/sampled corruption with CRC oracle + arbitrary-input no-crash; native go fuzz target in thorough",
        "level_text": "Generated-input exploration: thousands of (payload, format, checksum, uncompress) round trips incl. multi-MiB payloads, every single-bit flip and truncation of small CRC envelopes, sampled ones of large envelopes, and arbitrary envelopes (all 256 header bytes, valid colour/gray JPEG, lying LZ4 lengths). A pure function over byte strings, so generated search with a round-trip/CRC oracle is the natural level; absence of failures is not a proof.",
        "level_note": "Trusts Go's snappy/gzip/crc32 and the cgo LZ4 binding as reference decompressors for the uncompress=false branch; header-byte corruption (which can legitimately switch the checksum off) is only in the no-crash domain.",
    },
    "C18": {
        "technique": "property-based testing (rapid): round-trip + order oracle for key codecs, voxel-set model for the RLE algebra, span-membership model for ROI ptquery/mask/VoxelBoundsInside over HTTP; native go fuzz target for ReadRLEs in thorough",
        "level_text": "Generated-input exploration with explicit oracles: byte order vs numeric (z,y,x) order for pairs of boundary-biased int32 coordinates; injectivity and round trip of the packed index over |c|<2^20; every RLE operation compared as a voxel set with a naive map; ROI answers compared with membership computed from the posted spans (incl. negative coordinates). The functions are pure/small so thousands of cases per second are explored; no absence claim.",
        "level_note": "Run coordinates are kept within +-2^30 (no int32 overflow of start+length); runs are non-overlapping as the property states; ROI block sizes 16 and 32 only.",
    },
    "C01": {
        "technique": "property-based testing (rapid): model-based — frontier resolver model over generated DAGs (free growth + lineage templates, all parent orders) x exhaustive entry placements; stateful HTTP histories vs the model",
        "level_text": "Generated search against a reference resolver ('maximal entries among all-parent ancestors; unique live one wins; >=2 live => no success') on three layers: GetBestKeyVersion/VersionedKeyValue over synthetic key sets (3^n placements per DAG, permuted entry order), real Badger Put/Delete/batch + Get/Exists, and HTTP histories on versioned and unversioned keyvalue instances in two repos. Explores DAG shapes x placements the example tests fix to one point; not a proof.",
        "level_note": "DAGs <= ~19 nodes (templates) / 10 nodes (free growth); placements exhaustive for n<=6, 300 sampled above; merge parents distinct and committed.",
    },
    "C05": {
        "technique": "property-based testing (rapid): stateful histories with differential oracle (range/listing endpoints vs point reads) plus DAG model; boundary-steered bulk DeleteRange",
        "level_text": "Generated histories over a prefix-related key universe on branched/merged DAGs, then every range consumer (4 storage-level, 7 HTTP variants incl. JSON/tar/protobuf) compared with point reads key by key, ascending and once each; DeleteRange followed by a full (key,node) sweep; a bulk test steers the number of deleted keys to the store's internal batch size and its multiples.",
        "level_note": "10-key universe, <=~10 nodes; intervals containing an unresolved merge conflict may be refused and DeleteRange is not exercised over them.",
    },
    "C09": {
        "technique": "property-based testing (rapid): round-trip oracle for the block codec (MakeBlock/SubvolumeToBlock/MakeSolidBlock -> MakeLabelVolume/WriteLabelVolume, Marshal -> Unmarshal) and a naive []uint64 model for every view (Value, GetPointLabels, CalcNumLabels, WriteRLEs, WriteBinaryBlocks->ReceiveBinaryBlocks); native go fuzz target (bytes -> shape, per-sub-block label count, label stream) in thorough",
        "level_text": "Generated-input exploration with an independent reference: arrays are built per 8x8x8 sub-block with a chosen number of distinct labels so that every index bit width 0..9 and every byte-straddling offset occurs, for cubic, non-cubic, 64^3 and elongated block sizes and labels up to 2^64-1; each compressed block is decoded and compared voxel for voxel, the documented layout counts (labels per block / per sub-block) are compared with the array, every block offset of a larger sub-volume is converted, and each view taken on the compressed form (all voxels as query points on blocks up to 32^3) is compared with the same view computed on the array, including rows of adjacent blocks, negative block coordinates and label tables with duplicate / dead entries. Pure functions, thousands of blocks per run; no absence claim.",
        "level_note": "Sub-volumes are block aligned; sparse outputs are taken without bounds and never for label 0; out-of-block query points are only checked for Value (GetPointLabels: unasserted observation O1 in props/c09/FINDINGS.md); block sizes with an odd number of sub-blocks are only covered until the MakeBlock finding for them is listed (then the generator makes the count even).",
    },
    "C10": {
        "technique": "property-based testing (rapid): model-based - every block operation (MergeLabels, ReplaceLabel(s), Split, SplitSupervoxel(s), SplitStats, DoSplitWithStats, Downres, DownresSlow, DownresLabels) against a naive []uint64 implementation, single operations and sequences of 2-4 operations on one block; differential sub-check DownresFast vs DownresSlow",
        "level_text": "Generated-input exploration with an independent reference: the operation's result is decoded with MakeLabelVolume and compared voxel for voxel with the voxel-wise operation on the decoded input; reported counts (keptSize, splitSize, replaceSize, SVSplitCount.Voxels, CalcNumLabels deltas) are compared with counts taken from the arrays; the input block is re-decoded after each call. Generators target table aliasing (target present/absent, duplicates after replacement, label 0 as source and destination, merges on merged blocks), split run sets in DVID voxel space incl. negative block coordinates, and all combinations of absent / solid / mixed octants with fresh and existing receivers. No absence claim.",
        "level_note": "splitFast is unexported and unreachable and is not exercised; DownresFast is compared with DownresSlow only for even sub-block counts per axis (it refuses others); Downres is always given at least one octant; split run sets are non-overlapping and inside the block.",
    },
    "C07": {
        "technique": "property-based testing (rapid): stateful request histories with operand kinds; invariant oracle over the whole metadata after every request + 'rejected => unchanged' metamorphic oracle",
        "level_text": "Generated histories of valid and invalid repo-level requests; after each one the complete metadata snapshot (repos/info, DAG links, locked flags, notes, logs, branch heads, uuid<->version maps via a read-only shim) is checked for well-formedness, compared with the previous snapshot when the request was refused, and checked for exactly one new node with the requested parents when a DAG-growing request was accepted.",
        "level_note": "<=40 requests, <=3 repos per history; status codes used only as 2xx vs not; instance/repo deletion reached through the real RPC switchboard (shim).",
    },
    "C08": {
        "technique": "property-based testing (rapid): model-based state machine (dense voxel->supervoxel volume + supervoxel->body mapping per version) with three oracles: model equality, internal consistency of every read endpoint vs scan+mapping, version isolation",
        "level_text": "Generated proofreading histories on a small labelmap (12 blocks of 16^3, also at negative block coordinates): after every mutation the server's stored voxels and mapping must equal the reference model, every read endpoint must equal what scanning the server's own stored voxels under its own mapping yields, and every other version must still read as its own history says (no pre-reads, so versions are first loaded in arbitrary order). Exploration of op sequences x label layouts x DAG shapes the example tests cannot reach.",
        "level_note": "<=19 ops, <=10 palette supervoxels, one block size (16^3), extent 3x2x2 blocks; split volumes are proper subsets; 'split' (body split) endpoint not exercised (disabled by default configuration); maxlabel/nextlabel belong to C12.",
    },
    "C03": {
        "technique": "property-based testing (rapid): stateful histories against a real server process with restart pseudo-ops; metamorphic oracle before-restart snapshot == after-restart snapshot over every observable",
        "level_text": "Generated multi-datatype histories run in a child process that performs the DoServe initialisation on real Badger/file-log/mutation-log stores; at generated points the process is shut down cleanly or SIGKILLed while idle and a new process is started on the same directories; the complete observable state (repos, DAG, flags, notes, logs, branch resolution, instance settings, every read endpoint of every instance at every version) must be identical. Only a fresh process sees state rebuilt from disk, which the in-process reopen helper cannot show.",
        "level_note": "<=~35 ops and <=5 restarts per history; labelmap extent 2x2x2 blocks of 16^3; set-valued answers (supervoxel lists, field names, element lists, block streams) are compared order-independently; crash = SIGKILL of an idle process (no power-loss semantics).",
    },
    "C04": {
        "technique": "property-based testing (rapid) with fault injection: generated workloads against a real server process, the process killed at every write point of a generated target operation (and again during recovery), reference-execution and before/after snapshot oracles; generated file logs cut at every byte length with a prefix oracle",
        "level_text": "For each generated (workload, target operation) the check enumerates every write point the target passes (recorded from an uninterrupted execution through build-tag hooks in the Badger engine, the file log and the mutation log), kills the server at each one on a fresh re-execution, restarts it (optionally killing the recovery start-up too) and decides: start succeeds, metadata well formed, untouched observables unchanged, repo-level / single-key targets entirely absent or entirely present, retry works, later acknowledged work survives the next restart. File logs are cut at every byte length and must read back exactly the complete records, also after further appends.",
        "level_note": "Fault enumeration is complete over the instrumented write points of the chosen target operation (thorough tier; the quick tier takes an evenly spaced subset of 8), not over all operations of all workloads: workloads and targets are sampled by rapid. Crash = process death with the OS surviving.",
    },
    "C12": {
        "technique": "property-based testing (rapid): stateful allocation histories against a real server process with restart / SIGKILL / crash-at-write-point pseudo-ops; history invariant oracle (uniqueness and monotonicity of every identifier the server hands out)",
        "level_text": "Generated histories of allocation requests (merge, cleave, nextlabel, new versions / instances / repos, concurrent bursts) whose lengths are steered to the mutation-id persistence stride, interleaved with ingests of larger labels, renumbering to caller-chosen labels, clean restarts, SIGKILLs and crashes injected at the k-th store write of a request; every mutation id, label, version id, repo id and instance id observed over the whole history must be unique, and mutation ids / labels must increase and labels must exceed everything stored.",
        "level_note": "<=~400 allocations and <=5 restarts per history; crash = SIGKILL at a write point inside the process; after an administrator set-nextlabel (only to values above everything issued) only uniqueness is asserted.",
    },
}


def _load_entries():
    import glob, os, re
    here = os.path.dirname(os.path.abspath(__file__))
    for f in sorted(glob.glob(os.path.join(here, "harness", "props", "*", "manifest_entry.py"))):
        ns = {}
        exec(compile(open(f).read(), f, "exec"), ns)
        for k, v in list(ns.items()):
            if k.startswith("__") or not isinstance(v, dict):
                continue
            if re.fullmatch(r"C\d\d", k) and k not in TEXT:
                TEXT[k] = v
            elif v and all(isinstance(kk, str) and re.fullmatch(r"C\d\d", kk) and isinstance(vv, dict) for kk, vv in v.items()):
                for kk, vv in v.items():
                    if kk not in TEXT:
                        TEXT[kk] = vv


_load_entries()
