# Per-property prose for MANIFEST.json.
HOOK_COMMITS = []
NOT_APPLICABLE = {}
TEXT = {
    "C15": {
        "technique": "property-based testing (rapid): round-trip oracle + exhaustive/sampled corruption with CRC oracle + arbitrary-input no-crash; native go fuzz target in thorough",
        "level_text": "Generated-input exploration: thousands of (payload, format, checksum, uncompress) round trips incl. multi-MiB payloads, every single-bit flip and truncation of small CRC envelopes, sampled ones of large envelopes, and arbitrary envelopes (all 256 header bytes, valid colour/gray JPEG, lying LZ4 lengths). A pure function over byte strings, so generated search with a round-trip/CRC oracle is the natural level; absence of failures is not a proof.",
        "level_note": "Trusts Go's snappy/gzip/crc32 and the cgo LZ4 binding as reference decompressors for the uncompress=false branch; header-byte corruption (which can legitimately switch the checksum off) is only in the no-crash domain.",
    },
}
