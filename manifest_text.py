# Per-property prose for MANIFEST.json.
HOOK_COMMITS = []
NOT_APPLICABLE = {}
TEXT = {
    "C15": {
        "technique": "property-based testing (rapid): round-trip oracle + exhaustive/sampled corruption with CRC oracle + arbitrary-input no-crash; native go fuzz target in thorough",
        "level_text": "Generated-input exploration: thousands of (payload, format, checksum, uncompress) round trips incl. multi-MiB payloads, every single-bit flip and truncation of small CRC envelopes, sampled ones of large envelopes, and arbitrary envelopes (all 256 header bytes, valid colour/gray JPEG, lying LZ4 lengths). A pure function over byte strings, so generated search with a round-trip/CRC oracle is the natural level; absence of failures is not a proof.",
        "level_note": "Trusts Go's snappy/gzip/crc32 and the cgo LZ4 binding as reference decompressors for the uncompress=false branch; header-byte corruption (which can legitimately switch the checksum off) is only in the no-crash domain.",
    },
    "C18": {
        "technique": "property-based testing (rapid): round-trip + order oracle for key codecs, voxel-set model for the RLE algebra, span-membership model for ROI ptquery/mask/VoxelBoundsInside over HTTP; native go fuzz target for ReadRLEs in thorough",
        "level_text": "Generated-input exploration with explicit oracles: byte order vs numeric (z,y,x) order for pairs of boundary-biased int32 coordinates; injectivity and round trip of the packed index over |c|<2^20; every RLE operation compared as a voxel set with a naive map; ROI answers compared with membership computed from the posted spans (incl. negative coordinates). The functions are pure/small so thousands of cases per second are explored; no absence claim.",
        "level_note": "Run coordinates are kept within +-2^30 (no int32 overflow of start+length); runs are non-overlapping as the property states; ROI block sizes 16 and 32 only.",
    },
    "C01": {
        "technique": "property-based testing (rapid): model-based — frontier resolver model over generated DAGs (free growth + lineage templates, all parent orders) x exhaustive entry placements; stateful HTTP histories vs the model",
        "level_text": "Generated search against a reference resolver ('maximal entries among all-parent ancestors; unique live one wins; >=2 live => no success') on three layers: GetBestKeyVersion/VersionedKeyValue over synthetic key sets (3^n placements per DAG, permuted entry order), real Badger Put/Delete/batch + Get/Exists, and HTTP histories on versioned and unversioned keyvalue instances in two repos. Explores DAG shapes x placements the example tests fix to one point; not a proof.",
        "level_note": "DAGs <= ~19 nodes (templates) / 10 nodes (free growth); placements exhaustive for n<=6, 300 sampled above; merge parents distinct and committed.",
    },
    "C05": {
        "technique": "property-based testing (rapid): stateful histories with differential oracle (range/listing endpoints vs point reads) plus DAG model; boundary-steered bulk DeleteRange",
        "level_text": "Generated histories over a prefix-related key universe on branched/merged DAGs, then every range consumer (4 storage-level, 7 HTTP variants incl. JSON/tar/protobuf) compared with point reads key by key, ascending and once each; DeleteRange followed by a full (key,node) sweep; a bulk test steers the number of deleted keys to the store's internal batch size and its multiples.",
        "level_note": "10-key universe, <=~10 nodes; intervals containing an unresolved merge conflict may be refused and DeleteRange is not exercised over them.",
    },
}
