package drive

import (
	"fmt"

	"github.com/janelia-flyem/dvid/datastore"
	"github.com/janelia-flyem/dvid/dvid"

	"verif/model"
)

// BuiltDAG is a model.DAG realised on the server through the datastore API.
type BuiltDAG struct {
	DAG      *model.DAG
	Root     dvid.UUID
	UUID     []dvid.UUID
	Version  []dvid.VersionID
	Branch   []string // branch name of each node ("" = master)
	Locked   []bool
	nextName int
}

// BuildDAG creates a fresh repo whose version graph is d (node 0 = root).  Parents are committed as needed;
// merge parents are given in the order listed in d.Parents[i].
func BuildDAG(d *model.DAG) (*BuiltDAG, error) {
	repoMu.Lock()
	repoCount++
	n := repoCount
	repoMu.Unlock()
	root, err := datastore.NewRepo(fmt.Sprintf("dag%d", n), "generated dag", nil, "")
	if err != nil {
		return nil, err
	}
	b := &BuiltDAG{DAG: d, Root: root}
	v, err := datastore.VersionFromUUID(root)
	if err != nil {
		return nil, err
	}
	b.UUID = append(b.UUID, root)
	b.Version = append(b.Version, v)
	b.Branch = append(b.Branch, "")
	b.Locked = append(b.Locked, false)
	childBranches := map[int]map[string]bool{}
	for i := 1; i < d.N(); i++ {
		ps := d.Parents[i]
		for _, p := range ps {
			if !b.Locked[p] {
				if err := datastore.Commit(b.UUID[p], "c", nil); err != nil {
					return nil, fmt.Errorf("commit node %d: %v", p, err)
				}
				b.Locked[p] = true
			}
		}
		var uuid dvid.UUID
		var branch string
		if len(ps) == 1 {
			p := ps[0]
			if childBranches[p] == nil {
				childBranches[p] = map[string]bool{}
			}
			name := ""
			branch = b.Branch[p]
			if childBranches[p][branch] {
				b.nextName++
				name = fmt.Sprintf("b%d", b.nextName)
				branch = name
			}
			uuid, err = datastore.NewVersion(b.UUID[p], "nv", name, nil)
			if err != nil {
				return nil, fmt.Errorf("new version under node %d (branch %q): %v", p, name, err)
			}
			childBranches[p][branch] = true
		} else {
			parents := make([]dvid.UUID, len(ps))
			for j, p := range ps {
				parents[j] = b.UUID[p]
			}
			uuid, err = datastore.Merge(parents, "m", datastore.MergeConflictFree)
			if err != nil {
				return nil, fmt.Errorf("merge %v: %v", ps, err)
			}
			branch = ""
			for _, p := range ps {
				if childBranches[p] == nil {
					childBranches[p] = map[string]bool{}
				}
				childBranches[p][""] = true
			}
		}
		v, err := datastore.VersionFromUUID(uuid)
		if err != nil {
			return nil, err
		}
		b.UUID = append(b.UUID, uuid)
		b.Version = append(b.Version, v)
		b.Branch = append(b.Branch, branch)
		b.Locked = append(b.Locked, false)
	}
	return b, nil
}

// NewKeyvalue creates a keyvalue instance in the repo through the datastore API.
func (b *BuiltDAG) NewData(typename, name string, cfg map[string]interface{}) (datastore.DataService, error) {
	t, err := datastore.TypeServiceByName(dvid.TypeString(typename))
	if err != nil {
		return nil, err
	}
	c := dvid.NewConfig()
	for k, v := range cfg {
		c.Set(k, v)
	}
	return datastore.NewData(b.Root, t, dvid.InstanceName(name), c)
}
