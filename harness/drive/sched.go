package drive

// Deterministic yield-point scheduler for C11.
//
// The repository calls dvid.VerifPoint("yield:<pkg>.<Func>:<what>") between the read and the write of its
// read-modify-write sequences (build tag verif).  RunScheduled installs a hook that parks every goroutine
// arriving at such a point and releases parked goroutines ONE AT A TIME in the order given by a schedule (a
// list of integers drawn by the property test; entry modulo the number of currently parked goroutines).
//
// The controller releases the next goroutine when every live controlled goroutine (one per request) is parked
// or has finished, or when nothing changed for a short quiescence interval (a goroutine blocked on a real
// mutex held by a parked one, or busy computing).  The timer only influences WHICH interleaving is explored;
// verdicts never depend on it (C11's oracle is schedule independent).

import (
	"bytes"
	"fmt"
	"runtime"
	"sort"
	"strconv"
	"strings"
	"sync"
	"time"

	"github.com/janelia-flyem/dvid/dvid"
)

// SchedStep is one release decision of the controller.
type SchedStep struct {
	G      int    `json:"g"`    // request index of the released goroutine; -1-k for the k-th background goroutine seen
	Site   string `json:"site"` // yield site it was parked at
	Parked int    `json:"parked"`
	// Mid is the number of OTHER goroutines that were parked inside a read-modify-write window (a site that is
	// not an ":entry" site) when this one was released.
	Mid int `json:"mid"`
}

// SchedResult describes what happened in one scheduled run.
type SchedResult struct {
	Trace       []SchedStep
	Interleaved bool // some goroutine ran while another one was parked inside a read-modify-write window
	Switches    int  // releases of a goroutine different from the previously released one while the previous one was still parked or live
	Quiesced    int  // releases decided by the quiescence timer rather than "everything is parked"
	TimedOut    bool // watchdog fired: parking was disabled and everything released
	Stuck       bool // controlled goroutines did not finish even after the watchdog released everything
}

// TraceString renders the release order compactly: "0@site 1@site ...".
func (r SchedResult) TraceString() string {
	var sb strings.Builder
	for i, s := range r.Trace {
		if i > 0 {
			sb.WriteByte(' ')
		}
		g := strconv.Itoa(s.G)
		if s.G < 0 {
			g = "bg" + strconv.Itoa(-1-s.G)
		}
		sb.WriteString(g + "@" + strings.TrimPrefix(s.Site, "yield:"))
	}
	return sb.String()
}

// SchedOpts tunes the controller.
type SchedOpts struct {
	Quiescence time.Duration // default 2ms: how long nothing may change before the goroutine states are inspected
	Fallback   time.Duration // default 300ms: release somebody even though a request goroutine still looks busy
	Watchdog   time.Duration // default 20s
	// ControlBackground: background goroutines (sync handlers ...) that hit a yield point are parked and scheduled
	// like the request goroutines while at least one request is live; otherwise they pass through.
	ControlBackground bool
	// Idle (optional, with ControlBackground): after the requests returned and nothing is parked, the run only ends
	// once Idle() reports true (e.g. the repository's own "nothing pending" predicates).
	Idle func() bool
	// ExtraSites: prefixes of non-"yield:" sites (the write points of the storage engines, e.g. "filelog.Append:")
	// that are treated as yield points too.
	ExtraSites []string
}

type parkedG struct {
	gid   int64
	idx   int // request index or -1-k for background
	site  string
	ch    chan struct{}
	order int // arrival order (tie break for background)
}

type scheduler struct {
	mu         sync.Mutex
	controlled map[int64]int // goroutine id -> request index
	bgIndex    map[int64]int // goroutine id -> background ordinal
	live       int           // controlled goroutines not yet finished
	finished   map[int]bool  // request index -> returned
	parked     []*parkedG
	disabled   bool
	arrivals   int
	events     chan struct{}
	opts       SchedOpts
	lastRel    int // idx of the last released goroutine
	hasLast    bool
	res        SchedResult
	rr         int
}

func curGID() int64 {
	var buf [64]byte
	n := runtime.Stack(buf[:], false)
	// "goroutine 123 [running]:"
	b := buf[:n]
	b = bytes.TrimPrefix(b, []byte("goroutine "))
	if i := bytes.IndexByte(b, ' '); i > 0 {
		id, _ := strconv.ParseInt(string(b[:i]), 10, 64)
		return id
	}
	return -1
}

var stackBuf = make([]byte, 4<<20)

// allLockBlocked reports whether every listed goroutine is waiting for a sync.Mutex / sync.RWMutex (the runtime
// names the wait reason in the goroutine header: "goroutine 12 [sync.Mutex.Lock]:").  Waiting for I/O, a channel or
// a WaitGroup counts as "still working" (somebody else is doing the work on its behalf).
func allLockBlocked(gids []int64) bool {
	if len(gids) == 0 {
		return false
	}
	n := runtime.Stack(stackBuf, true)
	dump := stackBuf[:n]
	want := map[int64]bool{}
	for _, g := range gids {
		want[g] = true
	}
	found := 0
	for len(dump) > 0 {
		i := bytes.Index(dump, []byte("goroutine "))
		if i < 0 {
			break
		}
		if i > 0 && dump[i-1] != '\n' {
			dump = dump[i+10:]
			continue
		}
		dump = dump[i+10:]
		sp := bytes.IndexByte(dump, ' ')
		if sp <= 0 {
			continue
		}
		id, err := strconv.ParseInt(string(dump[:sp]), 10, 64)
		if err != nil || !want[id] {
			continue
		}
		rest := dump[sp:]
		lb, rb := bytes.IndexByte(rest, '['), bytes.IndexByte(rest, ']')
		if lb < 0 || rb < lb {
			return false
		}
		state := string(rest[lb+1 : rb])
		if !(strings.HasPrefix(state, "sync.Mutex.Lock") || strings.HasPrefix(state, "sync.RWMutex.")) {
			return false
		}
		found++
	}
	return found == len(gids)
}

func (s *scheduler) notify() {
	select {
	case s.events <- struct{}{}:
	default:
	}
}

func (s *scheduler) hook(site string) {
	if !strings.HasPrefix(site, "yield:") {
		extra := false
		for _, p := range s.opts.ExtraSites {
			if strings.HasPrefix(site, p) {
				extra = true
				break
			}
		}
		if !extra {
			return
		}
	}
	gid := curGID()
	s.mu.Lock()
	if s.disabled {
		s.mu.Unlock()
		return
	}
	idx, ok := s.controlled[gid]
	if !ok {
		if !s.opts.ControlBackground {
			s.mu.Unlock()
			return
		}
		k, seen := s.bgIndex[gid]
		if !seen {
			k = len(s.bgIndex)
			s.bgIndex[gid] = k
		}
		idx = -1 - k
	}
	p := &parkedG{gid: gid, idx: idx, site: site, ch: make(chan struct{}), order: s.arrivals}
	s.arrivals++
	s.parked = append(s.parked, p)
	s.mu.Unlock()
	s.notify()
	<-p.ch
}

// candidates returns the parked goroutines: controlled by request index, then background by arrival.
func (s *scheduler) candidates() []*parkedG {
	c := append([]*parkedG(nil), s.parked...)
	sort.SliceStable(c, func(i, j int) bool {
		a, b := c[i], c[j]
		if (a.idx >= 0) != (b.idx >= 0) {
			return a.idx >= 0
		}
		if a.idx >= 0 {
			return a.idx < b.idx
		}
		return a.order < b.order
	})
	return c
}

// isEntry: parked there a goroutine is not yet inside a read-modify-write (or multi-part write) window.
func isEntry(site string) bool {
	if strings.HasPrefix(site, "yield:") {
		return strings.HasSuffix(site, ":entry")
	}
	return !strings.Contains(site, "between-") // write points: only "between header and payload" is inside a window
}

// release must be called with s.mu held.
func (s *scheduler) release(p *parkedG, byTimer bool) {
	for i, q := range s.parked {
		if q == p {
			s.parked = append(s.parked[:i], s.parked[i+1:]...)
			break
		}
	}
	mid := 0
	for _, q := range s.parked {
		if !isEntry(q.site) {
			mid++
		}
	}
	if mid > 0 {
		s.res.Interleaved = true
	}
	if s.hasLast && s.lastRel != p.idx {
		s.res.Switches++
	}
	s.lastRel, s.hasLast = p.idx, true
	if byTimer {
		s.res.Quiesced++
	}
	if len(s.res.Trace) < 400 {
		s.res.Trace = append(s.res.Trace, SchedStep{G: p.idx, Site: p.site, Parked: len(s.parked) + 1, Mid: mid})
	}
	close(p.ch)
}

func (s *scheduler) releaseAll() {
	for len(s.parked) > 0 {
		s.release(s.parked[0], false)
	}
}

var schedMu sync.Mutex // one scheduled run at a time per process

// RunScheduled runs the requests concurrently (one goroutine each) under the given schedule and returns when
// all of them have returned.  The hook is always uninstalled and no goroutine stays parked afterwards.
func RunScheduled(reqs []func(), schedule []int, opts SchedOpts) SchedResult {
	schedMu.Lock()
	defer schedMu.Unlock()
	if opts.Quiescence == 0 {
		opts.Quiescence = 2 * time.Millisecond
	}
	if opts.Fallback == 0 {
		opts.Fallback = 300 * time.Millisecond
	}
	if opts.Watchdog == 0 {
		opts.Watchdog = 20 * time.Second
	}
	s := &scheduler{
		controlled: map[int64]int{},
		bgIndex:    map[int64]int{},
		finished:   map[int]bool{},
		live:       len(reqs),
		events:     make(chan struct{}, 1),
		opts:       opts,
	}
	done := make(chan int, len(reqs))
	ready := make(chan struct{})
	var reg sync.WaitGroup
	reg.Add(len(reqs))
	for i, f := range reqs {
		i, f := i, f
		go func() {
			s.mu.Lock()
			s.controlled[curGID()] = i
			s.mu.Unlock()
			reg.Done()
			<-ready
			defer func() {
				s.mu.Lock()
				s.live--
				s.mu.Unlock()
				done <- i
				s.notify()
			}()
			f()
		}()
	}
	reg.Wait()
	dvid.SetVerifHook(s.hook)
	close(ready)

	start := time.Now()
	finished := 0
	pos := 0
	lastChange := time.Now()
	lastParked, lastLive := -1, -1
	blockedPolls := 0
	var lastDump time.Time
	tick := opts.Quiescence / 3
	if tick < 500*time.Microsecond {
		tick = 500 * time.Microsecond
	}
	timer := time.NewTimer(tick)
	defer timer.Stop()
	// With background control the controller keeps scheduling after the requests have returned, for as long as
	// background goroutines keep arriving at yield points (grace period without any parked goroutine).
	bgGrace := 6 * time.Millisecond
	bgGather := 1500 * time.Microsecond
	bgDone := !opts.ControlBackground
	for finished < len(reqs) || !bgDone {
		// drain completions
		for {
			select {
			case i := <-done:
				finished++
				s.mu.Lock()
				s.finished[i] = true
				s.mu.Unlock()
				continue
			default:
			}
			break
		}
		if finished >= len(reqs) && bgDone {
			break
		}
		s.mu.Lock()
		nParkedCtl := 0
		parkedIdx := map[int]bool{}
		for _, p := range s.parked {
			if p.idx >= 0 {
				nParkedCtl++
				parkedIdx[p.idx] = true
			}
		}
		if len(s.parked) != lastParked || s.live != lastLive {
			lastParked, lastLive = len(s.parked), s.live
			lastChange = time.Now()
			blockedPolls = 0
		}
		allParked := nParkedCtl == s.live
		if opts.ControlBackground && time.Since(lastChange) < bgGather {
			allParked = false // give other background goroutines a moment to arrive before choosing
		}
		if finished >= len(reqs) && len(s.parked) == 0 && time.Since(lastChange) >= bgGrace && (opts.Idle == nil || opts.Idle()) {
			bgDone = true
		}
		if time.Since(start) > opts.Watchdog {
			bgDone = true
		}
		if !s.disabled && time.Since(start) > opts.Watchdog {
			s.disabled = true
			s.res.TimedOut = true
			s.releaseAll()
		}
		byTimer := false
		if !s.disabled && len(s.parked) > 0 && !allParked && time.Since(lastChange) >= opts.Quiescence {
			// Some request goroutine is neither parked nor finished.  If it waits for a lock (held by a parked
			// goroutine) it will never arrive: release somebody else.  If it is merely slow (disk write) keep waiting,
			// up to the fallback bound.
			if time.Since(lastDump) >= opts.Quiescence {
				lastDump = time.Now()
				var running []int64
				for gid, idx := range s.controlled {
					if !parkedIdx[idx] && !s.finished[idx] {
						running = append(running, gid)
					}
				}
				if allLockBlocked(running) {
					blockedPolls++
				} else {
					blockedPolls = 0
				}
			}
			if blockedPolls >= 2 || time.Since(lastChange) >= opts.Fallback {
				byTimer = true
			}
		}
		if !s.disabled && len(s.parked) > 0 && (allParked || byTimer) {
			c := s.candidates()
			var pick *parkedG
			if pos < len(schedule) {
				e := schedule[pos]
				if e < 0 {
					e = -e
				}
				pick = c[e%len(c)]
				pos++
			} else {
				// schedule exhausted: round-robin over whatever is parked
				pick = c[s.rr%len(c)]
				s.rr++
			}
			s.release(pick, byTimer)
			lastParked = -1 // force a lastChange refresh
			blockedPolls = 0
		}
		s.mu.Unlock()
		if time.Since(start) > opts.Watchdog+60*time.Second {
			s.mu.Lock()
			s.res.Stuck = true
			s.mu.Unlock()
			break
		}
		if !timer.Stop() {
			select {
			case <-timer.C:
			default:
			}
		}
		timer.Reset(tick)
		select {
		case <-s.events:
		case i := <-done:
			finished++
			s.mu.Lock()
			s.finished[i] = true
			s.mu.Unlock()
		case <-timer.C:
		}
	}
	// all requests returned (or stuck): stop parking, release whatever background goroutine is parked, uninstall
	s.mu.Lock()
	s.disabled = true
	s.releaseAll()
	res := s.res
	s.mu.Unlock()
	dvid.SetVerifHook(nil)
	return res
}

// RepoIdle returns a predicate for SchedOpts.Idle: every instance of the repo reports nothing pending.
func RepoIdle(uuid string) func() bool {
	names := InstanceNames(uuid)
	return func() bool { return quiet(dvid.UUID(uuid), names) }
}

// RunFree runs the requests concurrently without any schedule control (plain stress, secondary mode).
func RunFree(reqs []func()) {
	var wg sync.WaitGroup
	start := make(chan struct{})
	for _, f := range reqs {
		f := f
		wg.Add(1)
		go func() {
			defer wg.Done()
			<-start
			f()
		}()
	}
	close(start)
	wg.Wait()
}

// SchedErr converts a timed-out / stuck run into a plain harness error (never a violation).
func (r SchedResult) SchedErr() error {
	if r.Stuck {
		return fmt.Errorf("scheduler: request goroutines did not finish after the watchdog released everything; trace: %s", r.TraceString())
	}
	return nil
}
