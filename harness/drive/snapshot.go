package drive

import (
	"crypto/sha1"
	"encoding/hex"
	"encoding/json"
	"fmt"
	"os"
	"sort"
	"strings"
)

// Doer issues HTTP requests against a server (in-process or child process).
type Doer interface {
	Do(method, url string, body []byte) (Resp, error)
}

// InProc is the in-process Doer.
type InProc struct{}

func (InProc) Do(method, url string, body []byte) (Resp, error) { return Do(method, url, body), nil }

// Snapshot is the observable state of a server: endpoint -> "code:digest" (small bodies are kept verbatim).
type Snapshot map[string]string

// verbose (env VERIF_SNAP_VERBOSE, for analysing a replay) keeps bodies up to 6000 bytes verbatim
var verbose = os.Getenv("VERIF_SNAP_VERBOSE") != ""

func digest(r Resp) string {
	if len(r.Body) <= 200 || (verbose && len(r.Body) <= 6000) {
		return fmt.Sprintf("%d:%q", r.Code, r.Body)
	}
	h := sha1.Sum(r.Body)
	return fmt.Sprintf("%d:sha1=%s len=%d", r.Code, hex.EncodeToString(h[:8]), len(r.Body))
}

// SnapOpts tunes what is read.
type SnapOpts struct {
	// LabelExtent is the voxel box (offset, size) read from labelmap / imageblk instances.
	LabelOff, LabelSize [3]int32
	// SkipInfoKeys are top-level keys of repos/info entries that are allowed to differ (documented: mutation id counters).
	Panics *[]string
}

type repoInfo struct {
	Root          string
	Alias         string
	DataInstances map[string]struct {
		Base struct {
			TypeName string
			DataUUID string
			Syncs    []string
		}
	}
	DAG struct {
		Nodes map[string]struct {
			UUID      string
			VersionID int
			Branch    string
			Locked    bool
		}
	}
}

// normalizeRepoInfo removes the fields documented to differ across restarts (mutation id counters).
func normalizeRepoInfo(raw json.RawMessage) (string, error) {
	var m map[string]json.RawMessage
	if err := json.Unmarshal(raw, &m); err != nil {
		return "", err
	}
	delete(m, "MutationID")
	delete(m, "SavedMutationID")
	keys := make([]string, 0, len(m))
	for k := range m {
		keys = append(keys, k)
	}
	sort.Strings(keys)
	var sb strings.Builder
	for _, k := range keys {
		sb.WriteString(k)
		sb.WriteString("=")
		sb.Write(m[k])
		sb.WriteString("\n")
	}
	return sb.String(), nil
}

func u64json(v []uint64) []byte {
	s := make([]string, len(v))
	for i, x := range v {
		s[i] = fmt.Sprint(x)
	}
	return []byte("[" + strings.Join(s, ",") + "]")
}

// TakeSnapshot reads every observable of the server: repos, DAGs, node notes/logs/status, instances with settings and
// syncs, branch resolution, and every data read endpoint of every instance at every version.
func TakeSnapshot(d Doer, o SnapOpts) (Snapshot, error) {
	s := Snapshot{}
	get := func(key, method, url string, body []byte) (Resp, error) {
		r, err := d.Do(method, url, body)
		if err != nil {
			return r, err
		}
		if r.IsPanic() && o.Panics != nil {
			*o.Panics = append(*o.Panics, method+" "+url+": "+string(r.Body))
		}
		s[key] = digest(r)
		return r, nil
	}
	r, err := d.Do("GET", "repos/info", nil)
	if err != nil {
		return nil, err
	}
	if !r.OK() {
		return nil, fmt.Errorf("repos/info: %s", r)
	}
	var raw map[string]json.RawMessage
	if err := json.Unmarshal(r.Body, &raw); err != nil {
		return nil, fmt.Errorf("repos/info: %v", err)
	}
	roots := make([]string, 0, len(raw))
	for k := range raw {
		roots = append(roots, k)
	}
	sort.Strings(roots)
	s["repos"] = strings.Join(roots, ",")
	for _, root := range roots {
		norm, err := normalizeRepoInfo(raw[root])
		if err != nil {
			return nil, err
		}
		for _, line := range strings.Split(norm, "\n") {
			if i := strings.Index(line, "="); i > 0 {
				v := line[i+1:]
				if len(v) > 300 && !(verbose && len(v) <= 6000) {
					h := sha1.Sum([]byte(v))
					v = fmt.Sprintf("sha1=%s len=%d", hex.EncodeToString(h[:8]), len(v))
				}
				s["repo/"+root+"/info."+line[:i]] = v
			}
		}
		var ri repoInfo
		if err := json.Unmarshal(raw[root], &ri); err != nil {
			return nil, err
		}
		var nodes []string
		branches := map[string]bool{"master": true}
		for u, n := range ri.DAG.Nodes {
			nodes = append(nodes, u)
			if n.Branch != "" {
				branches[n.Branch] = true
			}
		}
		sort.Strings(nodes)
		for b := range branches {
			if strings.ContainsAny(b, "/:~ ") {
				continue
			}
			if _, err := get("repo/"+root+"/branch-versions/"+b, "GET", "repo/"+root+"/branch-versions/"+b, nil); err != nil {
				return nil, err
			}
			if _, err := get("node/"+root+":"+b+"/status", "GET", "node/"+root+":"+b+"/status", nil); err != nil {
				return nil, err
			}
		}
		var insts []string
		for name := range ri.DataInstances {
			insts = append(insts, name)
		}
		sort.Strings(insts)
		for _, u := range nodes {
			for _, ep := range []string{"note", "log", "status"} {
				if _, err := get("node/"+u+"/"+ep, "GET", "node/"+u+"/"+ep, nil); err != nil {
					return nil, err
				}
			}
			for _, name := range insts {
				typ := ri.DataInstances[name].Base.TypeName
				base := "node/" + u + "/" + name + "/"
				g := func(tail string, body []byte) (Resp, error) { return get(base+tail, "GET", base+tail, body) }
				if _, err := g("info", nil); err != nil {
					return nil, err
				}
				switch typ {
				case "keyvalue":
					for _, t := range []string{"keys", "keyrangevalues/0/zzzzzzzz", "keyrangevalues/0/zzzzzzzz?tar=true"} {
						if _, err := g(t, nil); err != nil {
							return nil, err
						}
					}
				case "neuronjson":
					for _, t := range []string{"fields?counts=true", "json_schema", "schema", "schema_batch"} {
						if _, err := g(t, nil); err != nil {
							return nil, err
						}
					}
					// list-valued answers: content compared as a set under the plain key, the order separately under key#order
					for _, t := range []string{"keys", "all?show=all", "keyrange/0/99999999999"} {
						r2, err := d.Do("GET", base+t, nil)
						if err != nil {
							return nil, err
						}
						if r2.IsPanic() && o.Panics != nil {
							*o.Panics = append(*o.Panics, "GET "+base+t+": "+string(r2.Body))
						}
						s[base+t+"#order"] = digest(r2)
						s[base+t] = fmt.Sprintf("%d:%s", r2.Code, canonList(r2.Body))
					}
					{
						// "fields" is a set of names (map iteration order): compare sorted
						r2, err := d.Do("GET", base+"fields", nil)
						if err != nil {
							return nil, err
						}
						var names []string
						json.Unmarshal(r2.Body, &names)
						sort.Strings(names)
						s[base+"fields"] = fmt.Sprintf("%d:%s", r2.Code, strings.Join(names, ","))
					}
					{
						// a query answer is a list too: content as a set, order separately
						r2, err := d.Do("GET", base+"query?show=all", []byte(`{"bodyid":"exists/1"}`))
						if err != nil {
							return nil, err
						}
						if r2.IsPanic() && o.Panics != nil {
							*o.Panics = append(*o.Panics, "GET "+base+"query?show=all: "+string(r2.Body))
						}
						s[base+"query?show=all#order"] = digest(r2)
						s[base+"query?show=all"] = fmt.Sprintf("%d:%s", r2.Code, canonList(r2.Body))
					}
				case "roi":
					if _, err := g("roi", nil); err != nil {
						return nil, err
					}
				case "annotation":
					gc := func(tail string) (Resp, error) { // canonical comparison of element lists
						r2, err := d.Do("GET", base+tail, nil)
						if err != nil {
							return r2, err
						}
						if r2.IsPanic() && o.Panics != nil {
							*o.Panics = append(*o.Panics, "GET "+base+tail+": "+string(r2.Body))
						}
						s[base+tail] = fmt.Sprintf("%d:%s", r2.Code, canonJSON(r2.Body))
						return r2, nil
					}
					rr, err := gc("all-elements")
					if err != nil {
						return nil, err
					}
					tags := map[string]bool{}
					var all map[string][]struct {
						Tags []string
					}
					if json.Unmarshal(rr.Body, &all) == nil {
						for _, es := range all {
							for _, e := range es {
								for _, t := range e.Tags {
									tags[t] = true
								}
							}
						}
					}
					var tl []string
					for t := range tags {
						tl = append(tl, t)
					}
					sort.Strings(tl)
					for _, t := range tl {
						if _, err := gc("tag/" + t + "?relationships=true"); err != nil {
							return nil, err
						}
					}
					for l := 1; l <= 12; l++ {
						if _, err := gc(fmt.Sprintf("label/%d?relationships=true", l)); err != nil {
							return nil, err
						}
					}
					if _, err := gc(fmt.Sprintf("elements/%d_%d_%d/%d_%d_%d", o.LabelSize[0], o.LabelSize[1], o.LabelSize[2], o.LabelOff[0], o.LabelOff[1], o.LabelOff[2])); err != nil {
						return nil, err
					}
				case "labelsz":
					for l := 1; l <= 12; l++ {
						for _, k := range []string{"PostSyn", "PreSyn", "AllSyn"} {
							if _, err := g(fmt.Sprintf("count/%d/%s", l, k), nil); err != nil {
								return nil, err
							}
						}
					}
					for _, k := range []string{"PostSyn", "PreSyn", "AllSyn"} {
						if _, err := g("top/5/"+k, nil); err != nil {
							return nil, err
						}
					}
				case "labelmap":
					box := fmt.Sprintf("%d_%d_%d/%d_%d_%d", o.LabelSize[0], o.LabelSize[1], o.LabelSize[2], o.LabelOff[0], o.LabelOff[1], o.LabelOff[2])
					for _, t := range []string{"raw/0_1_2/" + box + "?supervoxels=true", "raw/0_1_2/" + box, "mappings", "supervoxel-splits", "maxlabel", "nextlabel", "existing-labels", "extents"} {
						if _, err := g(t, nil); err != nil {
							return nil, err
						}
					}
					{
						// the block stream lists blocks in no promised order: compare as a set of (coord, content) records
						t := "blocks/" + box + "?compression=uncompressed"
						r2, err := d.Do("GET", base+t, nil)
						if err != nil {
							return nil, err
						}
						s[base+t] = fmt.Sprintf("%d:%s", r2.Code, sortedBlockStream(r2.Body))
					}
					rr, err := g("listlabels?sizes=true", nil)
					if err != nil {
						return nil, err
					}
					var bodies []uint64
					for i := 0; i+16 <= len(rr.Body); i += 16 {
						var v uint64
						for k := 7; k >= 0; k-- {
							v = v<<8 | uint64(rr.Body[i+k])
						}
						bodies = append(bodies, v)
					}
					if len(bodies) > 40 {
						bodies = bodies[:40]
					}
					for _, b := range bodies {
						for _, t := range []string{"size/%d", "supervoxels/%d", "supervoxel-sizes/%d", "sparsevol/%d?format=srles", "sparsevol-coarse/%d", "sparsevol-size/%d", "index/%d?metadata-only=true", "lastmod/%d"} {
							if strings.HasPrefix(t, "supervoxels/") || strings.HasPrefix(t, "supervoxel-sizes/") {
								// supervoxel lists are sets (order not promised): compare sorted
								r2, err := d.Do("GET", base+fmt.Sprintf(t, b), nil)
								if err != nil {
									return nil, err
								}
								s[base+fmt.Sprintf(t, b)] = fmt.Sprintf("%d:%s", r2.Code, sortedJSONNumbers(r2.Body))
								continue
							}
							if strings.HasSuffix(t, "format=srles") {
								// streaming RLEs arrive in block-fetch order (not promised): compare the set of runs
								r2, err := d.Do("GET", base+fmt.Sprintf(t, b), nil)
								if err != nil {
									return nil, err
								}
								s[base+fmt.Sprintf(t, b)] = fmt.Sprintf("%d:%s", r2.Code, sortedRuns(r2.Body))
								continue
							}
							if _, err := g(fmt.Sprintf(t, b), nil); err != nil {
								return nil, err
							}
						}
					}
					if len(bodies) > 0 {
						if _, err := g("mapping", u64json(bodies)); err != nil {
							return nil, err
						}
						if _, err := g("sizes", u64json(bodies)); err != nil {
							return nil, err
						}
					}
				default:
					if strings.HasSuffix(typ, "blk") {
						box := fmt.Sprintf("%d_%d_%d/%d_%d_%d", o.LabelSize[0], o.LabelSize[1], o.LabelSize[2], o.LabelOff[0], o.LabelOff[1], o.LabelOff[2])
						for _, t := range []string{"raw/0_1_2/" + box, "metadata"} {
							if _, err := g(t, nil); err != nil {
								return nil, err
							}
						}
					}
				}
			}
		}
	}
	return s, nil
}

// canonJSON re-encodes a JSON document with every array of objects sorted by the canonical encoding of its members
// (annotation answers list elements in Go map iteration order, which is not promised).
func canonJSON(b []byte) string {
	var v interface{}
	if err := json.Unmarshal(b, &v); err != nil {
		return string(b)
	}
	var canon func(x interface{}) interface{}
	canon = func(x interface{}) interface{} {
		switch t := x.(type) {
		case map[string]interface{}:
			for k, e := range t {
				t[k] = canon(e)
			}
			return t
		case []interface{}:
			allObj := len(t) > 0
			for i, e := range t {
				t[i] = canon(e)
				if _, ok := t[i].(map[string]interface{}); !ok {
					allObj = false
				}
			}
			if allObj {
				enc := make([]string, len(t))
				for i, e := range t {
					bb, _ := json.Marshal(e)
					enc[i] = string(bb)
				}
				sort.Strings(enc)
				out := make([]interface{}, len(t))
				for i, e := range enc {
					out[i] = json.RawMessage(e)
				}
				return out
			}
			return t
		}
		return x
	}
	out, _ := json.Marshal(canon(v))
	if len(out) > 200 {
		h := sha1.Sum(out)
		return fmt.Sprintf("canon sha1=%s len=%d", hex.EncodeToString(h[:8]), len(out))
	}
	return string(out)
}

// canonList renders a JSON array with its members sorted (by their encoding); other documents unchanged.
func canonList(b []byte) string {
	var arr []json.RawMessage
	if err := json.Unmarshal(b, &arr); err != nil {
		return string(b)
	}
	enc := make([]string, len(arr))
	for i, e := range arr {
		var v interface{}
		json.Unmarshal(e, &v)
		bb, _ := json.Marshal(v)
		enc[i] = string(bb)
	}
	sort.Strings(enc)
	out := "[" + strings.Join(enc, ",") + "]"
	if len(out) > 200 {
		h := sha1.Sum([]byte(out))
		return fmt.Sprintf("set sha1=%s len=%d n=%d", hex.EncodeToString(h[:8]), len(out), len(enc))
	}
	return out
}

// sortedBlockStream digests a blocks stream (coord 3xint32, int32 n, n bytes)* independent of block order.
func sortedBlockStream(b []byte) string {
	var recs []string
	for i := 0; i+16 <= len(b); {
		n := int(int32(uint32(b[i+12]) | uint32(b[i+13])<<8 | uint32(b[i+14])<<16 | uint32(b[i+15])<<24))
		if n < 0 || i+16+n > len(b) {
			recs = append(recs, fmt.Sprintf("malformed@%d", i))
			break
		}
		h := sha1.Sum(b[i+16 : i+16+n])
		recs = append(recs, fmt.Sprintf("%x=%s", b[i:i+12], hex.EncodeToString(h[:6])))
		i += 16 + n
	}
	sort.Strings(recs)
	h := sha1.Sum([]byte(strings.Join(recs, ",")))
	return fmt.Sprintf("blocks=%d sha1=%s", len(recs), hex.EncodeToString(h[:8]))
}

// sortedRuns digests a streaming-RLE sparse volume (16 byte runs: x, y, z, length) independent of run order.
func sortedRuns(b []byte) string {
	if len(b)%16 != 0 || len(b) == 0 {
		return digest(Resp{Code: 0, Body: b})
	}
	n := len(b) / 16
	runs := make([]string, n)
	for i := 0; i < n; i++ {
		runs[i] = string(b[16*i : 16+16*i])
	}
	sort.Strings(runs)
	h := sha1.New()
	for _, r := range runs {
		h.Write([]byte(r))
	}
	return fmt.Sprintf("runs=%d sha1=%s", n, hex.EncodeToString(h.Sum(nil)[:8]))
}

// sortedJSONNumbers renders the numbers found in a JSON document in sorted order (for set-valued answers).
func sortedJSONNumbers(b []byte) string {
	var nums []string
	cur := ""
	for _, ch := range string(b) + " " {
		if ch >= '0' && ch <= '9' {
			cur += string(ch)
		} else if cur != "" {
			nums = append(nums, cur)
			cur = ""
		}
	}
	// supervoxel-sizes pairs ids with sizes positionally; keep pairs together when the document has two lists
	var v struct {
		Supervoxels []uint64 `json:"supervoxels"`
		Sizes       []uint64 `json:"sizes"`
	}
	if json.Unmarshal(b, &v) == nil && len(v.Supervoxels) > 0 && len(v.Supervoxels) == len(v.Sizes) {
		nums = nil
		for i := range v.Supervoxels {
			nums = append(nums, fmt.Sprintf("%020d=%d", v.Supervoxels[i], v.Sizes[i]))
		}
	}
	sort.Strings(nums)
	return strings.Join(nums, ",")
}

// DiffSnapshots lists the keys whose values differ (bounded).
func DiffSnapshots(a, b Snapshot) []string {
	var out []string
	keys := map[string]bool{}
	for k := range a {
		keys[k] = true
	}
	for k := range b {
		keys[k] = true
	}
	var ks []string
	for k := range keys {
		ks = append(ks, k)
	}
	sort.Strings(ks)
	for _, k := range ks {
		if a[k] != b[k] {
			av, bv := a[k], b[k]
			if _, ok := a[k]; !ok {
				av = "<absent>"
			}
			if _, ok := b[k]; !ok {
				bv = "<absent>"
			}
			out = append(out, fmt.Sprintf("%s: %s -> %s", k, av, bv))
		}
	}
	return out
}
