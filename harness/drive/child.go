package drive

import (
	"bufio"
	"encoding/json"
	"fmt"
	"io"
	"os"
	"os/exec"
	"path/filepath"
	"strings"
	"sync"
	"syscall"
	"time"
)

// Child is a verif-child server process working on the stores under Dir.
type Child struct {
	Dir    string
	cmd    *exec.Cmd
	in     io.WriteCloser
	out    *bufio.Reader
	nextID int
	mu     sync.Mutex
	dead   bool
	waited chan struct{}
	exit   error
	stderr string // path
}

// ChildRequest / ChildResponse mirror cmd/verif-child's protocol.
type ChildRequest struct {
	ID     int            `json:"id"`
	Op     string         `json:"op"`
	Method string         `json:"method,omitempty"`
	URL    string         `json:"url,omitempty"`
	Body   []byte         `json:"body,omitempty"`
	Root   string         `json:"root,omitempty"`
	N      int            `json:"n,omitempty"`
	Filter string         `json:"filter,omitempty"`
	Cmd    []string       `json:"cmd,omitempty"`
	Deep   bool           `json:"deep,omitempty"`
	Batch  []ChildRequest `json:"batch,omitempty"`
}

type ChildResponse struct {
	ID     int             `json:"id"`
	Code   int             `json:"code,omitempty"`
	Body   []byte          `json:"body,omitempty"`
	Err    string          `json:"err,omitempty"`
	Text   string          `json:"text,omitempty"`
	Points []string        `json:"points,omitempty"`
	Count  int64           `json:"count,omitempty"`
	IDs    json.RawMessage `json:"ids,omitempty"`
	Batch  []ChildResponse `json:"batch,omitempty"`
}

type startError struct {
	killed bool // the process was killed (SIGKILL) before it became ready
	msg    string
}

func (e *startError) Error() string { return e.msg }

// ErrChildDied is returned when the child process is gone.
var ErrChildDied = fmt.Errorf("child process died")

// WriteChildConfig writes the TOML configuration for a server on dir (idempotent).
func WriteChildConfig(dir string) (string, error) {
	if err := os.MkdirAll(dir, 0755); err != nil {
		return "", err
	}
	cfg := filepath.Join(dir, "config.toml")
	toml := fmt.Sprintf(`[server]
httpAddress = "127.0.0.1:0"
rpcAddress = "127.0.0.1:0"
shutdownDelay = 0
allowLabelmapSplit = true

[logging]
logfile = %q
max_log_size = 100
max_log_age = 30

[mutations]
jsonstore = %q

[backend]
    [backend.default]
    store = "main"
    log = "mutlog"

[store]
    [store.main]
    engine = "badger"
    path = %q
    [store.mutlog]
    engine = "filelog"
    path = %q
`, filepath.Join(dir, "dvid.log"), filepath.Join(dir, "mutations"), filepath.Join(dir, "db"), filepath.Join(dir, "filelog"))
	if b, err := os.ReadFile(cfg); err == nil && string(b) == toml {
		return cfg, nil
	}
	return cfg, os.WriteFile(cfg, []byte(toml), 0644)
}

// ChildBinary is the path of the verif-child binary (built by ./check, passed in the environment).
func ChildBinary() string { return os.Getenv("VERIF_TOOL_VERIF_CHILD") }

// StartChild starts a server process on the stores under dir and waits until it is ready.
func StartChild(dir string) (*Child, error) { return startChild(dir, "") }

// StartChildArmed starts a server that kills itself at the n-th write point (matching filter) of its own start-up.
// died reports that it did so before becoming ready; otherwise the returned child is ready and still armed
// (the count continues; call Disarm).
func StartChildArmed(dir string, n int, filter string) (c *Child, died bool, err error) {
	c, err = startChild(dir, fmt.Sprintf("%d:%s", n, filter))
	if se, ok := err.(*startError); ok && se.killed {
		return nil, true, nil
	}
	return c, false, err
}

func startChild(dir, arm string) (*Child, error) {
	bin := ChildBinary()
	if bin == "" {
		return nil, fmt.Errorf("VERIF_TOOL_VERIF_CHILD not set")
	}
	cfg, err := WriteChildConfig(dir)
	if err != nil {
		return nil, err
	}
	c := &Child{Dir: dir, waited: make(chan struct{}), stderr: filepath.Join(dir, "stderr.log")}
	ef, err := os.OpenFile(c.stderr, os.O_CREATE|os.O_WRONLY|os.O_APPEND, 0644)
	if err != nil {
		return nil, err
	}
	c.cmd = exec.Command(bin, cfg)
	c.cmd.Dir = dir
	c.cmd.Stderr = ef
	c.cmd.Env = append(os.Environ(), "TMPDIR="+dir, "VERIF_CHILD_ARM="+arm)
	c.cmd.SysProcAttr = &syscall.SysProcAttr{Pdeathsig: syscall.SIGKILL}
	if c.in, err = c.cmd.StdinPipe(); err != nil {
		return nil, err
	}
	op, err := c.cmd.StdoutPipe()
	if err != nil {
		return nil, err
	}
	c.out = bufio.NewReaderSize(op, 1<<20)
	if err := c.cmd.Start(); err != nil {
		return nil, err
	}
	ef.Close()
	go func() {
		c.exit = c.cmd.Wait()
		close(c.waited)
	}()
	// wait for "ready"
	r, err := c.read(120 * time.Second)
	if err != nil || r.Text != "ready" {
		killed := false
		select {
		case <-c.waited:
			if ee, ok := c.exit.(*exec.ExitError); ok {
				if ws, ok := ee.Sys().(syscall.WaitStatus); ok && ws.Signaled() && ws.Signal() == syscall.SIGKILL {
					killed = true
				}
			}
		case <-time.After(2 * time.Second):
		}
		c.Kill()
		return nil, &startError{killed: killed, msg: fmt.Sprintf("child did not become ready: %v (stderr: %s)", err, c.StderrTail(1500))}
	}
	return c, nil
}

func (c *Child) read(timeout time.Duration) (*ChildResponse, error) {
	type res struct {
		line []byte
		err  error
	}
	ch := make(chan res, 1)
	go func() {
		line, err := c.out.ReadBytes('\n')
		ch <- res{line, err}
	}()
	select {
	case r := <-ch:
		if len(r.line) == 0 && r.err != nil {
			c.dead = true
			return nil, ErrChildDied
		}
		var resp ChildResponse
		if err := json.Unmarshal(r.line, &resp); err != nil {
			return nil, fmt.Errorf("bad protocol line %q: %v", r.line, err)
		}
		return &resp, nil
	case <-c.waited:
		c.dead = true
		return nil, ErrChildDied
	case <-time.After(timeout):
		// ask the Go runtime of the child for a goroutine dump (SIGQUIT) so a wedge can be analysed, keep a copy
		dump := ""
		if c.cmd != nil && c.cmd.Process != nil {
			c.cmd.Process.Signal(syscall.SIGQUIT)
			select {
			case <-c.waited:
			case <-time.After(5 * time.Second):
			}
			if dir := os.Getenv("VERIF_DIR"); dir != "" {
				if b, err := os.ReadFile(c.stderr); err == nil {
					if len(b) > 400000 {
						b = b[len(b)-400000:]
					}
					os.MkdirAll(filepath.Join(dir, "replays", "found"), 0755)
					dump = filepath.Join(dir, "replays", "found", fmt.Sprintf("wedge-goroutines-%d.txt", time.Now().UnixNano()))
					os.WriteFile(dump, b, 0644)
				}
			}
		}
		c.dead = true
		return nil, fmt.Errorf("child did not answer within %v (goroutine dump: %s)", timeout, dump)
	}
}

// Call sends one protocol request and returns the response (ErrChildDied if the process went away).
func (c *Child) Call(rq ChildRequest, timeout time.Duration) (*ChildResponse, error) {
	c.mu.Lock()
	defer c.mu.Unlock()
	if c.dead {
		return nil, ErrChildDied
	}
	c.nextID++
	rq.ID = c.nextID
	b, _ := json.Marshal(rq)
	if _, err := c.in.Write(append(b, '\n')); err != nil {
		c.dead = true
		return nil, ErrChildDied
	}
	return c.read(timeout)
}

// Do issues one HTTP request inside the child.
func (c *Child) Do(method, url string, body []byte) (Resp, error) {
	if !strings.HasPrefix(url, "/") {
		url = "/api/" + url
	}
	r, err := c.Call(ChildRequest{Op: "http", Method: method, URL: url, Body: body}, 180*time.Second)
	if err != nil {
		return Resp{Code: -2}, err
	}
	return Resp{Code: r.Code, Body: r.Body}, nil
}

// DoBatch issues several HTTP requests concurrently inside the child.
func (c *Child) DoBatch(reqs []ChildRequest) ([]Resp, error) {
	for i := range reqs {
		reqs[i].ID = i
		if !strings.HasPrefix(reqs[i].URL, "/") {
			reqs[i].URL = "/api/" + reqs[i].URL
		}
	}
	r, err := c.Call(ChildRequest{Op: "batch", Batch: reqs}, 180*time.Second)
	if err != nil {
		return nil, err
	}
	out := make([]Resp, len(r.Batch))
	for i, b := range r.Batch {
		out[i] = Resp{Code: b.Code, Body: b.Body}
	}
	return out, nil
}

func (c *Child) Settle(deep bool) error {
	_, err := c.Call(ChildRequest{Op: "settle", Deep: deep}, 300*time.Second)
	return err
}

// Arm makes the child kill itself at the n-th write point whose label contains filter.
func (c *Child) Arm(n int, filter string) error {
	_, err := c.Call(ChildRequest{Op: "arm", N: n, Filter: filter}, 10*time.Second)
	return err
}

// Disarm returns the number of matching points seen since Arm.
func (c *Child) Disarm() (int64, error) {
	r, err := c.Call(ChildRequest{Op: "disarm"}, 10*time.Second)
	if err != nil {
		return 0, err
	}
	return r.Count, nil
}

// LogPoints starts recording write-point labels; StopPoints returns them.
func (c *Child) LogPoints(filter string) error {
	_, err := c.Call(ChildRequest{Op: "points", N: 1, Filter: filter}, 10*time.Second)
	return err
}

func (c *Child) StopPoints() ([]string, error) {
	r, err := c.Call(ChildRequest{Op: "points", N: 0}, 10*time.Second)
	if err != nil {
		return nil, err
	}
	return r.Points, nil
}

func (c *Child) RPC(cmd ...string) (string, error) {
	r, err := c.Call(ChildRequest{Op: "rpc", Cmd: cmd}, 120*time.Second)
	if err != nil {
		return "", err
	}
	if r.Err != "" {
		return r.Text, fmt.Errorf("%s", r.Err)
	}
	return r.Text, nil
}

func (c *Child) IDs() (json.RawMessage, error) {
	r, err := c.Call(ChildRequest{Op: "ids"}, 10*time.Second)
	if err != nil {
		return nil, err
	}
	return r.IDs, nil
}

// Shutdown stops the server through server.Shutdown() and waits for the process to exit.
func (c *Child) Shutdown() error {
	r, err := c.Call(ChildRequest{Op: "shutdown"}, 120*time.Second)
	if err != nil && err != ErrChildDied {
		c.Kill()
		return err
	}
	if r != nil && r.Err != "" {
		c.Kill()
		return fmt.Errorf("shutdown: %s", r.Err)
	}
	select {
	case <-c.waited:
	case <-time.After(30 * time.Second):
		c.Kill()
		return fmt.Errorf("child did not exit after shutdown")
	}
	c.dead = true
	return nil
}

// Kill terminates the process abruptly (SIGKILL) and waits for it.
func (c *Child) Kill() {
	if c.cmd != nil && c.cmd.Process != nil {
		c.cmd.Process.Signal(syscall.SIGKILL)
	}
	select {
	case <-c.waited:
	case <-time.After(20 * time.Second):
	}
	c.dead = true
}

// Alive reports whether the process still runs.
func (c *Child) Alive() bool {
	select {
	case <-c.waited:
		return false
	default:
		return !c.dead
	}
}

// StderrTail returns the end of the child's stderr (panic reports land here).
func (c *Child) StderrTail(n int) string {
	b, err := os.ReadFile(c.stderr)
	if err != nil {
		return ""
	}
	if len(b) > n {
		b = b[len(b)-n:]
	}
	return string(b)
}

// StderrHasPanic reports whether the child's stderr holds a Go panic / fatal error report.
func (c *Child) StderrHasPanic() bool {
	b, err := os.ReadFile(c.stderr)
	if err != nil {
		return false
	}
	s := string(b)
	return strings.Contains(s, "\npanic: ") || strings.HasPrefix(s, "panic: ") || strings.Contains(s, "fatal error: ")
}
