// Package drive contains the in-process driver: one Badger+filelog test
// datastore per test process, a fresh repo per generated case, requests through
// the full HTTP middleware stack (server.ServeSingleHTTP).
package drive

import (
	"bytes"
	"encoding/json"
	"fmt"
	"io"
	"log"
	"net/http"
	"net/http/httptest"
	"os"
	"strings"
	"sync"
	"sync/atomic"
	"time"

	"github.com/janelia-flyem/dvid/datastore"
	"github.com/janelia-flyem/dvid/dvid"
	"github.com/janelia-flyem/dvid/server"

	// compiled-in data types and engines, as cmd/dvid does
	_ "github.com/janelia-flyem/dvid/datatype/annotation"
	_ "github.com/janelia-flyem/dvid/datatype/imageblk"
	_ "github.com/janelia-flyem/dvid/datatype/keyvalue"
	_ "github.com/janelia-flyem/dvid/datatype/labelmap"
	_ "github.com/janelia-flyem/dvid/datatype/labelsz"
	_ "github.com/janelia-flyem/dvid/datatype/neuronjson"
	_ "github.com/janelia-flyem/dvid/datatype/roi"
)

var opened bool

// Open opens the test datastore (Badger + filelog under $TMPDIR).  Call once from TestMain.
func Open() {
	if opened {
		return
	}
	dvid.SetLogMode(dvid.SilentMode)
	if os.Getenv("VERIF_SERVER_LOG") == "" {
		log.SetOutput(io.Discard) // goji's request logger and dvid's logger both write through the std logger
	}
	if err := server.OpenTest(); err != nil {
		panic(err)
	}
	opened = true
}

// Close deletes the test datastore.
func Close() {
	if opened {
		server.CloseTest()
		opened = false
	}
}

// PanicResponses counts responses produced by server.recoverHandler ("Panic detected").
var PanicResponses int64
var lastPanic atomic.Value

// LastPanic returns the body of the most recent recovered-panic response.
func LastPanic() string {
	if v := lastPanic.Load(); v != nil {
		return v.(string)
	}
	return ""
}

// Resp is an HTTP response.
type Resp struct {
	Code int
	Body []byte
	Hdr  http.Header
}

func (r Resp) OK() bool { return r.Code >= 200 && r.Code < 300 }

func (r Resp) String() string {
	b := r.Body
	if len(b) > 300 {
		b = b[:300]
	}
	return fmt.Sprintf("%d %q", r.Code, b)
}

// IsPanic reports whether the response came from the panic recovery middleware.
func (r Resp) IsPanic() bool {
	return r.Code == 500 && bytes.Contains(r.Body, []byte("Panic detected"))
}

// Do issues one request through the full middleware stack.
func Do(method, url string, body []byte) Resp {
	// a real net/http server always hands handlers a non-nil Body, so never pass nil here
	var rd io.Reader = bytes.NewReader(body)
	if !strings.HasPrefix(url, "/") {
		url = "/api/" + url
	}
	req, err := http.NewRequest(method, url, rd)
	if err != nil {
		return Resp{Code: -1, Body: []byte(err.Error())}
	}
	w := httptest.NewRecorder()
	server.ServeSingleHTTP(w, req)
	r := Resp{Code: w.Code, Body: w.Body.Bytes(), Hdr: w.Header()}
	if r.IsPanic() {
		atomic.AddInt64(&PanicResponses, 1)
		lastPanic.Store(method + " " + url + " -> " + string(r.Body))
	}
	return r
}

// Get / Post / Delete are conveniences.
func Get(url string) Resp               { return Do("GET", url, nil) }
func Post(url string, body []byte) Resp { return Do("POST", url, body) }
func Delete(url string) Resp            { return Do("DELETE", url, nil) }

var repoMu sync.Mutex
var repoCount int

// NewRepo creates a fresh repo through the HTTP API and returns its root UUID.
func NewRepo() (string, error) {
	repoMu.Lock()
	repoCount++
	n := repoCount
	repoMu.Unlock()
	r := Post("repos", []byte(fmt.Sprintf(`{"alias":"case%d","description":"generated case"}`, n)))
	if !r.OK() {
		return "", fmt.Errorf("new repo: %s", r)
	}
	var out struct{ Root string }
	if err := json.Unmarshal(r.Body, &out); err != nil {
		return "", err
	}
	return out.Root, nil
}

// NewInstance creates a data instance via POST repo/<uuid>/instance.
func NewInstance(uuid, typename, name string, extra map[string]string) error {
	m := map[string]string{"typename": typename, "dataname": name}
	for k, v := range extra {
		m[k] = v
	}
	b, _ := json.Marshal(m)
	r := Post("repo/"+uuid+"/instance", b)
	if !r.OK() {
		return fmt.Errorf("new instance %s/%s: %s", typename, name, r)
	}
	return nil
}

// Commit, NewVersion, Branch, Merge through HTTP.
func Commit(uuid string) error {
	r := Post("node/"+uuid+"/commit", []byte(`{"note":"c"}`))
	if !r.OK() {
		return fmt.Errorf("commit %s: %s", uuid, r)
	}
	return nil
}

func childOf(r Resp) (string, error) {
	if !r.OK() {
		return "", fmt.Errorf("%s", r)
	}
	var out struct{ Child string }
	if err := json.Unmarshal(r.Body, &out); err != nil {
		return "", err
	}
	return out.Child, nil
}

func NewVersion(parent string) (string, error) {
	return childOf(Post("node/"+parent+"/newversion", []byte(`{"note":"nv"}`)))
}

func Branch(parent, name string) (string, error) {
	return childOf(Post("node/"+parent+"/branch", []byte(fmt.Sprintf(`{"branch":%q,"note":"br"}`, name))))
}

func Merge(root string, parents []string) (string, error) {
	b, _ := json.Marshal(map[string]interface{}{"mergeType": "conflict-free", "parents": parents, "note": "m"})
	return childOf(Post("repo/"+root+"/merge", b))
}

type updating interface{ Updating() bool }

// InstanceNames lists the data instances of the repo containing uuid (from the repo info JSON).
func InstanceNames(uuid string) []dvid.InstanceName {
	js, err := datastore.GetRepoJSON(dvid.UUID(uuid))
	if err != nil {
		return nil
	}
	var info struct {
		DataInstances map[string]json.RawMessage
	}
	if err := json.Unmarshal([]byte(js), &info); err != nil {
		return nil
	}
	var out []dvid.InstanceName
	for n := range info.DataInstances {
		out = append(out, dvid.InstanceName(n))
	}
	return out
}

// quiet reports whether every instance of the repo is idle by the repository's own predicates.
func quiet(uuid dvid.UUID, names []dvid.InstanceName) bool {
	for _, n := range names {
		d, err := datastore.GetDataByUUIDName(uuid, n)
		if err != nil {
			continue
		}
		if s, ok := d.(datastore.Syncer); ok && s.SyncPending() {
			return false
		}
		if u, ok := d.(updating); ok && u.Updating() {
			return false
		}
	}
	return true
}

// Settle waits (fast policy) until every instance of the repo is idle on 3 consecutive polls.
func Settle(uuid string) {
	u := dvid.UUID(uuid)
	names := InstanceNames(uuid)
	okCount := 0
	deadline := time.Now().Add(60 * time.Second)
	for okCount < 3 && time.Now().Before(deadline) {
		if quiet(u, names) {
			okCount++
		} else {
			okCount = 0
		}
		time.Sleep(500 * time.Microsecond)
	}
}

// DeepSettle: BlockOnUpdating for every instance, then 250ms of continuous quiet.  Only used to give
// the server more time before a mismatch is believed.
func DeepSettle(uuid string) {
	u := dvid.UUID(uuid)
	names := InstanceNames(uuid)
	for _, name := range names {
		_ = datastore.BlockOnUpdating(u, name)
	}
	start := time.Now()
	deadline := time.Now().Add(120 * time.Second)
	for time.Since(start) < 250*time.Millisecond && time.Now().Before(deadline) {
		if !quiet(u, names) {
			start = time.Now()
		}
		time.Sleep(2 * time.Millisecond)
	}
}

// WithDeepRetry evaluates an oracle; on a mismatch it deep-settles and evaluates once more.  Only a
// mismatch that survives is returned.
func WithDeepRetry(uuid string, oracle func() error) error {
	Settle(uuid)
	err := oracle()
	if err == nil {
		return nil
	}
	DeepSettle(uuid)
	return oracle()
}
