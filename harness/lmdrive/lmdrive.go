// Package lmdrive wraps the labelmap HTTP API for the model-based machines (C08, C12, C13, C14).
package lmdrive

import (
	"bytes"
	"compress/gzip"
	"encoding/binary"
	"encoding/json"
	"fmt"
	"sort"
	"strconv"
	"strings"

	"github.com/janelia-flyem/dvid/datatype/common/labels"
	"github.com/janelia-flyem/dvid/datatype/common/proto"
	"github.com/janelia-flyem/dvid/dvid"
	pb "google.golang.org/protobuf/proto"

	"verif/drive"
	"verif/model"
)

// LM addresses one labelmap instance.
type LM struct {
	Name string
	G    model.LabelGeom
}

func (l LM) url(uuid, rest string) string { return "node/" + uuid + "/" + l.Name + "/" + rest }

func u64bytes(v []uint64) []byte {
	b := make([]byte, 8*len(v))
	for i, x := range v {
		binary.LittleEndian.PutUint64(b[8*i:], x)
	}
	return b
}

func bytesU64(b []byte) []uint64 {
	v := make([]uint64, len(b)/8)
	for i := range v {
		v[i] = binary.LittleEndian.Uint64(b[8*i:])
	}
	return v
}

func p3(a [3]int32) string { return fmt.Sprintf("%d_%d_%d", a[0], a[1], a[2]) }

// PostRaw posts a block-aligned box of supervoxels (absolute voxel coords).
func (l LM) PostRaw(uuid string, off, size [3]int32, vox []uint64, mutate bool) drive.Resp {
	q := ""
	if mutate {
		q = "?mutate=true"
	}
	return drive.Post(l.url(uuid, "raw/0_1_2/"+p3(size)+"/"+p3(off)+q), u64bytes(vox))
}

// PostBlocks posts blocks through POST blocks (native compressed format, gzip).  blocks: block coord -> voxels of one block.
func (l LM) PostBlocks(uuid string, coords [][3]int32, data [][]uint64, query string) (drive.Resp, error) {
	var buf bytes.Buffer
	bs := dvid.Point3d{l.G.B, l.G.B, l.G.B}
	for i, c := range coords {
		blk, err := labels.MakeBlock(u64bytes(data[i]), bs)
		if err != nil {
			return drive.Resp{}, err
		}
		ser, err := blk.MarshalBinary()
		if err != nil {
			return drive.Resp{}, err
		}
		var gz bytes.Buffer
		zw := gzip.NewWriter(&gz)
		zw.Write(ser)
		zw.Close()
		binary.Write(&buf, binary.LittleEndian, c[0])
		binary.Write(&buf, binary.LittleEndian, c[1])
		binary.Write(&buf, binary.LittleEndian, c[2])
		binary.Write(&buf, binary.LittleEndian, int32(gz.Len()))
		buf.Write(gz.Bytes())
	}
	return drive.Post(l.url(uuid, "blocks"+query), buf.Bytes()), nil
}

// GetRaw reads the whole model extent (or any box) at a scale.
func (l LM) GetRaw(uuid string, off, size [3]int32, supervoxels bool, scale int) ([]uint64, drive.Resp) {
	q := []string{}
	if supervoxels {
		q = append(q, "supervoxels=true")
	}
	if scale > 0 {
		q = append(q, "scale="+strconv.Itoa(scale))
	}
	qs := ""
	if len(q) > 0 {
		qs = "?" + strings.Join(q, "&")
	}
	r := drive.Get(l.url(uuid, "raw/0_1_2/"+p3(size)+"/"+p3(off)+qs))
	if !r.OK() {
		return nil, r
	}
	return bytesU64(r.Body), r
}

// GetBlocks reads blocks (compression=uncompressed) and returns block coord -> voxels.
func (l LM) GetBlocks(uuid string, off, size [3]int32, supervoxels bool, scale int) (map[[3]int32][]uint64, drive.Resp, error) {
	q := "?compression=uncompressed"
	if supervoxels {
		q += "&supervoxels=true"
	}
	if scale > 0 {
		q += "&scale=" + strconv.Itoa(scale)
	}
	r := drive.Get(l.url(uuid, "blocks/"+p3(size)+"/"+p3(off)+q))
	if !r.OK() {
		return nil, r, nil
	}
	out := map[[3]int32][]uint64{}
	b := r.Body
	for len(b) > 0 {
		if len(b) < 16 {
			return out, r, fmt.Errorf("truncated block header (%d bytes left)", len(b))
		}
		x := int32(binary.LittleEndian.Uint32(b[0:]))
		y := int32(binary.LittleEndian.Uint32(b[4:]))
		z := int32(binary.LittleEndian.Uint32(b[8:]))
		n := int(int32(binary.LittleEndian.Uint32(b[12:])))
		b = b[16:]
		if n < 0 || n > len(b) {
			return out, r, fmt.Errorf("block (%d,%d,%d) claims %d bytes, %d left", x, y, z, n, len(b))
		}
		if _, dup := out[[3]int32{x, y, z}]; dup {
			return out, r, fmt.Errorf("block (%d,%d,%d) sent twice", x, y, z)
		}
		out[[3]int32{x, y, z}] = bytesU64(b[:n])
		b = b[n:]
	}
	return out, r, nil
}

func getJSON(r drive.Resp, v interface{}) error {
	if !r.OK() {
		return fmt.Errorf("%s", r)
	}
	return json.Unmarshal(r.Body, v)
}

func u64list(v []uint64) []byte {
	s := make([]string, len(v))
	for i, x := range v {
		s[i] = strconv.FormatUint(x, 10)
	}
	return []byte("[" + strings.Join(s, ",") + "]")
}

// Mapping returns the body of each supervoxel.
func (l LM) Mapping(uuid string, svs []uint64) ([]uint64, drive.Resp) {
	r := drive.Do("GET", l.url(uuid, "mapping"), u64list(svs))
	var out []uint64
	if err := getJSON(r, &out); err != nil {
		return nil, r
	}
	return out, r
}

// Size returns (voxels, exists).
func (l LM) Size(uuid string, label uint64, supervoxels bool) (uint64, bool, drive.Resp) {
	q := ""
	if supervoxels {
		q = "?supervoxels=true"
	}
	r := drive.Get(l.url(uuid, fmt.Sprintf("size/%d%s", label, q)))
	if r.Code == 404 {
		return 0, false, r
	}
	var v struct{ Voxels uint64 }
	if err := getJSON(r, &v); err != nil {
		return 0, false, r
	}
	return v.Voxels, true, r
}

func (l LM) Sizes(uuid string, lbls []uint64, supervoxels bool) ([]uint64, drive.Resp) {
	q := ""
	if supervoxels {
		q = "?supervoxels=true"
	}
	r := drive.Do("GET", l.url(uuid, "sizes"+q), u64list(lbls))
	var out []uint64
	if err := getJSON(r, &out); err != nil {
		return nil, r
	}
	return out, r
}

func (l LM) Supervoxels(uuid string, body uint64) ([]uint64, bool, drive.Resp) {
	r := drive.Get(l.url(uuid, fmt.Sprintf("supervoxels/%d", body)))
	if r.Code == 404 {
		return nil, false, r
	}
	var out []uint64
	if err := getJSON(r, &out); err != nil {
		return nil, false, r
	}
	sort.Slice(out, func(i, j int) bool { return out[i] < out[j] })
	return out, true, r
}

func (l LM) SupervoxelSizes(uuid string, body uint64) (map[uint64]uint64, bool, drive.Resp) {
	r := drive.Get(l.url(uuid, fmt.Sprintf("supervoxel-sizes/%d", body)))
	if r.Code == 404 {
		return nil, false, r
	}
	var v struct {
		Supervoxels []uint64 `json:"supervoxels"`
		Sizes       []uint64 `json:"sizes"`
	}
	if err := getJSON(r, &v); err != nil || len(v.Supervoxels) != len(v.Sizes) {
		return nil, false, r
	}
	out := map[uint64]uint64{}
	for i, s := range v.Supervoxels {
		out[s] += v.Sizes[i]
	}
	return out, true, r
}

// SparsevolSize is the JSON of sparsevol-size.
type SparsevolSize struct {
	Voxels    uint64   `json:"voxels"`
	NumBlocks uint64   `json:"numblocks"`
	MinVoxel  [3]int32 `json:"minvoxel"`
	MaxVoxel  [3]int32 `json:"maxvoxel"`
}

func (l LM) SparsevolSize(uuid string, label uint64, supervoxels bool) (SparsevolSize, bool, drive.Resp) {
	q := ""
	if supervoxels {
		q = "?supervoxels=true"
	}
	r := drive.Get(l.url(uuid, fmt.Sprintf("sparsevol-size/%d%s", label, q)))
	var v SparsevolSize
	if r.Code == 404 {
		return v, false, r
	}
	if err := getJSON(r, &v); err != nil {
		return v, false, r
	}
	return v, true, r
}

// Run is an x-run of voxels (or of blocks for the coarse volume).
type Run struct{ X, Y, Z, N int32 }

func parseRuns(b []byte, header bool) ([]Run, error) {
	if header {
		if len(b) < 12 {
			return nil, fmt.Errorf("short rle header (%d bytes)", len(b))
		}
		if b[0] != 0 || b[1] != 3 || b[2] != 0 {
			return nil, fmt.Errorf("unexpected rle header % x", b[:4])
		}
		n := binary.LittleEndian.Uint32(b[8:12])
		b = b[12:]
		if int(n)*16 != len(b) {
			return nil, fmt.Errorf("header says %d spans, payload has %d bytes", n, len(b))
		}
	}
	if len(b)%16 != 0 {
		return nil, fmt.Errorf("rle payload %d bytes not a multiple of 16", len(b))
	}
	var out []Run
	for i := 0; i+16 <= len(b); i += 16 {
		out = append(out, Run{int32(binary.LittleEndian.Uint32(b[i:])), int32(binary.LittleEndian.Uint32(b[i+4:])), int32(binary.LittleEndian.Uint32(b[i+8:])), int32(binary.LittleEndian.Uint32(b[i+12:]))})
	}
	return out, nil
}

// Sparsevol fetches the voxel runs of a label in "rles" or "srles" format.
func (l LM) Sparsevol(uuid string, label uint64, format string, supervoxels bool, extra string) ([]Run, bool, drive.Resp, error) {
	q := "?format=" + format
	if supervoxels {
		q += "&supervoxels=true"
	}
	q += extra
	r := drive.Get(l.url(uuid, fmt.Sprintf("sparsevol/%d%s", label, q)))
	if r.Code == 404 {
		return nil, false, r, nil
	}
	if !r.OK() {
		return nil, false, r, fmt.Errorf("%s", r)
	}
	runs, err := parseRuns(r.Body, format == "rles")
	return runs, true, r, err
}

// SparsevolBlocks fetches the "blocks" (streaming binary blocks) format and returns the set of foreground voxels.
func (l LM) SparsevolBlocks(uuid string, label uint64, supervoxels bool) (map[[3]int32]bool, bool, drive.Resp, error) {
	q := "?format=blocks"
	if supervoxels {
		q += "&supervoxels=true"
	}
	r := drive.Get(l.url(uuid, fmt.Sprintf("sparsevol/%d%s", label, q)))
	if r.Code == 404 {
		return nil, false, r, nil
	}
	if !r.OK() {
		return nil, false, r, fmt.Errorf("%s", r)
	}
	b := r.Body
	if len(b) < 20 {
		return nil, true, r, fmt.Errorf("short binary blocks header (%d bytes)", len(b))
	}
	gx, gy, gz := int32(binary.LittleEndian.Uint32(b[0:])), int32(binary.LittleEndian.Uint32(b[4:])), int32(binary.LittleEndian.Uint32(b[8:]))
	fg := binary.LittleEndian.Uint64(b[12:])
	if fg != label {
		return nil, true, r, fmt.Errorf("foreground label %d, asked %d", fg, label)
	}
	if gx*8 != l.G.B || gy*8 != l.G.B || gz*8 != l.G.B {
		return nil, true, r, fmt.Errorf("sub-block grid %d,%d,%d does not match block size %d", gx, gy, gz, l.G.B)
	}
	b = b[20:]
	out := map[[3]int32]bool{}
	for len(b) > 0 {
		if len(b) < 13 {
			return out, true, r, fmt.Errorf("truncated block record")
		}
		ox, oy, oz := int32(binary.LittleEndian.Uint32(b[0:])), int32(binary.LittleEndian.Uint32(b[4:])), int32(binary.LittleEndian.Uint32(b[8:]))
		flag := b[12]
		b = b[13:]
		fill := func(x0, y0, z0, n int32) {
			for z := z0; z < z0+n; z++ {
				for y := y0; y < y0+n; y++ {
					for x := x0; x < x0+n; x++ {
						out[[3]int32{x, y, z}] = true
					}
				}
			}
		}
		switch flag {
		case 0:
		case 1:
			fill(ox, oy, oz, l.G.B)
		case 2:
			for sz := int32(0); sz < gz; sz++ {
				for sy := int32(0); sy < gy; sy++ {
					for sx := int32(0); sx < gx; sx++ {
						if len(b) < 1 {
							return out, true, r, fmt.Errorf("truncated sub-block flag")
						}
						sf := b[0]
						b = b[1:]
						switch sf {
						case 0:
						case 1:
							fill(ox+sx*8, oy+sy*8, oz+sz*8, 8)
						case 2:
							if len(b) < 64 {
								return out, true, r, fmt.Errorf("truncated sub-block mask")
							}
							for i := 0; i < 512; i++ {
								if b[i>>3]&(1<<uint(i&7)) != 0 {
									x, y, z := int32(i&7), int32((i>>3)&7), int32(i>>6)
									out[[3]int32{ox + sx*8 + x, oy + sy*8 + y, oz + sz*8 + z}] = true
								}
							}
							b = b[64:]
						default:
							return out, true, r, fmt.Errorf("bad sub-block flag %d", sf)
						}
					}
				}
			}
		default:
			return out, true, r, fmt.Errorf("bad block flag %d", flag)
		}
	}
	return out, true, r, nil
}

// SparsevolCoarse returns block runs.
func (l LM) SparsevolCoarse(uuid string, label uint64, supervoxels bool) ([]Run, bool, drive.Resp, error) {
	q := ""
	if supervoxels {
		q = "?supervoxels=true"
	}
	r := drive.Get(l.url(uuid, fmt.Sprintf("sparsevol-coarse/%d%s", label, q)))
	if r.Code == 404 {
		return nil, false, r, nil
	}
	if !r.OK() {
		return nil, false, r, fmt.Errorf("%s", r)
	}
	runs, err := parseRuns(r.Body, true)
	return runs, true, r, err
}

// Index returns block -> sv -> count.
func (l LM) Index(uuid string, body uint64) (map[[3]int32]map[uint64]uint32, bool, drive.Resp, error) {
	r := drive.Get(l.url(uuid, fmt.Sprintf("index/%d", body)))
	if r.Code == 404 {
		return nil, false, r, nil
	}
	if !r.OK() {
		return nil, false, r, fmt.Errorf("%s", r)
	}
	var idx proto.LabelIndex
	if err := pb.Unmarshal(r.Body, &idx); err != nil {
		return nil, true, r, err
	}
	out := map[[3]int32]map[uint64]uint32{}
	for key, svc := range idx.Blocks {
		x, y, z := labels.DecodeBlockIndex(key)
		m := map[uint64]uint32{}
		for sv, c := range svc.Counts {
			if c != 0 {
				m[sv] = c
			}
		}
		if len(m) > 0 {
			out[[3]int32{x, y, z}] = m
		}
	}
	if idx.Label != body && len(out) > 0 {
		return out, true, r, fmt.Errorf("index for %d carries label %d", body, idx.Label)
	}
	return out, len(out) > 0, r, nil
}

func (l LM) Label(uuid string, pt [3]int32, supervoxels bool) (uint64, drive.Resp) {
	q := ""
	if supervoxels {
		q = "?supervoxels=true"
	}
	r := drive.Get(l.url(uuid, "label/"+p3(pt)+q))
	var v struct{ Label uint64 }
	if err := getJSON(r, &v); err != nil {
		return 0, r
	}
	return v.Label, r
}

func (l LM) Labels(uuid string, pts [][3]int32, supervoxels bool) ([]uint64, drive.Resp) {
	q := ""
	if supervoxels {
		q = "?supervoxels=true"
	}
	b, _ := json.Marshal(pts)
	r := drive.Do("GET", l.url(uuid, "labels"+q), b)
	var out []uint64
	if err := getJSON(r, &out); err != nil {
		return nil, r
	}
	return out, r
}

// ListLabels returns label -> size (listlabels?sizes=true), and the order of labels received.
func (l LM) ListLabels(uuid string) (map[uint64]uint64, []uint64, drive.Resp) {
	r := drive.Get(l.url(uuid, "listlabels?sizes=true"))
	if !r.OK() {
		return nil, nil, r
	}
	v := bytesU64(r.Body)
	out := map[uint64]uint64{}
	var order []uint64
	for i := 0; i+1 < len(v); i += 2 {
		out[v[i]] = v[i+1]
		order = append(order, v[i])
	}
	return out, order, r
}

func (l LM) ExistingLabels(uuid string) ([]uint64, drive.Resp) {
	r := drive.Get(l.url(uuid, "existing-labels"))
	var out []uint64
	if err := getJSON(r, &out); err != nil {
		return nil, r
	}
	sort.Slice(out, func(i, j int) bool { return out[i] < out[j] })
	return out, r
}

func (l LM) MaxLabel(uuid string) (uint64, drive.Resp) {
	r := drive.Get(l.url(uuid, "maxlabel"))
	var v struct {
		MaxLabel uint64 `json:"maxlabel"`
	}
	if err := getJSON(r, &v); err != nil {
		return 0, r
	}
	return v.MaxLabel, r
}

func (l LM) NextLabel(uuid string) (uint64, drive.Resp) {
	r := drive.Get(l.url(uuid, "nextlabel"))
	var v struct {
		NextLabel uint64 `json:"nextlabel"`
	}
	if err := getJSON(r, &v); err != nil {
		return 0, r
	}
	return v.NextLabel, r
}

// ---- mutations

type MutResp struct {
	MutationID       uint64
	CleavedLabel     uint64
	SplitSupervoxel  uint64
	RemainSupervoxel uint64
	Label            uint64 `json:"label"`
}

func (l LM) Merge(uuid string, target uint64, merged []uint64) (MutResp, drive.Resp) {
	r := drive.Post(l.url(uuid, "merge"), u64list(append([]uint64{target}, merged...)))
	var m MutResp
	getJSON(r, &m)
	return m, r
}

func (l LM) Cleave(uuid string, body uint64, svs []uint64) (MutResp, drive.Resp) {
	r := drive.Post(l.url(uuid, fmt.Sprintf("cleave/%d", body)), u64list(svs))
	var m MutResp
	getJSON(r, &m)
	return m, r
}

func (l LM) Renumber(uuid string, nw, old uint64) drive.Resp {
	return drive.Post(l.url(uuid, "renumber"), u64list([]uint64{nw, old}))
}

// EncodeRuns builds the binary sparse volume body of split requests.
func EncodeRuns(runs []Run) []byte {
	b := make([]byte, 12, 12+16*len(runs))
	b[1] = 3
	binary.LittleEndian.PutUint32(b[8:], uint32(len(runs)))
	for _, r := range runs {
		var t [16]byte
		binary.LittleEndian.PutUint32(t[0:], uint32(r.X))
		binary.LittleEndian.PutUint32(t[4:], uint32(r.Y))
		binary.LittleEndian.PutUint32(t[8:], uint32(r.Z))
		binary.LittleEndian.PutUint32(t[12:], uint32(r.N))
		b = append(b, t[:]...)
	}
	return b
}

func (l LM) SplitSupervoxel(uuid string, sv uint64, runs []Run, query string) (MutResp, drive.Resp) {
	r := drive.Post(l.url(uuid, fmt.Sprintf("split-supervoxel/%d%s", sv, query)), EncodeRuns(runs))
	var m MutResp
	getJSON(r, &m)
	return m, r
}

func (l LM) Split(uuid string, body uint64, runs []Run) (MutResp, drive.Resp) {
	r := drive.Post(l.url(uuid, fmt.Sprintf("split/%d", body)), EncodeRuns(runs))
	var m MutResp
	getJSON(r, &m)
	return m, r
}

// RunsOf converts a set of voxel indices of the model extent into x-runs.
func RunsOf(g model.LabelGeom, in map[int]bool) []Run {
	idx := make([]int, 0, len(in))
	for i := range in {
		idx = append(idx, i)
	}
	sort.Ints(idx)
	var out []Run
	sx := int(g.Size()[0])
	for k := 0; k < len(idx); {
		j := k
		for j+1 < len(idx) && idx[j+1] == idx[j]+1 && idx[j+1]/sx == idx[k]/sx {
			j++
		}
		x, y, z := g.Coord(idx[k])
		out = append(out, Run{x, y, z, int32(j - k + 1)})
		k = j + 1
	}
	return out
}
