// Package stats records what a property test actually generated, so the check
// driver can write evidence: number of cases, distinct non-trivial cases (by
// hash of a canonical form), class histogram and a bounded sample reservoir.
// It also captures the (shrunk) failing case for the replay tier.
package stats

import (
	"encoding/binary"
	"encoding/json"
	"fmt"
	"hash/fnv"
	"os"
	"sort"
	"strings"
	"sync"
)

// Violation is the error type returned by check functions.  Sig identifies the
// call site + condition (used to match KNOWN_FINDINGS signatures).
type Violation struct {
	Sig string
	Msg string
}

func (v *Violation) Error() string { return v.Sig + ": " + v.Msg }

// Violf makes a Violation.
func Violf(sig, format string, args ...interface{}) *Violation {
	return &Violation{Sig: sig, Msg: fmt.Sprintf(format, args...)}
}

// SigOf returns the signature of err ("" if none).
func SigOf(err error) string {
	if v, ok := err.(*Violation); ok {
		return v.Sig
	}
	return ""
}

type collector struct {
	mu       sync.Mutex
	evals    int64
	nontriv  int64
	hashes   map[uint64]struct{}
	classes  map[string]int64
	samples  []json.RawMessage
	ntSeen   int64
	known    map[string]int64 // known-finding signature -> hits (case discarded)
	excluded map[string]int64 // generator exclusions by known finding
	extra    map[string]int64
}

var c = &collector{
	hashes:   map[uint64]struct{}{},
	classes:  map[string]int64{},
	known:    map[string]int64{},
	excluded: map[string]int64{},
	extra:    map[string]int64{},
}

const maxHashes = 4 << 20
const maxSamples = 6

// Hash of a canonical string form.
func Hash(s string) uint64 {
	h := fnv.New64a()
	h.Write([]byte(s))
	return h.Sum64()
}

// HashJSON hashes the JSON encoding of v.
func HashJSON(v interface{}) uint64 {
	b, _ := json.Marshal(v)
	h := fnv.New64a()
	h.Write(b)
	return h.Sum64()
}

// Record notes one executed case.  hash identifies the case (canonical form);
// nontrivial is the property's stated rule; classes are histogram labels;
// sample (may be nil) produces a JSON-able rendering, only called when kept.
func Record(hash uint64, nontrivial bool, classes []string, sample func() interface{}) {
	c.mu.Lock()
	defer c.mu.Unlock()
	c.evals++
	for _, cl := range classes {
		c.classes[cl]++
	}
	if !nontrivial {
		return
	}
	c.nontriv++
	_, dup := c.hashes[hash]
	if !dup && len(c.hashes) < maxHashes {
		c.hashes[hash] = struct{}{}
	}
	if dup || sample == nil {
		return
	}
	c.ntSeen++
	// keep the 1st, 2nd, 4th, 8th... distinct non-trivial cases up to maxSamples, later ones replace the last slot
	n := c.ntSeen
	if n&(n-1) == 0 {
		b, err := json.Marshal(sample())
		if err != nil {
			b, _ = json.Marshal(fmt.Sprintf("unmarshalable sample: %v", err))
		}
		if len(b) > 6000 {
			b, _ = json.Marshal(string(b[:6000]) + "...(truncated)")
		}
		if len(c.samples) < maxSamples {
			c.samples = append(c.samples, b)
		} else {
			c.samples[maxSamples-1] = b
		}
	}
}

// Count adds to a free-form counter reported in evidence.
func Count(name string, n int64) {
	c.mu.Lock()
	c.extra[name] += n
	c.mu.Unlock()
}

// KnownHit notes that a generated case hit a listed known finding (case discarded).
func KnownHit(sig string) {
	c.mu.Lock()
	c.known[sig]++
	c.mu.Unlock()
}

// Excluded notes that the generator altered a case to steer around a known finding.
func Excluded(sig string) {
	c.mu.Lock()
	c.excluded[sig]++
	c.mu.Unlock()
}

var knownSigs map[string]bool
var knownOnce sync.Once

// IsKnown reports whether sig is listed in $VERIF_KNOWN_SIGS (newline or comma separated).
func IsKnown(sig string) bool {
	knownOnce.Do(func() {
		knownSigs = map[string]bool{}
		for _, s := range strings.FieldsFunc(os.Getenv("VERIF_KNOWN_SIGS"), func(r rune) bool { return r == ',' || r == '\n' }) {
			knownSigs[strings.TrimSpace(s)] = true
		}
	})
	return knownSigs[sig]
}

// Summary is what one process flushes.
type Summary struct {
	Evaluations int64             `json:"evaluations"`
	Nontrivial  int64             `json:"nontrivial"`
	Distinct    int64             `json:"distinct_nontrivial"`
	Classes     map[string]int64  `json:"classes"`
	Samples     []json.RawMessage `json:"samples"`
	Known       map[string]int64  `json:"known_hits"`
	Excluded    map[string]int64  `json:"excluded"`
	Extra       map[string]int64  `json:"extra"`
	HashFile    string            `json:"hash_file"`
}

// Flush writes the summary to $VERIF_STATS (JSON) and hashes to $VERIF_STATS.hashes
// (little-endian uint64, sorted).  Call from TestMain after m.Run().
func Flush() {
	path := os.Getenv("VERIF_STATS")
	if path == "" {
		return
	}
	c.mu.Lock()
	defer c.mu.Unlock()
	hs := make([]uint64, 0, len(c.hashes))
	for h := range c.hashes {
		hs = append(hs, h)
	}
	sort.Slice(hs, func(i, j int) bool { return hs[i] < hs[j] })
	buf := make([]byte, 8*len(hs))
	for i, h := range hs {
		binary.LittleEndian.PutUint64(buf[8*i:], h)
	}
	_ = os.WriteFile(path+".hashes", buf, 0644)
	s := Summary{
		Evaluations: c.evals, Nontrivial: c.nontriv, Distinct: int64(len(hs)),
		Classes: c.classes, Samples: c.samples, Known: c.known, Excluded: c.excluded, Extra: c.extra,
		HashFile: path + ".hashes",
	}
	b, _ := json.MarshalIndent(s, "", " ")
	_ = os.WriteFile(path, b, 0644)
}

// FailRecord is the content of $VERIF_LASTFAIL.
type FailRecord struct {
	Property string          `json:"property"`
	Test     string          `json:"test"`
	Sig      string          `json:"signature"`
	Msg      string          `json:"message"`
	Case     json.RawMessage `json:"case"`
}

// WriteFail stores the failing case; rapid runs the minimal case last so the
// file ends up holding the shrunk case.
func WriteFail(property, test string, err error, cse interface{}) {
	path := os.Getenv("VERIF_LASTFAIL")
	if path == "" {
		return
	}
	cb, e := json.Marshal(cse)
	if e != nil {
		cb, _ = json.Marshal(fmt.Sprintf("%+v", cse))
	}
	fr := FailRecord{Property: property, Test: test, Sig: SigOf(err), Msg: err.Error(), Case: cb}
	b, _ := json.MarshalIndent(fr, "", " ")
	_ = os.WriteFile(path, b, 0644)
}

// Fataler is satisfied by *rapid.T and *testing.T.
type Fataler interface {
	Fatalf(format string, args ...interface{})
	Helper()
}

// Judge is the common tail of every property: err==nil passes; a listed known
// signature is counted and the case discarded; anything else is written as the
// failing case and fails the test.  Returns true when the case should be
// recorded as executed normally.
func Judge(t Fataler, property, test string, err error, cse interface{}) bool {
	t.Helper()
	if err == nil {
		return true
	}
	if sig := SigOf(err); sig != "" && IsKnown(sig) {
		KnownHit(sig)
		return false
	}
	if SigOf(err) == "" {
		// not a violation of the property but trouble in the harness itself (setup, child start-up, I/O):
		// never reported as a violation; the driver turns it into "inconclusive"
		t.Fatalf("HARNESS-ERROR property=%s test=%s: %v", property, test, err)
		return false
	}
	WriteFail(property, test, err, cse)
	t.Fatalf("VIOLATION-CANDIDATE property=%s test=%s: %v", property, test, err)
	return false
}

// PanicGuard converts a panic in code under test into a Violation error.
func PanicGuard(sig string, f func() error) (err error) {
	defer func() {
		if r := recover(); r != nil {
			err = Violf(sig, "panic: %v", r)
		}
	}()
	return f()
}

// ReplayCase loads the case of a fail record / replay file into v.
func ReplayCase(path string, v interface{}) (*FailRecord, error) {
	b, err := os.ReadFile(path)
	if err != nil {
		return nil, err
	}
	var fr FailRecord
	if err := json.Unmarshal(b, &fr); err != nil {
		return nil, err
	}
	if err := json.Unmarshal(fr.Case, v); err != nil {
		return nil, fmt.Errorf("case decode: %v", err)
	}
	return &fr, nil
}

// TB is the subset of testing.TB used by RunReplay.
type TB interface {
	Skip(args ...interface{})
	Fatalf(format string, args ...interface{})
	Logf(format string, args ...interface{})
}

// RunReplay implements TestReplay for a props package: it loads $VERIF_REPLAY,
// dispatches on the recorded test name and prints REPLAY-PASS / REPLAY-FAIL.
func RunReplay(t TB, handlers map[string]func(raw json.RawMessage) error) {
	path := os.Getenv("VERIF_REPLAY")
	if path == "" {
		t.Skip("VERIF_REPLAY not set")
		return
	}
	b, err := os.ReadFile(path)
	if err != nil {
		t.Fatalf("REPLAY-ERROR %v", err)
	}
	var fr FailRecord
	if err := json.Unmarshal(b, &fr); err != nil {
		t.Fatalf("REPLAY-ERROR bad replay file: %v", err)
	}
	h, ok := handlers[fr.Test]
	if !ok {
		t.Fatalf("REPLAY-ERROR no handler for test %q", fr.Test)
	}
	err = func() (err error) {
		defer func() {
			if r := recover(); r != nil {
				err = Violf("panic", "panic during replay: %v", r)
			}
		}()
		return h(fr.Case)
	}()
	if err != nil {
		msg := strings.ReplaceAll(err.Error(), "\n", " | ")
		if SigOf(err) == "" {
			fmt.Printf("REPLAY-ERROR harness trouble, not a verdict: %s\n", msg)
			t.Fatalf("replay could not be evaluated")
		}
		fmt.Printf("REPLAY-FAIL sig=%s msg=%s\n", SigOf(err), msg)
		t.Fatalf("replay failed")
	}
	fmt.Printf("REPLAY-PASS %s\n", path)
}

// SetCur writes the case about to be executed to $VERIF_CURCASE so that a
// process death (panic in a background goroutine of the code under test) still
// leaves the history that caused it.
func SetCur(property, test string, cse interface{}) {
	path := os.Getenv("VERIF_CURCASE")
	if path == "" {
		return
	}
	cb, e := json.Marshal(cse)
	if e != nil {
		return
	}
	fr := FailRecord{Property: property, Test: test, Sig: "process-death", Msg: "process died while executing this case", Case: cb}
	b, _ := json.Marshal(fr)
	_ = os.WriteFile(path, b, 0644)
}
