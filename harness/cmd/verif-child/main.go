// verif-child performs exactly the initialisation of `dvid serve <config.toml>` (cmd/dvid DoServe) and then serves
// requests read as JSON lines from stdin through server.ServeSingleHTTP (the full middleware stack), answering on
// stdout.  Control verbs let the parent settle, shut down, exit abruptly, arm a crash at the n-th write point and
// inspect identifier state.  Used by the child-process driver (C03, C04, C12, C20).
package main

import (
	"bufio"
	"bytes"
	"encoding/json"
	"fmt"
	"net/http"
	"net/http/httptest"
	"os"
	"strings"
	"sync"
	"sync/atomic"
	"syscall"
	"time"

	"github.com/janelia-flyem/dvid/datastore"
	"github.com/janelia-flyem/dvid/dvid"
	"github.com/janelia-flyem/dvid/server"
	"github.com/janelia-flyem/dvid/storage"

	_ "github.com/janelia-flyem/dvid/datatype/annotation"
	_ "github.com/janelia-flyem/dvid/datatype/imageblk"
	_ "github.com/janelia-flyem/dvid/datatype/keyvalue"
	_ "github.com/janelia-flyem/dvid/datatype/labelmap"
	_ "github.com/janelia-flyem/dvid/datatype/labelsz"
	_ "github.com/janelia-flyem/dvid/datatype/neuronjson"
	_ "github.com/janelia-flyem/dvid/datatype/roi"
	_ "github.com/janelia-flyem/dvid/storage/badger"
	_ "github.com/janelia-flyem/dvid/storage/filelog"
)

type request struct {
	ID     int      `json:"id"`
	Op     string   `json:"op"` // http settle shutdown exit-now arm disarm ids rpc points ping
	Method string   `json:"method,omitempty"`
	URL    string   `json:"url,omitempty"`
	Body   []byte   `json:"body,omitempty"`
	Root   string   `json:"root,omitempty"`
	N      int      `json:"n,omitempty"`
	Filter string   `json:"filter,omitempty"`
	Cmd    []string `json:"cmd,omitempty"`
	Deep   bool     `json:"deep,omitempty"`
	Batch  []request `json:"batch,omitempty"` // op "batch": http requests executed concurrently
}

type response struct {
	ID     int             `json:"id"`
	Code   int             `json:"code,omitempty"`
	Body   []byte          `json:"body,omitempty"`
	Err    string          `json:"err,omitempty"`
	Text   string          `json:"text,omitempty"`
	Points []string        `json:"points,omitempty"`
	Count  int64           `json:"count,omitempty"`
	IDs    json.RawMessage `json:"ids,omitempty"`
	Batch  []response      `json:"batch,omitempty"`
}

var (
	pointMu    sync.Mutex
	pointCount int64
	pointLog   []string
	armN       int64 // die at the armN-th matching point (0 = disarmed)
	armFilter  string
	logPoints  int32
)

func hook(site string) {
	if strings.HasPrefix(site, "yield:") {
		return // scheduling points of the concurrency check (C11); the crash checks count store / log writes only
	}
	pointMu.Lock()
	match := armFilter == "" || strings.Contains(site, armFilter)
	if match {
		pointCount++
	}
	if atomic.LoadInt32(&logPoints) != 0 && len(pointLog) < 100000 {
		pointLog = append(pointLog, site)
	}
	n := armN
	c := pointCount
	pointMu.Unlock()
	if n > 0 && match && c == n {
		// the injected fault: the process dies here, as if killed -9 at this write point
		syscall.Kill(os.Getpid(), syscall.SIGKILL)
		time.Sleep(10 * time.Second)
	}
}

type updating interface{ Updating() bool }

func instanceNames(uuid string) []dvid.InstanceName {
	js, err := datastore.GetRepoJSON(dvid.UUID(uuid))
	if err != nil {
		return nil
	}
	var info struct{ DataInstances map[string]json.RawMessage }
	if json.Unmarshal([]byte(js), &info) != nil {
		return nil
	}
	var out []dvid.InstanceName
	for n := range info.DataInstances {
		out = append(out, dvid.InstanceName(n))
	}
	return out
}

func quiet(roots []string) bool {
	for _, root := range roots {
		for _, n := range instanceNames(root) {
			d, err := datastore.GetDataByUUIDName(dvid.UUID(root), n)
			if err != nil {
				continue
			}
			if s, ok := d.(datastore.Syncer); ok && s.SyncPending() {
				return false
			}
			if u, ok := d.(updating); ok && u.Updating() {
				return false
			}
		}
	}
	return true
}

func allRoots() []string {
	r := httptest.NewRecorder()
	req, _ := http.NewRequest("GET", "/api/repos/info", nil)
	server.ServeSingleHTTP(r, req)
	var m map[string]json.RawMessage
	json.Unmarshal(r.Body.Bytes(), &m)
	var out []string
	for k := range m {
		out = append(out, k)
	}
	return out
}

func settle(deep bool) {
	roots := allRoots()
	if deep {
		for _, root := range roots {
			for _, n := range instanceNames(root) {
				datastore.BlockOnUpdating(dvid.UUID(root), n)
			}
		}
	}
	need := 3
	if deep {
		need = 120
	}
	ok := 0
	deadline := time.Now().Add(120 * time.Second)
	for ok < need && time.Now().Before(deadline) {
		if quiet(roots) {
			ok++
		} else {
			ok = 0
		}
		time.Sleep(time.Millisecond)
	}
}

func main() {
	if len(os.Args) < 2 {
		fmt.Fprintln(os.Stderr, "usage: verif-child <config.toml>")
		os.Exit(2)
	}
	// keep the protocol channel private: anything the server code prints to stdout goes to stderr instead
	protoFd, err0 := syscall.Dup(1)
	if err0 != nil {
		fmt.Fprintf(os.Stderr, "startup: dup: %v\n", err0)
		os.Exit(3)
	}
	syscall.Dup2(2, 1)
	proto := os.NewFile(uintptr(protoFd), "protocol")
	if a := os.Getenv("VERIF_CHILD_ARM"); a != "" {
		// "N" or "N:filter": die at the N-th (matching) write point of the start-up itself (second crash during recovery)
		parts := strings.SplitN(a, ":", 2)
		fmt.Sscan(parts[0], &armN)
		if len(parts) == 2 {
			armFilter = parts[1]
		}
	}
	dvid.SetVerifHook(hook)
	// --- the calls of cmd/dvid DoServe, in order
	if err := server.LoadConfig(os.Args[1]); err != nil {
		fmt.Fprintf(os.Stderr, "startup: error loading configuration: %v\n", err)
		os.Exit(3)
	}
	if err := server.Initialize(); err != nil {
		fmt.Fprintf(os.Stderr, "startup: server.Initialize: %v\n", err)
		os.Exit(3)
	}
	backend, err := server.InitBackend()
	if err != nil {
		fmt.Fprintf(os.Stderr, "startup: InitBackend: %v\n", err)
		os.Exit(3)
	}
	datatypes := make(map[dvid.TypeString]struct{})
	for _, t := range datastore.Compiled {
		datatypes[t.GetTypeName()] = struct{}{}
	}
	initMetadata, err := storage.Initialize(dvid.Config{}, backend, datatypes)
	if err != nil {
		fmt.Fprintf(os.Stderr, "startup: unable to initialize storage: %v\n", err)
		os.Exit(3)
	}
	if err := datastore.Initialize(initMetadata, server.DatastoreConfig()); err != nil {
		fmt.Fprintf(os.Stderr, "startup: unable to initialize datastore: %v\n", err)
		os.Exit(3)
	}
	// server.Serve() (HTTP/RPC listeners on ephemeral ports, blocks until Shutdown signals the channel)
	go server.Serve()

	out := bufio.NewWriter(proto)
	var outMu sync.Mutex
	reply := func(r response) {
		b, _ := json.Marshal(r)
		outMu.Lock()
		out.Write(b)
		out.WriteByte('\n')
		out.Flush()
		outMu.Unlock()
	}
	reply(response{ID: 0, Text: "ready"})

	in := bufio.NewReaderSize(os.Stdin, 1<<20)
	for {
		line, err := in.ReadBytes('\n')
		if len(line) > 0 {
			var rq request
			if jerr := json.Unmarshal(line, &rq); jerr != nil {
				reply(response{ID: -1, Err: "bad request line: " + jerr.Error()})
			} else {
				handle(rq, reply)
			}
		}
		if err != nil {
			return
		}
	}
}

func handle(rq request, reply func(response)) {
	switch rq.Op {
	case "ping":
		reply(response{ID: rq.ID, Text: "pong"})
	case "http":
		req, err := http.NewRequest(rq.Method, rq.URL, bytes.NewReader(rq.Body))
		if err != nil {
			reply(response{ID: rq.ID, Code: -1, Err: err.Error()})
			return
		}
		w := httptest.NewRecorder()
		server.ServeSingleHTTP(w, req)
		reply(response{ID: rq.ID, Code: w.Code, Body: w.Body.Bytes()})
	case "batch":
		out := make([]response, len(rq.Batch))
		var wg sync.WaitGroup
		for i := range rq.Batch {
			wg.Add(1)
			go func(i int) {
				defer wg.Done()
				b := rq.Batch[i]
				req, err := http.NewRequest(b.Method, b.URL, bytes.NewReader(b.Body))
				if err != nil {
					out[i] = response{ID: b.ID, Code: -1, Err: err.Error()}
					return
				}
				w := httptest.NewRecorder()
				server.ServeSingleHTTP(w, req)
				out[i] = response{ID: b.ID, Code: w.Code, Body: w.Body.Bytes()}
			}(i)
		}
		wg.Wait()
		reply(response{ID: rq.ID, Batch: out})
	case "settle":
		settle(rq.Deep)
		reply(response{ID: rq.ID, Text: "settled"})
	case "arm":
		pointMu.Lock()
		pointCount = 0
		armN = int64(rq.N)
		armFilter = rq.Filter
		pointMu.Unlock()
		reply(response{ID: rq.ID, Text: "armed"})
	case "disarm":
		pointMu.Lock()
		armN = 0
		c := pointCount
		pointMu.Unlock()
		reply(response{ID: rq.ID, Count: c})
	case "points":
		// N=1 start logging (and reset), N=0 stop and return what was logged
		pointMu.Lock()
		if rq.N == 1 {
			pointLog = nil
			pointCount = 0
			armFilter = rq.Filter
			atomic.StoreInt32(&logPoints, 1)
			pointMu.Unlock()
			reply(response{ID: rq.ID, Text: "logging"})
			return
		}
		atomic.StoreInt32(&logPoints, 0)
		pts := pointLog
		pointLog = nil
		c := pointCount
		pointMu.Unlock()
		reply(response{ID: rq.ID, Points: pts, Count: c})
	case "ids":
		b, _ := json.Marshal(datastore.VerifIDs())
		reply(response{ID: rq.ID, IDs: b})
	case "rpc":
		text, err := server.VerifRPC(rq.Cmd...)
		r := response{ID: rq.ID, Text: text}
		if err != nil {
			r.Err = err.Error()
		}
		reply(r)
	case "shutdown":
		// the clean path: server.Shutdown() (datastore, storage, rpc, logs), then exit
		done := make(chan struct{})
		go func() { server.Shutdown(); close(done) }()
		select {
		case <-done:
		case <-time.After(60 * time.Second):
			reply(response{ID: rq.ID, Err: "shutdown timed out"})
			os.Exit(4)
		}
		reply(response{ID: rq.ID, Text: "shutdown complete"})
		os.Exit(0)
	case "exit-now":
		reply(response{ID: rq.ID, Text: "exiting"})
		os.Exit(0)
	default:
		reply(response{ID: rq.ID, Err: "unknown op " + rq.Op})
	}
}
