// evmerge merges per-process stats summaries (see package stats) and prints one JSON object.
package main

import (
	"encoding/binary"
	"encoding/json"
	"fmt"
	"os"
	"sort"

	"verif/stats"
)

func main() {
	out := stats.Summary{Classes: map[string]int64{}, Known: map[string]int64{}, Excluded: map[string]int64{}, Extra: map[string]int64{}}
	var all []uint64
	for _, p := range os.Args[1:] {
		b, err := os.ReadFile(p)
		if err != nil {
			fmt.Fprintln(os.Stderr, err)
			os.Exit(1)
		}
		var s stats.Summary
		if err := json.Unmarshal(b, &s); err != nil {
			fmt.Fprintln(os.Stderr, p, err)
			os.Exit(1)
		}
		out.Evaluations += s.Evaluations
		out.Nontrivial += s.Nontrivial
		for k, v := range s.Classes {
			out.Classes[k] += v
		}
		for k, v := range s.Known {
			out.Known[k] += v
		}
		for k, v := range s.Excluded {
			out.Excluded[k] += v
		}
		for k, v := range s.Extra {
			out.Extra[k] += v
		}
		if len(out.Samples) < 8 {
			for _, sm := range s.Samples {
				if len(out.Samples) < 8 {
					out.Samples = append(out.Samples, sm)
				}
			}
		}
		hb, err := os.ReadFile(p + ".hashes")
		if err == nil {
			for i := 0; i+8 <= len(hb); i += 8 {
				all = append(all, binary.LittleEndian.Uint64(hb[i:]))
			}
		}
	}
	sort.Slice(all, func(i, j int) bool { return all[i] < all[j] })
	var n int64
	for i := range all {
		if i == 0 || all[i] != all[i-1] {
			n++
		}
	}
	out.Distinct = n
	b, _ := json.Marshal(out)
	os.Stdout.Write(b)
}
