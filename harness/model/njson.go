package model

// Reference model for neuronjson annotations (property C16).
//
// Everything here is derived from the datatype's help text:
//   - POST key "updates fields by default (using old fields not overwritten)";
//   - replace=true "will remove any fields not present";
//   - conditional: "fields ... that should not be overwritten if set";
//   - a null removes the field's value (property statement; nulls are never stored);
//   - "For each field, a *_user and *_time field will be added ... unless one is already present.  The *_user field
//     will be set to the user making the request ... If the current field value is the same as the new value, the
//     *_user and *_time fields will not be updated."
// Where the text is silent the model answers "don't care".

import (
	"bytes"
	"encoding/json"
	"fmt"
	"math/big"
	"regexp"
	"sort"
	"strconv"
	"strings"
)

// NJField is one field of a POSTed annotation.
type NJField struct {
	Name string  `json:"name"`
	Val  string  `json:"val"`            // raw JSON text; "null" removes the field's value
	User *string `json:"user,omitempty"` // explicit <name>_user supplied by the caller
	Time *string `json:"time,omitempty"` // explicit <name>_time supplied by the caller
}

// NJUpdate is one annotation write (POST key/<body> or one element of POST keyvalues).
type NJUpdate struct {
	Body    uint64    `json:"body"`
	User    string    `json:"user"`
	Replace bool      `json:"replace,omitempty"`
	Cond    []string  `json:"cond,omitempty"`
	Fields  []NJField `json:"fields"`
}

// JSON renders the request body: {"bodyid":N, fields..., explicit meta fields...}.
func (u NJUpdate) JSON() []byte {
	var b bytes.Buffer
	fmt.Fprintf(&b, `{"bodyid":%d`, u.Body)
	for _, f := range u.Fields {
		fmt.Fprintf(&b, `,%s:%s`, strconv.Quote(f.Name), f.Val)
		if f.User != nil {
			fmt.Fprintf(&b, `,%s:%s`, strconv.Quote(f.Name+"_user"), strconv.Quote(*f.User))
		}
		if f.Time != nil {
			fmt.Fprintf(&b, `,%s:%s`, strconv.Quote(f.Name+"_time"), strconv.Quote(*f.Time))
		}
	}
	b.WriteString("}")
	return b.Bytes()
}

// NJVal is the model's record of one field value.
type NJVal struct {
	Raw   string // JSON text as last posted
	Canon string // canonical form (numbers compared by value)
}

// NJBody holds the non-meta fields of one annotation other than "bodyid".
type NJBody map[string]NJVal

// NJState is the annotation set of one version.
type NJState map[uint64]NJBody

func (s NJState) Clone() NJState {
	out := NJState{}
	for id, b := range s {
		nb := NJBody{}
		for f, v := range b {
			nb[f] = v
		}
		out[id] = nb
	}
	return out
}

// IDs returns the body ids in ascending order.
func (s NJState) IDs() []uint64 {
	out := make([]uint64, 0, len(s))
	for id := range s {
		out = append(out, id)
	}
	sort.Slice(out, func(i, j int) bool { return out[i] < out[j] })
	return out
}

// Stamp expectations.
const (
	StampDontCare  = 0
	StampUnchanged = 1 // <field>_user and <field>_time must be what they were before the update
	StampChanged   = 2 // <field>_user must be User; <field>_time must be Time if not nil, else a server time
)

// NJExpect is what the help text promises about one field after an update.
type NJExpect struct {
	Stamp int
	User  string  // for StampChanged
	Time  *string // for StampChanged: explicit time, nil = server-chosen "current time"
	Why   string
}

// Apply returns the annotation after u, the stamp expectation of every field present afterwards, and the
// classes of what happened (null-delete, replace-removes, conditional-protects, ...).  s is not modified.
func (s NJState) Apply(u NJUpdate) (after NJBody, exp map[string]NJExpect, classes []string, err error) {
	before, existed := s[u.Body]
	after = NJBody{}
	exp = map[string]NJExpect{}
	prot := map[string]bool{}
	if !u.Replace {
		for _, c := range u.Cond {
			prot[c] = true
		}
	}
	mentioned := map[string]bool{}
	for _, f := range u.Fields {
		mentioned[f.Name] = true
		old, had := before[f.Name]
		if strings.TrimSpace(f.Val) == "null" {
			if had {
				classes = append(classes, "null-delete")
			} else {
				classes = append(classes, "null-of-absent-field")
			}
			continue // value removed; nothing promised about its stamps
		}
		canon, cerr := NJCanon(f.Val)
		if cerr != nil {
			return nil, nil, nil, cerr
		}
		explicit := f.User != nil || f.Time != nil
		switch {
		case had && prot[f.Name]:
			after[f.Name] = old
			classes = append(classes, "conditional-protects")
			if explicit {
				exp[f.Name] = NJExpect{Stamp: StampDontCare, Why: "protected field with explicit stamps"}
			} else {
				exp[f.Name] = NJExpect{Stamp: StampUnchanged, Why: "conditional field already set: not overwritten"}
			}
		case had && old.Canon == canon:
			after[f.Name] = NJVal{Raw: f.Val, Canon: canon}
			switch {
			case explicit:
				exp[f.Name] = NJExpect{Stamp: StampDontCare, Why: "same value with explicit stamps"}
			case old.Raw == f.Val:
				classes = append(classes, "repeat-identical-value")
				exp[f.Name] = NJExpect{Stamp: StampUnchanged, Why: "identical value re-posted"}
			default:
				exp[f.Name] = NJExpect{Stamp: StampDontCare, Why: "numerically equal, textually different"}
			}
		default:
			after[f.Name] = NJVal{Raw: f.Val, Canon: canon}
			if had {
				classes = append(classes, "value-changed")
			}
			if prot[f.Name] {
				classes = append(classes, "conditional-on-unset-field")
			}
			e := NJExpect{Stamp: StampChanged, User: u.User, Time: f.Time, Why: "value set or changed"}
			if f.User != nil {
				e.User = *f.User
			}
			exp[f.Name] = e
		}
	}
	for g, old := range before {
		if mentioned[g] {
			continue
		}
		if u.Replace {
			classes = append(classes, "replace-removes")
			continue
		}
		after[g] = old
		classes = append(classes, "keeps-unmentioned")
		exp[g] = NJExpect{Stamp: StampUnchanged, Why: "field not mentioned by a partial update"}
	}
	if u.Replace && existed {
		classes = append(classes, "replace")
	}
	return after, exp, classes, nil
}

// ---------------------------------------------------------------- canonical JSON

// NJCanon returns a canonical rendering of a JSON text: object keys sorted, numbers by exact value.
func NJCanon(raw string) (string, error) {
	dec := json.NewDecoder(strings.NewReader(raw))
	dec.UseNumber()
	var v interface{}
	if err := dec.Decode(&v); err != nil {
		return "", fmt.Errorf("bad JSON %q: %v", raw, err)
	}
	if dec.More() {
		return "", fmt.Errorf("trailing data after JSON value %q", raw)
	}
	var b strings.Builder
	canonWrite(&b, v)
	return b.String(), nil
}

// NJCanonValue renders an already decoded value (decoded with UseNumber).
func NJCanonValue(v interface{}) string {
	var b strings.Builder
	canonWrite(&b, v)
	return b.String()
}

func canonNumber(n string) string {
	if r, ok := new(big.Rat).SetString(n); ok {
		if r.IsInt() {
			return r.Num().String()
		}
		return r.RatString()
	}
	return "?" + n
}

func canonWrite(b *strings.Builder, v interface{}) {
	switch x := v.(type) {
	case nil:
		b.WriteString("null")
	case bool:
		if x {
			b.WriteString("true")
		} else {
			b.WriteString("false")
		}
	case json.Number:
		b.WriteString("#" + canonNumber(string(x)))
	case float64:
		b.WriteString("#" + canonNumber(strconv.FormatFloat(x, 'g', -1, 64)))
	case string:
		b.WriteString(strconv.Quote(x))
	case []interface{}:
		b.WriteString("[")
		for i, e := range x {
			if i > 0 {
				b.WriteString(",")
			}
			canonWrite(b, e)
		}
		b.WriteString("]")
	case map[string]interface{}:
		keys := make([]string, 0, len(x))
		for k := range x {
			keys = append(keys, k)
		}
		sort.Strings(keys)
		b.WriteString("{")
		for i, k := range keys {
			if i > 0 {
				b.WriteString(",")
			}
			b.WriteString(strconv.Quote(k))
			b.WriteString(":")
			canonWrite(b, x[k])
		}
		b.WriteString("}")
	default:
		fmt.Fprintf(b, "?%T", v)
	}
}

// NJIsIntegralFloat reports whether the JSON text contains a number written with a fraction or exponent whose value
// is an integer (3.0, 1e3, [1.0,2]): the class of values that change type when re-read from their stored JSON.
func NJIsIntegralFloat(raw string) bool {
	dec := json.NewDecoder(strings.NewReader(raw))
	dec.UseNumber()
	var v interface{}
	if dec.Decode(&v) != nil {
		return false
	}
	var walk func(interface{}) bool
	walk = func(v interface{}) bool {
		switch x := v.(type) {
		case json.Number:
			s := string(x)
			if strings.ContainsAny(s, ".eE") {
				if r, ok := new(big.Rat).SetString(s); ok && r.IsInt() {
					return true
				}
			}
		case []interface{}:
			for _, e := range x {
				if walk(e) {
					return true
				}
			}
		case map[string]interface{}:
			for _, e := range x {
				if walk(e) {
					return true
				}
			}
		}
		return false
	}
	return walk(v)
}

// ---------------------------------------------------------------- queries (only what the help text states)

// NJCond is one field condition of a query object.
type NJCond struct {
	Field string `json:"field"`
	Val   string `json:"val"` // raw JSON: scalar, list, "re/...", "exists/0|1"
}

// Verdicts of the query model.
const (
	MustExclude = -1
	DontCare    = 0
	MustInclude = 1
)

// scalar kind of a canonical value: 's' string, 'i' integer, 0 other.
func scalarKind(canon string) byte {
	if strings.HasPrefix(canon, `"`) {
		return 's'
	}
	if strings.HasPrefix(canon, "#") && !strings.Contains(canon, "/") {
		return 'i'
	}
	return 0
}

// MatchCond decides one condition against one annotation (bodyid is handled by the caller).
//   - absent field: only "exists/0" holds ("the field must not exist or be set to null"); everything else fails,
//     conditions are on field values.
//   - "exists/1": the field must exist.
//   - scalar string / integer equality between scalars of the same kind.
//   - "re/^..." against a scalar string (anchored patterns only: the help says the regex is anchored to the beginning,
//     upstream callers rely on unanchored search, so only patterns that start with ^ are decided).
//
// Everything else (lists, numeric coercion, floats, objects) is not specified beyond the code: DontCare.
func MatchCond(b NJBody, c NJCond) int {
	qcanon, err := NJCanon(c.Val)
	if err != nil {
		return DontCare
	}
	v, present := b[c.Field]
	if scalarKind(qcanon) == 's' {
		var qs string
		_ = json.Unmarshal([]byte(c.Val), &qs)
		switch {
		case qs == "exists/1":
			if present {
				return MustInclude
			}
			return MustExclude
		case qs == "exists/0":
			if present {
				return MustExclude
			}
			return MustInclude
		case strings.HasPrefix(qs, "exists/"):
			return DontCare
		case strings.HasPrefix(qs, "re/"):
			if !present {
				return MustExclude
			}
			pat := qs[3:]
			if !strings.HasPrefix(pat, "^") || scalarKind(v.Canon) != 's' {
				return DontCare
			}
			re, err := regexp.Compile(pat)
			if err != nil {
				return DontCare
			}
			var fs string
			_ = json.Unmarshal([]byte(v.Raw), &fs)
			if re.MatchString(fs) {
				return MustInclude
			}
			return MustExclude
		}
	}
	if !present {
		return MustExclude
	}
	qk, fk := scalarKind(qcanon), scalarKind(v.Canon)
	if qk == 0 || fk == 0 || qk != fk {
		return DontCare
	}
	if qcanon == v.Canon {
		return MustInclude
	}
	return MustExclude
}

// MatchQuery decides a list of queries (ORed), each a list of conditions (ANDed).
func MatchQuery(id uint64, b NJBody, ors [][]NJCond) int {
	anyUnknown := false
	for _, ands := range ors {
		res := MustInclude
		for _, c := range ands {
			var r int
			if c.Field == "bodyid" {
				r = DontCare
				if q, err := NJCanon(c.Val); err == nil && scalarKind(q) == 'i' {
					if q == "#"+strconv.FormatUint(id, 10) {
						r = MustInclude
					} else {
						r = MustExclude
					}
				}
			} else {
				r = MatchCond(b, c)
			}
			if r == MustExclude {
				res = MustExclude
				break
			}
			if r == DontCare {
				res = DontCare
			}
		}
		if res == MustInclude {
			return MustInclude
		}
		if res == DontCare {
			anyUnknown = true
		}
	}
	if anyUnknown {
		return DontCare
	}
	return MustExclude
}
