package model

import (
	"encoding/json"
	"sort"
	"strings"
)

// Reference model of a point-annotation instance (C13): ONE element set keyed by position.  Every view the
// annotation datatype serves (per-block store, per-tag index, per-body index, spatial queries, labelsz counts)
// is derived from this set on demand, never stored.

// AnnRel is a relationship to another element (wire format of the annotation datatype).
type AnnRel struct {
	Rel string   `json:"Rel"`
	To  [3]int32 `json:"To"`
}

// AnnElem is one point annotation in the wire format of the annotation datatype.
type AnnElem struct {
	Pos  [3]int32          `json:"Pos"`
	Kind string            `json:"Kind"`
	Tags []string          `json:"Tags,omitempty"`
	Prop map[string]string `json:"Prop,omitempty"`
	Rels []AnnRel          `json:"Rels,omitempty"`
}

// Copy returns a deep copy.
func (e AnnElem) Copy() AnnElem {
	c := AnnElem{Pos: e.Pos, Kind: e.Kind}
	c.Tags = append([]string(nil), e.Tags...)
	if e.Prop != nil {
		c.Prop = map[string]string{}
		for k, v := range e.Prop {
			c.Prop[k] = v
		}
	}
	c.Rels = append([]AnnRel(nil), e.Rels...)
	return c
}

// HasTag reports whether t is among the element's tags.
func (e AnnElem) HasTag(t string) bool {
	for _, x := range e.Tags {
		if x == t {
			return true
		}
	}
	return false
}

// AnnSet is the element set of one version.
type AnnSet struct {
	E map[[3]int32]AnnElem
}

func NewAnnSet() *AnnSet { return &AnnSet{E: map[[3]int32]AnnElem{}} }

func (s *AnnSet) Clone() *AnnSet {
	c := NewAnnSet()
	for p, e := range s.E {
		c.E[p] = e.Copy()
	}
	return c
}

// PosLess orders positions (z, then y, then x).
func PosLess(a, b [3]int32) bool {
	if a[2] != b[2] {
		return a[2] < b[2]
	}
	if a[1] != b[1] {
		return a[1] < b[1]
	}
	return a[0] < b[0]
}

// Positions returns all element positions in a fixed order.
func (s *AnnSet) Positions() [][3]int32 {
	out := make([][3]int32, 0, len(s.E))
	for p := range s.E {
		out = append(out, p)
	}
	sort.Slice(out, func(i, j int) bool { return PosLess(out[i], out[j]) })
	return out
}

// Put stores an element; an element already at that position is replaced as a whole.
func (s *AnnSet) Put(e AnnElem) { s.E[e.Pos] = e.Copy() }

// Delete removes the element at p and every relationship that points to p.
func (s *AnnSet) Delete(p [3]int32) {
	delete(s.E, p)
	for q, e := range s.E {
		var keep []AnnRel
		changed := false
		for _, r := range e.Rels {
			if r.To == p {
				changed = true
				continue
			}
			keep = append(keep, r)
		}
		if changed {
			e.Rels = keep
			s.E[q] = e
		}
	}
}

// Move relocates the element at from to the (unoccupied) position to and redirects every relationship that points to from.
func (s *AnnSet) Move(from, to [3]int32) {
	e, ok := s.E[from]
	if !ok {
		return
	}
	delete(s.E, from)
	e.Pos = to
	s.E[to] = e
	for q, x := range s.E {
		changed := false
		for i, r := range x.Rels {
			if r.To == from {
				x.Rels[i].To = to
				changed = true
			}
		}
		if changed {
			s.E[q] = x
		}
	}
}

// BlockOfPos returns the block coordinate (edge b) holding voxel p (floor division).
func BlockOfPos(p [3]int32, b int32) [3]int32 {
	return [3]int32{floorDiv(p[0], b), floorDiv(p[1], b), floorDiv(p[2], b)}
}

// SetBlock replaces the content of one block by the given elements (block-level ingest).
func (s *AnnSet) SetBlock(blk [3]int32, b int32, elems []AnnElem) {
	for p := range s.E {
		if BlockOfPos(p, b) == blk {
			delete(s.E, p)
		}
	}
	for _, e := range elems {
		s.Put(e)
	}
}

// Select returns the elements satisfying keep, in position order.
func (s *AnnSet) Select(keep func(AnnElem) bool) []AnnElem {
	var out []AnnElem
	for _, p := range s.Positions() {
		if e := s.E[p]; keep == nil || keep(e) {
			out = append(out, e.Copy())
		}
	}
	return out
}

// Partners returns the positions the element at p has relationships to.
func (s *AnnSet) Partners(p [3]int32) [][3]int32 {
	var out [][3]int32
	for _, r := range s.E[p].Rels {
		out = append(out, r.To)
	}
	return out
}

// Mutual reports whether every relationship of every element is answered by a relationship back (the domain
// in which the statement's "when two elements reference each other" applies); returns a description of the first exception.
func (s *AnnSet) Mutual() string {
	for _, p := range s.Positions() {
		for _, r := range s.E[p].Rels {
			q, ok := s.E[r.To]
			if !ok {
				return "dangling"
			}
			back := false
			for _, rr := range q.Rels {
				if rr.To == p {
					back = true
				}
			}
			if !back {
				return "one-directional"
			}
		}
	}
	return ""
}

// CanonElem renders one element in a canonical textual form (tags, relationships and property keys sorted;
// nil and empty collections identical).  withRels=false leaves relationships out.
func CanonElem(e AnnElem, withRels bool) string {
	tags := append([]string{}, e.Tags...)
	sort.Strings(tags)
	keys := make([]string, 0, len(e.Prop))
	for k := range e.Prop {
		keys = append(keys, k)
	}
	sort.Strings(keys)
	var sb strings.Builder
	b, _ := json.Marshal(e.Pos)
	sb.Write(b)
	sb.WriteString(" " + e.Kind + " tags=")
	b, _ = json.Marshal(tags)
	sb.Write(b)
	sb.WriteString(" prop={")
	for i, k := range keys {
		if i > 0 {
			sb.WriteString(",")
		}
		kb, _ := json.Marshal(k)
		vb, _ := json.Marshal(e.Prop[k])
		sb.Write(kb)
		sb.WriteString(":")
		sb.Write(vb)
	}
	sb.WriteString("}")
	if withRels {
		rels := append([]AnnRel{}, e.Rels...)
		sort.Slice(rels, func(i, j int) bool {
			if rels[i].To != rels[j].To {
				return PosLess(rels[i].To, rels[j].To)
			}
			return rels[i].Rel < rels[j].Rel
		})
		sb.WriteString(" rels=")
		b, _ = json.Marshal(rels)
		if len(rels) == 0 {
			b = []byte("[]")
		}
		sb.Write(b)
	}
	return sb.String()
}

// CanonList renders a list of elements as a sorted list of canonical strings (a multiset).
func CanonList(elems []AnnElem, withRels bool) []string {
	out := make([]string, len(elems))
	for i, e := range elems {
		out[i] = CanonElem(e, withRels)
	}
	sort.Strings(out)
	return out
}

// DiffCanon compares two canonical multisets; "" when equal, else a short description of the first differences.
func DiffCanon(got, want []string) string {
	g := map[string]int{}
	for _, x := range got {
		g[x]++
	}
	for _, x := range want {
		g[x]--
	}
	var extra, missing []string
	for x, n := range g {
		for ; n > 0; n-- {
			extra = append(extra, x)
		}
		for ; n < 0; n++ {
			missing = append(missing, x)
		}
	}
	if len(extra) == 0 && len(missing) == 0 {
		return ""
	}
	sort.Strings(extra)
	sort.Strings(missing)
	clip := func(v []string) []string {
		if len(v) > 3 {
			return append(v[:3:3], "...")
		}
		return v
	}
	return "returned but not expected: " + strings.Join(clip(extra), " ; ") + " || expected but not returned: " + strings.Join(clip(missing), " ; ") +
		" (returned " + itoa(len(got)) + ", expected " + itoa(len(want)) + ")"
}

func itoa(n int) string {
	b, _ := json.Marshal(n)
	return string(b)
}

// SynapticKind reports whether a Kind counts towards the labelsz "AllSyn" index (PostSyn, PreSyn or Gap).
func SynapticKind(kind string) bool { return kind == "PostSyn" || kind == "PreSyn" || kind == "Gap" }
