package model

// Naive reference implementations for label blocks (properties C09 and C10).
// Everything works on plain []uint64 arrays in ZYX order (x fastest), has no
// dependency on the code under test and is written for obviousness, not speed.

import (
	"encoding/binary"
	"sort"
)

// Dims is the size of a label array in voxels: nx, ny, nz.
type Dims [3]int

// N is the number of voxels.
func (d Dims) N() int { return d[0] * d[1] * d[2] }

// Idx is the array position of voxel (x,y,z).
func (d Dims) Idx(x, y, z int) int { return (z*d[1]+y)*d[0] + x }

// LabelsFromBytes decodes a packed little-endian uint64 array.
func LabelsFromBytes(b []byte) []uint64 {
	out := make([]uint64, len(b)/8)
	for i := range out {
		out[i] = binary.LittleEndian.Uint64(b[i*8:])
	}
	return out
}

// LabelsToBytes encodes labels as packed little-endian uint64.
func LabelsToBytes(l []uint64) []byte {
	out := make([]byte, len(l)*8)
	for i, v := range l {
		binary.LittleEndian.PutUint64(out[i*8:], v)
	}
	return out
}

// Counts returns the number of voxels of every label (label 0 included).
func Counts(a []uint64) map[uint64]int64 {
	m := map[uint64]int64{}
	for _, v := range a {
		m[v]++
	}
	return m
}

// SortedLabels returns the distinct labels of a in increasing order.
func SortedLabels(a []uint64) []uint64 {
	m := Counts(a)
	out := make([]uint64, 0, len(m))
	for l := range m {
		out = append(out, l)
	}
	sort.Slice(out, func(i, j int) bool { return out[i] < out[j] })
	return out
}

// FirstDiff returns the first position where a and b differ, or -1.
func FirstDiff(a, b []uint64) int {
	if len(a) != len(b) {
		if len(a) < len(b) {
			return len(a)
		}
		return len(b)
	}
	for i := range a {
		if a[i] != b[i] {
			return i
		}
	}
	return -1
}

// SubBlockOf returns the 8x8x8 sub-block number (z,y,x order) of array position i.
func SubBlockOf(d Dims, i int) int {
	x := i % d[0]
	y := (i / d[0]) % d[1]
	z := i / (d[0] * d[1])
	gx, gy := d[0]/8, d[1]/8
	return ((z/8)*gy+(y/8))*gx + x/8
}

// DiffSubBlocks returns the number of distinct sub-blocks in which a and b differ.
func DiffSubBlocks(d Dims, a, b []uint64) int {
	seen := map[int]bool{}
	for i := range a {
		if a[i] != b[i] {
			seen[SubBlockOf(d, i)] = true
		}
	}
	return len(seen)
}

// SubBlockLabelCounts returns, per sub-block in (z,y,x) order, the number of distinct labels.
func SubBlockLabelCounts(a []uint64, d Dims) []int {
	gx, gy, gz := d[0]/8, d[1]/8, d[2]/8
	sets := make([]map[uint64]bool, gx*gy*gz)
	for i := range sets {
		sets[i] = map[uint64]bool{}
	}
	for i, v := range a {
		sets[SubBlockOf(d, i)][v] = true
	}
	out := make([]int, len(sets))
	for i, s := range sets {
		out[i] = len(s)
	}
	return out
}

// Crop copies the box of size bd at offset off out of a volume of size vd.
func Crop(vol []uint64, vd Dims, off [3]int, bd Dims) []uint64 {
	out := make([]uint64, bd.N())
	for z := 0; z < bd[2]; z++ {
		for y := 0; y < bd[1]; y++ {
			for x := 0; x < bd[0]; x++ {
				out[bd.Idx(x, y, z)] = vol[vd.Idx(x+off[0], y+off[1], z+off[2])]
			}
		}
	}
	return out
}

// ---- table level operations

// MergeLabels: every voxel whose label is in merged becomes target.
func MergeLabels(a []uint64, target uint64, merged map[uint64]bool) []uint64 {
	out := make([]uint64, len(a))
	for i, v := range a {
		if merged[v] {
			out[i] = target
		} else {
			out[i] = v
		}
	}
	return out
}

// ReplaceLabel: every voxel with label from becomes to; returns the number of such voxels.
func ReplaceLabel(a []uint64, from, to uint64) ([]uint64, uint64) {
	out := make([]uint64, len(a))
	var n uint64
	for i, v := range a {
		if v == from {
			out[i] = to
			n++
		} else {
			out[i] = v
		}
	}
	return out, n
}

// ReplaceLabels applies mapping simultaneously (each voxel is looked up once).
// The bool tells whether some voxel carried a label that is a key of the mapping.
func ReplaceLabels(a []uint64, mapping map[uint64]uint64) ([]uint64, bool) {
	out := make([]uint64, len(a))
	any := false
	for i, v := range a {
		if r, ok := mapping[v]; ok {
			out[i] = r
			any = true
		} else {
			out[i] = v
		}
	}
	return out, any
}

// ---- runs

// Run is a run of Len voxels along X starting at (X,Y,Z).
type Run struct {
	X   int32 `json:"x"`
	Y   int32 `json:"y"`
	Z   int32 `json:"z"`
	Len int32 `json:"len"`
}

// SanitizeRuns clips runs to the array (block-local coordinates), drops empty ones and
// removes overlaps (a later run loses the voxels an earlier one already covers).
func SanitizeRuns(d Dims, runs []Run) []Run {
	occ := make([]bool, d.N())
	var out []Run
	for _, r := range runs {
		if r.Y < 0 || int(r.Y) >= d[1] || r.Z < 0 || int(r.Z) >= d[2] {
			continue
		}
		x0, x1 := int(r.X), int(r.X)+int(r.Len) // [x0,x1)
		if x0 < 0 {
			x0 = 0
		}
		if x1 > d[0] {
			x1 = d[0]
		}
		start := -1
		for x := x0; x <= x1; x++ {
			free := x < x1 && !occ[d.Idx(x, int(r.Y), int(r.Z))]
			if free {
				occ[d.Idx(x, int(r.Y), int(r.Z))] = true
				if start < 0 {
					start = x
				}
			} else if start >= 0 {
				out = append(out, Run{int32(start), r.Y, r.Z, int32(x - start)})
				start = -1
			}
		}
	}
	return out
}

// RunMask rasterises block-local runs (which must lie inside the array).
func RunMask(d Dims, runs []Run) []bool {
	m := make([]bool, d.N())
	for _, r := range runs {
		for k := 0; k < int(r.Len); k++ {
			m[d.Idx(int(r.X)+k, int(r.Y), int(r.Z))] = true
		}
	}
	return m
}

// RunsCrossSubBlock reports whether some run covers voxels of two different sub-blocks.
func RunsCrossSubBlock(runs []Run) bool {
	for _, r := range runs {
		if r.Len > 0 && r.X/8 != (r.X+r.Len-1)/8 {
			return true
		}
	}
	return false
}

// MaskOf marks the voxels whose label is in sel.
func MaskOf(a []uint64, sel map[uint64]bool) []bool {
	m := make([]bool, len(a))
	for i, v := range a {
		m[i] = sel[v]
	}
	return m
}

// RunsOfMask returns the maximal runs along X of a mask, in (z,y,x) order.
func RunsOfMask(d Dims, m []bool) []Run {
	var out []Run
	for z := 0; z < d[2]; z++ {
		for y := 0; y < d[1]; y++ {
			start := -1
			for x := 0; x <= d[0]; x++ {
				in := x < d[0] && m[d.Idx(x, y, z)]
				if in && start < 0 {
					start = x
				} else if !in && start >= 0 {
					out = append(out, Run{int32(start), int32(y), int32(z), int32(x - start)})
					start = -1
				}
			}
		}
	}
	return out
}

// ---- voxel level splits; mask = voxels covered by the split's sparse volume

// SplitLabel: voxels of target under the mask become newLabel.  kept = target voxels that
// remain, split = voxels relabelled.
func SplitLabel(a []uint64, mask []bool, target, newLabel uint64) (out []uint64, kept, split uint64) {
	out = make([]uint64, len(a))
	for i, v := range a {
		out[i] = v
		if v == target {
			if mask[i] {
				out[i] = newLabel
				split++
			} else {
				kept++
			}
		}
	}
	return
}

// SplitSupervoxel: voxels of sv under the mask become splitLabel, all other voxels of sv become remainLabel.
func SplitSupervoxel(a []uint64, mask []bool, sv, splitLabel, remainLabel uint64) (out []uint64, kept, split uint64) {
	out = make([]uint64, len(a))
	for i, v := range a {
		out[i] = v
		if v == sv {
			if mask[i] {
				out[i] = splitLabel
				split++
			} else {
				out[i] = remainLabel
				kept++
			}
		}
	}
	return
}

// SplitPair is (split label, remain label) of one supervoxel.
type SplitPair struct {
	Split  uint64 `json:"split"`
	Remain uint64 `json:"remain"`
}

// SplitSupervoxels: every voxel whose label is a key of sv becomes its Split label under the
// mask and its Remain label elsewhere.
func SplitSupervoxels(a []uint64, mask []bool, sv map[uint64]SplitPair) []uint64 {
	out := make([]uint64, len(a))
	for i, v := range a {
		out[i] = v
		if p, ok := sv[v]; ok {
			if mask[i] {
				out[i] = p.Split
			} else {
				out[i] = p.Remain
			}
		}
	}
	return out
}

// SplitStats counts, per non-zero label, the voxels under the mask.
func SplitStats(a []uint64, mask []bool) map[uint64]uint32 {
	m := map[uint64]uint32{}
	for i, v := range a {
		if mask[i] && v != 0 {
			m[v]++
		}
	}
	return m
}

// ---- down-sampling

// Vote8 is the documented 2x2x2 vote of downresArray / DownresLabels: label 0 does not vote,
// the most frequent label wins, ties go to the numerically smaller label, no votes give 0.
func Vote8(v [8]uint64) uint64 {
	var winner uint64
	best := 0
	for i := 0; i < 8; i++ {
		if v[i] == 0 {
			continue
		}
		n := 0
		for j := 0; j < 8; j++ {
			if v[j] == v[i] {
				n++
			}
		}
		if n > best || (n == best && v[i] < winner) {
			best = n
			winner = v[i]
		}
	}
	return winner
}

// Downres halves an array with even dimensions.
func Downres(hi []uint64, d Dims) ([]uint64, Dims) {
	ld := Dims{d[0] / 2, d[1] / 2, d[2] / 2}
	lo := make([]uint64, ld.N())
	for z := 0; z < ld[2]; z++ {
		for y := 0; y < ld[1]; y++ {
			for x := 0; x < ld[0]; x++ {
				var v [8]uint64
				n := 0
				for iz := 0; iz < 2; iz++ {
					for iy := 0; iy < 2; iy++ {
						for ix := 0; ix < 2; ix++ {
							v[n] = hi[d.Idx(2*x+ix, 2*y+iy, 2*z+iz)]
							n++
						}
					}
				}
				lo[ld.Idx(x, y, z)] = Vote8(v)
			}
		}
	}
	return lo, ld
}

// OctantOffset gives the voxel offset of octant oct (bit0=x, bit1=y, bit2=z) within a block of size d.
func OctantOffset(d Dims, oct int) [3]int {
	return [3]int{(oct & 1) * d[0] / 2, ((oct >> 1) & 1) * d[1] / 2, ((oct >> 2) & 1) * d[2] / 2}
}

// DownresInto writes the half-resolution version of hi (size d) into octant oct of lo (size d).
func DownresInto(lo []uint64, d Dims, oct int, hi []uint64) {
	h, ld := Downres(hi, d)
	off := OctantOffset(d, oct)
	for z := 0; z < ld[2]; z++ {
		for y := 0; y < ld[1]; y++ {
			for x := 0; x < ld[0]; x++ {
				lo[d.Idx(x+off[0], y+off[1], z+off[2])] = h[ld.Idx(x, y, z)]
			}
		}
	}
}

// InOctant tells whether array position i of a block of size d lies in octant oct.
func InOctant(d Dims, i int, oct int) bool {
	x := i % d[0]
	y := (i / d[0]) % d[1]
	z := i / (d[0] * d[1])
	o := 0
	if x >= d[0]/2 {
		o |= 1
	}
	if y >= d[1]/2 {
		o |= 2
	}
	if z >= d[2]/2 {
		o |= 4
	}
	return o == oct
}

// ---- deterministic block contents from a few drawn values

// BlockSpec describes the content of a label array built per 8x8x8 sub-block.  Build is a
// pure function of the spec, so a spec drawn by the test generator fully determines the array.
type BlockSpec struct {
	G    [3]int `json:"g"`    // sub-blocks per axis; array size is 8*G
	Kind string `json:"kind"` // mixed | some-solid | solid | zero | two-in-one
	Seed uint64 `json:"seed"`
	// mixed / some-solid:
	KList    []int  `json:"klist,omitempty"`     // every sub-block gets k = one of these distinct-label counts
	SolidPct int    `json:"solid_pct,omitempty"` // some-solid: percentage of sub-blocks forced to k=1
	Fill     string `json:"fill,omitempty"`      // random | runs
	Specials uint8  `json:"specials,omitempty"`  // bit i selects SpecialLabels[i] into the block's label table
	Base     uint64 `json:"base,omitempty"`      // the rest of the table is Base, Base+1, ... (wrapping)
	Extra    int    `json:"extra,omitempty"`     // table size = max(KList)+Extra; small Extra = sub-blocks share labels
	// solid / two-in-one:
	LabelA uint64 `json:"label_a,omitempty"`
	LabelB uint64 `json:"label_b,omitempty"`
}

// SpecialLabels are the boundary values mixed into label tables.
var SpecialLabels = []uint64{0, 1<<32 - 1, 1 << 32, 1<<32 + 1, 1 << 63, 1<<64 - 1, 1, 1<<53 - 1}

// Dims is the array size of the spec.
func (s BlockSpec) Dims() Dims { return Dims{8 * s.G[0], 8 * s.G[1], 8 * s.G[2]} }

// XorShift is the generator used to expand drawn seeds.
func XorShift(s *uint64) uint64 {
	x := *s
	if x == 0 {
		x = 0x9E3779B97F4A7C15
	}
	x ^= x << 13
	x ^= x >> 7
	x ^= x << 17
	*s = x
	return x
}

// Table returns the label table of a mixed spec: selected specials, then Base, Base+1, ... without repeats.
func (s BlockSpec) Table() []uint64 {
	maxk := 1
	for _, k := range s.KList {
		if k > maxk {
			maxk = k
		}
	}
	t := maxk + s.Extra
	seen := map[uint64]bool{}
	var tab []uint64
	for i, l := range SpecialLabels {
		if s.Specials&(1<<uint(i)) != 0 && len(tab) < t && !seen[l] {
			tab = append(tab, l)
			seen[l] = true
		}
	}
	for v := s.Base; len(tab) < t; v++ {
		if !seen[v] {
			tab = append(tab, v)
			seen[v] = true
		}
	}
	// rotate so that the specials are not always taken by the same windows
	r := int(s.Seed % uint64(len(tab)))
	return append(append([]uint64(nil), tab[r:]...), tab[:r]...)
}

// Build produces the array.
func (s BlockSpec) Build() []uint64 {
	d := s.Dims()
	out := make([]uint64, d.N())
	switch s.Kind {
	case "zero":
		return out
	case "solid":
		for i := range out {
			out[i] = s.LabelA
		}
		return out
	case "two-in-one":
		for i := range out {
			out[i] = s.LabelA
		}
		seed := s.Seed
		nsb := s.G[0] * s.G[1] * s.G[2]
		sb := int(XorShift(&seed) % uint64(nsb))
		axis := int(XorShift(&seed) % 3)
		cut := 1 + int(XorShift(&seed)%7)
		sx, sy, sz := sb%s.G[0], (sb/s.G[0])%s.G[1], sb/(s.G[0]*s.G[1])
		for z := 0; z < 8; z++ {
			for y := 0; y < 8; y++ {
				for x := 0; x < 8; x++ {
					c := [3]int{x, y, z}
					if c[axis] >= cut {
						out[d.Idx(sx*8+x, sy*8+y, sz*8+z)] = s.LabelB
					}
				}
			}
		}
		return out
	}
	tab := s.Table()
	T := len(tab)
	klist := s.KList
	if len(klist) == 0 {
		klist = []int{1}
	}
	var idx [512]int
	sb := 0
	for sz := 0; sz < s.G[2]; sz++ {
		for sy := 0; sy < s.G[1]; sy++ {
			for sx := 0; sx < s.G[0]; sx++ {
				seed := s.Seed ^ (uint64(sb+1) * 0x9E3779B97F4A7C15)
				XorShift(&seed)
				k := klist[int(XorShift(&seed)%uint64(len(klist)))]
				if s.Kind == "some-solid" && int(XorShift(&seed)%100) < s.SolidPct {
					k = 1
				}
				if k < 1 {
					k = 1
				}
				if k > 512 {
					k = 512
				}
				if k > T {
					k = T
				}
				start := int(XorShift(&seed) % uint64(T))
				// fill
				if s.Fill == "runs" {
					i := 0
					for i < 512 {
						v := XorShift(&seed)
						n := 1 + int((v>>16)%24)
						l := int(v % uint64(k))
						for j := 0; j < n && i < 512; j++ {
							idx[i] = l
							i++
						}
					}
				} else {
					for i := 0; i < 512; i++ {
						idx[i] = int(XorShift(&seed) % uint64(k))
					}
				}
				// force every one of the k labels to appear: positions (a*i+b) mod 512 with a odd are distinct
				a := int(XorShift(&seed)%512) | 1
				b := int(XorShift(&seed) % 512)
				for i := 0; i < k; i++ {
					idx[(a*i+b)%512] = i
				}
				for z := 0; z < 8; z++ {
					for y := 0; y < 8; y++ {
						for x := 0; x < 8; x++ {
							out[d.Idx(sx*8+x, sy*8+y, sz*8+z)] = tab[(start+idx[(z*8+y)*8+x])%T]
						}
					}
				}
				sb++
			}
		}
	}
	return out
}
