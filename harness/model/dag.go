// Package model holds the reference models (pure Go).
package model

import "sort"

// DAG is a version graph: node i has Parents[i] (indices < i); node 0 is the root.
type DAG struct {
	Parents [][]int
}

func (d *DAG) N() int { return len(d.Parents) }

// Add appends a node and returns its index.
func (d *DAG) Add(parents ...int) int {
	d.Parents = append(d.Parents, append([]int(nil), parents...))
	return len(d.Parents) - 1
}

// Ancestors returns v and all its ancestors through all parents.
func (d *DAG) Ancestors(v int) map[int]bool {
	out := map[int]bool{}
	var walk func(int)
	walk = func(u int) {
		if out[u] {
			return
		}
		out[u] = true
		for _, p := range d.Parents[u] {
			walk(p)
		}
	}
	walk(v)
	return out
}

// IsAncestor reports whether a is a proper ancestor of b.
func (d *DAG) IsAncestor(a, b int) bool {
	return a != b && d.Ancestors(b)[a]
}

// Children returns the child lists.
func (d *DAG) Children() [][]int {
	ch := make([][]int, d.N())
	for i, ps := range d.Parents {
		for _, p := range ps {
			ch[p] = append(ch[p], i)
		}
	}
	return ch
}

// Entry kinds for one datum at one version.
const (
	None      = 0
	Value     = 1
	Tombstone = 2
)

// Resolution kinds.
const (
	Absent   = "absent"
	Found    = "found"
	Conflict = "conflict"
)

// Resolve is the reference resolver of C01: among the entries at v and its ancestors keep the maximal ones
// (no other entry at a proper descendant that is itself an ancestor-or-self of v); no live maximal entry ->
// Absent; exactly one -> Found at that node; two or more -> Conflict (the read must not succeed with a value).
func (d *DAG) Resolve(entries []int, v int) (kind string, at int, frontier []int) {
	anc := d.Ancestors(v)
	var withEntry []int
	for u := range anc {
		if u < len(entries) && entries[u] != None {
			withEntry = append(withEntry, u)
		}
	}
	sort.Ints(withEntry)
	for _, u := range withEntry {
		superseded := false
		for _, w := range withEntry {
			if w != u && d.IsAncestor(u, w) {
				superseded = true
				break
			}
		}
		if !superseded {
			frontier = append(frontier, u)
		}
	}
	var live []int
	for _, u := range frontier {
		if entries[u] == Value {
			live = append(live, u)
		}
	}
	switch len(live) {
	case 0:
		return Absent, -1, frontier
	case 1:
		return Found, live[0], frontier
	}
	return Conflict, -1, frontier
}
