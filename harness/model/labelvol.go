package model

import "sort"

// LabelGeom is the voxel extent covered by the model: a grid of NB blocks of edge B starting at block OB.
type LabelGeom struct {
	B  int32    // block edge in voxels (cubic)
	OB [3]int32 // origin in block coordinates
	NB [3]int32 // number of blocks per axis
}

func (g LabelGeom) Size() [3]int32   { return [3]int32{g.NB[0] * g.B, g.NB[1] * g.B, g.NB[2] * g.B} }
func (g LabelGeom) Offset() [3]int32 { return [3]int32{g.OB[0] * g.B, g.OB[1] * g.B, g.OB[2] * g.B} }
func (g LabelGeom) NVox() int {
	s := g.Size()
	return int(s[0]) * int(s[1]) * int(s[2])
}

// Idx maps an absolute voxel coordinate to the array index (ZYX order, X fastest); ok=false outside.
func (g LabelGeom) Idx(x, y, z int32) (int, bool) {
	o, s := g.Offset(), g.Size()
	x, y, z = x-o[0], y-o[1], z-o[2]
	if x < 0 || y < 0 || z < 0 || x >= s[0] || y >= s[1] || z >= s[2] {
		return 0, false
	}
	return int(z)*int(s[1])*int(s[0]) + int(y)*int(s[0]) + int(x), true
}

// Coord is the inverse of Idx.
func (g LabelGeom) Coord(i int) (x, y, z int32) {
	o, s := g.Offset(), g.Size()
	x = int32(i%int(s[0])) + o[0]
	y = int32((i/int(s[0]))%int(s[1])) + o[1]
	z = int32(i/(int(s[0])*int(s[1]))) + o[2]
	return
}

// BlockOf returns the absolute block coordinate of a voxel index.
func (g LabelGeom) BlockOf(i int) [3]int32 {
	x, y, z := g.Coord(i)
	return [3]int32{floorDiv(x, g.B), floorDiv(y, g.B), floorDiv(z, g.B)}
}

func floorDiv(a, b int32) int32 {
	q := a / b
	if a%b != 0 && (a < 0) != (b < 0) {
		q--
	}
	return q
}

// LabelState is the label volume at one version: stored supervoxels and the supervoxel->body mapping.
type LabelState struct {
	G   LabelGeom
	SV  []uint64          // stored voxels (supervoxel ids), 0 = background / unwritten
	Wr  map[[3]int32]bool // blocks that were ever written at or above this version
	Map map[uint64]uint64 // non-identity supervoxel -> body entries
}

func NewLabelState(g LabelGeom) *LabelState {
	return &LabelState{G: g, SV: make([]uint64, g.NVox()), Wr: map[[3]int32]bool{}, Map: map[uint64]uint64{}}
}

func (s *LabelState) Clone() *LabelState {
	c := &LabelState{G: s.G, SV: append([]uint64(nil), s.SV...), Wr: map[[3]int32]bool{}, Map: map[uint64]uint64{}}
	for k, v := range s.Wr {
		c.Wr[k] = v
	}
	for k, v := range s.Map {
		c.Map[k] = v
	}
	return c
}

// Body returns the body a supervoxel maps to.
func (s *LabelState) Body(sv uint64) uint64 {
	if sv == 0 {
		return 0
	}
	if b, ok := s.Map[sv]; ok {
		return b
	}
	return sv
}

// Bodies returns body -> voxel count.
func (s *LabelState) Bodies() map[uint64]uint64 {
	out := map[uint64]uint64{}
	for _, sv := range s.SV {
		if sv != 0 {
			out[s.Body(sv)]++
		}
	}
	delete(out, 0)
	return out
}

// SVCounts returns supervoxel -> voxel count.
func (s *LabelState) SVCounts() map[uint64]uint64 {
	out := map[uint64]uint64{}
	for _, sv := range s.SV {
		if sv != 0 {
			out[sv]++
		}
	}
	return out
}

// SupervoxelsOf returns the sorted supervoxels (with >=1 voxel) of a body.
func (s *LabelState) SupervoxelsOf(body uint64) []uint64 {
	set := map[uint64]bool{}
	for _, sv := range s.SV {
		if sv != 0 && s.Body(sv) == body {
			set[sv] = true
		}
	}
	var out []uint64
	for sv := range set {
		out = append(out, sv)
	}
	sort.Slice(out, func(i, j int) bool { return out[i] < out[j] })
	return out
}

// Merge maps every supervoxel of the merged bodies to target.
func (s *LabelState) Merge(target uint64, merged []uint64) {
	m := map[uint64]bool{}
	for _, b := range merged {
		m[b] = true
	}
	for sv := range s.SVCounts() {
		if m[s.Body(sv)] {
			s.setMap(sv, target)
		}
	}
}

// Renumber renames body old to nw.
func (s *LabelState) Renumber(nw, old uint64) { s.Merge(nw, []uint64{old}) }

// Cleave moves the given supervoxels to a new body.
func (s *LabelState) Cleave(newBody uint64, svs []uint64) {
	for _, sv := range svs {
		s.setMap(sv, newBody)
	}
}

func (s *LabelState) setMap(sv, body uint64) {
	if sv == body {
		delete(s.Map, sv)
		// an explicit identity entry and no entry are indistinguishable to every read endpoint
		return
	}
	s.Map[sv] = body
}

// SplitSupervoxel relabels the voxels of sv inside the given index set to split and the remaining voxels of sv to
// remain; both new supervoxels belong to sv's body; sv itself no longer exists.
func (s *LabelState) SplitSupervoxel(sv, split, remain uint64, in map[int]bool) (nSplit, nRemain int) {
	body := s.Body(sv)
	for i, v := range s.SV {
		if v != sv {
			continue
		}
		if in[i] {
			s.SV[i] = split
			nSplit++
		} else {
			s.SV[i] = remain
			nRemain++
		}
	}
	s.setMap(split, body)
	s.setMap(remain, body)
	s.Map[sv] = 0
	return
}

// Write stores voxels (block aligned box given in absolute voxel coords); marks blocks written.
func (s *LabelState) Write(off, size [3]int32, vox []uint64) {
	k := 0
	for z := off[2]; z < off[2]+size[2]; z++ {
		for y := off[1]; y < off[1]+size[1]; y++ {
			for x := off[0]; x < off[0]+size[0]; x++ {
				if i, ok := s.G.Idx(x, y, z); ok {
					s.SV[i] = vox[k]
					s.Wr[s.G.BlockOf(i)] = true
				}
				k++
			}
		}
	}
}
