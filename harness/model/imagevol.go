package model

// ImageVol is the reference model of C17: a sparse, versioned voxel volume.
// Every version holds the blocks written at that version; a block written at a
// version is visible at its descendants unless written again there.  The
// version graph is a tree (every node has at most one parent), which is all
// C17 needs: version resolution through merges is C01's subject.
type ImageVol struct {
	DAG    *DAG
	BS     [3]int32 // block size in voxels
	BPV    int      // bytes per voxel
	Bg     []byte   // one background voxel (BPV bytes)
	Blocks []map[[3]int32][]byte
}

// NewImageVol returns a model with a single root version and nothing written.
func NewImageVol(bs [3]int32, bpv int, bg []byte) *ImageVol {
	m := &ImageVol{DAG: &DAG{}, BS: bs, BPV: bpv, Bg: append([]byte(nil), bg...)}
	m.DAG.Add()
	m.Blocks = []map[[3]int32][]byte{{}}
	return m
}

// AddVersion adds a child of parent and returns its index.
func (m *ImageVol) AddVersion(parent int) int {
	m.Blocks = append(m.Blocks, map[[3]int32][]byte{})
	return m.DAG.Add(parent)
}

// FloorDiv is the mathematical floor of a/b for b > 0.
func FloorDiv(a, b int32) int32 {
	q := a / b
	if a%b != 0 && a < 0 {
		q--
	}
	return q
}

// BlockOf returns the coordinate of the block holding voxel p.
func (m *ImageVol) BlockOf(p [3]int32) [3]int32 {
	return [3]int32{FloorDiv(p[0], m.BS[0]), FloorDiv(p[1], m.BS[1]), FloorDiv(p[2], m.BS[2])}
}

// BlockBytes is the size of one stored block.
func (m *ImageVol) BlockBytes() int {
	return int(m.BS[0]) * int(m.BS[1]) * int(m.BS[2]) * m.BPV
}

// Block returns the block visible at version v (nil if never written at v or an ancestor)
// and the version that wrote it.
func (m *ImageVol) Block(v int, c [3]int32) ([]byte, int) {
	for {
		if b, ok := m.Blocks[v][c]; ok {
			return b, v
		}
		ps := m.DAG.Parents[v]
		if len(ps) == 0 {
			return nil, -1
		}
		v = ps[0]
	}
}

// Written reports whether block c is visible at version v.
func (m *ImageVol) Written(v int, c [3]int32) bool {
	b, _ := m.Block(v, c)
	return b != nil
}

// BackgroundBlock returns a block filled with the background voxel.
func (m *ImageVol) BackgroundBlock() []byte {
	out := make([]byte, m.BlockBytes())
	for i := 0; i < len(out); i += m.BPV {
		copy(out[i:i+m.BPV], m.Bg)
	}
	return out
}

// WriteBox stores a block-aligned box (offset and size in voxels, data x-fastest) at version v.  Only
// blocks for which keep returns true (nil = all) are changed.  It returns the coordinates written.
func (m *ImageVol) WriteBox(v int, off, size [3]int32, data []byte, keep func(c [3]int32) bool) [][3]int32 {
	var out [][3]int32
	nb := [3]int32{size[0] / m.BS[0], size[1] / m.BS[1], size[2] / m.BS[2]}
	b0 := m.BlockOf(off)
	rowBytes := int(m.BS[0]) * m.BPV
	for bz := int32(0); bz < nb[2]; bz++ {
		for by := int32(0); by < nb[1]; by++ {
			for bx := int32(0); bx < nb[0]; bx++ {
				c := [3]int32{b0[0] + bx, b0[1] + by, b0[2] + bz}
				if keep != nil && !keep(c) {
					continue
				}
				blk := make([]byte, m.BlockBytes())
				for z := int32(0); z < m.BS[2]; z++ {
					for y := int32(0); y < m.BS[1]; y++ {
						// position of the row start inside data
						dz, dy, dx := int(bz*m.BS[2]+z), int(by*m.BS[1]+y), int(bx*m.BS[0])
						di := ((dz*int(size[1])+dy)*int(size[0]) + dx) * m.BPV
						bi := (int(z)*int(m.BS[1]) + int(y)) * rowBytes
						copy(blk[bi:bi+rowBytes], data[di:di+rowBytes])
					}
				}
				m.Blocks[v][c] = blk
				out = append(out, c)
			}
		}
	}
	return out
}

// Voxel returns the BPV bytes of voxel p at version v and whether it lies in a written block.
func (m *ImageVol) Voxel(v int, p [3]int32) ([]byte, bool) {
	c := m.BlockOf(p)
	b, _ := m.Block(v, c)
	if b == nil {
		return m.Bg, false
	}
	x, y, z := int(p[0]-c[0]*m.BS[0]), int(p[1]-c[1]*m.BS[1]), int(p[2]-c[2]*m.BS[2])
	i := ((z*int(m.BS[1])+y)*int(m.BS[0]) + x) * m.BPV
	return b[i : i+m.BPV], true
}

// ReadBox returns the expected bytes (x fastest, then y, then z) of the voxel box at version v and a
// parallel mask telling which voxels lie in written blocks.
func (m *ImageVol) ReadBox(v int, off, size [3]int32) (data []byte, written []bool) {
	n := int(size[0]) * int(size[1]) * int(size[2])
	data = make([]byte, n*m.BPV)
	written = make([]bool, n)
	i := 0
	var lastC [3]int32
	var lastB []byte
	have := false
	for z := int32(0); z < size[2]; z++ {
		for y := int32(0); y < size[1]; y++ {
			for x := int32(0); x < size[0]; x++ {
				p := [3]int32{off[0] + x, off[1] + y, off[2] + z}
				c := m.BlockOf(p)
				if !have || c != lastC {
					lastC, have = c, true
					lastB, _ = m.Block(v, c)
				}
				if lastB == nil {
					copy(data[i*m.BPV:(i+1)*m.BPV], m.Bg)
				} else {
					bx, by, bz := int(p[0]-c[0]*m.BS[0]), int(p[1]-c[1]*m.BS[1]), int(p[2]-c[2]*m.BS[2])
					j := ((bz*int(m.BS[1])+by)*int(m.BS[0]) + bx) * m.BPV
					copy(data[i*m.BPV:(i+1)*m.BPV], lastB[j:j+m.BPV])
					written[i] = true
				}
				i++
			}
		}
	}
	return
}

// VisibleBlocks returns the coordinates of all blocks visible at version v.
func (m *ImageVol) VisibleBlocks(v int) map[[3]int32]bool {
	out := map[[3]int32]bool{}
	for u := range m.DAG.Ancestors(v) {
		for c := range m.Blocks[u] {
			out[c] = true
		}
	}
	return out
}

// Bounds returns the voxel bounding box (inclusive) of everything visible at version v.
func (m *ImageVol) Bounds(v int) (min, max [3]int32, ok bool) {
	for c := range m.VisibleBlocks(v) {
		for a := 0; a < 3; a++ {
			lo, hi := c[a]*m.BS[a], (c[a]+1)*m.BS[a]-1
			if !ok || lo < min[a] {
				min[a] = lo
			}
			if !ok || hi > max[a] {
				max[a] = hi
			}
		}
		ok = true
	}
	return
}
