module verif

go 1.23.0

require (
	github.com/janelia-flyem/dvid v0.0.0
	pgregory.net/rapid v1.3.0
)

require (
	github.com/golang/snappy v0.0.4 // indirect
	github.com/janelia-flyem/go v0.0.0-20180718195536-d388bdc31871 // indirect
	github.com/natefinch/lumberjack v2.0.0+incompatible // indirect
	github.com/twinj/uuid v1.0.0 // indirect
)

replace github.com/janelia-flyem/dvid => /repo
