// C11 — concurrent acknowledged mutations are never lost or half applied.
//
// The harness owns the schedule: drive.RunScheduled parks every request goroutine at the yield points that the
// verif build adds between the read and the write of the repository's read-modify-write sequences and releases
// them one at a time in an order drawn by rapid.  Oracle: the settled, normalised final state (and the
// acknowledgement pattern) of the concurrent run must equal that of SOME sequential order of the same requests
// on an identically prepared fresh repo (the sequential behaviour of the real server is the reference; it is
// validated by the other properties), and the final state must be self consistent (no derived index disagrees
// with its primary data).
package c11

import (
	"encoding/base64"
	"encoding/json"
	"fmt"
	"os"
	"sort"
	"strings"
	"sync"
	"testing"
	"time"

	"pgregory.net/rapid"

	"verif/drive"
	"verif/stats"
)

func TestMain(m *testing.M) {
	drive.Open()
	rc := m.Run()
	drive.Close()
	stats.Flush()
	os.Exit(rc)
}

// ------------------------------------------------------------------ case

// reqSpec is one request.  Path placeholders: {root}, {n0} (= root), {n1}... (nodes created by the setup, in
// creation order).
type reqSpec struct {
	Kind string `json:"kind,omitempty"` // "" = HTTP request; "ingest" = POST the fixed label layout into lm; "mutate" = POST raw?mutate=true of one block (Body = mutateSpec JSON)
	M    string `json:"m,omitempty"`
	Path string `json:"path,omitempty"`
	Body string `json:"body,omitempty"`
	B64  bool   `json:"b64,omitempty"` // Body is base64 (binary payload)
}

func (r reqSpec) String() string {
	if r.Kind != "" {
		return r.Kind + " " + r.Body
	}
	b := r.Body
	if r.B64 {
		b = fmt.Sprintf("<%d base64 chars>", len(b))
	} else if len(b) > 160 {
		b = b[:160] + "..."
	}
	return r.M + " " + r.Path + " " + b
}

type universe struct {
	Keys   []string `json:"keys,omitempty"` // keyvalue keys / neuronjson body ids probed by the snapshot
	Tags   []string `json:"tags,omitempty"` // annotation tags probed
	Synced bool     `json:"synced,omitempty"`
}

type c11Case struct {
	Family    string    `json:"family"`
	Shape     string    `json:"shape"`           // base shape: names the shared target of the first two requests
	Third     string    `json:"third,omitempty"` // what the optional third request is
	Pre       []reqSpec `json:"pre"`             // deterministic sequential setup on a fresh repo (must succeed)
	Reqs      []reqSpec `json:"reqs"`            // the 2..3 concurrent requests
	U         universe  `json:"u"`
	Mode      string    `json:"mode"`       // "sched" (harness-owned schedule) | "free" (plain goroutines, secondary)
	SchedKind string    `json:"sched_kind"` // how the schedule was drawn (class label only)
	Schedule  []int     `json:"schedule"`
	BG        bool      `json:"bg"` // background goroutines (sync handlers) are scheduled too
}

// ------------------------------------------------------------------ environment

type env struct {
	c      *c11Case
	root   string
	nodes  []string
	mu     sync.Mutex
	panics []string
}

func (e *env) resolve(p string) string {
	p = strings.ReplaceAll(p, "{root}", e.root)
	for i := len(e.nodes) - 1; i >= 0; i-- {
		p = strings.ReplaceAll(p, fmt.Sprintf("{n%d}", i), e.nodes[i])
	}
	return p
}

func endpointOf(path string) string {
	// node/<uuid>/<inst>/<endpoint>/...  or node/<uuid>/<cmd> or repo/<uuid>/<cmd>
	parts := strings.Split(strings.SplitN(path, "?", 2)[0], "/")
	if len(parts) >= 4 && parts[0] == "node" {
		return parts[2] + "." + parts[3]
	}
	if len(parts) >= 3 {
		return parts[0] + "." + parts[2]
	}
	return path
}

func (e *env) note(r drive.Resp, method, path string) drive.Resp {
	if r.IsPanic() {
		e.mu.Lock()
		e.panics = append(e.panics, method+" "+endpointOf(path)+"|"+r.String())
		e.mu.Unlock()
	}
	return r
}

func (e *env) do(s reqSpec) drive.Resp {
	if s.Kind == "ingest" {
		r := e.note(lm().PostRaw(e.nodes[0], volOff, volSize, layoutVolume(), false), "POST", "node/x/lm/raw")
		if !r.OK() {
			return r
		}
		// the label indices are built in the background: give the server time until every supervoxel is listed
		// (waiting only ever helps the server; a setup that never completes is a harness error, not a verdict)
		ready := func() bool {
			ll, _, rr := lm().ListLabels(e.nodes[0])
			if !rr.OK() || len(ll) != nSV {
				return false
			}
			for _, sz := range ll {
				if sz != uint64(slab*32*32) {
					return false
				}
			}
			return true
		}
		drive.Settle(e.root)
		for i := 0; i < 400 && !ready(); i++ {
			time.Sleep(time.Millisecond)
			drive.Settle(e.root)
		}
		if !ready() {
			drive.DeepSettle(e.root)
			if !ready() {
				return drive.Resp{Code: -2, Body: []byte("label indices not complete after ingest + deep settle")}
			}
		}
		return r
	}
	if s.Kind == "mutate" {
		var m mutateSpec
		if err := json.Unmarshal([]byte(s.Body), &m); err != nil {
			return drive.Resp{Code: -2, Body: []byte("bad mutate spec: " + err.Error())}
		}
		off, size, vox := m.volume()
		return e.note(lm().PostRaw(e.nodes[0], off, size, vox, true), "POST", "node/x/lm/raw")
	}
	var body []byte
	if s.B64 {
		body, _ = base64.StdEncoding.DecodeString(s.Body)
	} else {
		body = []byte(e.resolve(s.Body)) // node placeholders may appear in JSON bodies (merge parents)
	}
	return e.note(drive.Do(s.M, e.resolve(s.Path), body), s.M, s.Path)
}

func (e *env) get(path string) drive.Resp {
	return e.note(drive.Get(e.resolve(path)), "GET", path)
}

func (e *env) getBody(path string, body []byte) drive.Resp {
	return e.note(drive.Do("GET", e.resolve(path), body), "GET", path)
}

func (e *env) panicViolation() error {
	e.mu.Lock()
	defer e.mu.Unlock()
	if len(e.panics) == 0 {
		return nil
	}
	p := strings.SplitN(e.panics[0], "|", 2)
	ep := strings.Fields(p[0])
	return stats.Violf("C11/"+ep[len(ep)-1]+"/panic", "%s -> %s (family %s shape %s)", p[0], p[1], e.c.Family, e.c.Shape)
}

// newEnv creates a fresh repo and runs the setup sequentially.
func newEnv(c *c11Case) (*env, error) {
	root, err := drive.NewRepo()
	if err != nil {
		return nil, err
	}
	e := &env{c: c, root: root, nodes: []string{root}}
	heavy := c.Family == "labelmap" || c.Family == "annotation"
	for i, s := range c.Pre {
		r := e.do(s)
		if !r.OK() {
			if v := e.panicViolation(); v != nil {
				return nil, v
			}
			return nil, fmt.Errorf("setup step %d (%s) refused: %s", i, s, r)
		}
		var out struct{ Child string }
		if json.Unmarshal(r.Body, &out) == nil && out.Child != "" {
			e.nodes = append(e.nodes, out.Child)
		}
		if heavy {
			drive.Settle(root)
		}
	}
	drive.Settle(root)
	return e, nil
}

// ------------------------------------------------------------------ outcomes

type outcome struct {
	Order []int // request indices in execution order (sequential runs); nil for the concurrent run
	OK    []bool
	Resp  []string
	F     map[string]string
	Cons  error // consistency violation of F (nil = consistent)
	Sched drive.SchedResult
	e     *env
}

func (o *outcome) acks() string {
	var sb strings.Builder
	for _, ok := range o.OK {
		if ok {
			sb.WriteByte('A')
		} else {
			sb.WriteByte('r')
		}
	}
	return sb.String()
}

func clip(s string, n int) string {
	if len(s) > n {
		return s[:n] + "..."
	}
	return s
}

// observe settles and takes the normalised snapshot + consistency verdict (re-evaluated after a deep settle
// when inconsistent, so asynchronous lag can never raise an alarm).
func (e *env) observe() (map[string]string, error, error) {
	var F map[string]string
	var cons, herr error
	_ = drive.WithDeepRetry(e.root, func() error {
		F, cons, herr = snapshot(e)
		if herr != nil {
			return nil
		}
		return cons
	})
	return F, cons, herr
}

func runSequential(c *c11Case, order []int) (*outcome, error) {
	e, err := newEnv(c)
	if err != nil {
		return nil, err
	}
	o := &outcome{Order: order, OK: make([]bool, len(c.Reqs)), Resp: make([]string, len(c.Reqs)), e: e}
	for i := range o.Resp {
		o.Resp[i] = "(not issued)"
	}
	for _, i := range order {
		r := e.do(c.Reqs[i])
		o.OK[i] = r.OK()
		o.Resp[i] = clip(r.String(), 200)
		drive.Settle(e.root)
	}
	if v := e.panicViolation(); v != nil {
		return nil, v
	}
	var herr error
	o.F, o.Cons, herr = e.observe()
	if herr != nil {
		return nil, herr
	}
	if v := e.panicViolation(); v != nil {
		return nil, v
	}
	return o, nil
}

func runConcurrent(c *c11Case) (*outcome, error) {
	e, err := newEnv(c)
	if err != nil {
		return nil, err
	}
	n := len(c.Reqs)
	o := &outcome{OK: make([]bool, n), Resp: make([]string, n), e: e}
	fns := make([]func(), n)
	for i := range c.Reqs {
		i := i
		fns[i] = func() {
			r := e.do(c.Reqs[i])
			o.OK[i] = r.OK()
			o.Resp[i] = clip(r.String(), 200)
		}
	}
	if c.Mode == "free" {
		drive.RunFree(fns)
	} else {
		opts := drive.SchedOpts{ControlBackground: c.BG}
		if c.BG {
			opts.Idle = drive.RepoIdle(e.root)
		}
		if c.Family == "labelmap" || c.Family == "annotation" {
			// label mutations append records (header, then payload) to the instance's mutation log: park there too
			opts.ExtraSites = []string{"filelog.Append:"}
		}
		o.Sched = drive.RunScheduled(fns, c.Schedule, opts)
		if o.Sched.Stuck {
			// nothing of the harness holds the request goroutines any more (parking is disabled, everything was
			// released): they wait for each other inside the code under test
			return nil, stats.Violf("C11/"+c.Family+"/"+c.Shape+"/wedged", "the requests never returned although the scheduler released every parked goroutine and stopped parking: deadlock in the code under test; trace: %s", o.Sched.TraceString())
		}
		if o.Sched.TimedOut {
			return nil, fmt.Errorf("scheduler watchdog fired (requests did not finish within the bound under schedule control); trace: %s", o.Sched.TraceString())
		}
	}
	drive.Settle(e.root)
	if v := e.panicViolation(); v != nil {
		return nil, v
	}
	var herr error
	o.F, o.Cons, herr = e.observe()
	if herr != nil {
		return nil, herr
	}
	if v := e.panicViolation(); v != nil {
		return nil, v
	}
	return o, nil
}

func permutations(xs []int) [][]int {
	if len(xs) <= 1 {
		return [][]int{append([]int(nil), xs...)}
	}
	var out [][]int
	for i := range xs {
		rest := append(append([]int(nil), xs[:i]...), xs[i+1:]...)
		for _, p := range permutations(rest) {
			out = append(out, append([]int{xs[i]}, p...))
		}
	}
	return out
}

func diffF(a, b map[string]string) []string {
	keys := map[string]bool{}
	for k := range a {
		keys[k] = true
	}
	for k := range b {
		keys[k] = true
	}
	var ks []string
	for k := range keys {
		if a[k] != b[k] {
			ks = append(ks, k)
		}
	}
	sort.Strings(ks)
	var out []string
	for _, k := range ks {
		av, aok := a[k]
		bv, bok := b[k]
		if !aok {
			av = "<absent>"
		}
		if !bok {
			bv = "<absent>"
		}
		out = append(out, fmt.Sprintf("%s: concurrent=%s sequential=%s", k, clip(av, 300), clip(bv, 300)))
	}
	return out
}

// sequential reference results are a function of (family, setup, requests, universe) only: cache them per process
var seqCache = map[uint64][]*outcome{}
var seqCacheOrder []uint64

func sequentialOutcomes(c *c11Case, conc *outcome) ([]*outcome, error) {
	n := len(c.Reqs)
	all := make([]int, n)
	for i := range all {
		all[i] = i
	}
	var acked []int
	for i, ok := range conc.OK {
		if ok {
			acked = append(acked, i)
		}
	}
	orders := permutations(all)
	if len(acked) < n && len(acked) > 0 {
		// a refused request protects nothing: the acknowledged ones alone must also be an acceptable explanation
		orders = append(orders, permutations(acked)...)
	}
	if len(acked) == 0 {
		orders = append(orders, []int{})
	}
	var out []*outcome
	for _, ord := range orders {
		key := stats.HashJSON(struct {
			F string
			P []reqSpec
			R []reqSpec
			U universe
			O []int
		}{c.Family, c.Pre, c.Reqs, c.U, ord})
		if o, ok := seqCache[key]; ok {
			out = append(out, o[0])
			continue
		}
		o, err := runSequential(c, ord)
		if err != nil {
			return nil, err
		}
		if len(seqCacheOrder) >= 512 {
			delete(seqCache, seqCacheOrder[0])
			seqCacheOrder = seqCacheOrder[1:]
		}
		seqCache[key] = []*outcome{o}
		seqCacheOrder = append(seqCacheOrder, key)
		out = append(out, o)
	}
	return out, nil
}

type runInfo struct {
	Conc        *outcome
	Seq         []*outcome
	SeqIncons   bool
	SpuriousRef bool // a request refused concurrently that every full sequential order acknowledges
	Matched     []int
}

// explains reports whether the sequential outcome s is an acceptable explanation of the concurrent one.
func explains(c *c11Case, conc, s *outcome) bool {
	if len(s.Order) == len(c.Reqs) {
		for i := range conc.OK {
			if conc.OK[i] != s.OK[i] {
				return false
			}
		}
	} else {
		// order over the acknowledged subset only: every member must be acknowledged there too
		for _, i := range s.Order {
			if !s.OK[i] {
				return false
			}
		}
	}
	return len(diffF(conc.F, s.F)) == 0
}

func checkC11(c c11Case) (*runInfo, error) {
	if len(c.Reqs) < 2 || len(c.Reqs) > 3 {
		return nil, fmt.Errorf("case needs 2..3 requests")
	}
	conc, err := runConcurrent(&c)
	if err != nil {
		return nil, err
	}
	seqs, err := sequentialOutcomes(&c, conc)
	if err != nil {
		return nil, err
	}
	info := &runInfo{Conc: conc, Seq: seqs}
	for _, s := range seqs {
		if s.Cons != nil {
			info.SeqIncons = true
		}
	}
	match := func() *outcome {
		for _, s := range seqs {
			if explains(&c, conc, s) {
				return s
			}
		}
		return nil
	}
	m := match()
	if m == nil {
		// give the server more time before the mismatch is believed
		drive.DeepSettle(conc.e.root)
		F, cons, herr := snapshot(conc.e)
		if herr != nil {
			return nil, herr
		}
		conc.F, conc.Cons = F, cons
		m = match()
	}
	if m == nil {
		// closest sequential outcome among those with the same acknowledgement pattern (else among all)
		var best *outcome
		bestD := -1
		sameAck := false
		for pass := 0; pass < 2 && best == nil; pass++ {
			for _, s := range seqs {
				if pass == 0 && (len(s.Order) != len(c.Reqs) || s.acks() != conc.acks()) {
					continue
				}
				if d := len(diffF(conc.F, s.F)); bestD < 0 || d < bestD {
					best, bestD = s, d
					sameAck = pass == 0
				}
			}
		}
		var sb strings.Builder
		fmt.Fprintf(&sb, "family %s shape %s mode %s: concurrent run acknowledged %s (A=2xx r=refused):", c.Family, c.Shape, c.Mode, conc.acks())
		for i, r := range c.Reqs {
			fmt.Fprintf(&sb, "\n  r%d: %s -> %s", i, r, conc.Resp[i])
		}
		fmt.Fprintf(&sb, "\n  schedule trace (release order, <request>@<site>): %s", conc.Sched.TraceString())
		for _, s := range seqs {
			fmt.Fprintf(&sb, "\n  sequential order %v acknowledged %s, final state differs in %d entries", s.Order, s.acks(), len(diffF(conc.F, s.F)))
		}
		if !sameAck {
			fmt.Fprintf(&sb, "\n  no sequential order acknowledges the same set of requests")
		}
		fmt.Fprintf(&sb, "\n  diff against the closest sequential order %v:", best.Order)
		d := diffF(conc.F, best.F)
		for i, l := range d {
			if i >= 12 {
				fmt.Fprintf(&sb, "\n    ... %d more", len(d)-i)
				break
			}
			fmt.Fprintf(&sb, "\n    %s", l)
		}
		return info, stats.Violf("C11/"+c.Family+"/"+c.Shape+"/not-serializable", "%s", sb.String())
	}
	if len(m.Order) < len(c.Reqs) {
		info.SpuriousRef = true
	}
	info.Matched = m.Order
	if conc.Cons != nil && !info.SeqIncons {
		v, ok := conc.Cons.(*stats.Violation)
		if !ok {
			return info, conc.Cons
		}
		return info, stats.Violf(v.Sig, "%s; family %s shape %s, acknowledged %s, schedule trace: %s", v.Msg, c.Family, c.Shape, conc.acks(), conc.Sched.TraceString())
	}
	return info, nil
}

// ------------------------------------------------------------------ schedule generation

func genSchedule(t *rapid.T, n int) (string, []int) {
	kind := rapid.SampledFrom([]string{"random", "random", "random", "pingpong", "pingpong", "blocks", "last-first", "first-only"}).Draw(t, "sched_kind")
	ln := rapid.IntRange(2, 40).Draw(t, "sched_len")
	var s []int
	switch kind {
	case "random":
		for i := 0; i < ln; i++ {
			s = append(s, rapid.IntRange(0, 5).Draw(t, "s"))
		}
	case "pingpong":
		start := rapid.IntRange(0, n-1).Draw(t, "start")
		for i := 0; i < ln; i++ {
			s = append(s, (start+i)%n)
		}
	case "blocks":
		// every goroutine advances k steps in turn
		k := rapid.IntRange(1, 4).Draw(t, "k")
		start := rapid.IntRange(0, n-1).Draw(t, "start")
		for i := 0; i < ln; i++ {
			s = append(s, (start+i/k)%n)
		}
	case "last-first":
		// everybody parks, then always the highest request index that is parked
		for i := 0; i < ln; i++ {
			s = append(s, n-1)
		}
	case "first-only":
		// always the lowest parked request index: as sequential as the scheduler can be
		for i := 0; i < ln; i++ {
			s = append(s, 0)
		}
	}
	return kind, s
}

// ------------------------------------------------------------------ the property

func classesOf(c c11Case, info *runInfo) (bool, []string) {
	inter := info.Conc.Sched.Interleaved
	cls := []string{
		"family/" + c.Family,
		c.Family + "/" + c.Shape,
		fmt.Sprintf("n=%d", len(c.Reqs)),
		"mode/" + c.Mode,
		"acks/" + info.Conc.acks(),
	}
	if c.Third != "" {
		cls = append(cls, c.Family+"/"+c.Shape+"+"+c.Third)
	}
	if c.Mode == "sched" {
		cls = append(cls, "sched/"+c.SchedKind)
		if inter {
			cls = append(cls, "interleaved/yes", c.Family+"/"+c.Shape+"/interleaved")
		} else {
			cls = append(cls, "interleaved/no")
		}
		if info.Conc.Sched.Quiesced > 0 {
			cls = append(cls, "sched/released-by-quiescence-timer")
			if !inter {
				// the schedule asked for an interleaving and a lock of the code under test refused it: a goroutine
				// was blocked on a lock held by a parked one
				cls = append(cls, "contended/yes", c.Family+"/"+c.Shape+"/contended")
			}
		}
		if len(info.Conc.Sched.Trace) == 0 {
			cls = append(cls, "sched/no-yield-point-hit")
		}
		bg := false
		for _, s := range info.Conc.Sched.Trace {
			if s.G < 0 {
				bg = true
			}
		}
		if bg {
			cls = append(cls, "sched/background-goroutine-scheduled")
		}
	}
	if info.SpuriousRef {
		cls = append(cls, "refused-only-under-concurrency")
	}
	if info.SeqIncons {
		cls = append(cls, "sequential-run-inconsistent(skipped-consistency-oracle)")
	}
	nt := c.Mode == "sched" && (inter || info.Conc.Sched.Quiesced > 0)
	return nt, cls
}

func TestC11Sched(t *testing.T) {
	rapid.Check(t, func(t *rapid.T) {
		c := genCase(t)
		stats.SetCur("C11", "TestC11Sched", c)
		info, err := checkC11(c)
		if !stats.Judge(t, "C11", "TestC11Sched", err, c) {
			return
		}
		nt, cls := classesOf(c, info)
		stats.Record(stats.HashJSON(c), nt, cls, func() interface{} {
			var rs []string
			for _, r := range c.Reqs {
				rs = append(rs, r.String())
			}
			return map[string]interface{}{"family": c.Family, "shape": c.Shape, "third": c.Third, "reqs": rs, "mode": c.Mode, "schedule": c.Schedule,
				"trace": info.Conc.Sched.TraceString(), "acks": info.Conc.acks(), "explained_by_order": info.Matched}
		})
	})
}

func TestReplay(t *testing.T) {
	stats.RunReplay(t, map[string]func(json.RawMessage) error{
		"TestC11Sched": func(raw json.RawMessage) error {
			var c c11Case
			if err := json.Unmarshal(raw, &c); err != nil {
				return err
			}
			// The oracle does not depend on the schedule, so a violation on any attempt is a violation.  Scenarios that
			// involve background goroutines or the unscheduled mode do not take the same interleaving every time:
			// give a saved case several attempts.
			var err error
			for attempt := 0; attempt < 6; attempt++ {
				if _, err = checkC11(c); err != nil {
					return err
				}
			}
			return err
		},
		"TestC11MetaSave": replayMetaSave,
		"TestC11LogAppend": func(raw json.RawMessage) error {
			var err error
			for attempt := 0; attempt < 3; attempt++ {
				if err = replayLogAppend(raw); err != nil {
					return err
				}
			}
			return err
		},
	})
}
