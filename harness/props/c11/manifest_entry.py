# Proposed TEXT entry for C11 (paste into /verif/manifest_text.py).
ENTRY = {
    "C11": {
        "technique": "property-based testing (rapid), in-process HTTP driver, with a harness-owned deterministic scheduler: add-only yield points (build tag verif) between "
                     "the read and the write of every read-modify-write named in the property's anchors park the request goroutines; drive/sched.go releases them one at a "
                     "time in an order drawn by rapid (lock-blocked goroutines are recognised from their runtime wait state).  Oracles: serializability against the real "
                     "server's own sequential behaviour (every order of the 2-3 requests is executed on an identically prepared fresh repo; acknowledgement pattern and "
                     "normalised final state must match one of them) plus differential consistency oracles on the final state (derived indexes vs primary data, in-memory "
                     "head vs store, mutation log decodable)",
        "level_text": "Generated-input exploration with explicit oracles. Each case is a scenario (one of 47 shapes over five families: key-value writes, version DAG and "
                      "instance creation, neuron annotations, label merges/cleaves/splits/renumber/max label/voxel repaints, point-annotation edits incl. a label merge racing "
                      "with an annotation POST through the sync handler; shared targets on purpose, disjoint controls, optional third request) plus a schedule. The scheduler "
                      "really interleaves: in about 80-90% of the scheduled cases a goroutine runs while another one is parked inside a read-modify-write window (measured "
                      "class interleaved/yes). The space of schedules is explored at the instrumented sites only and sampled, not enumerated: absence of failures is not a "
                      "proof. On the unchanged tree 28 signatures (6 root causes: annotation instance lock commented out; labelmap merge/renumber without a covering index "
                      "lock; max label written without re-check; new version / new instance check-then-insert; neuronjson read-merge-write; POST keyvalues pair by pair) fail "
                      "and are reported as findings with replay files, exact site traces and six small fix patches; with the fixes applied in a scratch tree the check passes "
                      "with no signature listed and every replay passes. The generator replaces a listed shape by the family's disjoint control by construction and the search "
                      "continues behind it. Both seeded defects (wrong shard locked in cleaveIndex; mutation-log append under a shared lock) and three lock-removal mutations "
                      "were caught within the quick budget.",
        "level_note": "2-3 simultaneous requests; interleavings only at the instrumented yield points and the filelog write points (a lost update inside an uninstrumented "
                      "section is reachable only through the 10% unscheduled cases or seen as a -race diagnostic); one labelmap layout (32^3, 16^3 blocks), one annotation "
                      "block size; no restart inside a case (the mutation log is read back through the storage API instead); body split (POST split) is deactivated by the "
                      "default configuration and not exercised; -race runs are diagnostics only (testing fails any run with a race report).",
    },
}
