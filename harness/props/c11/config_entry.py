# Proposed CHECKS entry for C11 (paste into /verif/checks_config.py; T(...) is the helper defined there).
#
# PRECONDITION: /repo must contain the yield points of harness/props/c11/hooks.patch (add-only dvid.VerifPoint("yield:...") lines,
# build tag verif).  Without them no goroutine ever parks: the test then degenerates to plain goroutine stress (class
# "sched/no-yield-point-hit" on every case) and the required class "interleaved/yes" stays empty -> inconclusive, never a false PASS.
#
# Measured (16-core sandbox, hooked tree, all 28 known signatures listed): one process 0.10-0.14 s per case; 4 shards in parallel
# 4 x 150 cases = 20 s wall; 16 shards in parallel 0.2 s per case per shard (16 x 60 cases = 12.4 s).  On a tree with the six fix
# patches applied (no known signature; every shape runs, lock-protected sections are resolved by the goroutine-state poll) 0.17-0.32 s
# per case (300 cases = 52 s in one process).  The replay tier adds one fresh process per listed signature (28 x < 1 s).
# quick  = 150 x 4 = 600 (scenario, schedule) pairs: about 20 s + replays now, about 45 s once the fixes are in.
# thorough = 1200 x 16 = 19200 pairs: about 4 min now, about 7-8 min once the fixes are in.
# -race: `go test -race -c` of the same package works (35 s build); 60 cases = 19 s and report genuine data races of the code under test
# (see findings.go "Diagnostics from -race").  testing fails a run as soon as the detector reports anything, so a -race shard can only be a
# diagnostic: if the driver grows a "race" option, run e.g. T("TestC11Sched", None, (150, 2), race=True), count "WARNING: DATA RACE" blocks into
# evidence and ignore its exit code.
# To run by hand (the package must precede the rapid flags):
#   cd /verif/harness && VERIF_KNOWN_SIGS=$(grep -o 'signature=[^ ]*' props/c11/known_findings_lines.txt | cut -d= -f2 | paste -sd,) \
#     go test -tags "badger filelog verif" -modfile /verif/build/repo/verif.mod ./props/c11 -run 'TestC11Sched$' -rapid.checks 150 -rapid.seed 7 -rapid.nofailfile
# Development aids (environment, never set by the driver): VERIF_C11_FAMILY=<family> and VERIF_C11_SHAPE=<shape> restrict the generator.
ENTRY = {
    "C11": {
        "pkg": "c11",
        "level": "exploration",
        "tests": [
            T("TestC11Sched", (150, 4), (1200, 16)),
            T("TestC11LogAppend", (150, 2), (3000, 4)),
            T("TestC11MetaSave", (100, 2), (1200, 4)),
        ],
        "required_classes": [
            "family/keyvalue", "family/dag", "family/neuronjson", "family/labelmap", "family/annotation",
            "interleaved/yes", "n=2", "n=3", "mode/sched", "mode/free",
            "sched/random", "sched/pingpong", "sched/blocks", "sched/last-first", "sched/first-only",
            "sched/released-by-quiescence-timer",       # a goroutine waited for a lock held by a parked one and the controller moved on
            "sched/background-goroutine-scheduled",     # background goroutines (index aggregation, sync handlers) were scheduled too
            "contended/yes", "log-append/switched", "log-append/first-appends-race-to-open", "log-append/topic", "meta-save/switched-with-two-acknowledged",
            # shapes whose requests still run inside each other's instrumented windows
            "keyvalue/post-post-same-key/interleaved", "keyvalue/post-delete-same-key/interleaved", "keyvalue/post-post-two-keys/interleaved",
            "labelmap/mutate-mutate-same-label/interleaved",
            # shapes whose interleaving a lock of the code under test refuses (a goroutine blocked on a lock held by a parked one)
            "annotation/post-post-same-block/contended", "annotation/post-delete-same-block/contended",
            "labelmap/merge-merge-same-target/contended", "labelmap/merge-cleave-same-body/contended", "labelmap/cleave-cleave-same-body/contended",
            "neuronjson/post-post-disjoint-fields/contended", "neuronjson/post-delete/contended",
            "dag/newversion-newversion/contended", "dag/branch-branch-same-name/contended", "dag/newinstance-same-name/contended",
        ],
        "rule": "TestC11MetaSave: 2-3 concurrent repo-level requests (note, log, commit, new instance, branch) on one repo under the scheduler parked at the store write points (so a request can be held between serializing the repo record and writing it), then the stores are closed and reopened: every acknowledged change must show before and after the reopen, and the requests must return.  TestC11LogAppend: 2-4 goroutines append 1-4 generated records each to one file log (Append or TopicAppend, optionally racing to open it) under the same scheduler parked at the header / payload / sync write points; every acknowledged record must be read back exactly once, intact, each appender's in its own order.  TestC11Sched: rapid-generated (scenario, schedule) pairs.  Scenario = family (keyvalue, dag, neuronjson, labelmap, annotation), a deterministic sequential setup on a "
                "fresh repo, and 2-3 mutation requests that share a target on purpose (or are disjoint controls): keyvalue POST/DELETE key on one key or two keys, "
                "POST keyvalues batches overlapping / disjoint / against a single POST; version DAG newversion x newversion, branch x newversion, branch x branch with the same / "
                "different names on a committed root, master child or named-branch head, commit x POST data on one node, new instance x new instance with the same / different "
                "names (and types); neuronjson POST key of one body with disjoint / overlapping fields / replace=true, POST x DELETE, DELETE x DELETE, two bodies; labelmap "
                "(32^3 voxels, 16^3 blocks, 8 supervoxel slabs each spanning 4 blocks, bodies {1,2,3} {5,6} 4 7 8) merge x merge into one target, merge chain a<-b b<-c, "
                "merge x cleave, cleave x cleave, merge x split-supervoxel and cleave x split-supervoxel of one body, renumber x merge, maxlabel x maxlabel, "
                "two voxel repaints (raw?mutate=true) of different blocks taking voxels of one body into one new / two new supervoxels, disjoint merges; annotation synced "
                "to that labelmap: POST elements x POST elements into one block / one position / one tag across blocks / one body across blocks / disjoint, POST x DELETE in "
                "one block / one tag, DELETE x DELETE in one block / one tag / of two related partners, move x move into one block, move x POST into one block, move x move "
                "under one tag, labelmap merge x POST element on the merged body (sync handler in the background); optional third request of the same kind on the same target "
                "or disjoint.  Schedule = list of 2-40 integers (random, ping-pong, k-step blocks, always-last, always-first); the harness-owned scheduler (drive/sched.go) "
                "parks every request goroutine (and, where the racing party is one, background goroutines) at the instrumented yield points and at the mutation-log write "
                "points and releases one parked goroutine per schedule entry (entry modulo the number parked); a goroutine blocked on a lock held by a parked one is detected "
                "from its runtime wait state and passed over.  1 case in 10 runs the requests as plain unscheduled goroutines (secondary mode).  Oracle: acknowledgement "
                "pattern and settled, normalised final state (server-chosen ids renamed by first voxel / DAG path, timestamps and mutation ids dropped, unordered lists "
                "sorted) must equal those of some sequential order of the requests (all <=3! orders, and the orders of the acknowledged subset, are executed on identically "
                "prepared fresh repos), and the final state must be self consistent: keyvalue keys/keyrange vs point reads; DAG <=1 child per branch per parent, branch started "
                "once, parent/child links; neuronjson key vs all vs keys vs keyrange vs the stored value read through the storage API; labelmap listlabels, size, supervoxels, "
                "sparsevol-size, index, mapping, maxlabel vs the label and supervoxel volumes, every mutation-log record decodes; annotation all-elements vs elements/<box> vs "
                "tag/<t> vs label/<l> (both with and without relationships), relationship targets exist.  Non-trivial: scheduled case in which some goroutine ran while another "
                "one was parked inside an instrumented read-modify-write window (interleaved), or was blocked on a lock held by a parked one and passed over (contended: the schedule asked for the interleaving and the code under test refused it).  Distinct = hash of the case value.",
        "assumptions": [
            "the sequential behaviour of the real server is the reference (validated by C01/C05/C07/C08/C13/C16); a consistency violation that also shows in a sequential run is "
            "another property's subject and is not reported here (class sequential-run-inconsistent)",
            "only acknowledged (2xx) requests are protected: a request refused only under concurrency is accepted if the final state equals a sequential order of the "
            "acknowledged requests alone (counted in class refused-only-under-concurrency)",
            "interleavings are explored at the granularity of the instrumented sites (every read-modify-write named in the property's anchors + the mutation-log write points), "
            "not at every goroutine preemption point; the unscheduled mode and -race are the only probes of uninstrumented windows",
            "the quiescence / goroutine-state poll (2 ms, fallback 300 ms) and the 20 s watchdog only decide which schedule is explored or turn a case into a harness error; "
            "no verdict depends on time",
            "one signature per family/shape: the 28 signatures found on the unrepaired tree stem from 6 root causes (findings.go), all repaired by fix: commits; their replays run in every quick check",
        ],
    },
}
