// Package c11 holds the check of property C11 (see c11_test.go, c11_families_test.go and drive/sched.go).  This file
// documents the findings of the check; it contains no code.
//
// # C11 findings
//
// All of these fail TestC11Sched on the unmodified /repo (commit 09bd0b4) + hooks.patch (add-only yield points, build tag
// verif).  Six root causes, 28 signatures (one signature per family/shape, as the generator can only steer around a
// shape).  Every signature has a replay file under harness/props/c11/repro/<family>-<shape>.json (format of
// $VERIF_LASTFAIL) that was replayed three times in fresh processes on the hooked tree (REPLAY-FAIL with the listed
// signature, 3 of 3) and once on the hooked tree with all six fix patches applied (REPLAY-PASS).  Run one with
//
//	cd /verif/harness && VERIF_REPLAY=$PWD/props/c11/repro/<file> go test -tags "badger filelog verif" \
//	    -modfile /verif/build/repo/verif.mod ./props/c11 -run 'TestReplay$' -v
//
// (TestReplay gives a case up to six attempts: the oracle does not depend on the schedule, so a violation on any
// attempt is a violation; only the two shapes whose racing parties are background goroutines need more than one.)
//
// With all 28 signatures in $VERIF_KNOWN_SIGS the check passes on the hooked tree (seeds 5, 7, 11, 21, 33, 101, 202, 301,
// 302: about 4000 cases; 16 processes in parallel: no false alarm).  With fix-1 ... fix-6 applied on top of hooks.patch
// the check passes with NO known signature (seeds 5-8, 41, 42: about 2000 cases), every one of the 28 replays passes,
// and the engine-enabled upstream tests of the touched packages behave as before (only TestMappedLabels, TestSplitLabel,
// TestArbitrarySplit fail: the "split endpoint deactivated" configuration artefacts of the unmodified tree).
//
// Oracle in one sentence: requests r1..rn (n = 2 or 3) run concurrently on a fresh repo under a drawn schedule; the
// acknowledgement pattern and the settled, normalised final state must equal those of SOME sequential order of the same
// requests on an identically prepared repo (orders of the acknowledged subset alone are accepted too: a refused request
// protects nothing).  "trace" below is the release order <request>@<yield site> chosen by the scheduler.
//
// File references are into /repo at 09bd0b4 (before hooks.patch, which shifts lines by a few).
//
// ## 1. annotation: element edits are read-modify-write without the instance lock (13 signatures)
//
//	C11/annotation/post-post-same-block      C11/annotation/post-post-same-pos     C11/annotation/post-post-same-tag
//	C11/annotation/post-post-same-label      C11/annotation/post-delete-same-block C11/annotation/post-delete-same-tag
//	C11/annotation/delete-delete-same-block  C11/annotation/delete-delete-same-tag C11/annotation/delete-delete-partners
//	C11/annotation/move-move-into-one-block  C11/annotation/move-post-same-block   C11/annotation/move-move-same-tag
//	C11/annotation/lmmerge-post-same-label   (each + "/not-serializable")
//
// Setting: labelmap "lm" (32^3 voxels, 16^3 blocks, supervoxel k = slab x in [4(k-1),4k)), annotation "ann" synced to lm.
// Minimal case (post-post-same-block): POST elements [{"Pos":[1,1,0],"Kind":"PreSyn","Tags":["t1"]}] and
// POST elements [{"Pos":[13,1,0],"Kind":"PostSyn","Tags":["t2"]}] (same block 0,0,0; different positions, tags, bodies).
// Both answered 200.  trace: 0@StoreElements:entry 1@StoreElements:entry 0@StoreElements:after-block-read
// 1@StoreElements:after-block-read 0@modifyElements:after-read ... 0@StoreElements:before-commit
// 1@modifyTagElements:after-read 1@StoreElements:before-commit.  Final state: all-elements, elements/<box>, tag/t1 and
// label/1 do not contain the element at [1,1,0] any more; both sequential orders keep both elements.
// Other shapes, same mechanism on another list: same-tag (tag/t1 loses one of two elements posted in different blocks),
// same-label (label/4 loses one), same-pos (block holds the second element while tag/t1 still lists the position with the
// first element's tag), post-delete (the deleted element is resurrected by the POST's block write, or the posted one is
// dropped), delete-delete-same-block (one of the two acknowledged deletes is undone), delete-delete-same-tag (tag/<t>
// keeps a deleted element; only visible without ?relationships=true, which re-reads the blocks), delete-delete-partners
// (A<->B related, in different blocks: DELETE A rewrites B's block to drop the relationship and thereby resurrects B,
// which DELETE B had already removed), move-move-into-one-block / move-post-same-block (the target block loses one of the
// two arrivals; tag and label lists lose it too), move-move-same-tag (tag list keeps one old position),
// lmmerge-post-same-label (POST lm/merge [1,4] runs the annotation's sync handler mergeLabels in the background: it read
// label list 1 before the concurrent POST elements added an element on body 1 and writes it back without that element:
// label/1 misses an acknowledged element).
// Cause: datatype/annotation/annotation.go.  StoreElements (:2259) reads the block lists (:2296), then again in
// modifyElements (:1563), the label lists (storeLabelElements :1767) and the tag lists (modifyTagElements :1827) and writes
// all of them back whole in one batch (:2354); DeleteElement (:2357) reads (:2366) and rewrites (:2378) the block, then the
// label (:1356), tag (:1314) and partner-block (:1405) lists; MoveElement (:2430) the same for two blocks (:2454, :2472).
// The lock that made these sequences atomic is commented out in all of them ("// d.Lock() // defer d.Unlock()" at :2202,
// :2269, :2363, :2439) and in the sync handlers (sync.go :629, :734, :847; mergeLabels :549 never had one).
// Smallest fix (fix-1-annotation-instance-lock.patch): re-enable the commented-out d.Lock()/defer d.Unlock() in StoreBlocks,
// StoreElements, DeleteElement, MoveElement and the three sync handlers that carry the comment, and take the same lock in
// the remaining sync handlers that rewrite label lists (mergeLabels, ingestBlock, mutateBlock).  The lock is the instance's
// embedded sync.RWMutex, otherwise only used for the denormOngoing flag; none of the locked functions re-enters it.
//
// ## 2. labelmap: merge / renumber read and write label indices without a covering lock (5 signatures)
//
//	C11/labelmap/merge-merge-same-target  C11/labelmap/merge-merge-chain  C11/labelmap/merge-cleave-same-body
//	C11/labelmap/merge-splitsv-same-body  C11/labelmap/renumber-merge      (each + "/not-serializable")
//
// Setting: bodies 1={1,2,3}, 5={5,6}, singletons 4, 7, 8 (4096 voxels per supervoxel).
// Minimal case (merge-merge-same-target): POST merge [5,4] and POST merge [5,8], both 200.  trace: 0@MergeLabels:entry
// 1@MergeLabels:entry 0@MergeLabels:after-target-read 1@MergeLabels:after-target-read 0@MergeLabels:before-put-target
// 1@MergeLabels:before-put-target.  Final state: mapping(4) = mapping(8) = 5 and the label volume shows 16384 voxels of
// body 5, but index/5, size/5 (12288), listlabels, supervoxels/5 and sparsevol-size/5 lack supervoxel 4: the second
// PutLabelIndex overwrote the first with an index computed from the same stale read.
// merge-merge-chain ([4,8] x [5,4]): body 5 gets the index of 4 as it was before 8 arrived, then index 4 is deleted:
// supervoxel 8 maps to a body (4) that no longer exists and its 4096 voxels are in no index.  merge-cleave-same-body
// ([1,7] x cleave/1 [2]): the merge writes back an index of body 1 that still contains the cleaved supervoxel 2 (now also
// in the new body 9).  merge-splitsv-same-body ([1,4] x split-supervoxel/2): index 1 contains the no longer existing
// supervoxel 2 instead of its two parts.  renumber-merge (renumber [20,1] x merge [1,7]): both acknowledged although every
// sequential order in which the renumber comes first refuses the merge, and supervoxel 7's voxels end up in no index.
// Cause: datatype/labelmap/mutate.go MergeLabels (:47): GetLabelIndex(target) (:103, shard read lock only for the read),
// targetIdx.Add (:147), PutLabelIndex (:151, shard lock only for the write), DeleteLabelIndex of the merged labels (:155);
// the indices of the merged labels are read even earlier (:92).  RenumberLabels (:206) likewise (:208, :250, :259 ->
// :298, :302).  cleaveIndex (labelidx.go :646), SplitSupervoxel (mutate.go :935) and ChangeLabelIndex (:695) do hold the
// shard lock of their label across read and write, but that does not exclude a merge, and a per-shard lock could not
// cover a merge anyway (it touches the target and every merged label, and chains a<-b, b<-c meet on b).
// Smallest fix (fix-2-labelmap-label-mutation-mutex.patch): one per-instance mutex "labelMutMu" next to voxelMu
// ("only allow label-level mutation ops sequentially"), held for the whole of MergeLabels, RenumberLabels, CleaveLabel and
// SplitSupervoxel.  These are rare, short, index-level operations; voxel writes and reads are not affected.
//
// ## 3. labelmap: the maximum label can move backwards (2 signatures)
//
//	C11/labelmap/maxlabel-maxlabel/not-serializable   C11/labelmap/mutate-mutate-new-labels/not-serializable
//
// Minimal case: POST maxlabel/100 and POST maxlabel/160, both 200.  trace: 1@updateMaxLabel:after-read
// 0@updateMaxLabel:after-read.  GET maxlabel answers 100; every sequential order answers 160.  Second shape: two POST
// raw?mutate=true of different blocks that introduce supervoxels 50 and 60; the maximum-label updates run in goroutines
// spawned by the write path (write.go :193, :347; labelidx.go :953): maxlabel ends at 50 although label 60 is stored.
// Cause: datatype/labelmap/labelmap.go updateMaxLabel (:2153) compares under the read lock (:2154-2159), releases it and
// then stores its own value under the write lock without comparing again (:2164-2167); updateBlockMaxLabel (:2183) the same
// (:2185-2187 -> :2198-2199).  MaxRepoLabel is compared under the write lock (:2172) and is not affected, so newLabel
// still hands out fresh ids; the per-version maximum (GET maxlabel, persisted by persistMaxLabel) is what regresses.
// Smallest fix (fix-3-labelmap-maxlabel-recheck.patch): compare again after taking the write lock in both functions.
//
// ## 4. datastore: new version / new instance check for duplicates, then insert, without a covering lock (3 signatures)
//
//	C11/dag/newversion-newversion  C11/dag/branch-branch-same-name  C11/dag/newinstance-same-name  (+ "/not-serializable")
//
// Minimal case: committed node P; POST node/P/newversion twice.  Both 200 with different children; P now has two children
// on the same branch (trace: 1@newVersion:after-branch-check 0@newVersion:after-branch-check 1@newVersion:before-append-child
// 0@newVersion:before-append-child).  Sequentially the second request is refused ("already a child with the same branch").
// branch-branch-same-name: two POST node/P/branch {"branch":"b1"} both create a child: two nodes start branch "b1".
// newinstance-same-name: two POST repo/R/instance {"dataname":"x"} are both answered "Added x"; the second instance
// replaces the first in the repo's name table (the first stays registered under its instance id); with different types
// the surviving type is the later one.
// Cause: datastore/repo_local.go newVersion (:1804) checks the siblings / the branch names under read locks (:1821,
// :1829-1855) and appends the child later (:1879, still only holding node.RLock: also a data race, reported by -race);
// newData (:2172) checks r.data[name] under r.RLock (:2182-2188) and inserts under r.Lock at :2200-2201.
// Smallest fix (fix-4-datastore-create-mutex.patch): one manager-level mutex "createMutex" held across check and insert
// in newVersion and newData (creations are rare; the existing RWMutexes cannot be upgraded and r.Lock is not re-entrant).
//
// ## 5. neuronjson: POST key / DELETE key read, merge and write without a covering lock (4 signatures)
//
//	C11/neuronjson/post-post-disjoint-fields  C11/neuronjson/post-post-overlap-fields  C11/neuronjson/post-post-replace
//	C11/neuronjson/post-delete   (each + "/not-serializable")
//
// Minimal case: POST key/100?u=u0 {"bodyid":100,"a":1} and POST key/100?u=u1 {"bodyid":100,"b":12}, both 200.  trace:
// 1@storeAndUpdate:entry 0@storeAndUpdate:entry 0@storeAndUpdate:after-read 1@storeAndUpdate:after-read
// 0@storeAndUpdate:before-store-write 1@storeAndUpdate:before-store-write.  GET key/100, GET all and the stored value hold
// {"b":12,...} only; the acknowledged field "a" is gone (both orders give {"a":1,"b":12}).  post-delete: an annotation with
// field "z" exists; POST {"a":1} x DELETE: the result {"a":1,"z":"keep"} is neither "deleted" nor "{a} only".  With the two
// writes (in-memory db, then store) of two requests interleaved the other way round the served head and the store differ
// (own consistency signature C11/neuronjson/store-vs-memory/inconsistent; it is reported when the final state happens to
// equal a sequential one, which did not occur in the runs so far).
// Cause: datatype/neuronjson/neuronjson.go storeAndUpdate (:1418): getStoreData (:1425), updateJSON (:1445), in-memory db
// write under mdb.mu (:1453-1471), putStoreData (:1473); DeleteData: in-memory delete (:1588-1600), deleteStoreData (:1602).
// mdb.mu only covers the map update.
// Smallest fix (fix-5-neuronjson-write-mutex.patch): a per-instance mutex "writeMu" held for the whole of storeAndUpdate and
// the body-id branch of DeleteData.
//
// ## 6. keyvalue: POST keyvalues stores its pairs one by one (1 signature)
//
//	C11/keyvalue/keyvalues-overlap/not-serializable
//
// Minimal case: POST keyvalues {k1:a1,k2:a2} and POST keyvalues {k1:b1,k2:b2}, both 200.  trace: 0@PutData:before-put
// 1@PutData:before-put 1@PutData:before-put 0@PutData:before-put.  Final state k1=b1, k2=a2: half of each request.
// Cause: datatype/keyvalue/keyvalue.go handleIngest (:1156) calls PutData per pair (:1165).  (Single-key POST / DELETE are
// single store operations and pass.)
// Smallest fix (fix-6-keyvalue-keyvalues-atomic-batch.patch): put all pairs of the request into one storage batch and
// commit once (Badger applies a batch of this size in one transaction).  The patch contains one further add-only
// VerifPoint before the commit.
//
// ## Diagnostics from -race (not verdicts)
//
// A -race build of the same test (go test -race -c ...; 60 cases) reports, among others: datastore newVersion appending to
// node.children / writing node.updated under a read lock against GobEncode of the same node (repo_local.go :1879-1880 vs
// nodeT.GobEncode), repoManager.newUUID/putNewIDs on the id counters, labelmap VCache.setMapping from two concurrent
// cleaves (addCleaveToMapping), and the variable err in neuronjson ServeHTTP shared between the handler (about :2483) and the Kafka goroutine it starts (:2474; within one request).  testing marks the run failed when the race
// detector reports anything, so the -race variant can only be used as a diagnostic.
//
// ## Seeded defects and mutations tried (hooked tree, all 28 signatures listed as known)
//
//	seed C11-a (cleaveIndex locks the shard of the NEW label)        caught, seeds 1 and 2: cleave-cleave-same-body / cleave-splitsv-same-body, 7-30 cases
//	seed C11-b (filelog Append under RLock: header/payload interleave) caught, seeds 1 and 2, first cases: merge-merge-disjoint, mutation log record "undecodable"
//	                                                                  (the scheduler also parks at the filelog write points; the snapshot reads the mutation log)
//	M1 cleaveIndex without the shard lock                             caught after 30 cases (cleave-splitsv-same-body)
//	M2 ChangeLabelIndex without the shard lock                        caught after 101 cases (mutate-mutate-same-label, index of body 1)
//	M3 SplitSupervoxel without the shard lock                         caught after 30 cases (cleave-splitsv-same-body)
//	removing any of fix-1..fix-6 from the fixed tree = the unchanged tree: caught in the first cases of the family
package c11
