package c11

import (
	"encoding/base64"
	"encoding/json"
	"fmt"
	"os"
	"sort"
	"strconv"
	"strings"

	"github.com/janelia-flyem/dvid/datastore"
	"github.com/janelia-flyem/dvid/datatype/common/labels"
	dvidproto "github.com/janelia-flyem/dvid/datatype/common/proto"
	"github.com/janelia-flyem/dvid/datatype/neuronjson"
	"github.com/janelia-flyem/dvid/dvid"
	"github.com/janelia-flyem/dvid/storage"
	pb "google.golang.org/protobuf/proto"
	"pgregory.net/rapid"

	"verif/lmdrive"
	"verif/model"
	"verif/stats"
)

// ------------------------------------------------------------------ fixed label layout (labelmap + annotation families)

// 32^3 voxels, 16^3 blocks (2x2x2 blocks); supervoxel k (1..8) is the slab x in [4(k-1), 4k): every supervoxel spans
// four blocks (all y,z blocks of its block column), four supervoxels share each block.
var geom = model.LabelGeom{B: 16, OB: [3]int32{0, 0, 0}, NB: [3]int32{2, 2, 2}}
var volOff = [3]int32{0, 0, 0}
var volSize = [3]int32{32, 32, 32}

const slab = 4
const nSV = 8

func lm() lmdrive.LM { return lmdrive.LM{Name: "lm", G: geom} }

var layoutCache []uint64

func layoutVolume() []uint64 {
	if layoutCache == nil {
		v := make([]uint64, geom.NVox())
		for i := range v {
			x, _, _ := geom.Coord(i)
			v[i] = uint64(x/slab) + 1
		}
		layoutCache = v
	}
	return layoutCache
}

// mutateSpec describes a POST raw?mutate=true of one whole block of the layout in which the voxels with block-local
// x < W are repainted with supervoxel SV (W <= 3 keeps it a proper part of the slab of the block's first supervoxel).
type mutateSpec struct {
	Block [3]int32 `json:"block"`
	SV    uint64   `json:"sv"`
	W     int32    `json:"w"`
}

func (m mutateSpec) volume() (off, size [3]int32, vox []uint64) {
	off = [3]int32{m.Block[0] * geom.B, m.Block[1] * geom.B, m.Block[2] * geom.B}
	size = [3]int32{geom.B, geom.B, geom.B}
	lay := layoutVolume()
	for z := off[2]; z < off[2]+size[2]; z++ {
		for y := off[1]; y < off[1]+size[1]; y++ {
			for x := off[0]; x < off[0]+size[0]; x++ {
				i, _ := geom.Idx(x, y, z)
				v := lay[i]
				if x-off[0] < m.W {
					v = m.SV
				}
				vox = append(vox, v)
			}
		}
	}
	return
}

func mutateReq(bx, by, bz int32, sv uint64, w int32) reqSpec {
	b, _ := json.Marshal(mutateSpec{Block: [3]int32{bx, by, bz}, SV: sv, W: w})
	return reqSpec{Kind: "mutate", Body: string(b)}
}

func u64json(v ...uint64) string {
	s := make([]string, len(v))
	for i, x := range v {
		s[i] = strconv.FormatUint(x, 10)
	}
	return "[" + strings.Join(s, ",") + "]"
}

func instReq(typename, name string) reqSpec {
	return reqSpec{M: "POST", Path: "repo/{root}/instance", Body: fmt.Sprintf(`{"typename":%q,"dataname":%q}`, typename, name)}
}

func lmSetup() []reqSpec {
	return []reqSpec{
		{M: "POST", Path: "repo/{root}/instance", Body: `{"typename":"labelmap","dataname":"lm","BlockSize":"16,16,16"}`},
		{Kind: "ingest"},
	}
}

// ------------------------------------------------------------------ snapshots

func snapshot(e *env) (F map[string]string, cons error, herr error) {
	F = map[string]string{}
	switch e.c.Family {
	case "keyvalue":
		cons, herr = snapKeyvalue(e, F)
	case "dag":
		cons, herr = snapDAG(e, F)
	case "neuronjson":
		cons, herr = snapNeuronjson(e, F)
	case "labelmap":
		cons, herr = snapLabelmap(e, F)
	case "annotation":
		cons, herr = snapAnnotation(e, F)
		if herr == nil {
			// the synced label volume is part of the state too (lmmerge shapes)
			F2 := map[string]string{}
			c2, h2 := snapLabelmap(e, F2)
			for k, v := range F2 {
				F["lm:"+k] = v
			}
			if cons == nil {
				cons = c2
			}
			herr = h2
		}
	default:
		herr = fmt.Errorf("unknown family %q", e.c.Family)
	}
	return
}

func sortedJoin(v []string) string {
	v = append([]string(nil), v...)
	sort.Strings(v)
	return strings.Join(v, ",")
}

// ---- keyvalue

func snapKeyvalue(e *env, F map[string]string) (error, error) {
	var present []string
	for _, k := range e.c.U.Keys {
		r := e.get("node/{n0}/kv/key/" + k)
		if r.Code != 200 && r.Code != 404 {
			return nil, fmt.Errorf("GET key/%s: %s", k, r)
		}
		F["key/"+k] = fmt.Sprintf("%d:%q", r.Code, r.Body)
		if r.Code == 200 {
			present = append(present, k)
		}
	}
	var keys, rng []string
	r := e.get("node/{n0}/kv/keys")
	if !r.OK() || json.Unmarshal(r.Body, &keys) != nil {
		return nil, fmt.Errorf("GET keys: %s", r)
	}
	r = e.get("node/{n0}/kv/keyrange/0/zzzzzz")
	if !r.OK() || json.Unmarshal(r.Body, &rng) != nil {
		return nil, fmt.Errorf("GET keyrange: %s", r)
	}
	F["keys"] = sortedJoin(keys)
	F["keyrange"] = sortedJoin(rng)
	if F["keys"] != sortedJoin(present) {
		return stats.Violf("C11/keyvalue/keys-vs-point-reads/inconsistent", "GET keys lists [%s], point reads find [%s]", F["keys"], sortedJoin(present)), nil
	}
	if F["keyrange"] != sortedJoin(present) {
		return stats.Violf("C11/keyvalue/keyrange-vs-point-reads/inconsistent", "GET keyrange lists [%s], point reads find [%s]", F["keyrange"], sortedJoin(present)), nil
	}
	return nil, nil
}

// ---- DAG

type dagNode struct {
	Branch    string
	Note      string
	UUID      string
	VersionID int
	Locked    bool
	Parents   []int
	Children  []int
}

func snapDAG(e *env, F map[string]string) (error, error) {
	r := e.get("repo/{root}/info")
	if !r.OK() {
		return nil, fmt.Errorf("repo info: %s", r)
	}
	var info struct {
		DataInstances map[string]struct {
			Base struct{ TypeName string }
		}
		DAG struct {
			Nodes map[string]dagNode
		}
	}
	if err := json.Unmarshal(r.Body, &info); err != nil {
		return nil, fmt.Errorf("repo info: %v", err)
	}
	var nodes []dagNode
	for _, n := range info.DAG.Nodes {
		nodes = append(nodes, n)
	}
	sort.Slice(nodes, func(i, j int) bool { return nodes[i].VersionID < nodes[j].VersionID })
	ord := map[int]int{}
	for i, n := range nodes {
		ord[n.VersionID] = i
	}
	name := func(vs []int) string {
		var o []int
		for _, v := range vs {
			if x, ok := ord[v]; ok {
				o = append(o, x)
			} else {
				o = append(o, -1000-v) // dangling reference
			}
		}
		sort.Ints(o)
		return fmt.Sprint(o)
	}
	// Server-chosen version ids depend on the order of creation; name nodes by (parent name, branch, note) instead so
	// that two children created in either order compare equal: path from the root.
	pathName := map[int]string{}
	var nameOf func(i int) string
	nameOf = func(i int) string {
		if s, ok := pathName[i]; ok {
			return s
		}
		n := nodes[i]
		s := "root"
		if len(n.Parents) > 0 {
			var ps []string
			for _, p := range n.Parents {
				if x, ok := ord[p]; ok && x != i {
					ps = append(ps, nameOf(x))
				}
			}
			sort.Strings(ps)
			s = strings.Join(ps, "&") + ">" + fmt.Sprintf("%s[%s]", n.Branch, n.Note)
		}
		pathName[i] = s
		return s
	}
	var cons error
	seen := map[string]int{}
	for i, n := range nodes {
		nm := nameOf(i)
		seen[nm]++
		key := nm
		if seen[nm] > 1 {
			key = fmt.Sprintf("%s#%d", nm, seen[nm])
		}
		var kids []string
		for _, cv := range n.Children {
			if x, ok := ord[cv]; ok {
				kids = append(kids, nameOf(x))
			} else {
				kids = append(kids, fmt.Sprintf("dangling-version-%d", cv))
				if cons == nil {
					cons = stats.Violf("C11/dag/child-exists/inconsistent", "node %s lists child version %d which is not a node of the repo", n.UUID, cv)
				}
			}
		}
		F["node/"+key] = fmt.Sprintf("branch=%q locked=%v children=[%s]", n.Branch, n.Locked, sortedJoin(kids))
		_ = name
		for _, k := range e.c.U.Keys {
			rr := e.get("node/" + n.UUID + "/kv/key/" + k)
			F["kv/"+key+"/"+k] = fmt.Sprintf("%d:%q", rr.Code, clip(string(rr.Body), 80))
		}
		// at most one child per branch per parent
		per := map[string]int{}
		for _, cv := range n.Children {
			if x, ok := ord[cv]; ok {
				per[nodes[x].Branch]++
			}
		}
		for b, k := range per {
			if k > 1 && cons == nil {
				cons = stats.Violf("C11/dag/children-per-branch/inconsistent", "node %s (branch %q) has %d children on branch %q", n.UUID, n.Branch, k, b)
			}
		}
		// child <-> parent links agree
		for _, cv := range n.Children {
			if x, ok := ord[cv]; ok {
				found := false
				for _, p := range nodes[x].Parents {
					if p == n.VersionID {
						found = true
					}
				}
				if !found && cons == nil {
					cons = stats.Violf("C11/dag/parent-child-links/inconsistent", "node %s lists child %s whose parents are %v", n.UUID, nodes[x].UUID, nodes[x].Parents)
				}
			}
		}
	}
	// a named branch starts at exactly one node
	starts := map[string]int{}
	for _, n := range nodes {
		if n.Branch == "" {
			continue
		}
		isStart := true
		for _, p := range n.Parents {
			if x, ok := ord[p]; ok && nodes[x].Branch == n.Branch {
				isStart = false
			}
		}
		if isStart {
			starts[n.Branch]++
		}
	}
	for b, k := range starts {
		if k > 1 && cons == nil {
			cons = stats.Violf("C11/dag/branch-name-unique/inconsistent", "branch %q was started %d times in one repo", b, k)
		}
	}
	var inst []string
	for nme, d := range info.DataInstances {
		inst = append(inst, nme+":"+d.Base.TypeName)
	}
	F["instances"] = sortedJoin(inst)
	return cons, nil
}

// ---- neuronjson

func stripTimes(m map[string]interface{}) string {
	out := map[string]interface{}{}
	for k, v := range m {
		if strings.HasSuffix(k, "_time") {
			continue
		}
		out[k] = v
	}
	b, _ := json.Marshal(out)
	return string(b)
}

func snapNeuronjson(e *env, F map[string]string) (error, error) {
	var cons error
	var present []string
	for _, id := range e.c.U.Keys {
		r := e.get("node/{n0}/nj/key/" + id + "?show=all")
		if r.Code == 200 {
			var m map[string]interface{}
			if err := json.Unmarshal(r.Body, &m); err != nil {
				return nil, fmt.Errorf("GET key/%s: %v: %s", id, err, r)
			}
			F["key/"+id] = stripTimes(m)
			present = append(present, id)
		} else if r.Code == 404 {
			F["key/"+id] = "absent"
		} else {
			return nil, fmt.Errorf("GET key/%s: %s", id, r)
		}
	}
	r := e.get("node/{n0}/nj/all?show=all")
	var all []map[string]interface{}
	if !r.OK() || json.Unmarshal(r.Body, &all) != nil {
		return nil, fmt.Errorf("GET all: %s", r)
	}
	inAll := map[string]string{}
	for _, m := range all {
		id := fmt.Sprint(m["bodyid"])
		if f, ok := m["bodyid"].(float64); ok {
			id = strconv.FormatUint(uint64(f), 10)
		}
		inAll[id] = stripTimes(m)
	}
	for _, id := range e.c.U.Keys {
		v, ok := inAll[id]
		if !ok {
			v = "absent"
		}
		F["all/"+id] = v
		if v != F["key/"+id] && cons == nil {
			cons = stats.Violf("C11/neuronjson/all-vs-key/inconsistent", "body %s: GET all has %s, GET key has %s", id, v, F["key/"+id])
		}
	}
	var keys []string
	r = e.get("node/{n0}/nj/keys")
	if !r.OK() || json.Unmarshal(r.Body, &keys) != nil {
		return nil, fmt.Errorf("GET keys: %s", r)
	}
	F["keys"] = sortedJoin(keys)
	if F["keys"] != sortedJoin(present) && cons == nil {
		cons = stats.Violf("C11/neuronjson/keys-vs-key/inconsistent", "GET keys lists [%s], point reads find [%s]", F["keys"], sortedJoin(present))
	}
	var rng []string
	r = e.get("node/{n0}/nj/keyrange/0/99999999")
	if !r.OK() || json.Unmarshal(r.Body, &rng) != nil {
		return nil, fmt.Errorf("GET keyrange: %s", r)
	}
	F["keyrange"] = sortedJoin(rng)
	if F["keyrange"] != sortedJoin(present) && cons == nil {
		cons = stats.Violf("C11/neuronjson/keyrange-vs-key/inconsistent", "GET keyrange lists [%s], point reads find [%s]", F["keyrange"], sortedJoin(present))
	}
	// second read path: what is persisted in the store for the same (head) version, read through the storage API;
	// the served head is an in-memory copy that must equal it
	d, err := datastore.GetDataByUUIDName(dvid.UUID(e.nodes[0]), "nj")
	if err != nil {
		return nil, err
	}
	db, err := datastore.GetOrderedKeyValueDB(d)
	if err != nil {
		return nil, err
	}
	v, err := datastore.VersionFromUUID(dvid.UUID(e.nodes[0]))
	if err != nil {
		return nil, err
	}
	ctx := datastore.NewVersionedCtx(d, v)
	for _, id := range e.c.U.Keys {
		tk, _ := neuronjson.NewTKey(id)
		val, err := db.Get(ctx, tk)
		if err != nil {
			return nil, err
		}
		s := "absent"
		if val != nil {
			var m map[string]interface{}
			if err := json.Unmarshal(val, &m); err != nil {
				return nil, fmt.Errorf("stored value of %s: %v", id, err)
			}
			s = stripTimes(m)
		}
		F["store/"+id] = s
		if s != F["key/"+id] && cons == nil {
			cons = stats.Violf("C11/neuronjson/store-vs-memory/inconsistent", "body %s: the store holds %s, the served (in-memory) head holds %s", id, s, F["key/"+id])
		}
	}
	return cons, nil
}

// ---- labelmap

func snapLabelmap(e *env, F map[string]string) (error, error) {
	l := lm()
	u := e.nodes[0]
	bodies, r := l.GetRaw(u, volOff, volSize, false, 0)
	e.note(r, "GET", "node/x/lm/raw")
	if !r.OK() {
		return nil, fmt.Errorf("GET raw: %s", r)
	}
	svs, r := l.GetRaw(u, volOff, volSize, true, 0)
	e.note(r, "GET", "node/x/lm/raw")
	if !r.OK() {
		return nil, fmt.Errorf("GET raw supervoxels: %s", r)
	}
	var cons error
	bad := func(sig, format string, a ...interface{}) {
		if cons == nil {
			cons = stats.Violf("C11/labelmap/"+sig+"/inconsistent", format, a...)
		}
	}
	// canonical names by first voxel
	bname, sname := map[uint64]string{}, map[uint64]string{}
	bcount, scount := map[uint64]uint64{}, map[uint64]uint64{}
	svBody := map[uint64]uint64{}
	blkCount := map[uint64]map[[3]int32]map[uint64]uint32{} // body -> block -> sv -> count
	for i := range bodies {
		b, s := bodies[i], svs[i]
		if b != 0 {
			if _, ok := bname[b]; !ok {
				bname[b] = fmt.Sprintf("B@%d", i)
			}
			bcount[b]++
		}
		if s != 0 {
			if _, ok := sname[s]; !ok {
				sname[s] = fmt.Sprintf("S@%d", i)
			}
			scount[s]++
			if prev, ok := svBody[s]; ok && prev != b {
				bad("labels-vs-supervoxels", "supervoxel %d shows up under bodies %d and %d in the label volume", s, prev, b)
			}
			svBody[s] = b
			if blkCount[b] == nil {
				blkCount[b] = map[[3]int32]map[uint64]uint32{}
			}
			bc := geom.BlockOf(i)
			if blkCount[b][bc] == nil {
				blkCount[b][bc] = map[uint64]uint32{}
			}
			blkCount[b][bc][s]++
		}
		if (b == 0) != (s == 0) {
			bad("labels-vs-supervoxels", "voxel %d has body %d but supervoxel %d", i, b, s)
		}
	}
	nameB := func(b uint64) string {
		if n, ok := bname[b]; ok {
			return n
		}
		return fmt.Sprintf("id:%d", b)
	}
	nameS := func(s uint64) string {
		if n, ok := sname[s]; ok {
			return n
		}
		return fmt.Sprintf("id:%d", s)
	}
	var bl []uint64
	for b := range bcount {
		bl = append(bl, b)
	}
	sort.Slice(bl, func(i, j int) bool { return bl[i] < bl[j] })
	for _, b := range bl {
		var ss []string
		for s, bb := range svBody {
			if bb == b {
				ss = append(ss, fmt.Sprintf("%s=%d", nameS(s), scount[s]))
			}
		}
		F["vol/"+nameB(b)] = fmt.Sprintf("voxels=%d svs=[%s]", bcount[b], sortedJoin(ss))
	}
	// listlabels
	ll, _, r := l.ListLabels(u)
	e.note(r, "GET", "node/x/lm/listlabels")
	if !r.OK() {
		return nil, fmt.Errorf("listlabels: %s", r)
	}
	var lls []string
	for b, sz := range ll {
		lls = append(lls, fmt.Sprintf("%s=%d", nameB(b), sz))
		if bcount[b] != sz {
			bad("listlabels-vs-voxels", "listlabels gives body %d size %d, the label volume has %d voxels of it", b, sz, bcount[b])
		}
	}
	for _, b := range bl {
		if _, ok := ll[b]; !ok {
			bad("listlabels-vs-voxels", "body %d has %d voxels in the label volume but is not in listlabels", b, bcount[b])
		}
	}
	F["listlabels"] = sortedJoin(lls)
	// per body endpoints (bodies of the volume plus those only listlabels knows)
	seenB := map[uint64]bool{}
	var probe []uint64
	for _, b := range bl {
		seenB[b] = true
		probe = append(probe, b)
	}
	for b := range ll {
		if !seenB[b] {
			probe = append(probe, b)
		}
	}
	sort.Slice(probe, func(i, j int) bool { return probe[i] < probe[j] })
	for _, b := range probe {
		sz, ok, r := l.Size(u, b, false)
		e.note(r, "GET", "node/x/lm/size")
		F["size/"+nameB(b)] = fmt.Sprintf("%v:%d", ok, sz)
		if (!ok && bcount[b] != 0) || sz != bcount[b] {
			bad("size-vs-voxels", "size/%d answers %d (found %v: %s), the label volume has %d voxels", b, sz, ok, r, bcount[b])
		}
		sv, ok, r := l.Supervoxels(u, b)
		e.note(r, "GET", "node/x/lm/supervoxels")
		var names, want []string
		for _, s := range sv {
			names = append(names, nameS(s))
		}
		for s, bb := range svBody {
			if bb == b {
				want = append(want, nameS(s))
			}
		}
		F["supervoxels/"+nameB(b)] = sortedJoin(names)
		if sortedJoin(names) != sortedJoin(want) {
			bad("supervoxels-vs-voxels", "supervoxels/%d answers %v (found %v), the supervoxel volume shows [%s] under that body (names are S@<first voxel index>)", b, sv, ok, sortedJoin(want))
		}
		ss, ok, r := l.SparsevolSize(u, b, false)
		e.note(r, "GET", "node/x/lm/sparsevol-size")
		F["sparsevol-size/"+nameB(b)] = fmt.Sprintf("%v:%d:%d", ok, ss.Voxels, ss.NumBlocks)
		if ss.Voxels != bcount[b] {
			bad("sparsevol-vs-voxels", "sparsevol-size/%d answers %d voxels (found %v), the label volume has %d", b, ss.Voxels, ok, bcount[b])
		}
		idx, ok, r, err := l.Index(u, b)
		e.note(r, "GET", "node/x/lm/index")
		if err != nil {
			bad("index-vs-voxels", "index/%d: %v", b, err)
		}
		var il []string
		for bc, m := range idx {
			for s, n := range m {
				il = append(il, fmt.Sprintf("%v:%s=%d", bc, nameS(s), n))
				if blkCount[b][bc][s] != n {
					bad("index-vs-voxels", "index/%d says block %v holds %d voxels of supervoxel %d, the supervoxel volume has %d there under that body", b, bc, n, s, blkCount[b][bc][s])
				}
			}
		}
		for bc, m := range blkCount[b] {
			for s, n := range m {
				if idx[bc][s] != n {
					bad("index-vs-voxels", "the supervoxel volume has %d voxels of supervoxel %d (body %d) in block %v, index/%d (found %v) has %d", n, s, b, bc, b, ok, idx[bc][s])
				}
			}
		}
		F["index/"+nameB(b)] = sortedJoin(il)
	}
	// mapping of every supervoxel of the volume plus the original ids
	ids := map[uint64]bool{}
	for s := range scount {
		ids[s] = true
	}
	for k := uint64(1); k <= nSV; k++ {
		ids[k] = true
	}
	var idl []uint64
	for s := range ids {
		idl = append(idl, s)
	}
	sort.Slice(idl, func(i, j int) bool { return idl[i] < idl[j] })
	mp, r := l.Mapping(u, idl)
	e.note(r, "GET", "node/x/lm/mapping")
	if !r.OK() || len(mp) != len(idl) {
		return nil, fmt.Errorf("mapping: %s", r)
	}
	for i, s := range idl {
		F["mapping/"+nameS(s)] = nameB(mp[i])
		if want, inVol := svBody[s]; inVol && mp[i] != want {
			bad("mapping-vs-voxels", "mapping(%d) = %d, the label volume shows that supervoxel's voxels as body %d", s, mp[i], want)
		}
	}
	// the instance's mutation log of this version (what a restart rebuilds the mapping from): every record must decode,
	// and the set of records is part of the state
	recs, lerr := readMutationLog(e.nodes[0], nameB, nameS)
	if lerr != nil {
		bad("mutation-log", "%v", lerr)
	}
	F["mutation-log"] = strings.Join(recs, " ; ")
	ml, r := l.MaxLabel(u)
	e.note(r, "GET", "node/x/lm/maxlabel")
	F["maxlabel"] = fmt.Sprintf("%d:%d", r.Code, ml)
	var maxInVol uint64
	for s := range scount {
		if s > maxInVol {
			maxInVol = s
		}
	}
	for b := range bcount {
		if b > maxInVol {
			maxInVol = b
		}
	}
	if r.OK() && ml < maxInVol {
		bad("maxlabel-vs-voxels", "maxlabel answers %d, the volume holds label %d", ml, maxInVol)
	}
	return cons, nil
}

// readMutationLog reads the label mutation log of the version through the storage API and renders every record with
// server-chosen ids replaced by canonical names.
func readMutationLog(uuid string, nameB, nameS func(uint64) string) (recs []string, err error) {
	d, err := datastore.GetDataByUUIDName(dvid.UUID(uuid), "lm")
	if err != nil {
		return nil, err
	}
	v, err := datastore.VersionFromUUID(dvid.UUID(uuid))
	if err != nil {
		return nil, err
	}
	ch := make(chan storage.LogMessage, 1000)
	var msgs []storage.LogMessage
	done := make(chan struct{})
	go func() {
		for m := range ch {
			msgs = append(msgs, m)
		}
		close(done)
	}()
	serr := stats.PanicGuard("C11/labelmap/mutation-log/inconsistent", func() error { return labels.StreamLog(d, v, ch) })
	<-done
	if serr != nil {
		return nil, fmt.Errorf("reading the mutation log failed: %v", serr)
	}
	names := func(f func(uint64) string, ids []uint64) string {
		var s []string
		for _, x := range ids {
			s = append(s, f(x))
		}
		return sortedJoin(s)
	}
	for i, m := range msgs {
		var rec string
		var uerr error
		switch m.EntryType {
		case dvidproto.MergeOpType:
			var op dvidproto.MergeOp
			uerr = pb.Unmarshal(m.Data, &op)
			rec = fmt.Sprintf("merge(%d<-%v)", op.Target, sortedU64(op.Merged))
		case dvidproto.CleaveOpType:
			var op dvidproto.CleaveOp
			uerr = pb.Unmarshal(m.Data, &op)
			rec = fmt.Sprintf("cleave(%d->%s:%v)", op.Target, nameB(op.Cleavedlabel), sortedU64(op.Cleaved))
		case dvidproto.RenumberOpType:
			var op dvidproto.RenumberOp
			uerr = pb.Unmarshal(m.Data, &op)
			rec = fmt.Sprintf("renumber(%d->%d)", op.Target, op.Newlabel)
		case dvidproto.SupervoxelSplitType:
			var op dvidproto.SupervoxelSplitOp
			uerr = pb.Unmarshal(m.Data, &op)
			rec = fmt.Sprintf("splitsv(%d->%s,%s)", op.Supervoxel, nameS(op.Splitlabel), nameS(op.Remainlabel))
		case dvidproto.MappingOpType:
			var op dvidproto.MappingOp
			uerr = pb.Unmarshal(m.Data, &op)
			rec = fmt.Sprintf("mapping(%s<-%s)", nameB(op.Mapped), names(nameS, op.Original))
		default:
			rec = fmt.Sprintf("type%d(%d bytes)", m.EntryType, len(m.Data))
		}
		if uerr != nil {
			err = fmt.Errorf("record %d of the mutation log (type %d, %d bytes) does not decode: %v", i, m.EntryType, len(m.Data), uerr)
			rec = fmt.Sprintf("undecodable-type%d", m.EntryType)
		}
		recs = append(recs, rec)
	}
	sort.Strings(recs)
	return recs, err
}

func sortedU64(v []uint64) []uint64 {
	v = append([]uint64(nil), v...)
	sort.Slice(v, func(i, j int) bool { return v[i] < v[j] })
	return v
}

// ---- annotation

type annRel struct {
	Rel string
	To  [3]int32
}

type annElem struct {
	Pos  [3]int32
	Kind string
	Tags []string
	Prop map[string]string
	Rels []annRel
}

func (a annElem) canon(withRels bool) string {
	tags := append([]string(nil), a.Tags...)
	sort.Strings(tags)
	var props []string
	for k, v := range a.Prop {
		props = append(props, k+"="+v)
	}
	sort.Strings(props)
	s := fmt.Sprintf("%v|%s|tags=%s|prop=%s", a.Pos, a.Kind, strings.Join(tags, ","), strings.Join(props, ","))
	if withRels {
		var rels []string
		for _, r := range a.Rels {
			rels = append(rels, fmt.Sprintf("%s>%v", r.Rel, r.To))
		}
		sort.Strings(rels)
		s += "|rels=" + strings.Join(rels, ",")
	}
	return s
}

func canonList(es []annElem, withRels bool) string {
	var s []string
	for _, x := range es {
		s = append(s, x.canon(withRels))
	}
	sort.Strings(s)
	return strings.Join(s, " ; ")
}

func snapAnnotation(e *env, F map[string]string) (error, error) {
	var cons error
	bad := func(sig, format string, a ...interface{}) {
		if cons == nil {
			cons = stats.Violf("C11/annotation/"+sig+"/inconsistent", format, a...)
		}
	}
	r := e.get("node/{n0}/ann/all-elements")
	if !r.OK() {
		return nil, fmt.Errorf("all-elements: %s", r)
	}
	blocks := map[string][]annElem{}
	if err := json.Unmarshal(r.Body, &blocks); err != nil {
		return nil, fmt.Errorf("all-elements: %v: %s", err, r)
	}
	var all []annElem
	byPos := map[[3]int32]int{}
	for key, es := range blocks {
		for _, x := range es {
			want := fmt.Sprintf("%d,%d,%d", x.Pos[0]>>4, x.Pos[1]>>4, x.Pos[2]>>4)
			if key != want {
				bad("element-in-wrong-block", "element at %v is stored under block %s", x.Pos, key)
			}
			byPos[x.Pos]++
			if byPos[x.Pos] > 1 {
				bad("duplicate-element", "two elements at position %v in all-elements", x.Pos)
			}
			all = append(all, x)
		}
	}
	F["all"] = canonList(all, true)
	// box query
	r = e.get("node/{n0}/ann/elements/32_32_32/0_0_0")
	var box []annElem
	if !r.OK() || (string(r.Body) != "null" && json.Unmarshal(r.Body, &box) != nil) {
		return nil, fmt.Errorf("elements box: %s", r)
	}
	F["box"] = canonList(box, true)
	if F["box"] != F["all"] {
		bad("box-vs-all", "elements/<whole volume> = {%s} but all-elements = {%s}", F["box"], F["all"])
	}
	// relationship targets exist
	for _, x := range all {
		for _, rel := range x.Rels {
			if byPos[rel.To] == 0 {
				bad("relationship-target", "element at %v has a %s relationship to %v where no element exists", x.Pos, rel.Rel, rel.To)
			}
		}
	}
	// tags
	for _, t := range e.c.U.Tags {
		r := e.get("node/{n0}/ann/tag/" + t + "?relationships=true")
		var te []annElem
		if !r.OK() || (string(r.Body) != "null" && json.Unmarshal(r.Body, &te) != nil) {
			return nil, fmt.Errorf("tag/%s: %s", t, r)
		}
		var want []annElem
		for _, x := range all {
			for _, tt := range x.Tags {
				if tt == t {
					want = append(want, x)
					break
				}
			}
		}
		F["tag/"+t] = canonList(te, true)
		if F["tag/"+t] != canonList(want, true) {
			bad("tag-index", "tag/%s?relationships=true = {%s} but the elements carrying that tag in all-elements are {%s}", t, F["tag/"+t], canonList(want, true))
		}
		// the default form serves the tag's own copy of the elements (without relationships)
		r = e.get("node/{n0}/ann/tag/" + t)
		var tn []annElem
		if !r.OK() || (string(r.Body) != "null" && json.Unmarshal(r.Body, &tn) != nil) {
			return nil, fmt.Errorf("tag/%s: %s", t, r)
		}
		F["tagNR/"+t] = canonList(tn, false)
		if F["tagNR/"+t] != canonList(want, false) {
			bad("tag-index", "tag/%s = {%s} but the elements carrying that tag in all-elements are {%s}", t, F["tagNR/"+t], canonList(want, false))
		}
	}
	// labels
	if e.c.U.Synced {
		var pts [][3]int32
		for _, x := range all {
			pts = append(pts, x.Pos)
		}
		lbl := map[[3]int32]uint64{}
		if len(pts) > 0 {
			ls, r := lm().Labels(e.nodes[0], pts, false)
			e.note(r, "GET", "node/x/lm/labels")
			if !r.OK() || len(ls) != len(pts) {
				return nil, fmt.Errorf("lm labels: %s", r)
			}
			for i, p := range pts {
				lbl[p] = ls[i]
			}
		}
		probe := map[uint64]bool{}
		for k := uint64(1); k <= nSV; k++ {
			probe[k] = true
		}
		for _, v := range lbl {
			probe[v] = true
		}
		var pl []uint64
		for b := range probe {
			if b != 0 {
				pl = append(pl, b)
			}
		}
		sort.Slice(pl, func(i, j int) bool { return pl[i] < pl[j] })
		for _, b := range pl {
			r := e.get(fmt.Sprintf("node/{n0}/ann/label/%d?relationships=true", b))
			var le []annElem
			if !r.OK() || (string(r.Body) != "null" && json.Unmarshal(r.Body, &le) != nil) {
				return nil, fmt.Errorf("label/%d: %s", b, r)
			}
			var want []annElem
			for _, x := range all {
				if lbl[x.Pos] == b {
					want = append(want, x)
				}
			}
			F[fmt.Sprintf("label/%d", b)] = canonList(le, true)
			if canonList(le, true) != canonList(want, true) {
				bad("label-index", "label/%d?relationships=true = {%s} but the elements of all-elements lying on that body are {%s}", b, canonList(le, true), canonList(want, true))
			}
			r = e.get(fmt.Sprintf("node/{n0}/ann/label/%d", b))
			var ln []annElem
			if !r.OK() || (string(r.Body) != "null" && json.Unmarshal(r.Body, &ln) != nil) {
				return nil, fmt.Errorf("label/%d: %s", b, r)
			}
			F[fmt.Sprintf("labelNR/%d", b)] = canonList(ln, false)
			if canonList(ln, false) != canonList(want, false) {
				bad("label-index", "label/%d = {%s} but the elements of all-elements lying on that body are {%s}", b, canonList(ln, false), canonList(want, false))
			}
		}
	}
	return cons, nil
}

// ------------------------------------------------------------------ generators

// pickShape draws a shape; when the shape's not-serializable finding is listed as known it is replaced by the
// family's control shape (disjoint targets) by construction.
func pickShape(t *rapid.T, family string, shapes []string, control string) string {
	s := rapid.SampledFrom(shapes).Draw(t, "shape")
	if f := os.Getenv("VERIF_C11_SHAPE"); f != "" { // development aid: restrict the search to one shape of the family
		for _, x := range shapes {
			if x == f {
				s = f
			}
		}
	}
	sig := "C11/" + family + "/" + s + "/not-serializable"
	if stats.IsKnown(sig) {
		stats.Excluded(sig)
		return control
	}
	return s
}

func genCase(t *rapid.T) c11Case {
	fam := rapid.SampledFrom([]string{"keyvalue", "dag", "dag", "neuronjson", "neuronjson", "labelmap", "labelmap", "labelmap", "annotation", "annotation", "annotation"}).Draw(t, "family")
	if f := os.Getenv("VERIF_C11_FAMILY"); f != "" { // development aid: restrict the search to one family
		fam = f
	}
	var c c11Case
	switch fam {
	case "keyvalue":
		c = genKeyvalue(t)
	case "dag":
		c = genDAG(t)
	case "neuronjson":
		c = genNeuronjson(t)
	case "labelmap":
		c = genLabelmap(t)
	case "annotation":
		c = genAnnotation(t)
	}
	c.Family = fam
	c.Mode = "sched"
	if rapid.IntRange(0, 9).Draw(t, "free") == 9 { // the shrinker prefers the deterministic scheduled mode
		c.Mode = "free"
	}
	c.SchedKind, c.Schedule = genSchedule(t, len(c.Reqs))
	if c.Mode == "free" {
		c.SchedKind, c.Schedule = "", nil
	}
	return c
}

// ---- keyvalue

func kvBatch(kvs ...string) reqSpec {
	var m dvidproto.KeyValues
	for i := 0; i+1 < len(kvs); i += 2 {
		m.Kvs = append(m.Kvs, &dvidproto.KeyValue{Key: kvs[i], Value: []byte(kvs[i+1])})
	}
	b, _ := pb.Marshal(&m)
	return reqSpec{M: "POST", Path: "node/{n0}/kv/keyvalues", Body: base64.StdEncoding.EncodeToString(b), B64: true}
}

func genKeyvalue(t *rapid.T) c11Case {
	c := c11Case{U: universe{Keys: []string{"k1", "k2", "k3"}}}
	c.Pre = []reqSpec{instReq("keyvalue", "kv")}
	if rapid.Bool().Draw(t, "preexisting") {
		c.Pre = append(c.Pre, reqSpec{M: "POST", Path: "node/{n0}/kv/key/k1", Body: "old1"}, reqSpec{M: "POST", Path: "node/{n0}/kv/key/k2", Body: "old2"})
	}
	post := func(k, v string) reqSpec { return reqSpec{M: "POST", Path: "node/{n0}/kv/key/" + k, Body: v} }
	del := func(k string) reqSpec { return reqSpec{M: "DELETE", Path: "node/{n0}/kv/key/" + k} }
	c.Shape = pickShape(t, "keyvalue", []string{"post-post-same-key", "post-delete-same-key", "delete-delete-same-key", "post-post-two-keys", "keyvalues-overlap", "keyvalues-overlap",
		"keyvalues-post-same-keys", "keyvalues-disjoint"}, "post-post-two-keys")
	switch c.Shape {
	case "post-post-same-key":
		c.Reqs = []reqSpec{post("k1", "a"), post("k1", "b")}
	case "post-delete-same-key":
		c.Reqs = []reqSpec{post("k1", "a"), del("k1")}
	case "delete-delete-same-key":
		c.Reqs = []reqSpec{del("k1"), del("k1")}
	case "post-post-two-keys":
		c.Reqs = []reqSpec{post("k1", "a"), post("k2", "b")}
	case "keyvalues-overlap":
		if rapid.Bool().Draw(t, "same_order") {
			c.Reqs = []reqSpec{kvBatch("k1", "a1", "k2", "a2"), kvBatch("k1", "b1", "k2", "b2")}
		} else {
			c.Reqs = []reqSpec{kvBatch("k1", "a1", "k2", "a2"), kvBatch("k2", "b2", "k1", "b1")}
		}
	case "keyvalues-post-same-keys":
		c.Reqs = []reqSpec{kvBatch("k1", "a1", "k2", "a2"), post("k2", "b")}
	case "keyvalues-disjoint":
		c.Reqs = []reqSpec{kvBatch("k1", "a1"), kvBatch("k2", "b2", "k3", "b3")}
	}
	if rapid.IntRange(0, 3).Draw(t, "third") == 0 {
		c.Third = "post-other-key"
		c.Reqs = append(c.Reqs, post("k3", "c"))
	}
	return c
}

// ---- DAG

func genDAG(t *rapid.T) c11Case {
	c := c11Case{U: universe{Keys: []string{"k1", "k2"}}}
	c.Pre = []reqSpec{instReq("keyvalue", "kv"), {M: "POST", Path: "node/{n0}/kv/key/k1", Body: "v0"}}
	c.Shape = pickShape(t, "dag", []string{"newversion-newversion", "newversion-newversion", "branch-newversion", "branch-branch-same-name", "branch-branch-diff-names",
		"commit-post", "newinstance-same-name", "newinstance-diff-names", "merge-newversion-same-parent", "merge-branch-same-parent"}, "branch-branch-diff-names")
	commit := func(n string) reqSpec { return reqSpec{M: "POST", Path: "node/" + n + "/commit", Body: `{"note":"c"}`} }
	nv := func(n, note string) reqSpec {
		return reqSpec{M: "POST", Path: "node/" + n + "/newversion", Body: fmt.Sprintf(`{"note":%q}`, note)}
	}
	br := func(n, name, note string) reqSpec {
		return reqSpec{M: "POST", Path: "node/" + n + "/branch", Body: fmt.Sprintf(`{"branch":%q,"note":%q}`, name, note)}
	}
	parent := "{n0}"
	versionShape := strings.HasPrefix(c.Shape, "newversion") || strings.HasPrefix(c.Shape, "branch")
	if strings.HasPrefix(c.Shape, "merge-") {
		// a committed side branch {n1} off the committed root: merge(root, {n1}) against a new version / branch made from {n1}
		c.Pre = append(c.Pre, commit("{n0}"), br("{n0}", "side", "setup"), reqSpec{M: "POST", Path: "node/{n1}/kv/key/k2", Body: "v1"}, commit("{n1}"))
		mg := reqSpec{M: "POST", Path: "repo/{n0}/merge", Body: `{"mergeType":"conflict-free","parents":["{n1}","{n0}"],"note":"m"}`}
		if rapid.Bool().Draw(t, "merge_parent_order") {
			mg.Body = `{"mergeType":"conflict-free","parents":["{n0}","{n1}"],"note":"m"}`
		}
		if c.Shape == "merge-newversion-same-parent" {
			c.Reqs = []reqSpec{mg, nv("{n1}", "r1")}
		} else {
			c.Reqs = []reqSpec{mg, br("{n1}", "b1", "r1")}
		}
		if rapid.Bool().Draw(t, "merge_second") {
			c.Reqs[0], c.Reqs[1] = c.Reqs[1], c.Reqs[0]
		}
		return c
	}
	if versionShape {
		c.Pre = append(c.Pre, commit("{n0}"))
		switch rapid.IntRange(0, 2).Draw(t, "parent_kind") {
		case 1: // parent is a child on master
			c.Pre = append(c.Pre, nv("{n0}", "setup"), reqSpec{M: "POST", Path: "node/{n1}/kv/key/k2", Body: "v1"}, commit("{n1}"))
			parent = "{n1}"
		case 2: // parent is the head of a named branch
			c.Pre = append(c.Pre, br("{n0}", "side", "setup"), reqSpec{M: "POST", Path: "node/{n1}/kv/key/k2", Body: "v1"}, commit("{n1}"))
			parent = "{n1}"
		}
	}
	switch c.Shape {
	case "newversion-newversion":
		c.Reqs = []reqSpec{nv(parent, "r0"), nv(parent, "r1")}
	case "branch-newversion":
		c.Reqs = []reqSpec{br(parent, "b1", "r0"), nv(parent, "r1")}
	case "branch-branch-same-name":
		c.Reqs = []reqSpec{br(parent, "b1", "r0"), br(parent, "b1", "r1")}
	case "branch-branch-diff-names":
		c.Reqs = []reqSpec{br(parent, "b1", "r0"), br(parent, "b2", "r1")}
	case "commit-post":
		c.Reqs = []reqSpec{commit("{n0}"), {M: "POST", Path: "node/{n0}/kv/key/k2", Body: "late"}}
	case "newinstance-same-name":
		ty := rapid.SampledFrom([]string{"keyvalue", "roi"}).Draw(t, "type2")
		c.Reqs = []reqSpec{instReq("keyvalue", "x"), instReq(ty, "x")}
	case "newinstance-diff-names":
		c.Reqs = []reqSpec{instReq("keyvalue", "x"), instReq("keyvalue", "y")}
	}
	if rapid.IntRange(0, 3).Draw(t, "third") == 0 {
		if versionShape {
			if strings.HasPrefix(c.Shape, "newversion") && rapid.Bool().Draw(t, "third_same") {
				c.Third = "newversion-same-parent"
				c.Reqs = append(c.Reqs, nv(parent, "r2"))
			} else {
				c.Third = "branch-other-name"
				c.Reqs = append(c.Reqs, br(parent, "b9", "r2"))
			}
		} else {
			c.Third = "newinstance-other-name"
			c.Reqs = append(c.Reqs, instReq("keyvalue", "z"))
		}
	}
	return c
}

// ---- neuronjson

func genNeuronjson(t *rapid.T) c11Case {
	c := c11Case{U: universe{Keys: []string{"100", "200", "300"}}}
	c.Pre = []reqSpec{instReq("neuronjson", "nj")}
	if rapid.Bool().Draw(t, "preexisting") {
		c.Pre = append(c.Pre, reqSpec{M: "POST", Path: "node/{n0}/nj/key/100?u=setup", Body: `{"bodyid":100,"a":0,"z":"keep"}`})
	}
	post := func(id int, user, fields string, replace bool) reqSpec {
		q := "?u=" + user
		if replace {
			q += "&replace=true"
		}
		return reqSpec{M: "POST", Path: fmt.Sprintf("node/{n0}/nj/key/%d%s", id, q), Body: fmt.Sprintf(`{"bodyid":%d,%s}`, id, fields)}
	}
	del := func(id int, user string) reqSpec {
		return reqSpec{M: "DELETE", Path: fmt.Sprintf("node/{n0}/nj/key/%d?u=%s", id, user)}
	}
	va := rapid.IntRange(1, 9).Draw(t, "va")
	vb := rapid.IntRange(11, 19).Draw(t, "vb")
	c.Shape = pickShape(t, "neuronjson", []string{"post-post-disjoint-fields", "post-post-disjoint-fields", "post-post-overlap-fields", "post-post-replace", "post-delete", "delete-delete",
		"post-post-two-bodies"}, "post-post-two-bodies")
	switch c.Shape {
	case "post-post-disjoint-fields":
		c.Reqs = []reqSpec{post(100, "u0", fmt.Sprintf(`"a":%d`, va), false), post(100, "u1", fmt.Sprintf(`"b":%d`, vb), false)}
	case "post-post-overlap-fields":
		c.Reqs = []reqSpec{post(100, "u0", fmt.Sprintf(`"a":%d,"c":"x"`, va), false), post(100, "u1", fmt.Sprintf(`"b":%d,"c":"y"`, vb), false)}
	case "post-post-replace":
		c.Reqs = []reqSpec{post(100, "u0", fmt.Sprintf(`"a":%d`, va), true), post(100, "u1", fmt.Sprintf(`"b":%d`, vb), false)}
	case "post-delete":
		c.Reqs = []reqSpec{post(100, "u0", fmt.Sprintf(`"a":%d`, va), false), del(100, "u1")}
	case "delete-delete":
		c.Reqs = []reqSpec{del(100, "u0"), del(100, "u1")}
	case "post-post-two-bodies":
		c.Reqs = []reqSpec{post(100, "u0", fmt.Sprintf(`"a":%d`, va), false), post(200, "u1", fmt.Sprintf(`"b":%d`, vb), false)}
	}
	if rapid.IntRange(0, 3).Draw(t, "third") == 0 {
		if strings.HasPrefix(c.Shape, "post-post") && c.Shape != "post-post-two-bodies" && rapid.Bool().Draw(t, "third_same") {
			c.Third = "post-same-body-third-field"
			c.Reqs = append(c.Reqs, post(100, "u2", `"d":"third"`, false))
		} else {
			c.Third = "post-other-body"
			c.Reqs = append(c.Reqs, post(300, "u2", `"d":"third"`, false))
		}
	}
	return c
}

// ---- labelmap

func mergeReq(target uint64, merged ...uint64) reqSpec {
	return reqSpec{M: "POST", Path: "node/{n0}/lm/merge", Body: u64json(append([]uint64{target}, merged...)...)}
}

func cleaveReq(body uint64, svs ...uint64) reqSpec {
	return reqSpec{M: "POST", Path: fmt.Sprintf("node/{n0}/lm/cleave/%d", body), Body: u64json(svs...)}
}

// splitReq splits the sub-box x in [x0, x0+w), y in [0,h), z in [0,d) off supervoxel sv (a proper part of its slab).
func splitReq(sv uint64, w, h, d int32) reqSpec {
	x0 := int32(sv-1) * slab
	var runs []lmdrive.Run
	for z := int32(0); z < d; z++ {
		for y := int32(0); y < h; y++ {
			runs = append(runs, lmdrive.Run{X: x0, Y: y, Z: z, N: w})
		}
	}
	return reqSpec{M: "POST", Path: fmt.Sprintf("node/{n0}/lm/split-supervoxel/%d", sv), Body: base64.StdEncoding.EncodeToString(lmdrive.EncodeRuns(runs)), B64: true}
}

func genLabelmap(t *rapid.T) c11Case {
	c := c11Case{}
	// bodies after setup: 1 = {1,2,3}, 5 = {5,6}, singletons 4, 7, 8
	c.Pre = append(lmSetup(), mergeReq(1, 2, 3), mergeReq(5, 6))
	c.Shape = pickShape(t, "labelmap", []string{"merge-merge-same-target", "merge-merge-same-target", "merge-merge-chain", "merge-cleave-same-body", "cleave-cleave-same-body",
		"merge-splitsv-same-body", "cleave-splitsv-same-body", "renumber-merge", "maxlabel-maxlabel", "merge-merge-disjoint",
		"mutate-mutate-same-label", "mutate-mutate-new-labels"}, "merge-merge-disjoint")
	singles := rapid.Permutation([]uint64{4, 7, 8}).Draw(t, "singles")
	target := rapid.SampledFrom([]uint64{1, 5}).Draw(t, "target")
	w := int32(rapid.IntRange(1, 3).Draw(t, "sw"))
	h := int32(rapid.IntRange(1, 4).Draw(t, "sh"))
	d := int32(rapid.IntRange(1, 2).Draw(t, "sd"))
	switch c.Shape {
	case "merge-merge-same-target":
		c.Reqs = []reqSpec{mergeReq(target, singles[0]), mergeReq(target, singles[1])}
	case "merge-merge-chain":
		c.Reqs = []reqSpec{mergeReq(singles[0], singles[1]), mergeReq(target, singles[0])}
	case "merge-cleave-same-body":
		sv := rapid.SampledFrom([]uint64{2, 3}).Draw(t, "cleave_sv")
		c.Reqs = []reqSpec{mergeReq(1, singles[0]), cleaveReq(1, sv)}
	case "cleave-cleave-same-body":
		c.Reqs = []reqSpec{cleaveReq(1, 2), cleaveReq(1, 3)}
	case "merge-splitsv-same-body":
		sv := rapid.SampledFrom([]uint64{1, 2, 3}).Draw(t, "split_sv")
		c.Reqs = []reqSpec{mergeReq(1, singles[0]), splitReq(sv, w, h, d)}
	case "cleave-splitsv-same-body":
		c.Reqs = []reqSpec{cleaveReq(1, 3), splitReq(2, w, h, d)}
	case "renumber-merge":
		c.Reqs = []reqSpec{{M: "POST", Path: "node/{n0}/lm/renumber", Body: u64json(20, target)}, mergeReq(target, singles[0])}
	case "maxlabel-maxlabel":
		a := uint64(rapid.IntRange(100, 150).Draw(t, "ml_a"))
		b := uint64(rapid.IntRange(160, 200).Draw(t, "ml_b"))
		c.Reqs = []reqSpec{{M: "POST", Path: fmt.Sprintf("node/{n0}/lm/maxlabel/%d", a)}, {M: "POST", Path: fmt.Sprintf("node/{n0}/lm/maxlabel/%d", b)}}
	case "merge-merge-disjoint":
		c.Reqs = []reqSpec{mergeReq(1, singles[0]), mergeReq(5, singles[1])}
	case "mutate-mutate-same-label":
		// two voxel repaints in different blocks, both taking voxels from supervoxel 1 (body 1) and giving them to the same
		// new supervoxel 50: the index updates of bodies 1 and 50 happen in background goroutines after the requests return
		c.Reqs = []reqSpec{mutateReq(0, 0, 0, 50, w), mutateReq(0, 1, 0, 50, h%3+1)}
		c.BG = true
	case "mutate-mutate-new-labels":
		// repaints in different blocks with different new supervoxels: besides body 1's index only the maximum label is shared
		c.Reqs = []reqSpec{mutateReq(0, 0, 1, 50, w), mutateReq(0, 1, 1, 60, h%3+1)}
		c.BG = true
	}
	if rapid.IntRange(0, 3).Draw(t, "third") == 0 {
		uses5 := c.Shape == "merge-merge-disjoint" || (target == 5 && (c.Shape == "merge-merge-same-target" || c.Shape == "merge-merge-chain" || c.Shape == "renumber-merge"))
		switch {
		case c.Shape == "merge-merge-same-target":
			c.Third = "merge-same-target"
			c.Reqs = append(c.Reqs, mergeReq(target, singles[2]))
		case c.Shape == "maxlabel-maxlabel":
			c.Third = "maxlabel"
			c.Reqs = append(c.Reqs, reqSpec{M: "POST", Path: "node/{n0}/lm/maxlabel/155"})
		case !uses5:
			c.Third = "cleave-other-body"
			c.Reqs = append(c.Reqs, cleaveReq(5, 6))
		default:
			c.Third = "maxlabel"
			c.Reqs = append(c.Reqs, reqSpec{M: "POST", Path: "node/{n0}/lm/maxlabel/300"})
		}
	}
	return c
}

// ---- annotation

func elemJSON(x annElem) string {
	if x.Tags == nil {
		x.Tags = []string{}
	}
	if x.Prop == nil {
		x.Prop = map[string]string{}
	}
	if x.Rels == nil {
		x.Rels = []annRel{}
	}
	b, _ := json.Marshal(x)
	return string(b)
}

func postElems(es ...annElem) reqSpec {
	var s []string
	for _, x := range es {
		s = append(s, elemJSON(x))
	}
	return reqSpec{M: "POST", Path: "node/{n0}/ann/elements", Body: "[" + strings.Join(s, ",") + "]"}
}

func delElem(p [3]int32) reqSpec {
	return reqSpec{M: "DELETE", Path: fmt.Sprintf("node/{n0}/ann/element/%d_%d_%d", p[0], p[1], p[2])}
}

func moveElem(from, to [3]int32) reqSpec {
	return reqSpec{M: "POST", Path: fmt.Sprintf("node/{n0}/ann/move/%d_%d_%d/%d_%d_%d", from[0], from[1], from[2], to[0], to[1], to[2])}
}

func genAnnotation(t *rapid.T) c11Case {
	c := c11Case{U: universe{Tags: []string{"t1", "t2", "t3"}, Synced: true}}
	c.Pre = append(lmSetup(), instReq("annotation", "ann"), reqSpec{M: "POST", Path: "node/{n0}/ann/sync", Body: `{"sync":"lm"}`})
	c.Shape = pickShape(t, "annotation", []string{"post-post-same-block", "post-post-same-block", "post-post-same-pos", "post-post-same-tag", "post-post-same-label", "post-post-disjoint",
		"post-delete-same-block", "post-delete-same-tag", "delete-delete-same-block", "delete-delete-same-tag", "delete-delete-partners",
		"move-move-into-one-block", "move-post-same-block", "move-move-same-tag", "lmmerge-post-same-label"}, "post-post-disjoint")
	// positions: block (bx,by,bz) in {0,1}^3 of 16^3 voxels; the body of a position is decided by x (slab of 4)
	oy := int32(rapid.IntRange(0, 15).Draw(t, "oy"))
	oz := int32(rapid.IntRange(0, 15).Draw(t, "oz"))
	P := func(x, by, bz int32) [3]int32 { return [3]int32{x, by*16 + oy, bz*16 + oz} }
	kinds := []string{"PostSyn", "PreSyn", "Note", "Gap"}
	kind := func(l string) string { return rapid.SampledFrom(kinds).Draw(t, l) }
	E := func(p [3]int32, k string, tags ...string) annElem {
		return annElem{Pos: p, Kind: k, Tags: tags, Prop: map[string]string{"who": fmt.Sprintf("%d.%d.%d", p[0], p[1], p[2])}}
	}
	// a bystander element that must survive everything (own block, tag t3)
	stay := E(P(30, 1, 1), "Note", "t3")
	c.Pre = append(c.Pre, postElems(stay))
	switch c.Shape {
	case "post-post-same-block":
		// same block (0,0,0); different positions, tags and bodies (x 1 -> sv 1, x 13 -> sv 4)
		c.Reqs = []reqSpec{postElems(E(P(1, 0, 0), kind("k0"), "t1")), postElems(E(P(13, 0, 0), kind("k1"), "t2"))}
	case "post-post-same-pos":
		c.Reqs = []reqSpec{postElems(E(P(1, 0, 0), "PostSyn", "t1")), postElems(E(P(1, 0, 0), "PreSyn", "t2"))}
	case "post-post-same-tag":
		// different blocks and bodies, same tag
		c.Reqs = []reqSpec{postElems(E(P(1, 0, 0), kind("k0"), "t1")), postElems(E(P(21, 1, 0), kind("k1"), "t1"))}
	case "post-post-same-label":
		// same body (x 13 and 14 -> sv 4), different blocks (by 0 / 1), different tags
		c.Reqs = []reqSpec{postElems(E(P(13, 0, 0), kind("k0"), "t1")), postElems(E(P(14, 1, 0), kind("k1"), "t2"))}
	case "post-post-disjoint":
		c.Reqs = []reqSpec{postElems(E(P(13, 0, 0), kind("k0"), "t1")), postElems(E(P(29, 1, 0), kind("k1"), "t2"))}
	case "post-delete-same-block":
		old := E(P(13, 0, 0), "PostSyn", "t2")
		c.Pre = append(c.Pre, postElems(old))
		c.Reqs = []reqSpec{postElems(E(P(1, 0, 0), kind("k0"), "t1")), delElem(old.Pos)}
	case "post-delete-same-tag":
		old := E(P(13, 0, 0), "PostSyn", "t1")
		c.Pre = append(c.Pre, postElems(old))
		c.Reqs = []reqSpec{postElems(E(P(21, 1, 0), kind("k0"), "t1")), delElem(old.Pos)}
	case "delete-delete-same-block":
		a, b := E(P(1, 0, 0), "PostSyn", "t1"), E(P(13, 0, 0), "PreSyn", "t2")
		c.Pre = append(c.Pre, postElems(a, b))
		c.Reqs = []reqSpec{delElem(a.Pos), delElem(b.Pos)}
	case "delete-delete-same-tag":
		a, b := E(P(1, 0, 0), "PostSyn", "t1"), E(P(21, 1, 0), "PreSyn", "t1")
		c.Pre = append(c.Pre, postElems(a, b))
		c.Reqs = []reqSpec{delElem(a.Pos), delElem(b.Pos)}
	case "delete-delete-partners":
		a, b := E(P(1, 0, 0), "PreSyn", "t1"), E(P(21, 1, 0), "PostSyn", "t2")
		a.Rels = []annRel{{Rel: "PreSynTo", To: b.Pos}}
		b.Rels = []annRel{{Rel: "PostSynTo", To: a.Pos}}
		c.Pre = append(c.Pre, postElems(a, b))
		c.Reqs = []reqSpec{delElem(a.Pos), delElem(b.Pos)}
	case "move-move-into-one-block":
		a, b := E(P(1, 0, 0), "PostSyn", "t1"), E(P(21, 1, 0), "PreSyn", "t2")
		c.Pre = append(c.Pre, postElems(a, b))
		c.Reqs = []reqSpec{moveElem(a.Pos, P(9, 0, 1)), moveElem(b.Pos, P(13, 0, 1))}
	case "move-post-same-block":
		a := E(P(1, 0, 0), "PostSyn", "t1")
		c.Pre = append(c.Pre, postElems(a))
		c.Reqs = []reqSpec{moveElem(a.Pos, P(9, 0, 1)), postElems(E(P(13, 0, 1), kind("k0"), "t2"))}
	case "move-move-same-tag":
		a, b := E(P(1, 0, 0), "PostSyn", "t1"), E(P(21, 1, 0), "PreSyn", "t1")
		c.Pre = append(c.Pre, postElems(a, b))
		c.Reqs = []reqSpec{moveElem(a.Pos, P(2, 0, 0)), moveElem(b.Pos, P(22, 1, 0))}
	case "lmmerge-post-same-label":
		// an element already on body 1, one on body 4; merge 4 into 1 in the label instance while an element is posted on body 1 (x 2)
		a, b := E(P(1, 0, 0), "PostSyn", "t1"), E(P(13, 0, 0), "PreSyn", "t2")
		c.Pre = append(c.Pre, postElems(a, b))
		c.Reqs = []reqSpec{mergeReq(1, 4), postElems(E(P(2, 1, 0), kind("k0"), "t1"))}
		c.BG = true
	}
	if rapid.IntRange(0, 3).Draw(t, "third") == 0 {
		c.Third = "post-unrelated-block"
		c.Reqs = append(c.Reqs, postElems(E(P(25, 1, 1), "Note", "t3")))
	}
	return c
}
