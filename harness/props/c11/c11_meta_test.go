package c11

// TestC11MetaSave — two concurrent, acknowledged repo-level requests on one repo, then a reopen of the stores.
//
// Every repo-level change is made in memory and then persisted by writing the whole repo record.  "No acknowledged
// write disappears" includes the persisted record: whatever order the two record writes reach the store in, the
// record found after a restart must hold both changes.  The scheduler parks the requests at the store write points,
// so a request can be held between serialising the record and writing it.

import (
	"encoding/json"
	"fmt"
	"strings"
	"testing"

	"pgregory.net/rapid"

	"github.com/janelia-flyem/dvid/datastore"

	"verif/drive"
	"verif/stats"
)

type metaReq struct {
	Kind string `json:"kind"` // note log commit newinst branch
	Node int    `json:"node"` // 0 = first open leaf, 1 = second open leaf
	Arg  int    `json:"arg"`
}

type metaCase struct {
	Reqs     []metaReq `json:"reqs"`
	Schedule []int     `json:"schedule"`
}

func checkMetaSave(c metaCase) (switched bool, err error) {
	root, e := drive.NewRepo()
	if e != nil {
		return false, fmt.Errorf("harness: %v", e)
	}
	if e := drive.Commit(root); e != nil {
		return false, fmt.Errorf("harness: %v", e)
	}
	// two open leaves on different branches
	leaves := make([]string, 2)
	for i := range leaves {
		if leaves[i], e = drive.Branch(root, fmt.Sprintf("leaf%d", i)); e != nil {
			return false, fmt.Errorf("harness: %v", e)
		}
	}
	type expect struct {
		url  string
		want string // substring the read must contain after the reopen
		what string
	}
	var exps []expect
	fns := make([]func(), len(c.Reqs))
	resps := make([]drive.Resp, len(c.Reqs))
	for i, r := range c.Reqs {
		i, r := i, r
		n := leaves[r.Node%2]
		tag := fmt.Sprintf("r%d-%d", i, r.Arg)
		switch r.Kind {
		case "note":
			fns[i] = func() { resps[i] = drive.Post("node/"+n+"/note", []byte(fmt.Sprintf(`{"note":%q}`, tag))) }
			exps = append(exps, expect{"node/" + n + "/note", tag, "note of node " + n[:6]})
		case "log":
			fns[i] = func() { resps[i] = drive.Post("node/"+n+"/log", []byte(fmt.Sprintf(`{"log":[%q]}`, tag))) }
			exps = append(exps, expect{"node/" + n + "/log", tag, "log of node " + n[:6]})
		case "commit":
			fns[i] = func() { resps[i] = drive.Post("node/"+n+"/commit", []byte(fmt.Sprintf(`{"note":%q}`, tag))) }
			exps = append(exps, expect{"node/" + n + "/status", `"Locked":true`, "commit of node " + n[:6]})
		case "newinst":
			name := fmt.Sprintf("kv%d", i)
			fns[i] = func() {
				resps[i] = drive.Post("repo/"+root+"/instance", []byte(fmt.Sprintf(`{"typename":"keyvalue","dataname":%q}`, name)))
			}
			exps = append(exps, expect{"repo/" + root + "/info", `"` + name + `"`, "instance " + name})
		default: // branch off the committed root
			name := fmt.Sprintf("side%d", i)
			fns[i] = func() {
				resps[i] = drive.Post("node/"+root+"/branch", []byte(fmt.Sprintf(`{"branch":%q,"note":%q}`, name, tag)))
			}
			exps = append(exps, expect{"repo/" + root + "/info", `"` + name + `"`, "branch " + name})
		}
	}
	res := drive.RunScheduled(fns, c.Schedule, drive.SchedOpts{ExtraSites: []string{"badger.Put:"}})
	if res.Stuck {
		return false, stats.Violf("C11/metadata/concurrent-save/wedged", "the requests never returned; trace: %s", res.TraceString())
	}
	acked := 0
	for i, r := range resps {
		if r.IsPanic() {
			return false, stats.Violf("C11/metadata/concurrent-save/panic", "request %d %+v: %s", i, c.Reqs[i], r)
		}
		if r.OK() {
			acked++
		}
	}
	// both requests of one kind on one node may legitimately collide (second commit of a node is refused)
	read := func(when string) error {
		for i, e := range exps {
			if !resps[i].OK() {
				continue
			}
			g := drive.Get(e.url)
			if !g.OK() || !strings.Contains(string(g.Body), e.want) {
				// a later acknowledged note (or commit, which carries a note) on the same node replaces the earlier one
				if c.Reqs[i].Kind == "note" {
					replaced := false
					for j := range c.Reqs {
						if j != i && (c.Reqs[j].Kind == "note" || c.Reqs[j].Kind == "commit") && c.Reqs[j].Node%2 == c.Reqs[i].Node%2 && resps[j].OK() {
							replaced = true
						}
					}
					if replaced {
						continue
					}
				}
				return stats.Violf("C11/metadata/concurrent-save/acknowledged-change-missing-"+when, "request %d %+v was acknowledged (%d) but %s: GET %s answers %s (acknowledgements %v; schedule trace: %s)", i, c.Reqs[i], resps[i].Code, e.what+" does not show it "+when, e.url, g, codes(resps), res.TraceString())
			}
		}
		return nil
	}
	if err := read("before-restart"); err != nil {
		return res.Switches > 0, err
	}
	datastore.CloseReopenTest()
	if err := read("after-restart"); err != nil {
		return res.Switches > 0, err
	}
	return res.Switches > 0 && acked >= 2, nil
}

func codes(rs []drive.Resp) []int {
	out := make([]int, len(rs))
	for i, r := range rs {
		out[i] = r.Code
	}
	return out
}

func TestC11MetaSave(t *testing.T) {
	rapid.Check(t, func(t *rapid.T) {
		var c metaCase
		kinds := []string{"note", "log", "commit", "newinst", "branch"}
		for n := rapid.IntRange(2, 3).Draw(t, "n"); n > 0; n-- {
			c.Reqs = append(c.Reqs, metaReq{Kind: rapid.SampledFrom(kinds).Draw(t, "kind"), Node: rapid.IntRange(0, 1).Draw(t, "node"), Arg: rapid.IntRange(0, 99).Draw(t, "arg")})
		}
		switch rapid.IntRange(0, 2).Draw(t, "sched") {
		case 0:
			c.Schedule = rapid.SliceOfN(rapid.IntRange(0, 5), 2, 30).Draw(t, "schedule")
		case 1: // the first request is held at its first write while the others run to completion
			for i := 0; i < 30; i++ {
				c.Schedule = append(c.Schedule, 5)
			}
		default:
			for i := 0; i < 30; i++ {
				c.Schedule = append(c.Schedule, i%2)
			}
		}
		nt, err := checkMetaSave(c)
		if !stats.Judge(t, "C11", "TestC11MetaSave", err, c) {
			return
		}
		cls := []string{"meta-save"}
		for _, r := range c.Reqs {
			cls = append(cls, "meta-save/"+r.Kind)
		}
		if nt {
			cls = append(cls, "meta-save/switched-with-two-acknowledged")
		}
		stats.Record(stats.HashJSON(c), nt, cls, func() interface{} { return c })
	})
}

func replayMetaSave(raw json.RawMessage) error {
	var c metaCase
	if err := json.Unmarshal(raw, &c); err != nil {
		return err
	}
	_, err := checkMetaSave(c)
	return err
}
