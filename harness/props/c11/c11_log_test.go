package c11

// TestC11LogAppend — concurrent appends to one file log under the harness-owned schedule.
//
// Every mutation of a labelmap instance appends a record (6 byte header, then the payload: two writes) to the log of
// its (data, version).  Label-level mutations of one instance are serialized higher up, but ingested mappings, splits,
// other instances' handlers and the topic logs append from their own goroutines, so the log itself must keep
// concurrent appends apart: every acknowledged Append is read back exactly once and intact.

import (
	"bytes"
	"encoding/json"
	"fmt"
	"os"
	"sort"
	"testing"

	"pgregory.net/rapid"

	"github.com/janelia-flyem/dvid/dvid"
	"github.com/janelia-flyem/dvid/storage"
	_ "github.com/janelia-flyem/dvid/storage/filelog"

	"verif/drive"
	"verif/stats"
)

type logAppendCase struct {
	Appenders [][]int `json:"appenders"` // per goroutine: payload lengths of the records it appends, in order
	Existing  []int   `json:"existing"`  // records already in the log (written sequentially first)
	Reopen    bool    `json:"reopen"`    // the log is closed before the concurrent phase, so the first appends race to open it
	Topic     bool    `json:"topic"`     // TopicAppend instead of Append
	Schedule  []int   `json:"schedule"`
}

const logData, logVersion = dvid.UUID("a0a0a0a0a0a0a0a0a0a0a0a0a0a0a0a0"), dvid.UUID("b1b1b1b1b1b1b1b1b1b1b1b1b1b1b1b1")

func logPayload(g, i, n int) []byte {
	b := make([]byte, n)
	for k := range b {
		b[k] = byte(g*37 + i*11 + k)
	}
	return b
}

func checkLogAppend(c logAppendCase) (inter bool, err error) {
	base := os.Getenv("VERIF_SCRATCH_DIR")
	if base == "" {
		base = os.TempDir()
	}
	dir, e := os.MkdirTemp(base, "c11log-")
	if e != nil {
		return false, e
	}
	defer os.RemoveAll(dir)
	cfg := dvid.StoreConfig{Config: dvid.NewConfig(), Engine: "filelog"}
	cfg.Set("path", dir)
	eng := storage.GetEngine("filelog")
	if eng == nil {
		return false, fmt.Errorf("harness: no filelog engine compiled in")
	}
	st, _, e := eng.NewStore(cfg)
	if e != nil {
		return false, fmt.Errorf("harness: open filelog: %v", e)
	}
	wl := st.(storage.WriteLog)
	rl := st.(storage.ReadLog)
	defer wl.Close()
	topic := string(logData + "-" + logVersion)
	appendRec := func(typ uint16, data []byte) error {
		if c.Topic {
			return wl.TopicAppend(topic, storage.LogMessage{EntryType: typ, Data: data})
		}
		return wl.Append(logData, logVersion, storage.LogMessage{EntryType: typ, Data: data})
	}
	type rec struct {
		typ  uint16
		data []byte
	}
	var want []rec
	for i, n := range c.Existing {
		r := rec{uint16(1000 + i), logPayload(99, i, n)}
		if e := appendRec(r.typ, r.data); e != nil {
			return false, fmt.Errorf("harness: sequential append: %v", e)
		}
		want = append(want, r)
	}
	if c.Reopen {
		if c.Topic {
			wl.TopicClose(topic)
		} else {
			wl.CloseLog(logData, logVersion)
		}
	}
	acked := make([][]rec, len(c.Appenders))
	errs := make([]error, len(c.Appenders))
	fns := make([]func(), len(c.Appenders))
	for g := range c.Appenders {
		g := g
		fns[g] = func() {
			for i, n := range c.Appenders[g] {
				r := rec{uint16(g*100 + i), logPayload(g, i, n)}
				if e := appendRec(r.typ, r.data); e != nil {
					errs[g] = e
					return
				}
				acked[g] = append(acked[g], r)
			}
		}
	}
	res := drive.RunScheduled(fns, c.Schedule, drive.SchedOpts{ExtraSites: []string{"filelog.Append:"}})
	if e := res.SchedErr(); e != nil {
		return false, fmt.Errorf("harness: %v", e)
	}
	for g, e := range errs {
		if e != nil {
			return res.Interleaved, stats.Violf("C11/filelog/concurrent-append/error", "appender %d: %v (schedule trace: %s)", g, e, res.TraceString())
		}
	}
	for _, a := range acked {
		want = append(want, a...)
	}
	var got []storage.LogMessage
	if err := stats.PanicGuard("C11/filelog/concurrent-append/ReadAll-panic", func() error {
		var e error
		got, e = rl.ReadAll(logData, logVersion)
		if e != nil {
			return stats.Violf("C11/filelog/concurrent-append/ReadAll-error", "%v (schedule trace: %s)", e, res.TraceString())
		}
		return nil
	}); err != nil {
		return res.Interleaved, err
	}
	key := func(t uint16, d []byte) string { return fmt.Sprintf("%05d:%x", t, d) }
	var w, g []string
	for _, r := range want {
		w = append(w, key(r.typ, r.data))
	}
	for _, m := range got {
		g = append(g, key(m.EntryType, m.Data))
	}
	// the existing records keep their place; the concurrent ones may come in any order, each appender's in its own order
	for i := range c.Existing {
		if i >= len(g) || g[i] != w[i] {
			return res.Interleaved, stats.Violf("C11/filelog/concurrent-append/records-differ", "record %d written before the concurrent appends reads back differently (%d records read, %d acknowledged; schedule trace: %s)", i, len(g), len(w), res.TraceString())
		}
	}
	pos := map[string]int{}
	for i, k := range g {
		pos[k] = i
	}
	sw, sg := append([]string(nil), w...), append([]string(nil), g...)
	sort.Strings(sw)
	sort.Strings(sg)
	if len(sw) != len(sg) || !bytes.Equal([]byte(fmt.Sprint(sw)), []byte(fmt.Sprint(sg))) {
		return res.Interleaved, stats.Violf("C11/filelog/concurrent-append/records-differ", "%d records acknowledged, %d read back; the multisets differ (torn, merged, lost or invented record; schedule trace: %s)", len(w), len(g), res.TraceString())
	}
	for gi, a := range acked {
		last := -1
		for i, r := range a {
			p := pos[key(r.typ, r.data)]
			if p < last {
				return res.Interleaved, stats.Violf("C11/filelog/concurrent-append/order-within-appender", "appender %d: its record %d reads back before its record %d", gi, i, i-1)
			}
			last = p
		}
	}
	return res.Interleaved || res.Switches > 0, nil
}

func TestC11LogAppend(t *testing.T) {
	rapid.Check(t, func(t *rapid.T) {
		var c logAppendCase
		lens := rapid.SampledFrom([]int{0, 1, 5, 6, 7, 30, 200, 3000})
		for g := rapid.IntRange(2, 4).Draw(t, "appenders"); g > 0; g-- {
			c.Appenders = append(c.Appenders, rapid.SliceOfN(lens, 1, 4).Draw(t, "lens"))
		}
		c.Existing = rapid.SliceOfN(lens, 0, 2).Draw(t, "existing")
		c.Reopen = rapid.Bool().Draw(t, "reopen")
		c.Topic = rapid.IntRange(0, 3).Draw(t, "topic") == 0
		switch rapid.IntRange(0, 2).Draw(t, "kind") {
		case 0:
			c.Schedule = rapid.SliceOfN(rapid.IntRange(0, 7), 2, 40).Draw(t, "schedule")
		case 1: // ping-pong
			for i := 0; i < 40; i++ {
				c.Schedule = append(c.Schedule, i%2)
			}
		default: // always the last parked
			for i := 0; i < 40; i++ {
				c.Schedule = append(c.Schedule, 7)
			}
		}
		inter, err := checkLogAppend(c)
		if !stats.Judge(t, "C11", "TestC11LogAppend", err, c) {
			return
		}
		cls := []string{"log-append"}
		if c.Reopen {
			cls = append(cls, "log-append/first-appends-race-to-open")
		}
		if c.Topic {
			cls = append(cls, "log-append/topic")
		}
		if inter {
			cls = append(cls, "log-append/switched")
		}
		stats.Record(stats.HashJSON(c), inter, cls, func() interface{} {
			return map[string]interface{}{"appenders": len(c.Appenders), "existing": len(c.Existing), "reopen": c.Reopen, "topic": c.Topic}
		})
	})
}

func replayLogAppend(raw json.RawMessage) error {
	var c logAppendCase
	if err := json.Unmarshal(raw, &c); err != nil {
		return err
	}
	_, err := checkLogAppend(c)
	return err
}
