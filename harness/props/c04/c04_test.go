// C04 — a crash at any write point is recoverable and loses no acknowledged work.
//
// TestC04Crash: for a generated workload and one target operation of it, the server process is killed at EVERY write
// point (store put / delete / batch flush / log append, before and after) the target operation passes — one trial per
// write point, each on a fresh server that re-executed the operations before the target — then restarted (optionally
// killed once more during the recovery start-up) and compared with the state before the operation and with a
// reference execution that was not interrupted.
//
// TestC04TornLog: a file log cut at every byte length must read back exactly the records wholly contained in the
// prefix, and records appended after the cut must be read back after the next open.
package c04

import (
	"bytes"
	"encoding/json"
	"fmt"
	"os"
	"path/filepath"
	"regexp"
	"sort"
	"strings"
	"sync"
	"testing"

	"pgregory.net/rapid"

	"github.com/janelia-flyem/dvid/dvid"
	"github.com/janelia-flyem/dvid/storage"
	_ "github.com/janelia-flyem/dvid/storage/filelog"

	"verif/cworld"
	"verif/drive"
	"verif/stats"
)

func TestMain(m *testing.M) {
	rc := m.Run()
	stats.Flush()
	os.Exit(rc)
}

type c04Case struct {
	Ops       []cworld.Op `json:"ops"`        // workload; the last one is the target operation
	Tail      []cworld.Op `json:"tail"`       // operations issued after the recovery
	MaxPoints int         `json:"max_points"` // 0 = every write point of the target; else an evenly spaced subset of that size
	Second    int         `json:"second"`     // >0: every third trial also kills the recovering server at its Second-th start-up write
}

// operations that are "repo-level or single-key" in the sense of the statement: entirely present or entirely absent
var atomicKinds = map[string]bool{"kvput": true, "kvdel": true, "commit": true, "note": true, "log": true, "newversion": true,
	"branch": true, "dagmerge": true, "newinst": true, "newrepo": true, "delrepo": true, "njpost": true, "njdel": true}

var snapOpts = drive.SnapOpts{LabelOff: [3]int32{0, 0, 0}, LabelSize: cworld.Ext}

var tsRe = regexp.MustCompile(`\d{4}-\d\d-\d\dT\d\d:\d\d:\d\d(\.\d+)?(Z|[+-]\d\d:\d\d)`)

// normDoer rewrites server answers so that executions on different servers are comparable: version uuids become
// <V:version id>, data uuids <D:instance name>, timestamps <T>, the store directory <DIR>.
type normDoer struct {
	d   drive.Doer
	rep *strings.Replacer
	inv *strings.Replacer // normalised names back to real ones (the snapshot builds its URLs from normalised answers)
}

func (n normDoer) Do(method, url string, body []byte) (drive.Resp, error) {
	r, err := n.d.Do(method, n.inv.Replace(url), body)
	if err != nil {
		return r, err
	}
	r.Body = []byte(tsRe.ReplaceAllString(n.rep.Replace(string(r.Body)), "<T>"))
	// objects keyed by uuid are marshalled in uuid order: re-encode JSON documents with sorted (normalised) keys
	if len(r.Body) > 1 && (r.Body[0] == '{' || r.Body[0] == '[') {
		dec := json.NewDecoder(bytes.NewReader(r.Body))
		dec.UseNumber()
		var v interface{}
		if dec.Decode(&v) == nil && !dec.More() {
			if b, err := json.Marshal(v); err == nil {
				r.Body = b
			}
		}
	}
	return r, nil
}

type repoFull struct {
	Root          string
	DataInstances map[string]struct {
		Base struct {
			DataUUID string
			Name     string
			RepoUUID string
		}
	}
	DAG struct {
		Root  string
		Nodes map[string]struct {
			UUID      string
			VersionID int
			Branch    string
			Locked    bool
			Parents   []int
			Children  []int
		}
	}
}

func reposInfo(c *drive.Child) (map[string]repoFull, error) {
	r, err := c.Do("GET", "repos/info", nil)
	if err != nil {
		return nil, err
	}
	if !r.OK() {
		return nil, fmt.Errorf("repos/info: %s", r)
	}
	var m map[string]repoFull
	if err := json.Unmarshal(r.Body, &m); err != nil {
		return nil, fmt.Errorf("repos/info: %v", err)
	}
	return m, nil
}

// snapshot takes the normalised observable snapshot of the whole server.
func snapshot(c *drive.Child, dir string, panics *[]string) (drive.Snapshot, map[string]repoFull, error) {
	info, err := reposInfo(c)
	if err != nil {
		return nil, nil, err
	}
	var pairs []string
	for _, ri := range info {
		for u, n := range ri.DAG.Nodes {
			pairs = append(pairs, u, fmt.Sprintf("<V:%d>", n.VersionID))
		}
		for name, d := range ri.DataInstances {
			if d.Base.DataUUID != "" {
				pairs = append(pairs, d.Base.DataUUID, "<D:"+name+">")
			}
		}
	}
	inv := make([]string, 0, len(pairs))
	for i := 0; i+1 < len(pairs); i += 2 {
		inv = append(inv, pairs[i+1], pairs[i])
	}
	pairs = append(pairs, dir, "<DIR>")
	rep := strings.NewReplacer(pairs...)
	so := snapOpts
	so.Panics = panics
	raw, err := drive.TakeSnapshot(normDoer{c, rep, strings.NewReplacer(inv...)}, so)
	if err != nil {
		return nil, nil, err
	}
	out := drive.Snapshot{}
	for k, v := range raw {
		out[rep.Replace(k)] = tsRe.ReplaceAllString(rep.Replace(v), "<T>")
	}
	return out, info, nil
}

// wellFormed checks the repository metadata read back after a recovery.
func wellFormed(info map[string]repoFull) string {
	vids := map[int]string{}
	duuids := map[string]string{}
	for root, ri := range info {
		if ri.Root != root || ri.DAG.Root != root {
			return fmt.Sprintf("repo %s: Root=%q DAG.Root=%q", root, ri.Root, ri.DAG.Root)
		}
		byID := map[int]string{}
		for u, n := range ri.DAG.Nodes {
			if n.UUID != u {
				return fmt.Sprintf("node key %s holds UUID %s", u, n.UUID)
			}
			if o, dup := vids[n.VersionID]; dup {
				return fmt.Sprintf("version id %d used by %s and %s", n.VersionID, o, u)
			}
			vids[n.VersionID] = u
			byID[n.VersionID] = u
		}
		if _, ok := ri.DAG.Nodes[root]; !ok {
			return fmt.Sprintf("repo %s: root node missing from DAG", root)
		}
		has := func(l []int, x int) bool {
			for _, y := range l {
				if y == x {
					return true
				}
			}
			return false
		}
		for u, n := range ri.DAG.Nodes {
			if u == root && len(n.Parents) != 0 {
				return fmt.Sprintf("root %s has parents %v", u, n.Parents)
			}
			if u != root && len(n.Parents) == 0 {
				return fmt.Sprintf("node %s has no parent", u)
			}
			if len(n.Children) > 0 && !n.Locked {
				return fmt.Sprintf("node %s has children %v but is not locked", u, n.Children)
			}
			for _, p := range n.Parents {
				pu, ok := byID[p]
				if !ok {
					return fmt.Sprintf("node %s: parent version %d not in DAG", u, p)
				}
				if !has(ri.DAG.Nodes[pu].Children, n.VersionID) {
					return fmt.Sprintf("node %s lists parent %s which does not list it as child", u, pu)
				}
			}
			for _, c := range n.Children {
				cu, ok := byID[c]
				if !ok {
					return fmt.Sprintf("node %s: child version %d not in DAG", u, c)
				}
				if !has(ri.DAG.Nodes[cu].Parents, n.VersionID) {
					return fmt.Sprintf("node %s lists child %s which does not list it as parent", u, cu)
				}
			}
		}
		for name, d := range ri.DataInstances {
			if d.Base.Name != name {
				return fmt.Sprintf("instance key %s holds name %s", name, d.Base.Name)
			}
			if d.Base.RepoUUID != root {
				return fmt.Sprintf("instance %s of repo %s says RepoUUID %s", name, root, d.Base.RepoUUID)
			}
			if o, dup := duuids[d.Base.DataUUID]; dup {
				return fmt.Sprintf("data uuid %s used by %s and %s", d.Base.DataUUID, o, name)
			}
			duuids[d.Base.DataUUID] = name
		}
	}
	return ""
}

func keys(m map[string]bool) []string {
	out := make([]string, 0, len(m))
	for k := range m {
		out = append(out, k)
	}
	sort.Strings(out)
	return out
}

func scratch() (string, error) {
	base := os.Getenv("VERIF_SCRATCH_DIR")
	if base == "" {
		base = os.TempDir()
	}
	return os.MkdirTemp(base, "c04-")
}

type run struct {
	w      *cworld.World
	dir    string    // store directory
	target cworld.Op // the target operation as issued (retargeted to a fresh open version when its node was committed)
}

func nodeOf(w *cworld.World, o cworld.Op) (string, bool) {
	if o.Node < 0 {
		u := w.Nodes[len(w.Nodes)-1]
		return u, !w.Locked[u]
	}
	return w.OpenNode(o.Node)
}

var repoLevel = map[string]bool{"commit": true, "note": true, "log": true, "newversion": true, "branch": true, "dagmerge": true, "newinst": true, "delinst": true, "newrepo": true, "delrepo": true}

func (r *run) close() {
	if r.w != nil && r.w.C != nil {
		r.w.C.Kill()
	}
	os.RemoveAll(r.dir)
}

// prefix starts a fresh server and executes the workload up to (not including) the target, settled.
func prefix(c c04Case) (*run, error) {
	dir, err := scratch()
	if err != nil {
		return nil, err
	}
	r := &run{dir: dir, w: &cworld.World{Dir: dir}}
	if r.w.C, err = drive.StartChild(filepath.Join(dir, "srv")); err != nil {
		r.close()
		return nil, fmt.Errorf("harness: start child: %v", err)
	}
	if err = r.w.Setup(); err != nil {
		r.close()
		return nil, fmt.Errorf("harness: setup: %v", err)
	}
	for i, o := range c.Ops[:len(c.Ops)-1] {
		if err = r.w.Apply(o); err == nil {
			// operations choose their arguments from what the server lists (bodies, supervoxels): every execution of the
			// workload must see the same lists, so background indexing is awaited after every step
			err = r.w.C.Settle(true)
		}
		if err != nil {
			r.close()
			return nil, fmt.Errorf("harness: prefix op %d %+v: %v", i, o, err)
		}
	}
	// newversion / branch on an open node would first commit it (two requests): commit in the prefix instead
	t := c.Ops[len(c.Ops)-1]
	_, open := nodeOf(r.w, t)
	if (t.Kind == "newversion" || t.Kind == "branch") && open {
		if err = r.w.Apply(cworld.Op{Kind: "commit", Node: t.Node, A: 1, B: 1}); err != nil {
			r.close()
			return nil, fmt.Errorf("harness: prefix commit: %v", err)
		}
	}
	// a data operation aimed at a committed version would only be refused: aim it at a new child instead
	if !repoLevel[t.Kind] && !open {
		if err = r.w.Apply(cworld.Op{Kind: "newversion", Node: t.Node}); err != nil {
			r.close()
			return nil, fmt.Errorf("harness: prefix newversion: %v", err)
		}
		t.Node = -1
	}
	// make the target effective: an operation that finds nothing to act on writes nothing and has no crash points
	var enable []cworld.Op
	switch t.Kind {
	case "kvdel":
		enable = []cworld.Op{{Kind: "kvput", Node: t.Node, A: t.A, B: t.B}}
	case "anndel", "annmove":
		enable = []cworld.Op{{Kind: "annpost", Node: t.Node, A: t.A, B: t.B, C: t.C}}
	case "njdel":
		enable = []cworld.Op{{Kind: "njpost", Node: t.Node, A: t.A, B: 1, C: 1}}
	case "lmcleave":
		enable = []cworld.Op{{Kind: "lmmerge", Node: t.Node, A: t.A, B: t.A + 1}}
	case "delinst":
		enable = []cworld.Op{{Kind: "newinst", A: t.A}, {Kind: "kvput", Node: -1, A: 1, B: 1}}
	case "delrepo":
		enable = []cworld.Op{{Kind: "newrepo", A: t.A}}
	case "dagmerge":
		enable = []cworld.Op{{Kind: "commit", Node: 0}, {Kind: "branch", Node: 0}, {Kind: "kvput", Node: -1, A: 2, B: 2}, {Kind: "commit", Node: -1},
			{Kind: "branch", Node: 0}, {Kind: "kvput", Node: -1, A: 3, B: 3}, {Kind: "commit", Node: -1}}
	}
	for _, o := range enable {
		if err = r.w.Apply(o); err == nil {
			err = r.w.C.Settle(true)
		}
		if err != nil {
			r.close()
			return nil, fmt.Errorf("harness: enabling op %+v: %v", o, err)
		}
	}
	r.target = t
	if err = r.w.C.Settle(true); err != nil {
		r.close()
		return nil, fmt.Errorf("harness: prefix settle: %v", err)
	}
	return r, nil
}

type reference struct {
	prev, next drive.Snapshot
	points     []string
	codes      []int
}

func referencePass(c c04Case) (*reference, error) {
	r, err := prefix(c)
	if err != nil {
		return nil, err
	}
	defer r.close()
	ref := &reference{}
	if ref.prev, _, err = snapshot(r.w.C, r.dir, nil); err != nil {
		return nil, fmt.Errorf("harness: reference snapshot: %v", err)
	}
	if err = r.w.C.LogPoints(""); err != nil {
		return nil, fmt.Errorf("harness: %v", err)
	}
	r.w.Codes = nil
	if err = r.w.Apply(r.target); err != nil {
		return nil, fmt.Errorf("harness: reference target op: %v", err)
	}
	ref.codes = append([]int(nil), r.w.Codes...)
	if err = r.w.C.Settle(true); err != nil {
		return nil, fmt.Errorf("harness: %v", err)
	}
	if ref.points, err = r.w.C.StopPoints(); err != nil {
		return nil, fmt.Errorf("harness: %v", err)
	}
	if ref.next, _, err = snapshot(r.w.C, r.dir, nil); err != nil {
		return nil, fmt.Errorf("harness: reference snapshot: %v", err)
	}
	return ref, nil
}

func diffKeys(a, b drive.Snapshot) map[string]bool {
	d := map[string]bool{}
	for k, v := range a {
		if w, ok := b[k]; !ok || w != v {
			d[k] = true
		}
	}
	for k := range b {
		if _, ok := a[k]; !ok {
			d[k] = true
		}
	}
	return d
}

func show(keys []string, a, b drive.Snapshot) string {
	sort.Strings(keys)
	var out []string
	for i, k := range keys {
		if i == 5 {
			out = append(out, fmt.Sprintf("... (%d keys)", len(keys)))
			break
		}
		out = append(out, fmt.Sprintf("%s: %s -> %s", k, cut(a[k]), cut(b[k])))
	}
	return strings.Join(out, " || ")
}

func cut(s string) string {
	if s == "" {
		return "(absent)"
	}
	if len(s) > 160 && os.Getenv("VERIF_SNAP_VERBOSE") == "" {
		return s[:160] + "..."
	}
	return s
}

var family = map[string][]string{"lm": {"lm", "ann", "sz"}, "ann": {"ann", "sz"}, "kv": {"kv"}, "roi": {"roi"}, "nj": {"nj"}}

var vkeyRe = regexp.MustCompile(`^node/<V:(\d+)>/([^/]+)/`)

// namedByMultiKeyOp: an interrupted operation that writes several keys (ingest, merge, cleave, split, annotation post,
// batch put, instance deletion) may be left partially applied; what it names — the data of its instance and of the
// instances synced to it, at its version and the descendants of that version — is exempt from "reads as before".
func namedByMultiKeyOp(w *cworld.World, target cworld.Op, info map[string]repoFull) func(string) bool {
	if atomicKinds[target.Kind] {
		return func(string) bool { return false }
	}
	if target.Kind == "delinst" {
		name := fmt.Sprintf("kv%d", target.A%3)
		return func(k string) bool { return strings.Contains(k, "/"+name+"/") || strings.Contains(k, "info.DataInstances") }
	}
	var insts []string
	for p, f := range family {
		if strings.HasPrefix(target.Kind, p) {
			insts = f
		}
	}
	u, _ := nodeOf(w, target)
	desc := map[int]bool{}
	for _, ri := range info {
		n, ok := ri.DAG.Nodes[u]
		if !ok {
			continue
		}
		byID := map[int][]int{}
		for _, x := range ri.DAG.Nodes {
			byID[x.VersionID] = x.Children
		}
		todo := []int{n.VersionID}
		for len(todo) > 0 {
			v := todo[0]
			todo = todo[1:]
			if !desc[v] {
				desc[v] = true
				todo = append(todo, byID[v]...)
			}
		}
	}
	return func(k string) bool {
		m := vkeyRe.FindStringSubmatch(k)
		if m == nil {
			return false
		}
		var v int
		fmt.Sscan(m[1], &v)
		if !desc[v] {
			return false
		}
		for _, i := range insts {
			if m[2] == i {
				return true
			}
		}
		return false
	}
}

type trialResult struct {
	died        bool   // the server died inside the target operation
	outcome     string // absent | present | partial
	second      bool   // a second crash during recovery happened
	pointLabel  string
	restartCmps int
}

func trial(c c04Case, ref *reference, unstable map[string]bool, m int, second int) (res trialResult, err error) {
	label := ref.points[m-1]
	res.pointLabel = label
	r, e := prefix(c)
	if e != nil {
		return res, e
	}
	defer r.close()
	target := r.target
	sigBase := "C04/" + target.Kind + "/" + label + "/"
	var pan []string
	before, infoBefore, e := snapshot(r.w.C, r.dir, &pan)
	if e != nil {
		return res, fmt.Errorf("harness: snapshot before: %v", e)
	}
	named := namedByMultiKeyOp(r.w, target, infoBefore)
	if e = r.w.C.Arm(m, ""); e != nil {
		return res, fmt.Errorf("harness: arm: %v", e)
	}
	e = r.w.Apply(target)
	if e == nil {
		e = r.w.C.Settle(true)
	}
	if e == nil {
		// the write sequence of this execution was shorter than the reference's: nothing to check for this m
		r.w.C.Disarm()
		return res, nil
	}
	if e != drive.ErrChildDied {
		return res, fmt.Errorf("harness: target op under arm: %v", e)
	}
	res.died = true
	srv := filepath.Join(r.dir, "srv")
	if second > 0 {
		nc, died, e := drive.StartChildArmed(srv, second, "")
		if e != nil {
			return res, stats.Violf(sigBase+"restart-failed", "killed at write point %d (%s) of %+v: the next start failed: %v", m, label, target, e)
		}
		if died {
			res.second = true
		} else {
			nc.Disarm()
			nc.Kill() // counts as one more abrupt stop during recovery
		}
	}
	nc, e := drive.StartChild(srv)
	if e != nil {
		return res, stats.Violf(sigBase+"restart-failed", "killed at write point %d (%s) of %+v (second crash: %v): the next start failed: %v", m, label, target, res.second, e)
	}
	r.w.C = nc
	after, info, e := snapshot(r.w.C, r.dir, &pan)
	if e != nil {
		if e == drive.ErrChildDied {
			return res, stats.Violf(sigBase+"server-died-after-recovery", "killed at write point %d (%s) of %+v: the recovered server died while being read; stderr: %s", m, label, target, r.w.C.StderrTail(1200))
		}
		return res, fmt.Errorf("harness: snapshot after recovery: %v", e)
	}
	if msg := wellFormed(info); msg != "" {
		return res, stats.Violf(sigBase+"metadata-malformed", "killed at write point %d (%s) of %+v: %s", m, label, target, msg)
	}
	touched := diffKeys(ref.prev, ref.next)
	// O2: everything the operation does not touch reads as before the crash
	var bad []string
	changed := diffKeys(before, after)
	for k := range changed {
		if strings.HasSuffix(k, "#order") {
			// the order of a neuronjson list answer across a restart is C03's (listed) finding, not evidence here
			delete(changed, k)
		}
	}
	for k := range changed {
		if !touched[k] && !named(k) {
			bad = append(bad, k)
		}
	}
	if len(bad) > 0 {
		// read once more: an observable whose answer is not a function of the stored state (order of a streamed
		// answer, ...) differs between two reads of the same server and is not evidence
		again, _, e := snapshot(r.w.C, r.dir, nil)
		if e != nil {
			return res, fmt.Errorf("harness: second snapshot after recovery: %v", e)
		}
		var still []string
		for _, k := range bad {
			if again[k] == after[k] {
				still = append(still, k)
			}
		}
		bad = still
	}
	if len(bad) > 0 {
		return res, stats.Violf(sigBase+"acknowledged-state-changed", "killed at write point %d (%s) of %+v: %d observables the operation does not touch differ after recovery: %s", m, label, target, len(bad), show(bad, before, after))
	}
	// O3: entirely absent or entirely present
	res.outcome = "partial"
	if len(changed) == 0 {
		res.outcome = "absent"
	} else {
		var notfull []string
		for k := range touched {
			if unstable[k] || strings.HasSuffix(k, "#order") {
				continue
			}
			if after[k] != ref.next[k] {
				notfull = append(notfull, k)
			}
		}
		if len(notfull) == 0 {
			res.outcome = "present"
		} else if atomicKinds[target.Kind] {
			return res, stats.Violf(sigBase+"partially-applied", "killed at write point %d (%s) of %+v: after recovery the operation is neither absent nor complete: %d observables changed, %d of those it touches differ from the uninterrupted execution: %s", m, label, target, len(changed), len(notfull), show(notfull, after, ref.next))
		}
	}
	// O4: the recovered server is usable without repair: an absent atomic operation can be issued again with the same result
	if atomicKinds[target.Kind] && res.outcome == "absent" {
		r.w.Codes = nil
		if e = r.w.Apply(target); e != nil {
			if e == drive.ErrChildDied {
				return res, stats.Violf(sigBase+"retry-kills-server", "killed at write point %d (%s) of %+v: issuing the operation again after recovery killed the server; stderr: %s", m, label, target, r.w.C.StderrTail(1200))
			}
			return res, fmt.Errorf("harness: retry: %v", e)
		}
		if fmt.Sprint(r.w.Codes) != fmt.Sprint(ref.codes) {
			return res, stats.Violf(sigBase+"retry-status-differs", "killed at write point %d (%s) of %+v: the operation left no trace, but issuing it again answers %v (uninterrupted execution: %v): %s", m, label, target, r.w.Codes, ref.codes, r.w.Last)
		}
		if e = r.w.C.Settle(true); e != nil {
			return res, fmt.Errorf("harness: settle after retry: %v", e)
		}
		got, info2, e := snapshot(r.w.C, r.dir, &pan)
		if e != nil {
			return res, fmt.Errorf("harness: snapshot after retry: %v", e)
		}
		if msg := wellFormed(info2); msg != "" {
			return res, stats.Violf(sigBase+"metadata-malformed-after-retry", "killed at write point %d (%s) of %+v, then issued again: %s", m, label, target, msg)
		}
		var diff []string
		for k := range diffKeys(got, ref.next) {
			if unstable[k] || strings.HasSuffix(k, "#order") {
				continue
			}
			// the retry consumed fresh identifiers where the interrupted attempt had taken some: names may differ, not content
			if strings.Contains(k, "<V:") || strings.Contains(got[k]+ref.next[k], "<V:") || strings.Contains(got[k]+ref.next[k], "VersionID") {
				continue
			}
			diff = append(diff, k)
		}
		if len(diff) > 0 {
			return res, stats.Violf(sigBase+"retry-result-differs", "killed at write point %d (%s) of %+v: issued again after recovery, %d observables differ from the uninterrupted execution: %s", m, label, target, len(diff), show(diff, got, ref.next))
		}
	}
	// O5: work acknowledged after the recovery survives the next (clean) restart
	for _, o := range c.Tail {
		if e = r.w.Apply(o); e == nil {
			e = r.w.C.Settle(true)
		}
		if e != nil {
			if e == drive.ErrChildDied {
				return res, stats.Violf(sigBase+"later-operation-kills-server", "killed at write point %d (%s) of %+v: %+v after recovery killed the server; stderr: %s", m, label, target, o, r.w.C.StderrTail(1200))
			}
			return res, fmt.Errorf("harness: tail op: %v", e)
		}
	}
	if len(c.Tail) > 0 {
		if e = r.w.C.Settle(true); e != nil {
			return res, fmt.Errorf("harness: settle after tail: %v", e)
		}
		x, _, e := snapshot(r.w.C, r.dir, &pan)
		if e != nil {
			return res, fmt.Errorf("harness: snapshot after tail: %v", e)
		}
		if e = r.w.C.Shutdown(); e != nil {
			return res, stats.Violf(sigBase+"clean-shutdown-failed", "killed at write point %d (%s) of %+v: shutdown after recovery: %v", m, label, target, e)
		}
		if nc, e = drive.StartChild(srv); e != nil {
			return res, stats.Violf(sigBase+"second-restart-failed", "killed at write point %d (%s) of %+v: after recovery, %d more operations and a clean shutdown the server does not start: %v", m, label, target, len(c.Tail), e)
		}
		r.w.C = nc
		y, info3, e := snapshot(r.w.C, r.dir, &pan)
		if e != nil {
			return res, fmt.Errorf("harness: snapshot after second restart: %v", e)
		}
		if msg := wellFormed(info3); msg != "" {
			return res, stats.Violf(sigBase+"metadata-malformed-after-second-restart", "%s", msg)
		}
		var diff []string
		for k := range diffKeys(x, y) {
			if !strings.HasSuffix(k, "#order") {
				diff = append(diff, k)
			}
		}
		if len(diff) > 0 {
			return res, stats.Violf(sigBase+"post-recovery-work-lost", "killed at write point %d (%s) of %+v, recovered, then %+v (acknowledged, settled) and a clean restart: %d observables differ: %s", m, label, target, c.Tail, len(diff), show(diff, x, y))
		}
		res.restartCmps++
	}
	if len(pan) > 0 {
		return res, stats.Violf(sigBase+"panic-response", "killed at write point %d (%s) of %+v: %s", m, label, target, pan[0])
	}
	if len(r.w.Panics) > 0 {
		return res, stats.Violf(sigBase+"panic-response", "killed at write point %d (%s) of %+v: %s", m, label, target, r.w.Panics[0])
	}
	return res, nil
}

type c04Summary struct {
	Points   int
	Trials   int
	Died     int
	Second   int
	Outcomes map[string]int
	Labels   map[string]bool
}

func checkC04(c c04Case) (c04Summary, error) {
	sum := c04Summary{Outcomes: map[string]int{}, Labels: map[string]bool{}}
	if len(c.Ops) == 0 {
		return sum, nil
	}
	// two independent uninterrupted executions: observables that differ between the two are not functions of the
	// workload (map iteration order, ...) and are left out of the comparisons with the reference
	var ref, ref2 *reference
	var err, err2 error
	var rwg sync.WaitGroup
	rwg.Add(1)
	go func() { defer rwg.Done(); ref2, err2 = referencePass(c) }()
	ref, err = referencePass(c)
	rwg.Wait()
	if err != nil {
		return sum, err
	}
	if err2 != nil {
		return sum, err2
	}
	unstable := diffKeys(ref.next, ref2.next)
	for k := range diffKeys(ref.prev, ref2.prev) {
		unstable[k] = true
	}
	sum.Points = len(ref.points)
	ms := make([]int, 0, len(ref.points))
	for m := 1; m <= len(ref.points); m++ {
		ms = append(ms, m)
	}
	if c.MaxPoints > 0 && len(ms) > c.MaxPoints {
		var sub []int
		for i := 0; i < c.MaxPoints; i++ {
			sub = append(sub, ms[i*(len(ms)-1)/(c.MaxPoints-1)])
		}
		ms = sub
	}
	// the trials are independent (own directory, own server processes): run a few at a time, judge them in order
	type outcome struct {
		res trialResult
		err error
	}
	outs := make([]outcome, len(ms))
	par := 4
	fmt.Sscan(os.Getenv("VERIF_C04_PAR"), &par)
	if par < 1 {
		par = 1
	}
	sem := make(chan struct{}, par)
	var wg sync.WaitGroup
	for i, m := range ms {
		second := 0
		if c.Second > 0 && i%3 == 2 {
			second = c.Second
		}
		wg.Add(1)
		sem <- struct{}{}
		go func(i, m, second int) {
			defer wg.Done()
			defer func() { <-sem }()
			outs[i].res, outs[i].err = trial(c, ref, unstable, m, second)
		}(i, m, second)
	}
	wg.Wait()
	for _, o := range outs {
		if o.err != nil {
			return sum, o.err
		}
		sum.Trials++
		if o.res.died {
			sum.Died++
			sum.Outcomes[o.res.outcome]++
			sum.Labels[o.res.pointLabel] = true
		}
		if o.res.second {
			sum.Second++
		}
	}
	return sum, nil
}

var targetKinds = []string{"kvput", "kvdel", "kvbatch", "commit", "note", "log", "newversion", "branch", "dagmerge", "newinst", "delinst", "newrepo", "delrepo",
	"lmingest", "lmmerge", "lmcleave", "lmsplitsv", "lmrenumber", "annpost", "anndel", "annmove", "njpost", "njdel", "roipost"}

func genOp(t *rapid.T, kinds []string, label string) cworld.Op {
	o := cworld.Op{Kind: rapid.SampledFrom(kinds).Draw(t, label+"kind"), A: rapid.IntRange(0, 40).Draw(t, label+"a"), B: rapid.IntRange(0, 40).Draw(t, label+"b"), C: rapid.IntRange(0, 40).Draw(t, label+"c")}
	o.Node = rapid.IntRange(0, 4).Draw(t, label+"node")
	if rapid.IntRange(0, 2).Draw(t, label+"latest") > 0 {
		o.Node = -1
	}
	return o
}

func genC04(t *rapid.T, maxPoints int) c04Case {
	c := c04Case{MaxPoints: maxPoints}
	prefixKinds := []string{"kvput", "kvput", "kvdel", "commit", "newversion", "newversion", "branch", "lmmerge", "lmmerge", "lmcleave", "annpost", "annpost", "njpost", "njpost", "roipost", "newinst", "note"}
	c.Ops = append(c.Ops, cworld.Op{Kind: "lmingest", Node: 0, A: rapid.IntRange(0, 20).Draw(t, "s"), C: rapid.IntRange(0, 5).Draw(t, "nl")})
	for i := rapid.IntRange(1, 6).Draw(t, "nprefix"); i > 0; i-- {
		c.Ops = append(c.Ops, genOp(t, prefixKinds, "p"))
	}
	c.Ops = append(c.Ops, genOp(t, targetKinds, "t"))
	for i := rapid.IntRange(1, 3).Draw(t, "ntail"); i > 0; i-- {
		c.Tail = append(c.Tail, genOp(t, []string{"kvput", "lmmerge", "lmmerge", "lmcleave", "annpost", "njpost", "commit", "newversion", "note", "log"}, "x"))
	}
	c.Second = rapid.IntRange(0, 4).Draw(t, "second")
	return c
}

var metaKinds = []string{"newrepo", "newinst", "newversion", "branch", "commit", "dagmerge", "delinst", "delrepo"}

// TestC04CrashMeta: the same check with the target restricted to the repository-level operations (metadata spread over
// several keys); the kinds are visited round-robin starting at the shard number, so that a handful of cases covers all.
func TestC04CrashMeta(t *testing.T) {
	mp := maxPointsEnv()
	shard := 0
	fmt.Sscan(os.Getenv("VERIF_SHARD"), &shard)
	n := 0
	rapid.Check(t, func(t *rapid.T) {
		c := genC04(t, mp)
		c.Ops[len(c.Ops)-1].Kind = metaKinds[(shard+n)%len(metaKinds)]
		n++
		stats.SetCur("C04", "TestC04Crash", c)
		sum, err := checkC04(c)
		if !stats.Judge(t, "C04", "TestC04Crash", err, c) {
			return
		}
		record(c, sum)
	})
}

func record(c c04Case, sum c04Summary) {
	target := c.Ops[len(c.Ops)-1]
	cls := map[string]bool{"target/" + target.Kind: true}
	for l := range sum.Labels {
		cls["point/"+l] = true
	}
	for o := range sum.Outcomes {
		cls["outcome/"+o] = true
	}
	if sum.Second > 0 {
		cls["second-crash-during-recovery"] = true
	}
	if sum.Points == 0 {
		cls["target-wrote-nothing"] = true
	}
	stats.Record(stats.HashJSON(c), sum.Died > 0, keys(cls), func() interface{} {
		return map[string]interface{}{"target": target, "prefix_ops": len(c.Ops) - 1, "write_points": sum.Points, "trials": sum.Trials, "died_in_op": sum.Died, "second_crashes": sum.Second, "outcomes": sum.Outcomes}
	})
	stats.Count("C04/trials", int64(sum.Trials))
	stats.Count("C04/trials-died-inside-op", int64(sum.Died))
}

func maxPointsEnv() int {
	n := 0
	fmt.Sscan(os.Getenv("VERIF_C04_MAXPOINTS"), &n)
	return n
}

func TestC04Crash(t *testing.T) {
	mp := maxPointsEnv()
	rapid.Check(t, func(t *rapid.T) {
		c := genC04(t, mp)
		stats.SetCur("C04", "TestC04Crash", c)
		sum, err := checkC04(c)
		if !stats.Judge(t, "C04", "TestC04Crash", err, c) {
			return
		}
		record(c, sum)
	})
}

// ---------------------------------------------------------------------------------------------------------------------

type logRec struct {
	Type uint16 `json:"type"`
	Len  int    `json:"len"`
	Fill byte   `json:"fill"`
}

type tornCase struct {
	Recs  []logRec `json:"recs"`
	Extra []logRec `json:"extra"`
	Cuts  []int    `json:"cuts"` // additional cut lengths (mod file size) for the append-after-cut step
}

func (r logRec) data() []byte {
	b := make([]byte, r.Len)
	for i := range b {
		b[i] = r.Fill + byte(i*7)
	}
	return b
}

func openLog(dir string) (storage.WriteLog, storage.ReadLog, error) {
	cfg := dvid.StoreConfig{Config: dvid.NewConfig(), Engine: "filelog"}
	cfg.Set("path", dir)
	eng := storage.GetEngine("filelog")
	if eng == nil {
		return nil, nil, fmt.Errorf("harness: no filelog engine compiled in")
	}
	st, _, err := eng.NewStore(cfg)
	if err != nil {
		return nil, nil, fmt.Errorf("harness: open filelog: %v", err)
	}
	wl, ok1 := st.(storage.WriteLog)
	rl, ok2 := st.(storage.ReadLog)
	if !ok1 || !ok2 {
		return nil, nil, fmt.Errorf("harness: filelog store is not a read/write log")
	}
	return wl, rl, nil
}

const dataID, versionID = dvid.UUID("d0d0d0d0d0d0d0d0d0d0d0d0d0d0d0d0"), dvid.UUID("e1e1e1e1e1e1e1e1e1e1e1e1e1e1e1e1")

func sameMsgs(got []storage.LogMessage, want []logRec) string {
	if len(got) != len(want) {
		return fmt.Sprintf("%d records read, %d were completely written", len(got), len(want))
	}
	for i := range got {
		if got[i].EntryType != want[i].Type || !bytes.Equal(got[i].Data, want[i].data()) {
			return fmt.Sprintf("record %d: type %d len %d read, type %d len %d written (or payload differs)", i, got[i].EntryType, len(got[i].Data), want[i].Type, want[i].Len)
		}
	}
	return ""
}

func readBoth(rl storage.ReadLog, want []logRec, sig, ctx string) error {
	var got []storage.LogMessage
	if err := stats.PanicGuard(sig+"ReadAll/panic", func() error {
		var e error
		got, e = rl.ReadAll(dataID, versionID)
		if e != nil {
			return stats.Violf(sig+"ReadAll/error", "%s: %v", ctx, e)
		}
		return nil
	}); err != nil {
		return err
	}
	if msg := sameMsgs(got, want); msg != "" {
		return stats.Violf(sig+"ReadAll/records-differ", "%s: %s", ctx, msg)
	}
	var sgot []storage.LogMessage
	if err := stats.PanicGuard(sig+"StreamAll/panic", func() error {
		ch := make(chan storage.LogMessage, 4)
		done := make(chan struct{})
		go func() {
			for m := range ch {
				sgot = append(sgot, storage.LogMessage{EntryType: m.EntryType, Data: append([]byte(nil), m.Data...)})
			}
			close(done)
		}()
		e := rl.StreamAll(dataID, versionID, ch)
		<-done
		if e != nil {
			return stats.Violf(sig+"StreamAll/error", "%s: %v", ctx, e)
		}
		return nil
	}); err != nil {
		return err
	}
	if msg := sameMsgs(sgot, want); msg != "" {
		return stats.Violf(sig+"StreamAll/records-differ", "%s: %s", ctx, msg)
	}
	return nil
}

func checkTorn(c tornCase) (cuts, appends int, err error) {
	dir, e := scratch()
	if e != nil {
		return 0, 0, e
	}
	defer os.RemoveAll(dir)
	full := filepath.Join(dir, "full")
	wl, _, e := openLog(full)
	if e != nil {
		return 0, 0, e
	}
	var ends []int // file length after each record
	n := 0
	for _, r := range c.Recs {
		if e := wl.Append(dataID, versionID, storage.LogMessage{EntryType: r.Type, Data: r.data()}); e != nil {
			return 0, 0, fmt.Errorf("harness: append: %v", e)
		}
		n += 6 + r.Len
		ends = append(ends, n)
	}
	wl.Close()
	fname := string(dataID + "-" + versionID)
	file, e := os.ReadFile(filepath.Join(full, fname))
	if e != nil {
		return 0, 0, fmt.Errorf("harness: %v", e)
	}
	if len(file) != n {
		return 0, 0, stats.Violf("C04/filelog/Append/file-length", "%d records with %d payload+header bytes produced a %d byte file", len(c.Recs), n, len(file))
	}
	appendAt := map[int]bool{}
	for _, e := range ends {
		for d := -7; d <= 7; d++ {
			if e+d >= 0 && e+d <= n {
				appendAt[e+d] = true
			}
		}
	}
	for d := 0; d <= 7 && d <= n; d++ {
		appendAt[d] = true
	}
	for _, x := range c.Cuts {
		if n > 0 {
			appendAt[x%(n+1)] = true
		}
	}
	for L := 0; L <= n; L++ {
		complete := 0
		for complete < len(ends) && ends[complete] <= L {
			complete++
		}
		want := c.Recs[:complete]
		tdir := filepath.Join(dir, fmt.Sprintf("cut%d", L))
		if e := os.MkdirAll(tdir, 0755); e != nil {
			return cuts, appends, e
		}
		if e := os.WriteFile(filepath.Join(tdir, fname), file[:L], 0644); e != nil {
			return cuts, appends, e
		}
		wl, rl, e := openLog(tdir)
		if e != nil {
			return cuts, appends, e
		}
		ctx := fmt.Sprintf("log of %d records (%d bytes) cut at %d bytes", len(c.Recs), n, L)
		if err := readBoth(rl, want, "C04/filelog/torn/", ctx); err != nil {
			wl.Close()
			return cuts, appends, err
		}
		cuts++
		if appendAt[L] && len(c.Extra) > 0 {
			for _, r := range c.Extra {
				if e := wl.Append(dataID, versionID, storage.LogMessage{EntryType: r.Type, Data: r.data()}); e != nil {
					wl.Close()
					return cuts, appends, stats.Violf("C04/filelog/append-after-torn/error", "%s, then append: %v", ctx, e)
				}
			}
			wl.Close()
			wl, rl, e = openLog(tdir)
			if e != nil {
				return cuts, appends, e
			}
			want2 := append(append([]logRec(nil), want...), c.Extra...)
			if err := readBoth(rl, want2, "C04/filelog/append-after-torn/", ctx+fmt.Sprintf(", then %d records appended (acknowledged) and the log reopened", len(c.Extra))); err != nil {
				wl.Close()
				return cuts, appends, err
			}
			appends++
		}
		wl.Close()
		os.RemoveAll(tdir)
	}
	return cuts, appends, nil
}

func genRec(t *rapid.T, label string) logRec {
	l := rapid.SampledFrom([]int{0, 0, 1, 2, 5, 6, 7, 12, 13, 40, 250}).Draw(t, label+"len")
	if rapid.IntRange(0, 9).Draw(t, label+"big") == 0 {
		l = rapid.IntRange(251, 3000).Draw(t, label+"biglen")
	}
	return logRec{Type: uint16(rapid.SampledFrom([]int{0, 1, 2, 7, 255, 256, 65535}).Draw(t, label+"type")), Len: l, Fill: byte(rapid.IntRange(0, 255).Draw(t, label+"fill"))}
}

func TestC04TornLog(t *testing.T) {
	rapid.Check(t, func(t *rapid.T) {
		var c tornCase
		for i := rapid.IntRange(1, 6).Draw(t, "n"); i > 0; i-- {
			c.Recs = append(c.Recs, genRec(t, "r"))
		}
		for i := rapid.IntRange(0, 2).Draw(t, "nx"); i > 0; i-- {
			c.Extra = append(c.Extra, genRec(t, "x"))
		}
		c.Cuts = rapid.SliceOfN(rapid.IntRange(0, 1<<20), 0, 8).Draw(t, "cuts")
		cuts, appends, err := checkTorn(c)
		if !stats.Judge(t, "C04", "TestC04TornLog", err, c) {
			return
		}
		cls := map[string]bool{}
		if appends > 0 {
			cls["append-after-cut"] = true
		}
		zero := false
		for _, r := range c.Recs {
			if r.Len == 0 {
				zero = true
			}
		}
		if zero {
			cls["zero-length-record"] = true
		}
		stats.Record(stats.HashJSON(c), cuts > 1, keys(cls), func() interface{} {
			return map[string]interface{}{"records": len(c.Recs), "cuts": cuts, "append_after_cut": appends}
		})
		stats.Count("C04/torn-cuts", int64(cuts))
	})
}

func TestReplay(t *testing.T) {
	stats.RunReplay(t, map[string]func(json.RawMessage) error{
		"TestC04Crash": func(raw json.RawMessage) error {
			var c c04Case
			if err := json.Unmarshal(raw, &c); err != nil {
				return err
			}
			_, err := checkC04(c)
			return err
		},
		"TestC04TornMutationLog": func(raw json.RawMessage) error {
			var c mlogCase
			if err := json.Unmarshal(raw, &c); err != nil {
				return err
			}
			_, err := checkTornMutationLog(c)
			return err
		},
		"TestC04TornLog": func(raw json.RawMessage) error {
			var c tornCase
			if err := json.Unmarshal(raw, &c); err != nil {
				return err
			}
			_, _, err := checkTorn(c)
			return err
		},
	})
}

// ---------------------------------------------------------------------------------------------------------------------
// TestC04TornMutationLog — the per-instance JSON mutation log (header write, then payload write) cut at record
// boundaries and inside records: a new server must serve exactly the complete records, and records acknowledged after
// the restart must be served after the next one.

type mlogCase struct {
	Puts  int   `json:"puts"`  // records written before the cut (1..5)
	Extra int   `json:"extra"` // records written after the restart on the cut log (1..2)
	Cuts  []int `json:"cuts"`  // additional cut lengths (mod file size)
}

func mutationRecords(c *drive.Child, uuid string) ([]string, drive.Resp, error) {
	r, err := c.Do("GET", "node/"+uuid+"/kv/mutations", nil)
	if err != nil {
		return nil, r, err
	}
	var raw []json.RawMessage
	if !r.OK() || json.Unmarshal(r.Body, &raw) != nil {
		return nil, r, nil
	}
	var out []string
	for _, m := range raw {
		var rec map[string]interface{}
		if json.Unmarshal(m, &rec) != nil {
			return nil, r, nil
		}
		out = append(out, fmt.Sprint(rec["Key"]))
	}
	return out, r, nil
}

func checkTornMutationLog(c mlogCase) (trials int, err error) {
	dir, e := scratch()
	if e != nil {
		return 0, e
	}
	defer os.RemoveAll(dir)
	srv := filepath.Join(dir, "srv")
	ch, e := drive.StartChild(srv)
	if e != nil {
		return 0, fmt.Errorf("harness: %v", e)
	}
	kill := func() {
		if ch != nil {
			ch.Kill()
		}
	}
	defer func() { kill() }()
	r, e := ch.Do("POST", "repos", []byte(`{"alias":"mlog"}`))
	if e != nil || !r.OK() {
		return 0, fmt.Errorf("harness: new repo: %v %s", e, r)
	}
	var rr struct{ Root string }
	json.Unmarshal(r.Body, &rr)
	if r, e = ch.Do("POST", "repo/"+rr.Root+"/instance", []byte(`{"typename":"keyvalue","dataname":"kv"}`)); e != nil || !r.OK() {
		return 0, fmt.Errorf("harness: new instance: %v %s", e, r)
	}
	var want []string
	for i := 0; i < c.Puts; i++ {
		k := fmt.Sprintf("key%d", i)
		if r, e = ch.Do("POST", "node/"+rr.Root+"/kv/key/"+k, []byte(fmt.Sprintf("value-%d", i))); e != nil || !r.OK() {
			return 0, fmt.Errorf("harness: put: %v %s", e, r)
		}
		want = append(want, k)
	}
	got, resp, e := mutationRecords(ch, rr.Root)
	if e != nil {
		return 0, fmt.Errorf("harness: %v", e)
	}
	if fmt.Sprint(got) != fmt.Sprint(want) {
		return 0, stats.Violf("C04/mutationlog/uncut/records-differ", "%d puts acknowledged, GET mutations answers %s", c.Puts, resp)
	}
	if e = ch.Shutdown(); e != nil {
		return 0, fmt.Errorf("harness: shutdown: %v", e)
	}
	ch = nil
	logs, _ := filepath.Glob(filepath.Join(srv, "mutations", "*.plog"))
	if len(logs) != 1 {
		return 0, fmt.Errorf("harness: expected one mutation log file, found %v", logs)
	}
	full, e := os.ReadFile(logs[0])
	if e != nil {
		return 0, fmt.Errorf("harness: %v", e)
	}
	// record framing of the log library: uint32 length, uint32 crc, uint16 type, payload
	var ends []int
	for p := 0; p+10 <= len(full); {
		n := int(uint32(full[p]) | uint32(full[p+1])<<8 | uint32(full[p+2])<<16 | uint32(full[p+3])<<24)
		p += 10 + n
		if p > len(full) {
			return 0, fmt.Errorf("harness: cannot parse the uncut mutation log")
		}
		ends = append(ends, p)
	}
	if len(ends) != c.Puts {
		return 0, fmt.Errorf("harness: %d records in the log, %d puts", len(ends), c.Puts)
	}
	cuts := map[int]bool{}
	for _, e := range ends {
		for _, d := range []int{-11, -1, 0, 1, 4, 9, 10, 11} {
			if e+d >= 0 && e+d <= len(full) {
				cuts[e+d] = true
			}
		}
	}
	for _, x := range c.Cuts {
		cuts[x%(len(full)+1)] = true
	}
	var order []int
	for L := range cuts {
		order = append(order, L)
	}
	sort.Ints(order)
	for _, L := range order {
		complete := 0
		for complete < len(ends) && ends[complete] <= L {
			complete++
		}
		if e = os.WriteFile(logs[0], full[:L], 0644); e != nil {
			return trials, e
		}
		ctx := fmt.Sprintf("mutation log of %d records (%d bytes) cut at %d bytes", c.Puts, len(full), L)
		if ch, e = drive.StartChild(srv); e != nil {
			return trials, stats.Violf("C04/mutationlog/torn/restart-failed", "%s: %v", ctx, e)
		}
		got, resp, e := mutationRecords(ch, rr.Root)
		if e != nil {
			return trials, stats.Violf("C04/mutationlog/torn/read-never-answers-or-kills-server", "%s: GET mutations: %v; stderr: %s", ctx, e, ch.StderrTail(600))
		}
		if fmt.Sprint(got) != fmt.Sprint(want[:complete]) {
			return trials, stats.Violf("C04/mutationlog/torn/records-differ", "%s: %d records were completely written, GET mutations answers %s", ctx, complete, resp)
		}
		now := append([]string(nil), want[:complete]...)
		for i := 0; i < c.Extra; i++ {
			k := fmt.Sprintf("late%d", i)
			if r, e = ch.Do("POST", "node/"+rr.Root+"/kv/key/"+k, []byte("late")); e != nil || !r.OK() {
				return trials, stats.Violf("C04/mutationlog/append-after-torn/put-refused", "%s, then POST key: %v %s", ctx, e, r)
			}
			now = append(now, k)
		}
		if e = ch.Shutdown(); e != nil {
			return trials, fmt.Errorf("harness: shutdown: %v", e)
		}
		if ch, e = drive.StartChild(srv); e != nil {
			return trials, stats.Violf("C04/mutationlog/append-after-torn/restart-failed", "%s: %v", ctx, e)
		}
		got, resp, e = mutationRecords(ch, rr.Root)
		if e != nil {
			return trials, stats.Violf("C04/mutationlog/append-after-torn/read-never-answers-or-kills-server", "%s, %d more puts, restart: GET mutations: %v", ctx, c.Extra, e)
		}
		if fmt.Sprint(got) != fmt.Sprint(now) {
			return trials, stats.Violf("C04/mutationlog/append-after-torn/records-differ", "%s, then %d puts acknowledged and a clean restart: expected records of keys %v, GET mutations answers %s", ctx, c.Extra, now, resp)
		}
		if e = ch.Shutdown(); e != nil {
			return trials, fmt.Errorf("harness: shutdown: %v", e)
		}
		ch = nil
		trials++
	}
	return trials, nil
}

func TestC04TornMutationLog(t *testing.T) {
	rapid.Check(t, func(t *rapid.T) {
		c := mlogCase{Puts: rapid.IntRange(1, 4).Draw(t, "puts"), Extra: rapid.IntRange(1, 2).Draw(t, "extra"), Cuts: rapid.SliceOfN(rapid.IntRange(0, 1<<16), 0, 4).Draw(t, "cuts")}
		stats.SetCur("C04", "TestC04TornMutationLog", c)
		trials, err := checkTornMutationLog(c)
		if !stats.Judge(t, "C04", "TestC04TornMutationLog", err, c) {
			return
		}
		stats.Record(stats.HashJSON(c), trials > 1, []string{"mutation-log-cut"}, func() interface{} {
			return map[string]interface{}{"puts": c.Puts, "cuts": trials}
		})
		stats.Count("C04/mutation-log-cuts", int64(trials))
	})
}
