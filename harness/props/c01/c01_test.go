// C01 — versioned reads resolve to the nearest ancestor write in the version DAG.
package c01

import (
	"bytes"
	"encoding/json"
	"fmt"
	"os"
	"sort"
	"strings"
	"testing"

	"github.com/janelia-flyem/dvid/datastore"
	"github.com/janelia-flyem/dvid/storage"
	"pgregory.net/rapid"

	"verif/drive"
	"verif/model"
	"verif/stats"
)

func TestMain(m *testing.M) {
	drive.Open()
	rc := m.Run()
	drive.Close()
	stats.Flush()
	os.Exit(rc)
}

// ------------------------------------------------------------------ DAG generation

type dagSpec struct {
	Parents  [][]int `json:"parents"` // node i (>0) parents, indices < i, distinct, in merge order
	Template bool    `json:"template"`
}

func (s dagSpec) dag() *model.DAG {
	d := &model.DAG{}
	d.Add()
	for i := 1; i < len(s.Parents); i++ {
		d.Add(s.Parents[i]...)
	}
	return d
}

func distinctParents(t *rapid.T, n, k int, label string) []int {
	// k distinct indices in [0,n) in drawn order
	var out []int
	used := map[int]bool{}
	for len(out) < k {
		p := rapid.IntRange(0, n-1).Draw(t, label)
		for used[p] {
			p = (p + 1) % n
		}
		used[p] = true
		out = append(out, p)
	}
	return out
}

func genFreeDAG(t *rapid.T, maxNodes int) dagSpec {
	n := rapid.IntRange(2, maxNodes).Draw(t, "n")
	s := dagSpec{Parents: [][]int{nil}}
	for i := 1; i < n; i++ {
		kind := rapid.SampledFrom([]string{"child", "child", "child", "merge2", "merge2", "merge3", "merge4"}).Draw(t, "kind")
		k := 1
		switch kind {
		case "merge2":
			k = 2
		case "merge3":
			k = 3
		case "merge4":
			k = 4
		}
		if k > i {
			k = 1
		}
		if k == 1 {
			// bias towards recent nodes so chains and diamonds form
			p := i - 1 - rapid.IntRange(0, i-1).Draw(t, "back")
			s.Parents = append(s.Parents, []int{p})
		} else {
			s.Parents = append(s.Parents, distinctParents(t, i, k, "mp"))
		}
	}
	return s
}

// lineage template: trunk, k lineages forking from trunk or other lineage nodes with 0..2 own nodes, merge of the
// tips (parents that may be ancestors of one another), optionally something on top.
func genTemplateDAG(t *rapid.T) dagSpec {
	s := dagSpec{Parents: [][]int{nil}, Template: true}
	trunk := rapid.IntRange(1, 3).Draw(t, "trunk")
	for i := 1; i < trunk; i++ {
		s.Parents = append(s.Parents, []int{i - 1})
	}
	k := rapid.IntRange(2, 4).Draw(t, "k")
	var tips []int
	for l := 0; l < k; l++ {
		fork := rapid.IntRange(0, len(s.Parents)-1).Draw(t, "fork")
		own := rapid.IntRange(0, 2).Draw(t, "own")
		tip := fork
		for j := 0; j < own; j++ {
			s.Parents = append(s.Parents, []int{tip})
			tip = len(s.Parents) - 1
		}
		dup := false
		for _, x := range tips {
			if x == tip {
				dup = true
			}
		}
		if dup { // make it distinct by giving the lineage one own node
			s.Parents = append(s.Parents, []int{tip})
			tip = len(s.Parents) - 1
		}
		tips = append(tips, tip)
	}
	order := rapid.Permutation(tips).Draw(t, "order")
	s.Parents = append(s.Parents, order)
	m := len(s.Parents) - 1
	switch rapid.IntRange(0, 3).Draw(t, "top") {
	case 1: // child on top of the merge
		s.Parents = append(s.Parents, []int{m})
	case 2: // second-level merge with some other node that is not the merge itself
		o := rapid.IntRange(0, m-1).Draw(t, "other")
		if rapid.Bool().Draw(t, "mfirst") {
			s.Parents = append(s.Parents, []int{m, o})
		} else {
			s.Parents = append(s.Parents, []int{o, m})
		}
	case 3: // child of merge, then merge of that child with a fresh lineage off the trunk
		s.Parents = append(s.Parents, []int{m})
		c := len(s.Parents) - 1
		s.Parents = append(s.Parents, []int{rapid.IntRange(0, trunk-1).Draw(t, "f2")})
		l := len(s.Parents) - 1
		s.Parents = append(s.Parents, []int{c, l})
	}
	return s
}

func dagClasses(s dagSpec) []string {
	d := s.dag()
	var cls []string
	if s.Template {
		cls = append(cls, "dag/template")
	} else {
		cls = append(cls, "dag/free")
	}
	merges := 0
	for i, ps := range d.Parents {
		if len(ps) >= 2 {
			merges++
			if len(ps) >= 3 {
				cls = append(cls, "dag/merge>=3parents")
				// two parents share a non-root proper ancestor-or-self relation (one lineage hangs off another)
				shared := false
				for a := 0; a < len(ps); a++ {
					for b := 0; b < len(ps); b++ {
						if a == b {
							continue
						}
						for u := range d.Ancestors(ps[a]) {
							if u != 0 && d.Ancestors(ps[b])[u] {
								shared = true
							}
						}
					}
				}
				if shared {
					cls = append(cls, "dag/merge>=3parents+shared-nonroot-ancestor")
				}
			}
			for a := range ps {
				for b := range ps {
					if a != b && d.IsAncestor(ps[a], ps[b]) {
						cls = append(cls, "dag/merge-parent-is-ancestor-of-another")
					}
				}
			}
			for _, p := range ps {
				for u := range d.Ancestors(p) {
					if len(d.Parents[u]) >= 2 {
						cls = append(cls, "dag/nested-merge")
					}
				}
			}
			_ = i
		}
	}
	if merges == 0 {
		cls = append(cls, "dag/no-merge")
	}
	return dedup(cls)
}

func dedup(in []string) []string {
	sort.Strings(in)
	var out []string
	for i, s := range in {
		if i == 0 || s != in[i-1] {
			out = append(out, s)
		}
	}
	return out
}

func xorshift(s *uint64) uint64 {
	x := *s
	if x == 0 {
		x = 0x9E3779B97F4A7C15
	}
	x ^= x << 13
	x ^= x >> 7
	x ^= x << 17
	*s = x
	return x
}

// ------------------------------------------------------------------ layer 1: resolver

type resolverCase struct {
	DAG       dagSpec `json:"dag"`
	Seed      uint64  `json:"seed"`       // drives sampled placements and entry permutations
	AllOrders bool    `json:"all_orders"` // enumerate every order of the last merge's parents
	// Only, when set, restricts to one placement (used by saved replays): entry kind per node
	Only []int `json:"only,omitempty"`
}

func permutations(xs []int) [][]int {
	if len(xs) <= 1 {
		return [][]int{append([]int(nil), xs...)}
	}
	var out [][]int
	for i := range xs {
		rest := append(append([]int(nil), xs[:i]...), xs[i+1:]...)
		for _, p := range permutations(rest) {
			out = append(out, append([]int{xs[i]}, p...))
		}
	}
	return out
}

var resolverEvals int64

func checkResolver(c resolverCase) error {
	specs := []dagSpec{c.DAG}
	if c.AllOrders {
		last := -1
		for i, ps := range c.DAG.Parents {
			if len(ps) >= 2 {
				last = i
			}
		}
		if last >= 0 {
			specs = nil
			for _, perm := range permutations(c.DAG.Parents[last]) {
				cp := dagSpec{Template: c.DAG.Template}
				for i, ps := range c.DAG.Parents {
					if i == last {
						cp.Parents = append(cp.Parents, perm)
					} else {
						cp.Parents = append(cp.Parents, append([]int(nil), ps...))
					}
				}
				specs = append(specs, cp)
			}
		}
	}
	for _, spec := range specs {
		if err := checkResolverOne(spec, c.Seed, c.Only); err != nil {
			return err
		}
	}
	return nil
}

func checkResolverOne(spec dagSpec, seed uint64, only []int) error {
	d := spec.dag()
	b, err := drive.BuildDAG(d)
	if err != nil {
		return stats.Violf("C01/harness/build-dag", "%v (dag %v)", err, spec.Parents)
	}
	data, err := b.NewData("keyvalue", "kv", nil)
	if err != nil {
		return fmt.Errorf("new data: %v", err)
	}
	n := d.N()
	tk := storage.NewTKey(177, []byte("k\x00"))
	ctx0 := datastore.NewVersionedCtx(data, b.Version[0])
	valKey := make([]storage.Key, n)
	tombKey := make([]storage.Key, n)
	for u := 0; u < n; u++ {
		valKey[u] = ctx0.ConstructKeyVersion(tk, b.Version[u])
		tombKey[u] = ctx0.TombstoneKeyVersion(tk, b.Version[u])
	}
	ctxs := make([]*datastore.VersionedCtx, n)
	for v := 0; v < n; v++ {
		ctxs[v] = datastore.NewVersionedCtx(data, b.Version[v])
	}
	entries := make([]int, n)
	rng := seed
	evalOne := func() error {
		var keys []storage.Key
		var kvs []*storage.KeyValue
		for u := 0; u < n; u++ {
			switch entries[u] {
			case model.Value:
				keys = append(keys, valKey[u])
				kvs = append(kvs, &storage.KeyValue{K: valKey[u], V: []byte{byte(u)}})
			case model.Tombstone:
				keys = append(keys, tombKey[u])
				kvs = append(kvs, &storage.KeyValue{K: tombKey[u], V: []byte{}})
			}
		}
		// permute ("every order in which the store returns the entries")
		for i := len(keys) - 1; i > 0; i-- {
			j := int(xorshift(&rng) % uint64(i+1))
			keys[i], keys[j] = keys[j], keys[i]
			kvs[i], kvs[j] = kvs[j], kvs[i]
		}
		for v := 0; v < n; v++ {
			kind, at, frontier := d.Resolve(entries, v)
			resolverEvals++
			var gotK storage.Key
			var gotErr error
			if perr := stats.PanicGuard("C01/GetBestKeyVersion/panic", func() error {
				gotK, gotErr = ctxs[v].GetBestKeyVersion(append([]storage.Key(nil), keys...))
				return nil
			}); perr != nil {
				return perr
			}
			if err := judgeResolve("GetBestKeyVersion", spec, entries, v, kind, at, frontier, gotK, gotErr, valKey); err != nil {
				return err
			}
			var gotKV *storage.KeyValue
			if perr := stats.PanicGuard("C01/VersionedKeyValue/panic", func() error {
				gotKV, gotErr = ctxs[v].VersionedKeyValue(append([]*storage.KeyValue(nil), kvs...))
				return nil
			}); perr != nil {
				return perr
			}
			gotK = nil
			if gotKV != nil {
				gotK = gotKV.K
			}
			if err := judgeResolve("VersionedKeyValue", spec, entries, v, kind, at, frontier, gotK, gotErr, valKey); err != nil {
				return err
			}
		}
		return nil
	}
	if only != nil {
		copy(entries, only)
		return evalOne()
	}
	if n <= 6 {
		total := 1
		for i := 0; i < n; i++ {
			total *= 3
		}
		for code := 0; code < total; code++ {
			x := code
			for u := 0; u < n; u++ {
				entries[u] = x % 3
				x /= 3
			}
			if err := evalOne(); err != nil {
				return err
			}
		}
		return nil
	}
	for i := 0; i < 300; i++ {
		for u := 0; u < n; u++ {
			entries[u] = int(xorshift(&rng) % 3)
		}
		if err := evalOne(); err != nil {
			return err
		}
	}
	return nil
}

func judgeResolve(fn string, spec dagSpec, entries []int, v int, kind string, at int, frontier []int, gotK storage.Key, gotErr error, valKey []storage.Key) error {
	desc := func() string {
		return fmt.Sprintf("dag parents=%v entries(0 none,1 value,2 tombstone)=%v query node=%d model=%s at=%d frontier=%v", spec.Parents, entries, v, kind, at, frontier)
	}
	gotNode := -1
	if gotK != nil {
		for u, k := range valKey {
			if bytes.Equal(k, gotK) {
				gotNode = u
			}
		}
	}
	switch kind {
	case model.Found:
		if gotErr != nil {
			return stats.Violf("C01/"+fn+"/error-instead-of-unique-live-value", "%v; %s", gotErr, desc())
		}
		if gotK == nil {
			return stats.Violf("C01/"+fn+"/absent-instead-of-unique-live-value", "%s", desc())
		}
		if gotNode != at {
			return stats.Violf("C01/"+fn+"/wrong-version-returned", "returned the entry of node %d; %s", gotNode, desc())
		}
	case model.Absent:
		if gotK != nil && gotErr == nil {
			return stats.Violf("C01/"+fn+"/value-where-none-visible", "returned the entry of node %d; %s", gotNode, desc())
		}
		if gotErr != nil {
			return stats.Violf("C01/"+fn+"/error-where-absent", "%v; %s", gotErr, desc())
		}
	case model.Conflict:
		if gotK != nil && gotErr == nil {
			return stats.Violf("C01/"+fn+"/succeeds-on-conflict", "returned the entry of node %d although two unsuperseded live values remain; %s", gotNode, desc())
		}
	}
	return nil
}

func TestC01Resolver(t *testing.T) {
	rapid.Check(t, func(t *rapid.T) {
		var c resolverCase
		if rapid.Bool().Draw(t, "template") {
			c.DAG = genTemplateDAG(t)
			c.AllOrders = true
		} else {
			c.DAG = genFreeDAG(t, 10)
			c.AllOrders = rapid.IntRange(0, 3).Draw(t, "allorders") == 0
		}
		c.Seed = rapid.Uint64().Draw(t, "seed")
		stats.SetCur("C01", "TestC01Resolver", c)
		before := resolverEvals
		if !stats.Judge(t, "C01", "TestC01Resolver", checkResolver(c), c) {
			return
		}
		stats.Count("resolver_dag_placement_query_evaluations", resolverEvals-before)
		cls := dagClasses(c.DAG)
		nt := len(c.DAG.Parents) >= 3
		stats.Record(stats.HashJSON(c), nt, cls, func() interface{} { return map[string]interface{}{"test": "resolver", "case": c} })
	})
}

// ------------------------------------------------------------------ layer 2: store (real Put/Delete on Badger)

type storeOp struct {
	Node  int  `json:"node"`
	Key   int  `json:"key"`
	Del   bool `json:"del"`
	Batch bool `json:"batch"`
	Range bool `json:"range,omitempty"` // with Del: DeleteRange over the whole key class at that version
}

type storeCase struct {
	DAG dagSpec   `json:"dag"`
	Ops []storeOp `json:"ops"`
}

func checkStore(c storeCase) error {
	d := c.DAG.dag()
	b, err := drive.BuildDAG(d)
	if err != nil {
		return stats.Violf("C01/harness/build-dag", "%v (dag %v)", err, c.DAG.Parents)
	}
	data, err := b.NewData("keyvalue", "kv", nil)
	if err != nil {
		return fmt.Errorf("new data: %v", err)
	}
	db, err := datastore.GetOrderedKeyValueDB(data)
	if err != nil {
		return err
	}
	batcher, _ := db.(storage.KeyValueBatcher)
	n := d.N()
	const nkeys = 3
	tks := make([]storage.TKey, nkeys)
	for i := range tks {
		tks[i] = storage.NewTKey(177, []byte(fmt.Sprintf("key%d\x00", i)))
	}
	entries := make([][]int, nkeys) // per key, per node
	vals := make([][]string, nkeys)
	for k := range entries {
		entries[k] = make([]int, n)
		vals[k] = make([]string, n)
	}
	ctxs := make([]*datastore.VersionedCtx, n)
	for v := 0; v < n; v++ {
		ctxs[v] = datastore.NewVersionedCtx(data, b.Version[v])
	}
	for i, op := range c.Ops {
		u, k := op.Node%n, op.Key%nkeys
		val := fmt.Sprintf("n%d#%d", u, i)
		// A range delete writes a tombstone at u for every key that is visible there and leaves
		// the others alone; where some key is in conflict at u the outcome is not defined by the
		// property, so the op falls back to a point delete (a pure function of the case).
		rangeDel := op.Del && op.Range
		if rangeDel {
			for kk := range entries {
				if kind, _, _ := d.Resolve(entries[kk], u); kind == model.Conflict {
					rangeDel = false
				}
			}
		}
		err := stats.PanicGuard("C01/store-write/panic", func() error {
			switch {
			case rangeDel:
				return db.DeleteRange(ctxs[u], storage.MinTKey(177), storage.MaxTKey(177))
			case op.Batch && batcher != nil:
				bt := batcher.NewBatch(ctxs[u])
				if op.Del {
					bt.Delete(tks[k])
				} else {
					bt.Put(tks[k], []byte(val))
				}
				return bt.Commit()
			case op.Del:
				return db.Delete(ctxs[u], tks[k])
			default:
				return db.Put(ctxs[u], tks[k], []byte(val))
			}
		})
		if err != nil {
			return stats.Violf("C01/store-write/error", "op %d %+v: %v", i, op, err)
		}
		touched := []int{k}
		switch {
		case rangeDel:
			touched = touched[:0]
			for kk := range entries {
				touched = append(touched, kk)
				if kind, _, _ := d.Resolve(entries[kk], u); kind == model.Found {
					entries[kk][u] = model.Tombstone
				}
			}
		case op.Del:
			entries[k][u] = model.Tombstone
		default:
			entries[k][u] = model.Value
			vals[k][u] = val
		}
		// after every write: every version's read of that key (of every key after a range delete)
		for _, k := range touched {
			for v := 0; v < n; v++ {
				kind, at, frontier := d.Resolve(entries[k], v)
				var got []byte
				var gerr error
				if perr := stats.PanicGuard("C01/store-Get/panic", func() error { got, gerr = db.Get(ctxs[v], tks[k]); return nil }); perr != nil {
					return perr
				}
				desc := fmt.Sprintf("after op %d %+v: dag=%v key %d entries=%v query node %d model=%s at=%d frontier=%v got=%q err=%v", i, op, c.DAG.Parents, k, entries[k], v, kind, at, frontier, got, gerr)
				switch kind {
				case model.Found:
					if gerr != nil {
						return stats.Violf("C01/store-Get/error-instead-of-unique-live-value", "%s", desc)
					}
					if got == nil {
						return stats.Violf("C01/store-Get/absent-instead-of-unique-live-value", "%s", desc)
					}
					if string(got) != vals[k][at] {
						return stats.Violf("C01/store-Get/wrong-value", "want %q; %s", vals[k][at], desc)
					}
				case model.Absent:
					if gerr != nil {
						return stats.Violf("C01/store-Get/error-where-absent", "%s", desc)
					}
					if got != nil {
						return stats.Violf("C01/store-Get/value-where-none-visible", "%s", desc)
					}
				case model.Conflict:
					if gerr == nil && got != nil {
						return stats.Violf("C01/store-Get/succeeds-on-conflict", "%s", desc)
					}
				}
				if kind != model.Conflict {
					ex, eerr := db.Exists(ctxs[v], tks[k])
					if eerr == nil && ex != (kind == model.Found) {
						return stats.Violf("C01/store-Exists/differs", "Exists=%v; %s", ex, desc)
					}
				}
			}
		}
	}
	return nil
}

func TestC01Store(t *testing.T) {
	rapid.Check(t, func(t *rapid.T) {
		var c storeCase
		if rapid.Bool().Draw(t, "template") {
			c.DAG = genTemplateDAG(t)
		} else {
			c.DAG = genFreeDAG(t, 8)
		}
		nops := rapid.IntRange(1, 14).Draw(t, "nops")
		for i := 0; i < nops; i++ {
			c.Ops = append(c.Ops, storeOp{
				Node:  rapid.IntRange(0, len(c.DAG.Parents)-1).Draw(t, "node"),
				Key:   rapid.IntRange(0, 1).Draw(t, "key"),
				Del:   rapid.IntRange(0, 2).Draw(t, "del") == 0,
				Batch: rapid.Bool().Draw(t, "batch"),
			})
			if c.Ops[i].Del {
				c.Ops[i].Range = rapid.IntRange(0, 2).Draw(t, "range") == 0
			}
		}
		stats.SetCur("C01", "TestC01Store", c)
		if !stats.Judge(t, "C01", "TestC01Store", checkStore(c), c) {
			return
		}
		// non-trivial: some key written at >=2 nodes with a delete somewhere
		per := map[int]map[int]bool{}
		hasDel := false
		rewrite := false
		rangeAfterWrite := false
		seen := map[[2]int]bool{}
		for _, op := range c.Ops {
			if op.Del && op.Range && len(seen) > 0 {
				rangeAfterWrite = true
			}
			if per[op.Key] == nil {
				per[op.Key] = map[int]bool{}
			}
			per[op.Key][op.Node] = true
			if op.Del {
				hasDel = true
			}
			if seen[[2]int{op.Key, op.Node}] {
				rewrite = true
			}
			seen[[2]int{op.Key, op.Node}] = true
		}
		nt := false
		for _, m := range per {
			if len(m) >= 2 {
				nt = true
			}
		}
		cls := append(dagClasses(c.DAG), "store")
		if rewrite {
			cls = append(cls, "store/rewrite-at-same-version")
		}
		if hasDel {
			cls = append(cls, "store/has-delete")
		}
		if rangeAfterWrite {
			cls = append(cls, "store/range-delete-after-write")
		}
		stats.Record(stats.HashJSON(c), nt && hasDel, cls, func() interface{} { return map[string]interface{}{"test": "store", "case": c} })
	})
}

// ------------------------------------------------------------------ layer 3: HTTP histories

type httpOp struct {
	Kind string `json:"kind"` // put del commit newversion branch merge
	Repo int    `json:"repo"`
	Inst int    `json:"inst"` // 0 versioned, 1 unversioned
	Node int    `json:"node"`
	Key  int    `json:"key"`
	Ps   []int  `json:"ps,omitempty"` // merge parents (indices into the committed list)
}

type httpCase struct {
	Ops []httpOp `json:"ops"`
}

type repoModel struct {
	root    string
	dag     *model.DAG
	uuid    []string
	locked  []bool
	branch  []string
	kids    map[int]map[string]bool
	entries [2][]map[int]int    // [inst][key] -> node -> kind    (inst 1: everything at node 0)
	vals    [2][]map[int]string // [inst][key] -> node -> value
	nbranch int
}

var httpKeys = []string{"a", "ab", "b", "k0"}
var instNames = []string{"kvv", "kvu"}

func newRepoModel() (*repoModel, error) {
	root, err := drive.NewRepo()
	if err != nil {
		return nil, err
	}
	if err := drive.NewInstance(root, "keyvalue", instNames[0], nil); err != nil {
		return nil, err
	}
	if err := drive.NewInstance(root, "keyvalue", instNames[1], map[string]string{"versioned": "false"}); err != nil {
		return nil, err
	}
	m := &repoModel{root: root, dag: &model.DAG{}, kids: map[int]map[string]bool{}}
	m.dag.Add()
	m.uuid = []string{root}
	m.locked = []bool{false}
	m.branch = []string{""}
	for i := 0; i < 2; i++ {
		m.entries[i] = make([]map[int]int, len(httpKeys))
		m.vals[i] = make([]map[int]string, len(httpKeys))
		for k := range httpKeys {
			m.entries[i][k] = map[int]int{}
			m.vals[i][k] = map[int]string{}
		}
	}
	return m, nil
}

func (m *repoModel) entryVec(inst, key int) []int {
	out := make([]int, m.dag.N())
	for u, e := range m.entries[inst][key] {
		out[u] = e
	}
	return out
}

// expected read of (inst,key) at node v
func (m *repoModel) expect(inst, key, v int) (kind string, val string) {
	if inst == 1 {
		v = 0 // unversioned instances are pinned to the root version
	}
	kind, at, _ := m.dag.Resolve(m.entryVec(inst, key), v)
	if kind == model.Found {
		return kind, m.vals[inst][key][at]
	}
	return kind, ""
}

func (m *repoModel) checkKey(inst, key int, what string) error {
	for v := 0; v < m.dag.N(); v++ {
		kind, val := m.expect(inst, key, v)
		r := drive.Get(fmt.Sprintf("node/%s/%s/key/%s", m.uuid[v], instNames[inst], httpKeys[key]))
		if r.IsPanic() {
			return stats.Violf("C01/http-GET/panic", "%s: %s", what, r)
		}
		desc := fmt.Sprintf("%s: inst=%s key=%s node=%d dag=%v entries=%v model=%s %q; response %s", what, instNames[inst], httpKeys[key], v, m.dag.Parents, m.entryVec(inst, key), kind, val, r)
		switch kind {
		case model.Found:
			if r.Code != 200 {
				return stats.Violf("C01/http-GET/missing-instead-of-unique-live-value", "%s", desc)
			}
			if string(r.Body) != val {
				return stats.Violf("C01/http-GET/wrong-value", "%s", desc)
			}
		case model.Absent:
			if r.Code == 200 {
				return stats.Violf("C01/http-GET/value-where-none-visible", "%s", desc)
			}
			if r.Code != 404 {
				return stats.Violf("C01/http-GET/error-where-absent", "%s", desc)
			}
		case model.Conflict:
			if r.Code == 200 {
				return stats.Violf("C01/http-GET/succeeds-on-conflict", "%s", desc)
			}
		}
	}
	return nil
}

func checkHTTP(c httpCase) error {
	var repos [2]*repoModel
	for i := range repos {
		m, err := newRepoModel()
		if err != nil {
			return fmt.Errorf("setup: %v", err)
		}
		repos[i] = m
	}
	for i, op := range c.Ops {
		m := repos[op.Repo%2]
		n := m.dag.N()
		u := op.Node % n
		what := fmt.Sprintf("op %d %+v", i, op)
		switch op.Kind {
		case "put", "del":
			inst, key := op.Inst%2, op.Key%len(httpKeys)
			url := fmt.Sprintf("node/%s/%s/key/%s", m.uuid[u], instNames[inst], httpKeys[key])
			val := fmt.Sprintf("v%d", i)
			var r drive.Resp
			if op.Kind == "put" {
				r = drive.Post(url, []byte(val))
			} else {
				r = drive.Delete(url)
			}
			if r.IsPanic() {
				return stats.Violf("C01/http-write/panic", "%s: %s", what, r)
			}
			allowed := inst == 1 || !m.locked[u]
			if allowed && !r.OK() {
				return stats.Violf("C01/http-write/refused-on-open-node", "%s: %s", what, r)
			}
			if !allowed && r.OK() {
				return stats.Violf("C01/http-write/accepted-on-committed-node", "%s: %s", what, r)
			}
			if allowed {
				at := u
				if inst == 1 {
					at = 0
				}
				if op.Kind == "put" {
					m.entries[inst][key][at] = model.Value
					m.vals[inst][key][at] = val
				} else {
					m.entries[inst][key][at] = model.Tombstone
				}
			}
			// the write must show where the model says and nowhere else: re-read this key in both instances, both repos
			for _, mm := range repos {
				for in := 0; in < 2; in++ {
					if err := mm.checkKey(in, key, what); err != nil {
						return err
					}
				}
			}
		case "commit":
			if m.locked[u] {
				continue
			}
			if err := drive.Commit(m.uuid[u]); err != nil {
				return stats.Violf("C01/http-commit/refused", "%s: %v", what, err)
			}
			m.locked[u] = true
		case "newversion", "branch":
			if !m.locked[u] {
				if err := drive.Commit(m.uuid[u]); err != nil {
					return stats.Violf("C01/http-commit/refused", "%s: %v", what, err)
				}
				m.locked[u] = true
			}
			if m.kids[u] == nil {
				m.kids[u] = map[string]bool{}
			}
			var child string
			var err error
			br := m.branch[u]
			if op.Kind == "newversion" && !m.kids[u][br] {
				child, err = drive.NewVersion(m.uuid[u])
			} else {
				m.nbranch++
				br = fmt.Sprintf("br%d", m.nbranch)
				child, err = drive.Branch(m.uuid[u], br)
			}
			if err != nil {
				return stats.Violf("C01/http-newversion/refused", "%s: %v", what, err)
			}
			m.kids[u][br] = true
			m.dag.Add(u)
			m.uuid = append(m.uuid, child)
			m.locked = append(m.locked, false)
			m.branch = append(m.branch, br)
		case "merge":
			var committed []int
			for x, l := range m.locked {
				if l {
					committed = append(committed, x)
				}
			}
			if len(committed) < 2 {
				continue
			}
			var ps []int
			used := map[int]bool{}
			for _, p := range op.Ps {
				x := committed[p%len(committed)]
				if !used[x] {
					used[x] = true
					ps = append(ps, x)
				}
			}
			if len(ps) < 2 {
				continue
			}
			var uu []string
			for _, p := range ps {
				uu = append(uu, m.uuid[p])
			}
			child, err := drive.Merge(m.root, uu)
			if err != nil {
				return stats.Violf("C01/http-merge/refused", "%s parents %v: %v", what, ps, err)
			}
			for _, p := range ps {
				if m.kids[p] == nil {
					m.kids[p] = map[string]bool{}
				}
				m.kids[p][""] = true
			}
			m.dag.Add(ps...)
			m.uuid = append(m.uuid, child)
			m.locked = append(m.locked, false)
			m.branch = append(m.branch, "")
		}
	}
	// final sweep
	for _, m := range repos {
		for in := 0; in < 2; in++ {
			for k := range httpKeys {
				if err := m.checkKey(in, k, "final sweep"); err != nil {
					return err
				}
			}
		}
	}
	return nil
}

func TestC01HTTP(t *testing.T) {
	rapid.Check(t, func(t *rapid.T) {
		var c httpCase
		nops := rapid.IntRange(3, 40).Draw(t, "nops")
		for i := 0; i < nops; i++ {
			op := httpOp{
				Kind: rapid.SampledFrom([]string{"put", "put", "put", "del", "del", "commit", "newversion", "newversion", "branch", "merge"}).Draw(t, "kind"),
				Repo: rapid.SampledFrom([]int{0, 0, 0, 1}).Draw(t, "repo"),
				Inst: rapid.SampledFrom([]int{0, 0, 0, 1}).Draw(t, "inst"),
				Node: rapid.IntRange(0, 11).Draw(t, "node"),
				Key:  rapid.IntRange(0, len(httpKeys)-1).Draw(t, "key"),
			}
			if op.Kind == "merge" {
				k := rapid.IntRange(2, 4).Draw(t, "k")
				for j := 0; j < k; j++ {
					op.Ps = append(op.Ps, rapid.IntRange(0, 11).Draw(t, "p"))
				}
			}
			c.Ops = append(c.Ops, op)
		}
		stats.SetCur("C01", "TestC01HTTP", c)
		if !stats.Judge(t, "C01", "TestC01HTTP", checkHTTP(c), c) {
			return
		}
		var kinds []string
		nMerge, nDel, nGrow := 0, 0, 0
		for _, op := range c.Ops {
			switch op.Kind {
			case "merge":
				nMerge++
			case "del":
				nDel++
			case "newversion", "branch":
				nGrow++
			}
		}
		if nMerge > 0 {
			kinds = append(kinds, "http/has-merge")
		}
		if nDel > 0 {
			kinds = append(kinds, "http/has-delete")
		}
		kinds = append(kinds, "http")
		stats.Record(stats.HashJSON(c), nGrow >= 2 && nDel >= 1, kinds, func() interface{} {
			var s []string
			for _, op := range c.Ops {
				s = append(s, fmt.Sprintf("%s r%d i%d n%d k%d %v", op.Kind, op.Repo, op.Inst, op.Node, op.Key, op.Ps))
			}
			return map[string]interface{}{"test": "http", "ops": strings.Join(s, "; ")}
		})
	})
}

func TestReplay(t *testing.T) {
	stats.RunReplay(t, map[string]func(json.RawMessage) error{
		"TestC01Resolver": func(raw json.RawMessage) error {
			var c resolverCase
			if err := json.Unmarshal(raw, &c); err != nil {
				return err
			}
			return checkResolver(c)
		},
		"TestC01Store": func(raw json.RawMessage) error {
			var c storeCase
			if err := json.Unmarshal(raw, &c); err != nil {
				return err
			}
			return checkStore(c)
		},
		"TestC01HTTP": func(raw json.RawMessage) error {
			var c httpCase
			if err := json.Unmarshal(raw, &c); err != nil {
				return err
			}
			return checkHTTP(c)
		},
	})
}
