// C20 — no request can crash the server; malformed ones are rejected harmlessly.
//
// Child-process driver: a crash must kill something other than the test process.  One verif-child server per test
// process, reused across cases (fresh repo per case, recycled onto a fresh store every few cases so that the
// settle cost, which is proportional to the number of repos, stays bounded).
package c20

import (
	"bytes"
	"encoding/json"
	"fmt"
	"os"
	"path/filepath"
	"regexp"
	"strings"
	"testing"
	"time"

	"verif/drive"
	"verif/stats"
)

func TestMain(m *testing.M) {
	rc := m.Run()
	dropChild()
	stats.Flush()
	os.Exit(rc)
}

// ---- the shared child

const recycleAfter = 8 // cases per child store (the child settles over all repos it holds)

var shared struct {
	c     *drive.Child
	dir   string
	cases int
	gen   int
}

func scratchBase() string {
	base := os.Getenv("VERIF_SCRATCH_DIR")
	if base == "" {
		base = os.TempDir()
	}
	return base
}

// getChild returns a live child; a dead or worn one is replaced by a fresh process on a fresh store.
func getChild() (*drive.Child, error) {
	if shared.c != nil && (!shared.c.Alive() || shared.cases >= recycleAfter) {
		dropChild()
	}
	if shared.c == nil {
		shared.gen++
		dir, err := os.MkdirTemp(scratchBase(), fmt.Sprintf("c20-%d-", shared.gen))
		if err != nil {
			return nil, err
		}
		c, err := drive.StartChild(filepath.Join(dir, "srv"))
		if err != nil {
			os.RemoveAll(dir)
			return nil, fmt.Errorf("harness: start child: %v", err)
		}
		shared.c, shared.dir, shared.cases = c, dir, 0
	}
	shared.cases++
	return shared.c, nil
}

func dropChild() {
	if shared.c != nil {
		shared.c.Kill()
		shared.c = nil
	}
	if shared.dir != "" {
		os.RemoveAll(shared.dir)
		shared.dir = ""
	}
}

// panicLine extracts the headline of a Go panic / fatal error report and the first frame inside the repository.
var reFrame = regexp.MustCompile(`(?m)^github\.com/janelia-flyem/dvid/(.+)\([^\n]*$`)
var reFile = regexp.MustCompile(`(?m)^\s+(/\S+\.go:\d+)`)

func crashSummary(stderr string) string {
	i := strings.Index(stderr, "panic: ")
	if j := strings.Index(stderr, "fatal error: "); j >= 0 && (i < 0 || j < i) {
		i = j
	}
	if i < 0 {
		if len(stderr) > 600 {
			stderr = stderr[len(stderr)-600:]
		}
		return strings.ReplaceAll(stderr, "\n", " | ")
	}
	s := stderr[i:]
	head := s
	if k := strings.Index(head, "\n"); k >= 0 {
		head = head[:k]
	}
	var frames []string
	for _, m := range reFrame.FindAllStringSubmatch(s, 6) {
		frames = append(frames, m[1])
	}
	var files []string
	for _, m := range reFile.FindAllStringSubmatch(s, 40) {
		if strings.Contains(m[1], "/dvid/") || strings.Contains(m[1], "/repo/") || strings.Contains(m[1], "c20mut") {
			files = append(files, m[1])
			if len(files) >= 4 {
				break
			}
		}
	}
	return head + " @ " + strings.Join(frames, " <- ") + " [" + strings.Join(files, " ") + "]"
}

// ---- a connection to the child with the per-request oracles

type conn struct {
	c      *drive.Child
	panics []string // recovered-panic responses seen ("METHOD url -> body")
	errOff int64    // size of the child's stderr when the case began
}

// crashReport summarises what the child wrote to stderr since the case began (a fatal error is followed by a
// goroutine dump that can be far longer than any tail).
func (k *conn) crashReport() string {
	time.Sleep(20 * time.Millisecond) // give the dying process a moment to finish writing
	b, err := os.ReadFile(k.c.Dir + "/stderr.log")
	if err != nil {
		return ""
	}
	if int64(len(b)) > k.errOff {
		b = b[k.errOff:]
	}
	s := string(b)
	i := strings.Index(s, "fatal error: ")
	if j := strings.Index(s, "\npanic: "); j >= 0 && (i < 0 || j < i) {
		i = j + 1
	}
	if i < 0 {
		return "no Go panic or fatal error on stderr (killed from outside?): " + crashSummary(s)
	}
	s = s[i:]
	if len(s) > 60000 {
		s = s[:60000]
	}
	return crashSummary(s)
}

// fate of one request as far as process health is concerned
type fate int

const (
	fateOK fate = iota
	fateDied
	fateWedged
	fateNeverIdle
)

// do issues a request; a child death or wedge is reported through fate (the caller turns it into a Violation with
// the signature of the request at hand).
func (k *conn) do(method, url string, body []byte) (drive.Resp, fate, string) {
	r, err := k.c.Do(method, url, body)
	if err == nil {
		if isPanic(r) {
			k.panics = append(k.panics, method+" "+clip(url, 200)+" -> "+clip(string(r.Body), 1500))
		}
		return r, fateOK, ""
	}
	if err == drive.ErrChildDied {
		return r, fateDied, k.crashReport()
	}
	return r, fateWedged, err.Error()
}

// isPanic: the answer comes from the panic recovery middleware.  When the handler had already begun to answer, the
// status stays what it was and the recovery message is appended to the body.
func isPanic(r drive.Resp) bool {
	return r.IsPanic() || bytes.Contains(r.Body, []byte("Panic detected on request "))
}

func panicCond(r drive.Resp) string {
	if r.Code == 500 {
		return "panic-500"
	}
	return "panic-mid-response"
}

// panicReports returns the headlines of the recovered-panic reports ("Panic detected on ...") the server wrote to
// stderr since the case began; request handlers and the sync event loops of the datatypes both report there.
func (k *conn) panicReports() []string {
	b, err := os.ReadFile(k.c.Dir + "/stderr.log")
	if err != nil || int64(len(b)) <= k.errOff {
		return nil
	}
	s := string(b[k.errOff:])
	var out []string
	for {
		i := strings.Index(s, "Panic detected on ")
		if i < 0 {
			return out
		}
		s = s[i:]
		end := strings.Index(s[1:], "Panic detected on ")
		rep := s
		if end >= 0 {
			rep = s[:end+1]
		}
		out = append(out, rep)
		s = s[len(rep):]
	}
}

func summarizeReport(rep string) string {
	if j := strings.Index(rep, "SIGQUIT"); j >= 0 {
		rep = rep[:j]
	}
	lines := strings.SplitN(rep, "\n", 3)
	head := lines[0]
	if strings.HasPrefix(head, "Panic detected on request") && len(lines) > 1 {
		head += " " + lines[1]
	}
	var frames []string
	for _, m := range reFrame.FindAllStringSubmatch(rep, 10) {
		if !strings.Contains(m[1], "ReportPanic") && !strings.Contains(m[1], "recoverHandler") {
			frames = append(frames, m[1])
		}
	}
	if len(frames) > 5 {
		frames = frames[:5]
	}
	var files []string
	for _, m := range reFile.FindAllStringSubmatch(rep, 40) {
		if (strings.Contains(m[1], "/dvid/") || strings.Contains(m[1], "/repo/") || strings.Contains(m[1], "c20mut")) && !strings.Contains(m[1], "dvid/utils.go") && !strings.Contains(m[1], "server/web.go") {
			files = append(files, m[1])
			if len(files) >= 4 {
				break
			}
		}
	}
	return clip(head, 300) + " @ " + strings.Join(frames, " <- ") + " [" + strings.Join(files, " ") + "]"
}

func clip(s string, n int) string {
	if len(s) > n {
		return s[:n] + "..."
	}
	return s
}

// settle = the server's own idle predicates, fast policy (3 consecutive quiet polls).  The child itself gives up
// after 120 s; a world as small as ours is idle within milliseconds, so no answer within that time means that some
// instance never reports idle again (fateNeverIdle; the driver has then asked the child for a goroutine dump).
// (25 s proved too short on a machine running sixteen other server processes: one false candidate in a thorough run.)
const settleTimeout = 100 * time.Second

func (k *conn) settle() (fate, string) {
	if _, err := k.c.Call(drive.ChildRequest{Op: "settle"}, settleTimeout); err != nil {
		if err == drive.ErrChildDied {
			return fateDied, k.crashReport()
		}
		return fateNeverIdle, err.Error() + "; " + stuckSummary(k.c.StderrTail(400000))
	}
	return fateOK, ""
}

// stuckSummary lists the repository frames of goroutines blocked in channel / lock / wait-group operations,
// from the goroutine dump the child writes when it is asked to quit.
func stuckSummary(stderr string) string {
	// an event loop that recovered from a panic and returned leaves its channel undrained: the report names it
	if i := strings.LastIndex(stderr, "Panic detected on "); i >= 0 {
		rep := stderr[i:]
		if j := strings.Index(rep, "SIGQUIT"); j >= 0 {
			rep = rep[:j]
		}
		head := rep
		if k := strings.Index(head, "\n"); k >= 0 {
			head = head[:k]
		}
		var frames []string
		for _, m := range reFrame.FindAllStringSubmatch(rep, 8) {
			if !strings.Contains(m[1], "ReportPanic") {
				frames = append(frames, m[1])
			}
		}
		var files []string
		for _, m := range reFile.FindAllStringSubmatch(rep, 40) {
			if (strings.Contains(m[1], "/dvid/") || strings.Contains(m[1], "/repo/") || strings.Contains(m[1], "c20mut")) && !strings.Contains(m[1], "dvid/utils.go") {
				files = append(files, m[1])
				if len(files) >= 4 {
					break
				}
			}
		}
		return "the server's stderr reports: " + head + " @ " + strings.Join(frames, " <- ") + " [" + strings.Join(files, " ") + "]"
	}
	return "no panic report on stderr"
}

// deepSettle gives background work more time: repeated fast settles separated by short pauses (about 250 ms of
// observed quiet).  Waiting only ever delays a verdict, it never produces one.
func (k *conn) deepSettle() (fate, string) {
	for i := 0; i < 12; i++ {
		if f, m := k.settle(); f != fateOK {
			return f, m
		}
		time.Sleep(20 * time.Millisecond)
	}
	return k.settle()
}

func TestReplay(t *testing.T) {
	mutants := func(raw json.RawMessage) error {
		var c mutCase
		if err := json.Unmarshal(raw, &c); err != nil {
			return err
		}
		_, err := checkMutants(c)
		return err
	}
	stats.RunReplay(t, map[string]func(json.RawMessage) error{
		"TestC20Mutants": mutants,
		"TestC20Sweep":   mutants,
		"TestC20Parsers": func(raw json.RawMessage) error {
			var c parserCase
			if err := json.Unmarshal(raw, &c); err != nil {
				return err
			}
			_, err := checkParser(c)
			return err
		},
		"TestC20WellFormed": func(raw json.RawMessage) error {
			var c wfCase
			if err := json.Unmarshal(raw, &c); err != nil {
				return err
			}
			return checkWellFormed(c)
		},
	})
}
