# Proposed CHECKS entry for C20 (auto-loaded by checks_config.py; T(...) is the helper defined there).
#
# Measured (16-core sandbox, with the findings of findings.go listed so that the generator steers around them):
#   TestC20Mutants   0.28 s per case (3-10 requests, about 6.5 on average: world setup 60 ms, snapshot 20-25 ms, request 0.2-15 ms),
#                    4 shards x 110 cases = 35 s wall, about 2 900 hostile requests;
#   TestC20Sweep     0.5 s per case (72 hostile URLs or 25 payload mutants per case), 4 x 25 cases = 15 s, about 5 000 requests;
#   TestC20WellFormed 0.22 s per case (7-31 ops), 4 x 30 = 7 s;
#   TestC20Parsers   20 000 in-process cases = 6 s.
#   All four run side by side in the quick tier (13 processes): 38-45 s wall, about 8 300 hostile requests (47% answered 2xx, 53% 4xx),
#   18 600 evaluations in total.
# Without the findings listed every shard stops at its first violation (the unchanged tree has many, see findings.go), which is
# faster, but each server death / never-idle wait costs 0.3 s / 25 s.
# Measured with 16 processes side by side: 8 x 250 mutant cases + 8 x 50 sweeps = 262 s (about 1 s per case per process).
# thorough: 16 shards; 300 mutant cases + 40 sweeps + 80 well-formed histories per shard (48 processes, about 5 min) + 3 x 45 s native fuzzing.
#
# To run one test by hand (the child binary must be built and exported):
#   cd /verif/harness && go build -tags "badger filelog verif" -modfile /verif/build/repo/verif.mod -o /tmp/c20-child ./cmd/verif-child
#   VERIF_TOOL_VERIF_CHILD=/tmp/c20-child VERIF_SCRATCH_DIR=/tmp/c20-scratch go test -tags "badger filelog verif" \
#       -modfile /verif/build/repo/verif.mod ./props/c20 -run 'TestC20Mutants$' -rapid.checks 100 -rapid.seed 7 -rapid.nofailfile
# Development aid: C20_COLLECT=<file> appends every violation (signature, message, one-request reproduction) to the file instead of
# failing, so one campaign lists all distinct signatures.

_PAYLOAD_ENDPOINTS = [
    "labelmap/blocks", "labelmap/ingest-supervoxels", "labelmap/raw", "labelmap/split-supervoxel", "labelmap/split",
    "labelmap/index", "labelmap/indices", "labelmap/mappings", "labelmap/merge", "labelmap/cleave", "labelmap/renumber",
    "labelmap/get-mapping", "labelmap/get-labels",
    "annotation/elements", "annotation/blocks", "annotation/labels",
    "keyvalue/keyvalues", "keyvalue/get-keyvalues",
    "neuronjson/key", "neuronjson/keyvalues", "neuronjson/query",
    "roi/roi", "roi/ptquery", "uint8blk/raw", "uint8blk/blocks",
]

ENTRY = {
    "C20": {
        "pkg": "c20",
        "level": "exploration",
        "tools": ["verif-child"],
        "tests": [
            T("TestC20Mutants", (110, 4, {"shrinktime": "15s"}), (300, 16, {"shrinktime": "30s"})),
            T("TestC20Sweep", (25, 4, {"shrinktime": "5s"}), (40, 16, {"shrinktime": "10s"})),
            T("TestC20WellFormed", (30, 4, {"shrinktime": "15s"}), (80, 16, {"shrinktime": "30s"})),
            T("TestC20Parsers", (20000, 1), (300000, 4)),
        ],
        "fuzz": [
            {"name": "FuzzC20BlockUnmarshal", "time": "45s"},
            {"name": "FuzzC20Elements", "time": "45s"},
            {"name": "FuzzC20LabelIndexProto", "time": "45s"},
        ],
        "required_classes": (
            ["accepted/" + e for e in _PAYLOAD_ENDPOINTS] + ["rejected/" + e for e in _PAYLOAD_ENDPOINTS]
            + ["accepted/keyvalue/key", "parent/2xx", "certainly-malformed/4xx",
               "labelmap/blocks|trunc|4xx", "labelmap/blocks|field:len|4xx", "labelmap/raw|trunc|4xx",
               "labelmap/split-supervoxel|trunc|4xx", "labelmap/index|field:len|4xx", "annotation/elements|json-value|4xx",
               "annotation/elements|json-value|2xx", "keyvalue/keyvalues|trunc|4xx", "neuronjson/key|json-value|4xx", "roi/roi|json-value|4xx",
               "url/labelmap|url-huge|4xx", "url/labelmap|url-missing|4xx", "url/labelmap|url-label|4xx", "url/annotation|url-nonnum|4xx",
               "url/keyvalue|url-odd-bytes|2xx", "url/keyvalue|url-long|2xx", "url/uint8blk|url-neg|4xx", "url/neuronjson|url-label|4xx",
               "wf/op/anntagswap", "wf/op/lmsplitsv", "wf/op/lmmerge", "wf/op/lmcleave", "wf/op/njpost", "wf/op/annpost", "wf/op/reads",
               "parser/labelmap/blocks|field", "parser/annotation/elements|json-value", "parser/labelmap/indices|field"]
        ),
        "rule": "Child-process driver (a real server process = the DoServe initialisation on Badger + file log; a crash kills the child, not the test). "
                "World per case (fresh repo): keyvalue kv + a canary keyvalue, labelmap lm (32^3 blocks, 64^3 voxels, six bodies, one merged from two supervoxels), "
                "a second labelmap lm2, annotation ann synced to lm, labelsz sz synced to ann, neuronjson nj, roi, uint8blk gray with content. "
                "TestC20Mutants: rapid-generated lists of 3-10 hostile requests; each = (endpoint family, parameters of a VALID parent payload built by a generator, "
                "mutation): truncation at a generated offset / at a field boundary, 1-3 bit flips, appended bytes, overwrite of a count / length / index / sub-block count / "
                "dimension / coordinate / label / run-length field (little-endian or protobuf varint) with a hostile constant (0, 1, 2^31-1, 2^32-1, 2^31, 2^63, 2^64-1, n+1, n-1, "
                "table size, table size+1, 513, 2^16-1), for gzip / lz4 wrapped payloads applied to the INNER bytes and re-compressed (and to the outer bytes), JSON documents "
                "mutated as trees (value replaced by null / bool / string / float / negative / 2^64-1 / 2^64 / 2^63 / 1e400 / [] / {} / nested / 20 kB string / NUL string, key deleted, "
                "array shortened or member duplicated), JSON syntax broken, empty-ish bodies, nesting depth 100-100 000. Families: labelmap POST blocks, ingest-supervoxels, raw "
                "(plain / gzip / lz4, mutate), split-supervoxel, split, index, indices, mappings (protobuf), merge, cleave, renumber, GET-with-body mapping / labels / sizes / indices / "
                "indices-compressed; annotation POST elements (related pair, relationship to nowhere, duplicate element, tag dropped by one element and added by its block neighbour, "
                "kind overwrite, negative coordinates), blocks, labels; keyvalue POST keyvalues, GET keyvalues (protobuf / jsontar / json), POST key; neuronjson POST key, keyvalues, "
                "GET/POST query; roi POST roi, ptquery; uint8blk POST raw, blocks. 30% of the requests are hostile URLs over 72 valid URL templates of all seven datatypes: "
                "missing / empty segments, negative, non-numeric, wrong arity, huge (only sizes no server could serve: >= 10^15 voxels or overflowing), zero, label 0 / 2^64-1 / 2^64, "
                "10^2-10^5 character keys, %00 / %2F.. / invalid UTF-8, unknown scale, extra segments, hostile query values. TestC20Sweep: one drawn mutation applied to all 72 URL "
                "templates, or one mutation slot applied to the parent of every payload family. Oracles after EACH request: process alive, canary key answers (death -> server-died, "
                "no answer -> server-wedged), response not produced by the panic recovery (500, or appended to a response already begun), the server's own idle predicates become quiet "
                "within 25 s (never-idle), no recovered panic of a background worker on stderr; after every accepted mutation and at the end: every observable whose scope was not named "
                "by the requests since the last snapshot reads back unchanged (scopes: instance; single key for keyvalue / neuronjson key requests; a labelmap request names lm, ann, sz), "
                "and every well-formed read of the snapshot (incl. the named data) is served without a recovered panic; mutants that are CERTAINLY malformed (cut inside a declared extent, "
                "count larger than the remaining bytes, JSON that no longer parses) must not get 2xx (malformed-accepted) nor a non-panic 5xx (malformed-5xx). "
                "TestC20WellFormed: histories of 7-31 well-formed operations (keyvalue, DAG, labelmap ingest / merge / cleave / split-supervoxel / renumber, annotation post / delete / move / "
                "reload / the tag-swap shape, neuronjson post / delete / query, roi, read sweeps): no panic response, no panic report, process alive and idle. TestC20Parsers: the same "
                "structured mutants fed in-process to Block.UnmarshalBinary + every view of an accepted block, annotation element decoding + Normalize, LabelIndex / LabelIndices / "
                "MappingOps / KeyValues decoding + the index methods. Non-trivial: the mutant was rejected or differs from its parent, and reached the handler. Distinct = hash of the case.",
        "assumptions": ["a mutant that is still valid may be accepted; status codes are asserted only for certainly malformed payloads",
                        "data named by a request (its instance, for labelmap also the synced annotation and labelsz; the single key for key requests) may change even when the request is refused",
                        "sizes are capped so that a correct server can answer (<= 64 MB) or cannot possibly serve (>= 10^15 voxels, or arithmetic overflow); run lengths and ROI spans are never inflated beyond 10^5",
                        "declared counts of 2^31..2^32-1 records make the server reserve 32-64 GiB before reading: the outcome (fatal out of memory vs. survival) depends on the machine's memory; it is reported as server-died when the process dies",
                        "the label-table order inside a parent block is fixed by the harness's own encoder (the repository's MakeBlock orders by map iteration)"],
    },
}
