package c20

import (
	"encoding/json"
	"fmt"
	"os"
	"regexp"
	"sort"
	"strings"
	"testing"
	"time"

	"pgregory.net/rapid"

	"verif/stats"
)

// ---- hostile URLs

type urlBase struct {
	ep     string
	method string
	inst   string
	segs   []string // path segments after the instance name
	kinds  []string // kind of each segment: kw size3 off3 size2 dims label label2 coord3 key int uuid text fmt
	query  string
	body   []byte
	named  []string
	iter   bool // the sizes make the server iterate over blocks (huge is capped)
}

func (w *world) urlBases() []urlBase {
	r := w.root
	lm := []string{"lm", "ann", "sz"}
	return []urlBase{
		{ep: "labelmap/raw-get", method: "GET", inst: "lm", segs: []string{"raw", "0_1_2", "64_64_64", "0_0_0"}, kinds: []string{"kw", "dims", "size3", "off3"}},
		{ep: "labelmap/raw-get", method: "GET", inst: "lm", segs: []string{"raw", "0_1_2", "32_32_32", "32_0_0"}, kinds: []string{"kw", "dims", "size3", "off3"}, query: "supervoxels=true&compression=lz4"},
		{ep: "labelmap/raw-2d", method: "GET", inst: "lm", segs: []string{"raw", "0_1", "64_64", "0_0_10"}, kinds: []string{"kw", "dims", "size2", "off3"}},
		{ep: "labelmap/raw-2d", method: "GET", inst: "lm", segs: []string{"raw", "xz", "32_32", "0_5_0", "jpg:80"}, kinds: []string{"kw", "dims", "size2", "off3", "fmt"}},
		{ep: "labelmap/isotropic", method: "GET", inst: "lm", segs: []string{"isotropic", "0_1", "32_32", "0_0_0"}, kinds: []string{"kw", "dims", "size2", "off3"}},
		{ep: "labelmap/pseudocolor", method: "GET", inst: "lm", segs: []string{"pseudocolor", "0_1", "32_32", "0_0_0"}, kinds: []string{"kw", "dims", "size2", "off3"}},
		{ep: "labelmap/raw-post", method: "POST", inst: "lm", segs: []string{"raw", "0_1_2", "32_32_32", "64_0_0"}, kinds: []string{"kw", "dims", "size3", "off3"}, body: u64le(lmVolume(64, 0, 0, lmB, lmB, lmB, 1)), named: lm},
		{ep: "labelmap/blocks-get", method: "GET", inst: "lm", segs: []string{"blocks", "64_64_64", "0_0_0"}, kinds: []string{"kw", "size3", "off3"}, query: "compression=uncompressed", iter: true},
		{ep: "labelmap/specificblocks", method: "GET", inst: "lm", segs: []string{"specificblocks"}, kinds: []string{"kw"}, query: "blocks=0,0,0,1,1,1"},
		{ep: "labelmap/label", method: "GET", inst: "lm", segs: []string{"label", "10_10_10"}, kinds: []string{"kw", "coord3"}},
		{ep: "labelmap/size", method: "GET", inst: "lm", segs: []string{"size", "3"}, kinds: []string{"kw", "label"}},
		{ep: "labelmap/supervoxels", method: "GET", inst: "lm", segs: []string{"supervoxels", "1"}, kinds: []string{"kw", "label"}},
		{ep: "labelmap/supervoxel-sizes", method: "GET", inst: "lm", segs: []string{"supervoxel-sizes", "1"}, kinds: []string{"kw", "label"}},
		{ep: "labelmap/sparsevol", method: "GET", inst: "lm", segs: []string{"sparsevol", "3"}, kinds: []string{"kw", "label"}, query: "format=rles"},
		{ep: "labelmap/sparsevol", method: "GET", inst: "lm", segs: []string{"sparsevol", "1"}, kinds: []string{"kw", "label"}, query: "format=blocks&minx=10&maxx=40"},
		{ep: "labelmap/sparsevol-head", method: "HEAD", inst: "lm", segs: []string{"sparsevol", "3"}, kinds: []string{"kw", "label"}},
		{ep: "labelmap/sparsevol-size", method: "GET", inst: "lm", segs: []string{"sparsevol-size", "3"}, kinds: []string{"kw", "label"}},
		{ep: "labelmap/sparsevol-coarse", method: "GET", inst: "lm", segs: []string{"sparsevol-coarse", "4"}, kinds: []string{"kw", "label"}},
		{ep: "labelmap/sparsevol-by-point", method: "GET", inst: "lm", segs: []string{"sparsevol-by-point", "10_10_10"}, kinds: []string{"kw", "coord3"}},
		{ep: "labelmap/sparsevols-coarse", method: "GET", inst: "lm", segs: []string{"sparsevols-coarse", "1", "6"}, kinds: []string{"kw", "label", "label"}},
		{ep: "labelmap/lastmod", method: "GET", inst: "lm", segs: []string{"lastmod", "3"}, kinds: []string{"kw", "label"}},
		{ep: "labelmap/index-get", method: "GET", inst: "lm", segs: []string{"index", "3"}, kinds: []string{"kw", "label"}},
		{ep: "labelmap/listlabels", method: "GET", inst: "lm", segs: []string{"listlabels"}, kinds: []string{"kw"}, query: "start=2&number=3&sizes=true"},
		{ep: "labelmap/mutations-range", method: "GET", inst: "lm", segs: []string{"mutations-range", r, r}, kinds: []string{"kw", "uuid", "uuid"}},
		{ep: "labelmap/history", method: "GET", inst: "lm", segs: []string{"history", "3", r, r}, kinds: []string{"kw", "label", "uuid", "uuid"}},
		{ep: "labelmap/proximity", method: "GET", inst: "lm", segs: []string{"proximity", "1,3"}, kinds: []string{"kw", "label2"}},            // the documented form
		{ep: "labelmap/proximity", method: "GET", inst: "lm", segs: []string{"proximity", "1", "3"}, kinds: []string{"kw", "label", "label"}}, // the served form
		{ep: "labelmap/maxlabel", method: "POST", inst: "lm", segs: []string{"maxlabel", "100"}, kinds: []string{"kw", "label"}, named: lm},
		{ep: "labelmap/nextlabel", method: "POST", inst: "lm", segs: []string{"nextlabel", "5"}, kinds: []string{"kw", "int"}, named: lm},
		{ep: "labelmap/set-nextlabel", method: "POST", inst: "lm", segs: []string{"set-nextlabel", "1000"}, kinds: []string{"kw", "label"}, named: lm},
		{ep: "labelmap/cleave-url", method: "POST", inst: "lm", segs: []string{"cleave", "1"}, kinds: []string{"kw", "label"}, body: []byte("[2]"), named: lm},
		{ep: "labelmap/merge-url", method: "POST", inst: "lm", segs: []string{"merge"}, kinds: []string{"kw"}, body: []byte("[4,5]"), named: lm},
		{ep: "labelmap/split-supervoxel-url", method: "POST", inst: "lm", segs: []string{"split-supervoxel", "5"}, kinds: []string{"kw", "label"}, body: rleBody(runsOfLabel(5, 4, 6)).data, named: lm, query: "split=700&remain=701"},
		{ep: "labelmap/index-post-url", method: "POST", inst: "lm", segs: []string{"index", "50"}, kinds: []string{"kw", "label"}, body: labelIndexPB(50, [][3]int32{{0, 0, 0}}, []uint64{50}, []uint32{9}, false).b, named: lm},
		{ep: "annotation/elements-get", method: "GET", inst: "ann", segs: []string{"elements", "64_64_64", "0_0_0"}, kinds: []string{"kw", "size3", "off3"}, iter: true},
		{ep: "annotation/blocks-get", method: "GET", inst: "ann", segs: []string{"blocks", "64_64_64", "0_0_0"}, kinds: []string{"kw", "size3", "off3"}, iter: true},
		{ep: "annotation/label", method: "GET", inst: "ann", segs: []string{"label", "1"}, kinds: []string{"kw", "label"}, query: "relationships=true"},
		{ep: "annotation/tag", method: "GET", inst: "ann", segs: []string{"tag", "t0"}, kinds: []string{"kw", "key"}},
		{ep: "annotation/element-delete", method: "DELETE", inst: "ann", segs: []string{"element", "10_12_5"}, kinds: []string{"kw", "coord3"}, named: []string{"ann", "sz"}},
		{ep: "annotation/move", method: "POST", inst: "ann", segs: []string{"move", "50_50_50", "51_50_50"}, kinds: []string{"kw", "coord3", "coord3"}, named: []string{"ann", "sz"}},
		{ep: "annotation/scan", method: "GET", inst: "ann", segs: []string{"scan"}, kinds: []string{"kw"}, query: "byCoord=true"},
		{ep: "keyvalue/key-get", method: "GET", inst: "kv", segs: []string{"key", "k0"}, kinds: []string{"kw", "key"}},
		{ep: "keyvalue/key-head", method: "HEAD", inst: "kv", segs: []string{"key", "k0"}, kinds: []string{"kw", "key"}},
		{ep: "keyvalue/key-post", method: "POST", inst: "kv", segs: []string{"key", "k1"}, kinds: []string{"kw", "key"}, body: []byte("posted"), named: []string{"kv:list", "kv:k1"}},
		{ep: "keyvalue/key-delete", method: "DELETE", inst: "kv", segs: []string{"key", "k4"}, kinds: []string{"kw", "key"}, named: []string{"kv:list", "kv:k4"}},
		{ep: "keyvalue/keyrange", method: "GET", inst: "kv", segs: []string{"keyrange", "k0", "k9"}, kinds: []string{"kw", "key", "key"}},
		{ep: "keyvalue/keyrangevalues", method: "GET", inst: "kv", segs: []string{"keyrangevalues", "k0", "k9"}, kinds: []string{"kw", "key", "key"}, query: "json=true"},
		{ep: "keyvalue/mutations-range", method: "GET", inst: "kv", segs: []string{"mutations-range", r, r}, kinds: []string{"kw", "uuid", "uuid"}},
		{ep: "neuronjson/key-get", method: "GET", inst: "nj", segs: []string{"key", "10"}, kinds: []string{"kw", "label"}, query: "show=all"},
		{ep: "neuronjson/key-head", method: "HEAD", inst: "nj", segs: []string{"key", "10"}, kinds: []string{"kw", "label"}},
		{ep: "neuronjson/key-delete", method: "DELETE", inst: "nj", segs: []string{"key", "20"}, kinds: []string{"kw", "label"}, named: []string{"nj:list", "nj:20"}},
		{ep: "neuronjson/key-post-url", method: "POST", inst: "nj", segs: []string{"key", "3000"}, kinds: []string{"kw", "label"}, query: "u=tester", body: []byte(`{"bodyid":3000,"x":1}`), named: []string{"nj:list", "nj:3000"}},
		{ep: "neuronjson/keyrange", method: "GET", inst: "nj", segs: []string{"keyrange", "0", "99"}, kinds: []string{"kw", "label", "label"}},
		{ep: "neuronjson/keyrangevalues", method: "GET", inst: "nj", segs: []string{"keyrangevalues", "0", "9999"}, kinds: []string{"kw", "label", "label"}, query: "json=true"},
		{ep: "neuronjson/all", method: "GET", inst: "nj", segs: []string{"all"}, kinds: []string{"kw"}, query: "show=all&fields=type"},
		{ep: "roi/mask", method: "GET", inst: "roi", segs: []string{"mask", "0_1_2", "64_64_64", "0_0_0"}, kinds: []string{"kw", "dims", "size3", "off3"}},
		{ep: "roi/partition", method: "GET", inst: "roi", segs: []string{"partition"}, kinds: []string{"kw"}, query: "batchsize=2"},
		{ep: "uint8blk/raw-get", method: "GET", inst: "gray", segs: []string{"raw", "0_1_2", "64_64_64", "0_0_0"}, kinds: []string{"kw", "dims", "size3", "off3"}},
		{ep: "uint8blk/raw-2d", method: "GET", inst: "gray", segs: []string{"raw", "0_1", "64_64", "0_0_3"}, kinds: []string{"kw", "dims", "size2", "off3"}},
		{ep: "uint8blk/isotropic", method: "GET", inst: "gray", segs: []string{"isotropic", "0_2", "32_32", "0_0_0", "png"}, kinds: []string{"kw", "dims", "size2", "off3", "fmt"}},
		{ep: "uint8blk/raw-post", method: "POST", inst: "gray", segs: []string{"raw", "0_1_2", "32_32_32", "0_0_0"}, kinds: []string{"kw", "dims", "size3", "off3"}, body: grayVolume(lmB, lmB, lmB, 9), named: []string{"gray"}, query: "mutate=true"},
		{ep: "uint8blk/blocks-get", method: "GET", inst: "gray", segs: []string{"blocks", "0_0_0", "2"}, kinds: []string{"kw", "coord3", "int"}},
		{ep: "uint8blk/blocks-post", method: "POST", inst: "gray", segs: []string{"blocks", "1_0_0", "1"}, kinds: []string{"kw", "coord3", "int"}, body: grayVolume(lmB, lmB, lmB, 4), named: []string{"gray"}},
		{ep: "uint8blk/subvolblocks", method: "GET", inst: "gray", segs: []string{"subvolblocks", "64_64_64", "0_0_0"}, kinds: []string{"kw", "size3", "off3"}, iter: true},
		{ep: "uint8blk/specificblocks", method: "GET", inst: "gray", segs: []string{"specificblocks"}, kinds: []string{"kw"}, query: "blocks=0,0,0,1,0,0"},
		{ep: "uint8blk/arb", method: "GET", inst: "gray", segs: []string{"arb", "0_0_0", "20_0_0", "0_20_0", "1.0"}, kinds: []string{"kw", "coord3", "coord3", "coord3", "text"}},
		{ep: "uint8blk/rawkey", method: "GET", inst: "gray", segs: []string{"rawkey"}, kinds: []string{"kw"}, query: "x=0&y=0&z=0"},
		{ep: "labelsz/count", method: "GET", inst: "sz", segs: []string{"count", "1", "PostSyn"}, kinds: []string{"kw", "label", "text"}},
		{ep: "labelsz/top", method: "GET", inst: "sz", segs: []string{"top", "3", "PreSyn"}, kinds: []string{"kw", "int", "text"}},
		{ep: "labelsz/threshold", method: "GET", inst: "sz", segs: []string{"threshold", "1", "PostSyn"}, kinds: []string{"kw", "int", "text"}, query: "offset=0&n=5"},
		{ep: "labelsz/counts", method: "GET", inst: "sz", segs: []string{"counts", "AllSyn"}, kinds: []string{"kw", "text"}, body: []byte("[1,3,4]")},
	}
}

var urlKinds = []string{"url-none", "url-drop", "url-empty", "url-neg", "url-nonnum", "url-huge", "url-zero", "url-label", "url-long", "url-nul", "url-scale", "url-extra", "url-query", "url-arity", "url-foreign-uuid"}

var reNum = regexp.MustCompile(`-?\d+`)

// hostileURL applies a URL mutation.  Returns the url (relative to /api/), the kind fragment and whether it differs.
func hostileURL(w *world, ub urlBase, m mutSpec) (string, string, bool) {
	segs := append([]string{}, ub.segs...)
	query := ub.query
	kind := m.Kind
	// the segment to attack: one that is not the endpoint keyword, when there is one
	si := -1
	if len(segs) > 1 {
		si = 1 + m.A%(len(segs)-1)
	}
	sk := ""
	if si >= 0 {
		sk = ub.kinds[si]
	}
	differs := true
	if sk == "uuid" {
		// a UUID segment: short hex strings would be resolved as prefixes of whatever other repositories the server
		// process holds (state of earlier cases), so only values that cannot be hex prefixes are used, plus the root
		// of the case's own second repository
		switch m.Kind {
		case "url-neg", "url-nonnum", "url-huge", "url-zero", "url-label", "url-arity":
			segs[si] = []string{"zz", "-1", "g0", "0x", "1_2_3", "~", "0000000000000000000000000000000g", w.root + "0"}[m.B%8]
			u := "node/" + w.root + "/" + ub.inst + "/" + strings.Join(segs, "/")
			if query != "" {
				u += "?" + query
			}
			return u, "url-nonnum", true
		case "url-foreign-uuid":
			other := w.other
			if other == "" {
				other = "ffffffffffffffffffffffffffffffff"
			}
			segs[si] = other
			u := "node/" + w.root + "/" + ub.inst + "/" + strings.Join(segs, "/")
			if query != "" {
				u += "?" + query
			}
			return u, "url-foreign-uuid", true
		}
	}
	switch m.Kind {
	case "url-foreign-uuid":
		kind = "url-none"
		differs = false
	case "url-drop":
		n := 1 + m.B%2
		if n >= len(segs) {
			n = len(segs) - 1
		}
		if n <= 0 {
			differs = false
		}
		segs = segs[:len(segs)-n]
	case "url-empty":
		if si >= 0 {
			segs[si] = ""
		} else {
			differs = false
		}
	case "url-neg":
		if si >= 0 {
			first := true
			segs[si] = reNum.ReplaceAllStringFunc(segs[si], func(s string) string {
				if m.B%2 == 0 && !first {
					return s
				}
				first = false
				if strings.HasPrefix(s, "-") {
					return s
				}
				if s == "0" {
					return "-1"
				}
				return "-" + s
			})
		} else {
			differs = false
		}
	case "url-nonnum":
		if si >= 0 {
			segs[si] = []string{"abc", "1e3", "0x10", "1.5", "%D9%A1%D9%A2%D9%A3", "1_b_3", "+5", "5_", "_", "NaN", "1,2,3", "٣_٣_٣"}[m.B%12]
		} else {
			differs = false
		}
	case "url-arity":
		if si >= 0 {
			segs[si] = []string{"1_2", "1_2_3_4", "1", "1_2_3_4_5_6_7_8_9", "1__3"}[m.B%5]
		} else {
			differs = false
		}
	case "url-huge":
		if si < 0 {
			differs = false
			break
		}
		switch sk {
		case "size3":
			if ub.iter { // block-iterating endpoints: big but servable
				segs[si] = []string{"2048_2048_2048", "4096_64_64"}[m.B%2]
			} else {
				segs[si] = []string{"100000_100000_100000", "2147483647_2147483647_2147483647", "4294967296_4294967296_4294967296", "2097152_2097152_2097152"}[m.B%4]
			}
		case "size2":
			segs[si] = []string{"2147483647_2147483647", "4294967296_4294967296", "3037000500_3037000500"}[m.B%3]
		case "off3", "coord3":
			segs[si] = []string{"2147483647_2147483647_2147483647", "2147483616_0_0", "4294967296_0_0", "-2147483648_-2147483648_-2147483648", "99999999999999999999_0_0"}[m.B%5]
		case "int":
			if ub.iter {
				segs[si] = "1000"
			} else {
				segs[si] = []string{"2147483647", "4294967296", "18446744073709551615", "99999999999999999999"}[m.B%4]
			}
		default:
			segs[si] = []string{"2147483647", "4294967296", "9223372036854775807", "99999999999999999999"}[m.B%4]
		}
	case "url-zero":
		if si >= 0 {
			segs[si] = reNum.ReplaceAllString(segs[si], "0")
		} else {
			differs = false
		}
	case "url-label":
		if si >= 0 {
			segs[si] = []string{"0", "18446744073709551615", "18446744073709551616", "-1", "9223372036854775808", "00000000000000000000003", "3,0", "0,0"}[m.B%8]
		} else {
			differs = false
		}
	case "url-long":
		if si >= 0 {
			segs[si] = strings.Repeat("k", []int{300, 10000, 100000}[m.B%3])
		} else {
			segs = append(segs, strings.Repeat("k", 10000))
		}
	case "url-nul":
		add := []string{"%00", "%00tail", "%2F..%2F..%2Fkv%2Fkey%2Fk0", "%ff%fe", "%zz", "%0a%0d", "%20", "..", "%2e%2e"}[m.B%9]
		if si >= 0 {
			if m.C%2 == 0 {
				segs[si] += add
			} else {
				segs[si] = add
			}
		} else {
			segs = append(segs, add)
		}
	case "url-scale":
		add := "scale=" + []string{"9", "-1", "abc", "256", "2", "1", "3", "99999999999"}[m.B%8]
		if query != "" {
			query += "&"
		}
		query += add
	case "url-extra":
		segs = append(segs, []string{"x", "0_0_0", "", "x/y/z"}[m.B%4])
	case "url-query":
		add := []string{"roi=nonexistent", "compression=foo", "throttle=true", "supervoxels=maybe", "format=srles&minx=abc", "maxx=-5&minx=5", "blocks=1,2", "start=abc", "number=-1",
			"mutid=abc", "metadata-only=true", "compression=lz4", "compression=gzip", "roi=roi", "exact=false&minz=99999999999", "format=blocks&scale=7", "mutate=true", "downres=true&scale=2",
			"fields=,,", "show=bogus", "batchsize=0", "batchsize=-1", "optimized=true&batchsize=100000", "u=", "blocks=", "blocks=1,2,x", "hash=00", "interpolation=none", "n=-1&offset=-1", "replace=true"}[m.B%30]
		if query != "" {
			query += "&"
		}
		query += add
	default:
		kind = "url-none"
		differs = false
	}
	u := "node/" + w.root + "/" + ub.inst + "/" + strings.Join(segs, "/")
	if query != "" {
		u += "?" + query
	}
	detail := kind
	if sk != "" {
		detail += ":" + sk
	}
	switch kind {
	case "url-drop", "url-empty":
		kind = "url-missing"
	case "url-arity":
		kind = "url-nonnum"
	case "url-nul":
		kind = "url-odd-bytes"
	}
	_ = detail
	return u, kind, differs
}

// namedByURL: for key-addressed instances the request names every universe key its path mentions.
func namedByURL(ub urlBase, url string) []string {
	if ub.named == nil {
		return nil
	}
	switch ub.inst {
	case "kv":
		out := []string{"kv:list"}
		for _, k := range kvKeys {
			if strings.Contains(url, k) {
				out = append(out, "kv:"+k)
			}
		}
		return out
	case "nj":
		out := []string{"nj:list"}
		for _, id := range njIDs {
			if strings.Contains(url, fmt.Sprint(id)) {
				out = append(out, fmt.Sprintf("nj:%d", id))
			}
		}
		return out
	}
	return ub.named
}

// ---- the case

type hreq struct {
	Fam  string   `json:"fam"` // a family name, or "url"
	Base baseSpec `json:"base"`
	Mut  mutSpec  `json:"mut"`
}

type mutCase struct {
	Reqs []hreq `json:"reqs"`
}

// built request
type breq struct {
	ep, method, url string
	body            []byte
	kind, kclass    string
	detail          string
	certain         bool
	differs         bool
	named           []string
}

func (w *world) buildReq(rq hreq) breq {
	if rq.Fam == "url" {
		bases := w.urlBases()
		ub := bases[rq.Base.A%len(bases)]
		u, kind, differs := hostileURL(w, ub, rq.Mut)
		return breq{ep: ub.ep, method: ub.method, url: u, body: ub.body, kind: kind, kclass: kind, differs: differs, named: namedByURL(ub, u)}
	}
	f := familyByName(rq.Fam)
	if f == nil {
		f = &families[0]
	}
	p := f.build(w, rq.Base)
	var mu mutated
	m := rq.Mut
	switch {
	case strings.HasPrefix(m.Kind, "json-"):
		if p.isJSON {
			mu = jsonMutate(p.outer.data, m)
		} else {
			mu = applyBytes(&p.outer, mutSpec{Kind: "bitflip", A: m.A, B: m.B, C: m.C}, "")
		}
	case m.Inner && p.inner != nil:
		in := applyBytes(p.inner, m, "inner/")
		mu = in
		mu.body = p.rewrap(in.body)
	default:
		if p.isJSON && m.Kind == "field" {
			mu = jsonMutate(p.outer.data, mutSpec{Kind: "json-value", A: m.A, B: m.B})
		} else {
			mu = applyBytes(&p.outer, m, "")
			if p.isJSON && mu.differs && (m.Kind == "trunc" || m.Kind == "trunc-boundary") {
				// a cut JSON document is certainly malformed only when it no longer parses
				mu.certain = len(mu.body) > 0 && !json.Valid(mu.body)
			} else if p.isJSON {
				mu.certain = false
			}
		}
	}
	return breq{ep: p.ep, method: p.method, url: p.url, body: mu.body, kind: mu.kind, kclass: mu.kclass, detail: mu.detail, certain: mu.certain, differs: mu.differs, named: p.named}
}

type outcome struct {
	Ep      string
	Kind    string
	KClass  string
	Code    int
	Trivial bool
	Certain bool
}

func (o outcome) class() string {
	switch {
	case o.Code >= 200 && o.Code < 300:
		return "2xx"
	case o.Code >= 400 && o.Code < 500:
		return "4xx"
	case o.Code >= 500:
		return "5xx"
	}
	return "unreached"
}

// blamed is the index of the request a violation was attributed to (development aid for minimal reproductions).
var blamed = -1

func (b breq) describe(i int) string {
	blamed = i
	d := b.kind
	if b.detail != "" {
		d += " " + b.detail
	}
	return fmt.Sprintf("request %d: %s %s (%d body bytes, mutation %s)", i, b.method, clip(b.url, 300), len(b.body), d)
}

// stderrSince returns what the child wrote to stderr after offset.
func stderrSince(dir string, off int64) string {
	b, err := os.ReadFile(dir + "/stderr.log")
	if err != nil || int64(len(b)) <= off {
		return ""
	}
	return string(b[off:])
}

func stderrSize(dir string) int64 {
	st, err := os.Stat(dir + "/stderr.log")
	if err != nil {
		return 0
	}
	return st.Size()
}

// lowPriority remembers the first status-code finding (kept behind process health and data oracles).
type verdicts struct {
	low    error
	lowIdx int
}

func (v *verdicts) lowPrio(i int, sig, format string, args ...interface{}) {
	stats.Count("status/"+sig[strings.LastIndex(sig, "/")+1:], 1)
	if stats.IsKnown(sig) {
		stats.KnownHit(sig)
		return
	}
	if v.low == nil {
		v.low, v.lowIdx = stats.Violf(sig, format, args...), i
	}
}

func checkMutants(c mutCase) ([]outcome, error) {
	blamed = -1
	child, err := getChild()
	if err != nil {
		return nil, err
	}
	errOff := stderrSize(child.Dir)
	w := &world{conn: conn{c: child, errOff: errOff}}
	if err := w.setup(); err != nil {
		dropChild()
		return nil, err
	}
	obs := w.observables()
	cur, f, msg := w.snap(obs, nil)
	if f != fateOK {
		dropChild()
		return nil, fmt.Errorf("harness: child lost taking the first snapshot: %s", msg)
	}
	var outs []outcome
	var v verdicts
	reportsSeen := 0
	lost := func(b breq, i int, f fate, msg string) error {
		reports := w.panicReports() // before the child's directory goes away
		dropChild()
		what := b.describe(i)
		if f == fateDied {
			return stats.Violf(sigFor(b.ep, b.kind, "server-died"), "%s killed the server process: %s", what, msg)
		}
		if f == fateNeverIdle {
			for _, rep := range reports {
				if !strings.HasPrefix(rep, "Panic detected on request") {
					return stats.Violf(sigFor(b.ep, b.kind, "background-panic-recovered"), "%s: afterwards the server reports a recovered panic outside any request (the worker that recovered has stopped) and its own idle predicates never report idle again: %s", what, summarizeReport(rep))
				}
			}
			return stats.Violf(sigFor(b.ep, b.kind, "never-idle"), "%s: afterwards the server's own idle predicates (Updating / SyncPending) never report idle again: %s", what, msg)
		}
		return stats.Violf(sigFor(b.ep, b.kind, "server-wedged"), "%s: the server stopped answering: %s", what, msg)
	}
	// compare everything not named by the requests since the last snapshot; blame is the request at hand
	pending := map[string]bool{}
	var pendingReq *breq
	pendingIdx := 0
	verify := func(b breq, i int) error {
		snapNow := func() (snapshot, error) {
			s, f, msg := w.snap(obs, nil)
			if f != fateOK {
				return nil, lost(b, i, f, "while reading back untouched data: "+msg)
			}
			return s, nil
		}
		changed := func(s snapshot) []string {
			var out []string
			for _, d := range diffSnap(cur, s) {
				key := strings.SplitN(d, ": ", 2)[0]
				named := false
				for _, o := range obs {
					if o.key == key {
						for _, sc := range o.scopes {
							if pending[sc] {
								named = true
							}
						}
					}
				}
				if !named {
					out = append(out, d)
				}
			}
			return out
		}
		np := len(w.panics)
		s, err := snapNow()
		if err != nil {
			return err
		}
		if len(w.panics) > np {
			// a well-formed read after the request is answered by the panic recovery: the request left poison behind
			sig := sigFor(b.ep, b.kind, "later-read-panic-500")
			if stats.IsKnown(sig) {
				stats.KnownHit(sig)
			} else {
				p := w.panics[np]
				k := strings.Index(p, " -> ")
				return stats.Violf(sig, "%s was answered before; afterwards the well-formed read %s is answered by the panic recovery: %s", b.describe(i), p[:k], crashLine(p[k+4:], stderrSince(child.Dir, errOff)))
			}
		}
		if d := changed(s); len(d) > 0 {
			if f, msg := w.deepSettle(); f != fateOK {
				return lost(b, i, f, msg)
			}
			if s, err = snapNow(); err != nil {
				return err
			}
			if d = changed(s); len(d) > 0 {
				n := len(d)
				if n > 5 {
					d = append(d[:5], "...")
				}
				return stats.Violf(sigFor(b.ep, b.kind, "untouched-data-changed"), "%s: %d observables not named by the request changed: %s", b.describe(i), n, strings.Join(d, " || "))
			}
		}
		cur = s
		pending = map[string]bool{}
		pendingReq = nil
		return nil
	}
	for i, rq := range c.Reqs {
		b := w.buildReq(rq)
		t0 := time.Now()
		r, f, msg := w.do(b.method, b.url, b.body)
		if ms := time.Since(t0).Milliseconds(); ms >= 100 {
			stats.Count("slow-requests(>=100ms)/"+b.ep+"|"+b.kind, 1)
			stats.Count("slow-requests-ms/"+b.ep+"|"+b.kind, ms)
		}
		if f != fateOK {
			return outs, lost(b, i, f, msg)
		}
		o := outcome{Ep: b.ep, Kind: b.kind, KClass: b.kclass, Code: r.Code, Certain: b.certain}
		reached := r.Code > 0
		o.Trivial = !reached || (r.OK() && !b.differs)
		outs = append(outs, o)
		if isPanic(r) {
			sig := sigFor(b.ep, b.kind, panicCond(r))
			if stats.IsKnown(sig) {
				stats.KnownHit(sig)
			} else {
				if e := stats.Violf(sig, "%s was answered by the panic recovery: %s", b.describe(i), crashLine(string(r.Body), stderrSince(child.Dir, errOff))); !collect(e, c) {
					return outs, e
				}
			}
		}
		if b.method != "GET" && b.method != "HEAD" {
			t1 := time.Now()
			if f, msg := w.settle(); f != fateOK {
				return outs, lost(b, i, f, msg)
			}
			if ms := time.Since(t1).Milliseconds(); ms >= 1000 {
				stats.Count("slow-settle(>=1s)/"+b.ep+"|"+b.kind+fmt.Sprintf("|%d", r.Code), 1)
				stats.Count("slow-settle-ms/"+b.ep+"|"+b.kind, ms)
			}
		}
		// recovered panics reported on stderr that no response accounts for: a sync event loop (or another
		// background worker) of a datatype gave up
		if reps := w.panicReports(); len(reps) > reportsSeen {
			newReps := reps[reportsSeen:]
			reportsSeen = len(reps)
			for _, rep := range newReps {
				if strings.HasPrefix(rep, "Panic detected on request") {
					continue // the recovery middleware: judged through the response
				}
				sig := sigFor(b.ep, b.kind, "background-panic-recovered")
				if stats.IsKnown(sig) {
					stats.KnownHit(sig)
					continue
				}
				return outs, stats.Violf(sig, "%s: afterwards the server reports a recovered panic outside any request (the worker that recovered has stopped): %s", b.describe(i), summarizeReport(rep))
			}
		}
		// canary: the server still serves a key it was never asked to touch
		cr, f, msg := w.do("GET", "node/"+w.root+"/canary/key/c", nil)
		if f != fateOK {
			return outs, lost(b, i, f, "canary read: "+msg)
		}
		if cr.Code != 200 || string(cr.Body) != "alive" {
			return outs, stats.Violf(sigFor(b.ep, b.kind, "untouched-data-changed"), "%s: the canary key no longer reads back: %s", b.describe(i), cr)
		}
		if b.certain && reached && !isPanic(r) {
			if r.OK() {
				v.lowPrio(i, sigFor(b.ep, b.kind, "malformed-accepted"), "%s: the payload is certainly malformed under the documented format, yet the answer is %d", b.describe(i), r.Code)
			} else if r.Code >= 500 {
				v.lowPrio(i, sigFor(b.ep, b.kind, "malformed-5xx"), "%s: the payload is certainly malformed under the documented format; the answer is a server error, not a client error: %s", b.describe(i), r)
			}
		}
		for _, sc := range b.named {
			pending[sc] = true
		}
		if pendingReq == nil {
			bb := b
			pendingReq, pendingIdx = &bb, i
		}
		if b.method != "GET" && b.method != "HEAD" && r.OK() {
			if err := verify(b, i); err != nil {
				return outs, err
			}
		}
	}
	// after the whole list: background goroutines die late
	last := breq{ep: "list", kind: "end"}
	lastIdx := len(c.Reqs) - 1
	if lastIdx >= 0 {
		last = w.buildReq(c.Reqs[lastIdx])
	}
	if f, msg := w.settle(); f != fateOK {
		return outs, lost(last, lastIdx, f, msg)
	}
	time.Sleep(15 * time.Millisecond)
	if f, msg := w.settle(); f != fateOK {
		return outs, lost(last, lastIdx, f, msg)
	}
	if pendingReq != nil {
		if err := verify(*pendingReq, pendingIdx); err != nil {
			return outs, err
		}
	}
	// "later requests are still served": every instance that was sent a hostile payload must still answer the
	// well-formed request the payload was derived from (a rejected request must not leave a lock behind)
	served := map[string]bool{}
	for i, rq := range c.Reqs {
		if rq.Fam == "url" || served[rq.Fam] {
			continue
		}
		served[rq.Fam] = true
		good := rq
		good.Mut = mutSpec{Kind: "none"}
		gb := w.buildReq(good)
		if _, f, msg := w.do(gb.method, gb.url, gb.body); f != fateOK {
			return outs, lost(w.buildReq(rq), i, f, "the well-formed "+gb.ep+" request issued after the list was not answered: "+msg)
		}
	}
	if f, msg := w.settle(); f != fateOK {
		return outs, lost(last, lastIdx, f, msg)
	}
	if !child.Alive() {
		return outs, lost(last, lastIdx, fateDied, w.crashReport())
	}
	if se := stderrSince(child.Dir, errOff); strings.Contains(se, "\npanic: ") || strings.HasPrefix(se, "panic: ") || strings.Contains(se, "fatal error: ") {
		dropChild()
		return outs, stats.Violf(sigFor(last.ep, last.kind, "stderr-panic-report"), "the server's stderr holds a panic report after the list: %s", crashSummary(se))
	}
	if v.low != nil {
		blamed = v.lowIdx
	}
	return outs, v.low
}

func crashLine(body string, stderr string) string {
	// the recovery middleware answers with the panic value; the stack goes to the server's stderr
	if i := strings.Index(body, "Panic detected on request"); i >= 0 {
		body = body[i:]
	}
	lines := strings.SplitN(body, "\n", 3)
	head := lines[0]
	if len(lines) > 1 {
		head = lines[1]
	}
	if i := strings.LastIndex(stderr, "Panic detected"); i >= 0 {
		stderr = stderr[i:]
	} else {
		stderr = ""
	}
	var frames []string
	for _, m := range reFrame.FindAllStringSubmatch(stderr, 12) {
		if !strings.Contains(m[1], "recoverHandler") && !strings.Contains(m[1], "ReportPanic") {
			frames = append(frames, m[1])
		}
	}
	if len(frames) > 4 {
		frames = frames[:4]
	}
	var files []string
	for _, m := range reFile.FindAllStringSubmatch(stderr, 60) {
		if (strings.Contains(m[1], "/dvid/") || strings.Contains(m[1], "/repo/") || strings.Contains(m[1], "c20mut")) && !strings.Contains(m[1], "server/web.go") && !strings.Contains(m[1], "dvid/utils.go") {
			files = append(files, m[1])
			if len(files) >= 3 {
				break
			}
		}
	}
	return "panic value: " + clip(head, 300) + " @ " + strings.Join(frames, " <- ") + " [" + strings.Join(files, " ") + "]"
}

// ---- generator

// crashKnown reports whether a crash-class finding is listed for (endpoint, kind): the generator steers around it.
func crashKnown(ep, kind string) (string, bool) {
	for _, cond := range []string{"server-died", "panic-500", "server-wedged", "untouched-data-changed", "later-read-panic-500", "stderr-panic-report", "never-idle", "panic-mid-response", "background-panic-recovered"} {
		if s := sigFor(ep, kind, cond); stats.IsKnown(s) {
			return s, true
		}
	}
	return "", false
}

func genReq(t *rapid.T, probe *world) hreq {
	var rq hreq
	if rapid.IntRange(0, 9).Draw(t, "url?") < 3 {
		rq.Fam = "url"
		rq.Base.A = rapid.IntRange(0, 200).Draw(t, "urlbase")
		rq.Mut.Kind = rapid.SampledFrom(urlKinds).Draw(t, "urlkind")
	} else {
		f := families[rapid.IntRange(0, len(families)-1).Draw(t, "fam")]
		rq.Fam = f.name
		rq.Base = baseSpec{A: rapid.IntRange(0, 40).Draw(t, "ba"), B: rapid.IntRange(0, 40).Draw(t, "bb"), C: rapid.IntRange(0, 40).Draw(t, "bc")}
		rq.Mut.Kind = rapid.SampledFrom(f.kinds).Draw(t, "kind")
		if f.inner {
			rq.Mut.Inner = rapid.IntRange(0, 3).Draw(t, "inner") > 0
		}
	}
	rq.Mut.A = rapid.IntRange(0, 1000).Draw(t, "ma")
	rq.Mut.B = rapid.IntRange(0, 63).Draw(t, "mb")
	rq.Mut.C = rapid.IntRange(0, 63).Draw(t, "mc")
	// steer around listed crash findings by construction: the request is built (a pure function of the spec) and,
	// when its (endpoint, mutation) is listed, replaced by the unmutated parent
	b := probe.buildReq(rq)
	if sig, known := crashKnown(b.ep, b.kind); known {
		stats.Excluded(sig)
		if rq.Fam == "url" {
			rq.Mut.Kind = "url-none"
		} else {
			rq.Mut.Kind = "none"
		}
	}
	return rq
}

func genMutants(t *rapid.T) mutCase {
	probe := &world{root: "00000000000000000000000000000000"}
	var c mutCase
	n := rapid.IntRange(3, 10).Draw(t, "n")
	for i := 0; i < n; i++ {
		c.Reqs = append(c.Reqs, genReq(t, probe))
	}
	return c
}

// genSweep builds a dense case: ONE drawn mutation applied to every URL base (72 hostile URLs), or one drawn
// mutation slot applied to the valid parent of every payload family.  The random lists of TestC20Mutants reach a
// given (endpoint, mutation) pair rarely; the sweeps reach each of them in nearly every run.
func genSweep(t *rapid.T) mutCase {
	probe := &world{root: "00000000000000000000000000000000"}
	var c mutCase
	m := mutSpec{A: rapid.IntRange(0, 1000).Draw(t, "ma"), B: rapid.IntRange(0, 63).Draw(t, "mb"), C: rapid.IntRange(0, 63).Draw(t, "mc")}
	steer := func(rq hreq) hreq {
		b := probe.buildReq(rq)
		if sig, known := crashKnown(b.ep, b.kind); known {
			stats.Excluded(sig)
			if rq.Fam == "url" {
				rq.Mut.Kind = "url-none"
			} else {
				rq.Mut.Kind = "none"
			}
		}
		return rq
	}
	if rapid.IntRange(0, 2).Draw(t, "mode") > 0 {
		m.Kind = rapid.SampledFrom(urlKinds[1:]).Draw(t, "urlkind")
		for i := range probe.urlBases() {
			c.Reqs = append(c.Reqs, steer(hreq{Fam: "url", Base: baseSpec{A: i}, Mut: m}))
		}
		return c
	}
	k := rapid.IntRange(0, 11).Draw(t, "kindslot")
	inner := rapid.IntRange(0, 2).Draw(t, "inner") > 0
	base := baseSpec{A: rapid.IntRange(0, 40).Draw(t, "ba"), B: rapid.IntRange(0, 40).Draw(t, "bb"), C: rapid.IntRange(0, 40).Draw(t, "bc")}
	for _, f := range families {
		mm := m
		mm.Kind = f.kinds[k%len(f.kinds)]
		mm.Inner = inner && f.inner
		if f.name == "labelmap/raw" {
			// the body travels plain, gzip- or lz4-compressed, each with its own length checks: sweep all three
			for _, a := range []int{0, 4, 6} {
				b := base
				b.A = a + base.A%2
				c.Reqs = append(c.Reqs, steer(hreq{Fam: f.name, Base: b, Mut: mm}))
			}
			continue
		}
		c.Reqs = append(c.Reqs, steer(hreq{Fam: f.name, Base: base, Mut: mm}))
	}
	return c
}

func TestC20Sweep(t *testing.T) { runMutants(t, "TestC20Sweep", genSweep) }

// collect is a development aid: with C20_COLLECT=<file> violations are appended to the file instead of failing the
// run, so that one campaign lists every distinct signature.  Never set by the check driver.
func collect(err error, c mutCase) bool {
	path := os.Getenv("C20_COLLECT")
	if path == "" || stats.SigOf(err) == "" {
		return false
	}
	f, e := os.OpenFile(path, os.O_CREATE|os.O_APPEND|os.O_WRONLY, 0644)
	if e != nil {
		return false
	}
	defer f.Close()
	one := c
	if blamed >= 0 && blamed < len(c.Reqs) {
		one = mutCase{Reqs: []hreq{c.Reqs[blamed]}}
	}
	cj, _ := json.Marshal(one)
	fmt.Fprintf(f, "%s\t%s\t%s\n", stats.SigOf(err), strings.ReplaceAll(err.Error(), "\n", " | "), cj)
	return true
}

func TestC20Mutants(t *testing.T) { runMutants(t, "TestC20Mutants", genMutants) }

func runMutants(t *testing.T, name string, gen func(*rapid.T) mutCase) {
	rapid.Check(t, func(t *rapid.T) {
		c := gen(t)
		stats.SetCur("C20", name, c)
		outs, err := checkMutants(c)
		if collect(err, c) {
			return
		}
		if !stats.Judge(t, "C20", name, err, c) {
			return
		}
		cls := map[string]bool{}
		nontrivial := false
		for _, o := range outs {
			fam := o.Ep
			hep := fam
			if strings.HasPrefix(o.KClass, "url-") {
				hep = "url/" + strings.SplitN(fam, "/", 2)[0]
			}
			cls[hep+"|"+o.KClass+"|"+o.class()] = true
			if o.class() == "2xx" {
				cls["accepted/"+fam] = true
			} else if o.class() != "unreached" {
				cls["rejected/"+fam] = true
			}
			if o.KClass == "none" || o.KClass == "url-none" {
				cls["parent/"+o.class()] = true
				if o.class() != "2xx" {
					cls["parent-not-accepted/"+fam] = true
				}
			}
			if o.Certain {
				cls["certainly-malformed/"+o.class()] = true
			}
			if !o.Trivial {
				nontrivial = true
			}
			stats.Count("requests", 1)
			stats.Count("requests/"+o.class(), 1)
		}
		var cl []string
		for k := range cls {
			cl = append(cl, k)
		}
		sort.Strings(cl)
		stats.Record(stats.HashJSON(c), nontrivial, cl, func() interface{} {
			var s []string
			for i, rq := range c.Reqs {
				code := 0
				if i < len(outs) {
					code = outs[i].Code
				}
				kind := ""
				if i < len(outs) {
					kind = outs[i].Ep + " " + outs[i].Kind
				}
				s = append(s, fmt.Sprintf("%s base(%d,%d,%d) -> %s -> %d", rq.Fam, rq.Base.A, rq.Base.B, rq.Base.C, kind, code))
			}
			if len(s) > 12 {
				s = append(s[:12], fmt.Sprintf("... (%d requests)", len(c.Reqs)))
			}
			return map[string]interface{}{"test": name, "requests": s}
		})
	})
}
