package c20

import (
	"bytes"
	"testing"

	"github.com/janelia-flyem/dvid/datatype/common/labels"
)

// The harness's own block encoder must produce what the repository decodes to the same voxels (otherwise the
// "valid parent payload" of the block families would not be valid).
func TestC20EncoderSelfCheck(t *testing.T) {
	for v := 0; v < 12; v++ {
		vox := blockVoxels(v)
		ser := encodeBlock(vox, lmB/8)
		var b labels.Block
		if err := b.UnmarshalBinary(ser); err != nil {
			t.Fatalf("variant %d: %v", v, err)
		}
		got, _ := b.MakeLabelVolume()
		if !bytes.Equal(got, u64le(vox)) {
			t.Fatalf("variant %d: decoded voxels differ", v)
		}
		if l := blockLayout(ser); len(l.fields) < 5 {
			t.Fatalf("variant %d: layout has %d fields", v, len(l.fields))
		}
	}
}
