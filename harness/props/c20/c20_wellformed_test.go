package c20

import (
	"encoding/binary"
	"encoding/json"
	"fmt"
	"sort"
	"strings"
	"testing"
	"time"

	"pgregory.net/rapid"

	"verif/drive"
	"verif/stats"
)

// Well-formed workloads (the op lists of the restart property, without restarts): no response anywhere is a
// recovered panic, the server's stderr holds no panic report, the process stays alive.

type wop struct {
	Kind string `json:"kind"`
	Node int    `json:"node"`
	A    int    `json:"a,omitempty"`
	B    int    `json:"b,omitempty"`
	C    int    `json:"c,omitempty"`
}

type wfCase struct {
	Ops []wop `json:"ops"`
}

const wblk = 16

var wext = [3]int32{2 * wblk, 2 * wblk, 2 * wblk}

type wfWorld struct {
	conn
	root   string
	nodes  []string
	locked map[string]bool
	nbr    int
	lost   error // set when the child died or wedged: (violation)
	cur    wop
	curIdx int
}

type lostErr struct {
	f   fate
	msg string
}

func (e *lostErr) Error() string { return e.msg }

func (w *wfWorld) do2(method, url string, body []byte) (drive.Resp, error) {
	r, f, msg := w.do(method, url, body)
	if f != fateOK {
		return r, &lostErr{f, method + " " + clip(url, 200) + ": " + msg}
	}
	return r, nil
}

func (w *wfWorld) post(url string, body []byte) (drive.Resp, error) { return w.do2("POST", url, body) }

func (w *wfWorld) bodies(uuid string) ([]uint64, error) {
	r, err := w.do2("GET", "node/"+uuid+"/lm/listlabels", nil)
	if err != nil {
		return nil, err
	}
	var out []uint64
	for i := 0; i+8 <= len(r.Body); i += 8 {
		out = append(out, binary.LittleEndian.Uint64(r.Body[i:]))
	}
	return out, nil
}

func (w *wfWorld) supervoxels(uuid string, body uint64) ([]uint64, error) {
	r, err := w.do2("GET", fmt.Sprintf("node/%s/lm/supervoxels/%d", uuid, body), nil)
	if err != nil {
		return nil, err
	}
	var out []uint64
	json.Unmarshal(r.Body, &out)
	sort.Slice(out, func(i, j int) bool { return out[i] < out[j] })
	return out, nil
}

func wfVolume(shift, nlabels int, size [3]int32) []byte {
	b := make([]byte, int(size[0])*int(size[1])*int(size[2])*8)
	i := 0
	for z := int32(0); z < size[2]; z++ {
		for y := int32(0); y < size[1]; y++ {
			for x := int32(0); x < size[0]; x++ {
				cell := int(x/8) + 4*int(y/8) + 16*int(z/8)
				l := uint64(1 + (cell+shift)%nlabels)
				if (x+y+z)%11 == 0 {
					l = 0
				}
				binary.LittleEndian.PutUint64(b[i:], l)
				i += 8
			}
		}
	}
	return b
}

func (w *wfWorld) setup() error {
	r, err := w.post("repos", []byte(`{"alias":"c20wf","description":"well-formed"}`))
	if err != nil {
		return err
	}
	var rr struct{ Root string }
	if json.Unmarshal(r.Body, &rr) != nil || rr.Root == "" {
		return fmt.Errorf("harness: new repo: %s", r)
	}
	w.root = rr.Root
	w.nodes = []string{rr.Root}
	w.locked = map[string]bool{}
	bs := fmt.Sprintf("%d,%d,%d", wblk, wblk, wblk)
	for _, in := range [][3]string{{"keyvalue", "kv", ""}, {"labelmap", "lm", bs}, {"annotation", "ann", bs}, {"labelsz", "sz", ""}, {"neuronjson", "nj", ""}, {"roi", "roi", bs}} {
		m := map[string]string{"typename": in[0], "dataname": in[1]}
		if in[2] != "" {
			m["BlockSize"] = in[2]
		}
		b, _ := json.Marshal(m)
		r, err := w.post("repo/"+w.root+"/instance", b)
		if err != nil {
			return err
		}
		if !r.OK() {
			return fmt.Errorf("harness: new instance %s: %s", in[1], r)
		}
	}
	if r, err := w.post("node/"+w.root+"/ann/sync", []byte(`{"sync":"lm"}`)); err != nil || !r.OK() {
		return fmt.Errorf("harness: sync ann: %v %s", err, r)
	}
	if r, err := w.post("node/"+w.root+"/sz/sync", []byte(`{"sync":"ann"}`)); err != nil || !r.OK() {
		return fmt.Errorf("harness: sync sz: %v %s", err, r)
	}
	return nil
}

func (w *wfWorld) openNode(i int) (string, bool) {
	if i < 0 {
		i = len(w.nodes) - 1
	}
	u := w.nodes[i%len(w.nodes)]
	return u, !w.locked[u]
}

func wu64s(v []uint64) []byte { return u64json(v) }

func (w *wfWorld) settleW() error {
	if f, msg := w.settle(); f != fateOK {
		return &lostErr{f, "settle: " + msg}
	}
	return nil
}

func (w *wfWorld) apply(o wop) error {
	u, open := w.openNode(o.Node)
	var err error
	ex, ey, ez := int(wext[0]), int(wext[1]), int(wext[2])
	switch o.Kind {
	case "kvput":
		_, err = w.post(fmt.Sprintf("node/%s/kv/key/k%d", u, o.A%6), []byte(fmt.Sprintf("value-%d-%d", o.A, o.B)))
	case "kvdel":
		_, err = w.do2("DELETE", fmt.Sprintf("node/%s/kv/key/k%d", u, o.A%6), nil)
	case "commit":
		var r drive.Resp
		r, err = w.post("node/"+u+"/commit", []byte(fmt.Sprintf(`{"note":"commit %d","log":["l%d"]}`, o.A, o.B)))
		if err == nil && r.OK() {
			w.locked[u] = true
		}
	case "note":
		_, err = w.post("node/"+u+"/note", []byte(fmt.Sprintf(`{"note":"note %d"}`, o.A)))
	case "log":
		_, err = w.post("node/"+u+"/log", []byte(fmt.Sprintf(`{"log":["entry %d"]}`, o.A)))
	case "newversion", "branch":
		if open {
			r, e := w.post("node/"+u+"/commit", []byte(`{"note":"auto"}`))
			if e != nil {
				return e
			}
			if r.OK() {
				w.locked[u] = true
			}
		}
		var r drive.Resp
		if o.Kind == "newversion" {
			r, err = w.post("node/"+u+"/newversion", []byte(`{"note":"nv"}`))
		} else {
			w.nbr++
			r, err = w.post("node/"+u+"/branch", []byte(fmt.Sprintf(`{"branch":"b%d","note":"br"}`, w.nbr)))
		}
		if err == nil && r.OK() {
			var c struct{ Child string }
			if json.Unmarshal(r.Body, &c) == nil && c.Child != "" {
				w.nodes = append(w.nodes, c.Child)
			}
		}
	case "dagmerge":
		var committed []string
		for _, n := range w.nodes {
			if w.locked[n] {
				committed = append(committed, n)
			}
		}
		if len(committed) < 2 {
			return nil
		}
		p1, p2 := committed[o.A%len(committed)], committed[o.B%len(committed)]
		if p1 == p2 {
			return nil
		}
		b, _ := json.Marshal(map[string]interface{}{"mergeType": "conflict-free", "parents": []string{p1, p2}, "note": "m"})
		var r drive.Resp
		r, err = w.post("repo/"+w.root+"/merge", b)
		if err == nil && r.OK() {
			var c struct{ Child string }
			if json.Unmarshal(r.Body, &c) == nil && c.Child != "" {
				w.nodes = append(w.nodes, c.Child)
			}
		}
	case "lmingest":
		mut := ""
		if o.B%2 == 1 {
			mut = "?mutate=true"
		}
		_, err = w.post(fmt.Sprintf("node/%s/lm/raw/0_1_2/%d_%d_%d/0_0_0%s", u, ex, ey, ez, mut), wfVolume(o.A, 3+o.C%6, wext))
	case "lmmerge":
		bs, e := w.bodies(u)
		if e != nil {
			return e
		}
		if len(bs) < 2 {
			return nil
		}
		t, m := bs[o.A%len(bs)], bs[o.B%len(bs)]
		if t == m {
			return nil
		}
		_, err = w.post("node/"+u+"/lm/merge", wu64s([]uint64{t, m}))
	case "lmcleave":
		bs, e := w.bodies(u)
		if e != nil {
			return e
		}
		if len(bs) == 0 {
			return nil
		}
		b := bs[o.A%len(bs)]
		svs, e := w.supervoxels(u, b)
		if e != nil {
			return e
		}
		if len(svs) < 2 {
			return nil
		}
		_, err = w.post(fmt.Sprintf("node/%s/lm/cleave/%d", u, b), wu64s([]uint64{svs[o.B%len(svs)]}))
	case "lmrenumber":
		bs, e := w.bodies(u)
		if e != nil {
			return e
		}
		if len(bs) == 0 {
			return nil
		}
		r, e := w.post("node/"+u+"/lm/nextlabel/1", nil)
		if e != nil {
			return e
		}
		var nl struct{ Start uint64 }
		if !r.OK() || json.Unmarshal(r.Body, &nl) != nil {
			return nil
		}
		_, err = w.post("node/"+u+"/lm/renumber", wu64s([]uint64{nl.Start, bs[o.A%len(bs)]}))
	case "lmsplitsv":
		bs, e := w.bodies(u)
		if e != nil {
			return e
		}
		if len(bs) == 0 {
			return nil
		}
		svs, e := w.supervoxels(u, bs[o.A%len(bs)])
		if e != nil || len(svs) == 0 {
			return e
		}
		sv := svs[o.B%len(svs)]
		r, e := w.do2("GET", fmt.Sprintf("node/%s/lm/sparsevol/%d?format=srles&supervoxels=true", u, sv), nil)
		if e != nil {
			return e
		}
		if !r.OK() || len(r.Body) < 32 {
			return nil
		}
		nruns := len(r.Body) / 16
		keep := 1 + o.C%nruns
		if keep >= nruns {
			keep = nruns - 1
		}
		if keep < 1 {
			return nil
		}
		body := make([]byte, 12, 12+16*keep)
		body[1] = 3
		binary.LittleEndian.PutUint32(body[8:], uint32(keep))
		body = append(body, r.Body[:16*keep]...)
		_, err = w.post(fmt.Sprintf("node/%s/lm/split-supervoxel/%d", u, sv), body)
	case "annpost":
		x, y, z := (o.A*7)%ex, (o.B*5)%ey, (o.C*3)%ez
		x2, y2, z2 := (x+9)%ex, (y+17)%ey, z
		kind := []string{"PostSyn", "PreSyn", "Note"}[o.A%3]
		el := fmt.Sprintf(`[{"Pos":[%d,%d,%d],"Kind":%q,"Tags":["t%d"],"Prop":{"n":"%d"},"Rels":[{"Rel":"PostSynTo","To":[%d,%d,%d]}]},{"Pos":[%d,%d,%d],"Kind":"PreSyn","Tags":["t%d","u"],"Prop":{},"Rels":[{"Rel":"PreSynTo","To":[%d,%d,%d]}]}]`,
			x, y, z, kind, o.B%3, o.C, x2, y2, z2, x2, y2, z2, o.C%3, x, y, z)
		_, err = w.post("node/"+u+"/ann/elements", []byte(el))
	case "anntagswap":
		// one POST carrying two elements of one block: the first (stored before with tag t) drops t while the second adds t
		bx, by, bz := (o.A%2)*wblk, (o.B%2)*wblk, (o.C%2)*wblk
		x, y, z := bx+o.A%wblk, by+o.B%wblk, bz+o.C%wblk
		x2, y2, z2 := bx+(o.A+3)%wblk, by+(o.B+5)%wblk, bz+o.C%wblk
		if x2 == x && y2 == y {
			x2 = bx + (o.A+4)%wblk
		}
		tag := fmt.Sprintf("t%d", o.C%3)
		first := fmt.Sprintf(`[{"Pos":[%d,%d,%d],"Kind":"PostSyn","Tags":[%q],"Prop":{},"Rels":[]}]`, x, y, z, tag)
		if _, err = w.post("node/"+u+"/ann/elements", []byte(first)); err != nil {
			return err
		}
		if err = w.settleW(); err != nil {
			return err
		}
		second := fmt.Sprintf(`[{"Pos":[%d,%d,%d],"Kind":"PostSyn","Tags":[],"Prop":{},"Rels":[]},{"Pos":[%d,%d,%d],"Kind":"PreSyn","Tags":[%q],"Prop":{},"Rels":[]}]`, x, y, z, x2, y2, z2, tag)
		_, err = w.post("node/"+u+"/ann/elements", []byte(second))
	case "anndel":
		x, y, z := (o.A*7)%ex, (o.B*5)%ey, (o.C*3)%ez
		_, err = w.do2("DELETE", fmt.Sprintf("node/%s/ann/element/%d_%d_%d", u, x, y, z), nil)
	case "annmove":
		x, y, z := (o.A*7)%ex, (o.B*5)%ey, (o.C*3)%ez
		_, err = w.post(fmt.Sprintf("node/%s/ann/move/%d_%d_%d/%d_%d_%d", u, x, y, z, (x+13)%ex, (y+3)%ey, (z+20)%ez), nil)
	case "annreload":
		_, err = w.post("node/"+u+"/ann/reload"+[]string{"", "?check=true", "?inmemory=false"}[o.A%3], nil)
	case "njpost":
		id := []uint64{5, 30, 200, 1000, 9007199254740993}[o.A%5]
		q := "?u=user" + fmt.Sprint(o.A%2)
		if o.B%4 == 0 {
			q += "&replace=true"
		}
		doc := fmt.Sprintf(`{"bodyid":%d,"f%d":"v%d","g":%d}`, id, o.B%3, o.C, o.C)
		if o.C%5 == 0 {
			doc = fmt.Sprintf(`{"bodyid":%d,"f%d":null}`, id, o.B%3)
		}
		_, err = w.post(fmt.Sprintf("node/%s/nj/key/%d%s", u, id, q), []byte(doc))
	case "njdel":
		id := []uint64{5, 30, 200, 1000, 9007199254740993}[o.A%5]
		_, err = w.do2("DELETE", fmt.Sprintf("node/%s/nj/key/%d", u, id), nil)
	case "njquery":
		_, err = w.do2("GET", "node/"+u+"/nj/query?show=all", []byte([]string{`{"g":1}`, `{"f0":"re/v.*"}`, `[{"f1":"exists/1"},{"bodyid":5}]`}[o.A%3]))
	case "roipost":
		_, err = w.post("node/"+u+"/roi/roi", []byte(fmt.Sprintf(`[[%d,%d,%d,%d],[1,1,0,1]]`, o.A%2, o.B%2, o.C%2, o.C%2+1)))
	case "reads":
		// the read endpoints of every instance at the node
		for _, t := range []string{"kv/keys", "kv/keyrangevalues/0/zzzz?json=true", fmt.Sprintf("lm/raw/0_1_2/%d_%d_%d/0_0_0", ex, ey, ez), "lm/mappings", "lm/listlabels?sizes=true",
			fmt.Sprintf("lm/blocks/%d_%d_%d/0_0_0", ex, ey, ez), fmt.Sprintf("lm/sparsevol/%d", 1+o.A%6), fmt.Sprintf("lm/sparsevol-coarse/%d", 1+o.B%6), fmt.Sprintf("lm/index/%d", 1+o.C%6),
			"ann/all-elements", fmt.Sprintf("ann/label/%d?relationships=true", 1+o.A%6), "ann/tag/t0", fmt.Sprintf("ann/elements/%d_%d_%d/0_0_0", ex, ey, ez), "ann/roi/roi",
			fmt.Sprintf("sz/count/%d/PostSyn", 1+o.B%6), "sz/top/3/AllSyn", "nj/all?show=all", "nj/keys", "nj/fields", "roi/roi", fmt.Sprintf("roi/mask/0_1_2/%d_%d_%d/0_0_0", ex, ey, ez)} {
			if _, err = w.do2("GET", "node/"+u+"/"+t, nil); err != nil {
				return err
			}
		}
	}
	return err
}

var wfKinds = []string{"kvput", "kvput", "kvdel", "commit", "note", "log", "newversion", "newversion", "branch", "dagmerge",
	"lmingest", "lmmerge", "lmmerge", "lmcleave", "lmcleave", "lmsplitsv", "lmsplitsv", "lmrenumber",
	"annpost", "annpost", "anntagswap", "anntagswap", "anndel", "annmove", "annreload", "njpost", "njpost", "njpost", "njdel", "njquery", "roipost", "reads", "reads"}

func checkWellFormed(c wfCase) error {
	child, err := getChild()
	if err != nil {
		return err
	}
	errOff := stderrSize(child.Dir)
	w := &wfWorld{conn: conn{c: child, errOff: errOff}}
	lost := func(i int, o wop, e error) error {
		le, ok := e.(*lostErr)
		if !ok {
			return e
		}
		dropChild()
		cond := "server-died"
		if le.f == fateWedged {
			cond = "server-wedged"
		} else if le.f == fateNeverIdle {
			cond = "never-idle"
		}
		return stats.Violf("C20/well-formed/"+o.Kind+"/"+cond, "op %d %+v: %s", i, o, le.msg)
	}
	if err := w.setup(); err != nil {
		if _, ok := err.(*lostErr); ok {
			dropChild()
			return fmt.Errorf("harness: child lost during setup: %v", err)
		}
		return err
	}
	for i, o := range c.Ops {
		np := len(w.panics)
		if err := w.apply(o); err != nil {
			return lost(i, o, err)
		}
		if len(w.panics) > np {
			sig := "C20/well-formed/" + o.Kind + "/panic-500"
			if stats.IsKnown(sig) {
				stats.KnownHit(sig)
			} else {
				p := w.panics[np]
				return stats.Violf(sig, "op %d %+v: a well-formed request was answered by the panic recovery: %s", i, o, clip(p[:strings.Index(p, " -> ")+4]+crashLine(p[strings.Index(p, " -> ")+4:], stderrSince(child.Dir, errOff)), 1200))
			}
		}
		if err := w.settleW(); err != nil {
			return lost(i, o, err)
		}
	}
	lastOp := wop{Kind: "end"}
	if len(c.Ops) > 0 {
		lastOp = c.Ops[len(c.Ops)-1]
	}
	time.Sleep(15 * time.Millisecond)
	if err := w.settleW(); err != nil {
		return lost(len(c.Ops)-1, lastOp, err)
	}
	if !child.Alive() {
		dropChild()
		return stats.Violf("C20/well-formed/"+lastOp.Kind+"/server-died", "the server process died after the list: %s", w.crashReport())
	}
	if se := stderrSince(child.Dir, errOff); strings.Contains(se, "\npanic: ") || strings.HasPrefix(se, "panic: ") || strings.Contains(se, "fatal error: ") {
		dropChild()
		return stats.Violf("C20/well-formed/"+lastOp.Kind+"/stderr-panic-report", "the server's stderr holds a panic report after the list: %s", crashSummary(se))
	}
	return nil
}

func genWellFormed(t *rapid.T) wfCase {
	var c wfCase
	c.Ops = append(c.Ops, wop{Kind: "lmingest", Node: 0, A: rapid.IntRange(0, 20).Draw(t, "s"), C: rapid.IntRange(0, 5).Draw(t, "nl")})
	n := rapid.IntRange(6, 30).Draw(t, "nops")
	for i := 0; i < n; i++ {
		k := rapid.SampledFrom(wfKinds).Draw(t, "kind")
		if sig := "C20/well-formed/" + k + "/panic-500"; stats.IsKnown(sig) {
			stats.Excluded(sig)
			k = "reads"
		} else if sig := "C20/well-formed/" + k + "/server-died"; stats.IsKnown(sig) {
			stats.Excluded(sig)
			k = "reads"
		}
		o := wop{Kind: k, A: rapid.IntRange(0, 40).Draw(t, "a"), B: rapid.IntRange(0, 40).Draw(t, "b"), C: rapid.IntRange(0, 40).Draw(t, "c")}
		o.Node = rapid.IntRange(0, 6).Draw(t, "node")
		if rapid.IntRange(0, 2).Draw(t, "latest") > 0 {
			o.Node = -1
		}
		c.Ops = append(c.Ops, o)
	}
	return c
}

func TestC20WellFormed(t *testing.T) {
	rapid.Check(t, func(t *rapid.T) {
		c := genWellFormed(t)
		stats.SetCur("C20", "TestC20WellFormed", c)
		err := checkWellFormed(c)
		if collect(err, mutCase{}) {
			return
		}
		if !stats.Judge(t, "C20", "TestC20WellFormed", err, c) {
			return
		}
		cls := map[string]bool{"well-formed": true}
		kinds := map[string]bool{}
		for _, o := range c.Ops {
			cls["wf/op/"+o.Kind] = true
			kinds[o.Kind] = true
		}
		var cl []string
		for k := range cls {
			cl = append(cl, k)
		}
		sort.Strings(cl)
		stats.Count("wf-ops", int64(len(c.Ops)))
		stats.Record(stats.HashJSON(c), len(kinds) >= 4, cl, func() interface{} {
			var s []string
			for _, o := range c.Ops {
				s = append(s, fmt.Sprintf("%s@%d(%d,%d,%d)", o.Kind, o.Node, o.A, o.B, o.C))
			}
			return map[string]interface{}{"test": "well-formed", "ops": strings.Join(s, "; ")}
		})
	})
}
