# Proposed TEXT entry for C20 (paste into /verif/manifest_text.py).
ENTRY = {
    "C20": {
        "technique": "property-based testing (rapid) against a real server process (child-process driver: verif-child performs the DoServe initialisation and serves requests "
                     "through the full middleware stack; a crash kills the child, never the test): structure-aware mutation of VALID payloads built by generators (byte level: truncation, "
                     "bit flips, count / length / index / sub-block-count fields overwritten with hostile constants, applied inside gzip / lz4 wrappers and re-compressed; protobuf length "
                     "and value varints; JSON mutated as a tree), hostile URLs over 72 URL templates of seven datatypes, dense sweeps (one mutation x every endpoint), well-formed "
                     "model-free workloads; explicit oracles: process liveness + canary read after every request, no response from the panic recovery, the server's own idle predicates "
                     "settle, no recovered panic of a background worker, snapshot of every observable NOT named by the request unchanged, every well-formed read afterwards served, "
                     "client error for certainly malformed payloads; plus the same mutants fed in-process to the pure parsers, and native Go fuzzing of those parsers in the thorough tier",
        "level_text": "Generated-input exploration with explicit oracles; absence of failures is not a proof (the input space is all byte strings). Each generated case is a list of 3-10 "
                      "hostile requests (or a sweep of 25-72) against a fresh repository holding a keyvalue, two labelmaps, a synced annotation + labelsz, a neuronjson, an roi and a uint8blk "
                      "instance with content. A request = valid parent payload (generator parameters) + one mutation; the case is plain data and replays without rapid. After every request "
                      "the child must be alive, answer a canary read, report idle by its own predicates, and have logged no recovered background panic; the response must not come from the "
                      "panic recovery; after every accepted mutation and at the end a targeted snapshot (51 observables with scopes) must be unchanged outside the scopes the requests named, and "
                      "all its reads must be served. On the unchanged tree the check FAILS: 20 root causes (about 60 signatures) are documented in harness/props/c20/findings.go with minimal "
                      "one-request reproductions - unchecked slicing in labels.Block.setExportedVars (recovered panic on POST blocks / ingest-supervoxels), accepted blocks with out-of-range "
                      "indices that kill the process in a storeBlocks callback goroutine or stop the annotation sync loop for good (instance never idle again), dvid.ReadRLEs reserving 16 bytes "
                      "x a declared span count of up to 2^32-1 (fatal out-of-memory from a 28-byte POST split), GET arb far from the origin killing the process in a worker goroutine, and "
                      "a dozen handlers indexing URL segments / sizes without checks (recovered panics, two of them after the response has begun). With those signatures listed the generator "
                      "steers around each (endpoint, mutation class) by construction - recorded in the case, so replays are identical - and the campaign continues behind them (green over "
                      "thousands of further cases). Sensitivity: removing the recovery middleware, dropping a URL-segment length check in keyvalue, dropping the body-length check of POST raw, "
                      "and making DELETE of a missing key remove its successor were each caught within the quick budget.",
        "level_note": "One world shape (32^3 blocks, 2x2x2 blocks, one open version); scopes are per instance (per key for key-addressed requests), so damage inside the instance a request "
                      "names is only seen through crashes of later reads, not through content comparison (that is C08/C13/C16's subject). Sizes are capped to what a correct server can answer "
                      "or cannot possibly serve; the 64 MB-100 TB range is not exercised. Declared counts of 2^31..2^32-1 make the outcome memory dependent (documented). Requests are issued "
                      "one at a time (concurrency is C11's subject); HTTP is driven through ServeSingleHTTP (no real sockets, no chunked / slow clients); RPC commands are not mutated. "
                      "Late deaths of background goroutines are waited for with the server's idle predicates plus a short grace period; a death later than that is attributed to the next case "
                      "and reported as inconclusive, not as a verdict.",
    },
}
