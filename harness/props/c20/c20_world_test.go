package c20

import (
	"crypto/sha1"
	"encoding/binary"
	"encoding/hex"
	"encoding/json"
	"fmt"
	"sort"
	"strings"

	"verif/drive"
)

// The world of one case (fresh repo): keyvalue kv (+ canary, never named by any request), labelmap lm (32^3 blocks,
// 64^3 voxels, six bodies, one of them merged from two supervoxels), labelmap lm2 (never named), annotation ann
// synced to lm, labelsz sz synced to ann, neuronjson nj, roi roi, uint8blk gray with content.

const (
	lmB   = 32 // block edge
	lmExt = 64 // volume edge
)

var kvKeys = []string{"k0", "k1", "k2", "k3", "k4"}
var njIDs = []uint64{10, 20, 3000}

type world struct {
	conn
	root  string
	other string // root of a second, empty repository (a valid UUID that is foreign to the first)
}

func u64le(v []uint64) []byte {
	b := make([]byte, 8*len(v))
	for i, x := range v {
		binary.LittleEndian.PutUint64(b[8*i:], x)
	}
	return b
}

func u64json(v []uint64) []byte {
	s := make([]string, len(v))
	for i, x := range v {
		s[i] = fmt.Sprint(x)
	}
	return []byte("[" + strings.Join(s, ",") + "]")
}

// lmLabelAt is the supervoxel painted at a voxel of lm by the world setup (shift moves the pattern).
func lmLabelAt(x, y, z, shift int) uint64 {
	if (x+y+z)%13 == 0 {
		return 0
	}
	cell := x/16 + 4*(y/16) + 16*(z/16)
	return uint64(1 + (cell+shift)%6)
}

func lmVolume(ox, oy, oz, sx, sy, sz, shift int) []uint64 {
	v := make([]uint64, 0, sx*sy*sz)
	for z := 0; z < sz; z++ {
		for y := 0; y < sy; y++ {
			for x := 0; x < sx; x++ {
				v = append(v, lmLabelAt(ox+x, oy+y, oz+z, shift))
			}
		}
	}
	return v
}

func grayVolume(sx, sy, sz, seed int) []byte {
	b := make([]byte, sx*sy*sz)
	i := 0
	for z := 0; z < sz; z++ {
		for y := 0; y < sy; y++ {
			for x := 0; x < sx; x++ {
				b[i] = byte(x*3 + y*5 + z*7 + seed)
				i++
			}
		}
	}
	return b
}

const worldElements = `[` +
	`{"Pos":[5,5,5],"Kind":"PostSyn","Tags":["t0"],"Prop":{"conf":"0.5"},"Rels":[{"Rel":"PostSynTo","To":[40,5,5]}]},` +
	`{"Pos":[40,5,5],"Kind":"PreSyn","Tags":["t0","t1"],"Prop":{},"Rels":[{"Rel":"PreSynTo","To":[5,5,5]}]},` +
	`{"Pos":[10,12,5],"Kind":"Note","Tags":["t1"],"Prop":{"note":"same block as the first"},"Rels":[]},` +
	`{"Pos":[50,50,50],"Kind":"PostSyn","Tags":[],"Prop":{},"Rels":[]}]`

// setup builds the world; any failure here is harness trouble (plain error), except a death of the child.
func (w *world) setup() error {
	post := func(url string, body []byte) (drive.Resp, error) {
		r, f, msg := w.do("POST", url, body)
		if f != fateOK {
			return r, fmt.Errorf("harness: child lost during world setup (%s): %s", url, msg)
		}
		if !r.OK() {
			return r, fmt.Errorf("harness: world setup %s: %s", url, r)
		}
		return r, nil
	}
	r, err := post("repos", []byte(`{"alias":"c20","description":"hostile requests"}`))
	if err != nil {
		return err
	}
	var rr struct{ Root string }
	if json.Unmarshal(r.Body, &rr) != nil || rr.Root == "" {
		return fmt.Errorf("harness: new repo: %s", r)
	}
	w.root = rr.Root
	if r, err = post("repos", []byte(`{"alias":"c20other","description":"foreign repo"}`)); err != nil {
		return err
	}
	var r2 struct{ Root string }
	if json.Unmarshal(r.Body, &r2) != nil || r2.Root == "" {
		return fmt.Errorf("harness: second repo: %s", r)
	}
	w.other = r2.Root
	mk := func(typ, name string, extra map[string]string) error {
		m := map[string]string{"typename": typ, "dataname": name}
		for k, v := range extra {
			m[k] = v
		}
		b, _ := json.Marshal(m)
		_, err := post("repo/"+w.root+"/instance", b)
		return err
	}
	bs := fmt.Sprintf("%d,%d,%d", lmB, lmB, lmB)
	for _, in := range []struct {
		typ, name string
		extra     map[string]string
	}{
		{"keyvalue", "canary", nil}, {"keyvalue", "kv", nil},
		{"labelmap", "lm", map[string]string{"BlockSize": bs, "MaxDownresLevel": "2"}},
		{"labelmap", "lm2", map[string]string{"BlockSize": bs}},
		{"annotation", "ann", map[string]string{"BlockSize": bs}},
		{"labelsz", "sz", nil}, {"neuronjson", "nj", nil},
		{"roi", "roi", map[string]string{"BlockSize": bs}},
		{"uint8blk", "gray", map[string]string{"BlockSize": bs}},
	} {
		if err := mk(in.typ, in.name, in.extra); err != nil {
			return err
		}
	}
	n := "node/" + w.root + "/"
	steps := []struct {
		url  string
		body []byte
	}{
		{n + "ann/sync", []byte(`{"sync":"lm"}`)},
		{n + "sz/sync", []byte(`{"sync":"ann"}`)},
		{n + "canary/key/c", []byte("alive")},
		{n + "kv/key/k0", []byte("value-0")},
		{n + "kv/key/k1", []byte("value-1")},
		{n + "kv/key/k2", []byte(`{"json":[1,2,3]}`)},
		{n + "kv/key/k3", []byte{0, 1, 2, 3, 0xff}},
		{n + "kv/key/k4", []byte("value-4")},
		{n + fmt.Sprintf("lm/raw/0_1_2/%d_%d_%d/0_0_0?compression=gzip", lmExt, lmExt, lmExt), worldVolumeGz()},
		{n + fmt.Sprintf("lm2/raw/0_1_2/%d_%d_%d/0_0_0", lmB, lmB, lmB), u64le(lm2Volume())},
		{n + "ann/elements", []byte(worldElements)},
		{n + "nj/key/10?u=tester", []byte(`{"bodyid":10,"type":"a","size":123}`)},
		{n + "nj/key/20?u=tester", []byte(`{"bodyid":20,"type":"b","group":7}`)},
		{n + "nj/key/3000?u=tester", []byte(`{"bodyid":3000,"type":"a","instance":"x_L"}`)},
		{n + "roi/roi", []byte(`[[0,0,0,1],[0,1,0,0],[1,1,0,1]]`)},
		{n + fmt.Sprintf("gray/raw/0_1_2/%d_%d_%d/0_0_0", lmExt, lmExt, lmExt), grayVolume(lmExt, lmExt, lmExt, 1)},
	}
	for _, s := range steps {
		if _, err := post(s.url, s.body); err != nil {
			return err
		}
	}
	if f, m := w.settle(); f != fateOK {
		return fmt.Errorf("harness: child lost settling the world: %s", m)
	}
	if _, err := post(n+"lm/merge", []byte(`[1,2]`)); err != nil {
		return err
	}
	if f, m := w.settle(); f != fateOK {
		return fmt.Errorf("harness: child lost settling the world: %s", m)
	}
	if len(w.panics) > 0 {
		return fmt.Errorf("harness: world setup met a recovered panic: %s", w.panics[0])
	}
	return nil
}

var worldVolGz []byte

func worldVolumeGz() []byte {
	if worldVolGz == nil {
		worldVolGz = gz(u64le(lmVolume(0, 0, 0, lmExt, lmExt, lmExt, 0)))
	}
	return worldVolGz
}

func lm2Volume() []uint64 {
	v := make([]uint64, lmB*lmB*lmB)
	for i := range v {
		v[i] = 100 + uint64((i/512)%2)
	}
	return v
}

// ---- targeted snapshot: each observable carries the scopes it belongs to; an observable is compared only when
// none of its scopes was named by a request of the case.

type observable struct {
	key    string
	scopes []string
	method string
	url    string
	body   []byte
	canon  string // "", "json" (order-free JSON), "nums" (sorted numbers)
}

func (w *world) observables() []observable {
	n := "node/" + w.root + "/"
	var o []observable
	add := func(scopes []string, url string, canon string, body []byte) {
		o = append(o, observable{key: strings.TrimPrefix(url, n), scopes: scopes, method: "GET", url: url, body: body, canon: canon})
	}
	add([]string{"canary"}, n+"canary/key/c", "", nil)
	add([]string{"canary"}, n+"canary/keys", "", nil)
	add([]string{"kv", "kv:list"}, n+"kv/keys", "", nil)
	for _, k := range kvKeys {
		add([]string{"kv", "kv:" + k}, n+"kv/key/"+k, "", nil)
	}
	box := fmt.Sprintf("%d_%d_%d/0_0_0", lmExt, lmExt, lmExt)
	// voxels through the block stream (compressed, so the read stays cheap; block order is not promised)
	add([]string{"lm"}, n+"lm/blocks/"+box+"?supervoxels=true&compression=blocks", "blocks", nil)
	add([]string{"lm"}, n+"lm/blocks/"+box+"?compression=blocks", "blocks", nil)
	add([]string{"lm"}, n+"lm/raw/0_1_2/"+box+"?compression=lz4", "", nil) // decodes every stored block
	add([]string{"lm"}, n+"lm/mappings", "lines", nil)                     // streamed from a map: line order is not promised
	for _, t := range []string{"maxlabel", "listlabels?sizes=true", "extents"} {
		add([]string{"lm"}, n+"lm/"+t, "", nil)
	}
	for _, b := range []int{1, 3, 4, 5, 6} {
		add([]string{"lm"}, n+fmt.Sprintf("lm/supervoxels/%d", b), "nums", nil)
		add([]string{"lm"}, n+fmt.Sprintf("lm/sparsevol-size/%d", b), "", nil)
	}
	box2 := fmt.Sprintf("%d_%d_%d/0_0_0", lmB, lmB, lmB)
	add([]string{"lm2"}, n+"lm2/mappings", "lines", nil)
	for _, t := range []string{"raw/0_1_2/" + box2 + "?supervoxels=true&compression=lz4", "maxlabel", "listlabels?sizes=true"} {
		add([]string{"lm2"}, n+"lm2/"+t, "", nil)
	}
	add([]string{"ann"}, n+"ann/all-elements", "json", nil)
	for _, t := range []string{"tag/t0?relationships=true", "tag/t1?relationships=true", "label/1?relationships=true", "label/3?relationships=true", "label/5?relationships=true"} {
		add([]string{"ann"}, n+"ann/"+t, "json", nil)
	}
	for _, b := range []int{1, 3, 4, 5, 6} {
		for _, k := range []string{"PostSyn", "PreSyn"} {
			add([]string{"sz"}, n+fmt.Sprintf("sz/count/%d/%s", b, k), "", nil)
		}
	}
	add([]string{"nj", "nj:list"}, n+"nj/keys", "nums", nil)
	for _, id := range njIDs {
		add([]string{"nj", fmt.Sprintf("nj:%d", id)}, n+fmt.Sprintf("nj/key/%d?show=all", id), "", nil)
	}
	add([]string{"roi"}, n+"roi/roi", "", nil)
	add([]string{"gray"}, n+"gray/raw/0_1_2/"+box, "", nil)
	return o
}

type snapshot map[string]string

func digestResp(r drive.Resp, canon string) string {
	b := r.Body
	switch canon {
	case "json":
		return fmt.Sprintf("%d:%s", r.Code, canonJSON(b))
	case "nums":
		return fmt.Sprintf("%d:%s", r.Code, sortedNumbers(b))
	case "blocks":
		return fmt.Sprintf("%d:%s", r.Code, sortedBlockStream(b))
	case "lines":
		ls := strings.Split(string(b), "\n")
		sort.Strings(ls)
		b = []byte(strings.Join(ls, "\n"))
	}
	if len(b) <= 160 {
		return fmt.Sprintf("%d:%q", r.Code, b)
	}
	h := sha1.Sum(b)
	return fmt.Sprintf("%d:sha1=%s len=%d", r.Code, hex.EncodeToString(h[:8]), len(b))
}

func (w *world) snap(obs []observable, skip map[string]bool) (snapshot, fate, string) {
	s := snapshot{}
	for _, o := range obs {
		named := false
		for _, sc := range o.scopes {
			if skip[sc] {
				named = true
			}
		}
		if named {
			continue
		}
		r, f, msg := w.do(o.method, o.url, o.body)
		if f != fateOK {
			return s, f, "reading " + o.key + ": " + msg
		}
		s[o.key] = digestResp(r, o.canon)
	}
	return s, fateOK, ""
}

func diffSnap(a, b snapshot) []string {
	var out []string
	keys := make([]string, 0, len(a))
	for k := range a {
		keys = append(keys, k)
	}
	sort.Strings(keys)
	for _, k := range keys {
		if bv, ok := b[k]; ok && bv != a[k] {
			out = append(out, fmt.Sprintf("%s: %s -> %s", k, a[k], bv))
		}
	}
	return out
}

// canonJSON: arrays of objects sorted by the encoding of their members (element lists have no promised order).
func canonJSON(b []byte) string {
	var v interface{}
	if err := json.Unmarshal(b, &v); err != nil {
		return string(b)
	}
	var canon func(x interface{}) interface{}
	canon = func(x interface{}) interface{} {
		switch t := x.(type) {
		case map[string]interface{}:
			for k, e := range t {
				t[k] = canon(e)
			}
			return t
		case []interface{}:
			enc := make([]string, len(t))
			allObj := len(t) > 0
			for i, e := range t {
				ce := canon(e)
				if _, ok := ce.(map[string]interface{}); !ok {
					allObj = false
				}
				bb, _ := json.Marshal(ce)
				enc[i] = string(bb)
			}
			if allObj {
				sort.Strings(enc)
			}
			out := make([]interface{}, len(t))
			for i, e := range enc {
				out[i] = json.RawMessage(e)
			}
			return out
		}
		return x
	}
	out, _ := json.Marshal(canon(v))
	if len(out) > 160 {
		h := sha1.Sum(out)
		return fmt.Sprintf("canon sha1=%s len=%d", hex.EncodeToString(h[:8]), len(out))
	}
	return string(out)
}

func sortedNumbers(b []byte) string {
	var nums []string
	cur := ""
	for _, ch := range string(b) + " " {
		if ch >= '0' && ch <= '9' {
			cur += string(ch)
		} else if cur != "" {
			nums = append(nums, fmt.Sprintf("%020s", cur))
			cur = ""
		}
	}
	sort.Strings(nums)
	return strings.Join(nums, ",")
}

// sortedBlockStream digests a blocks stream (coord 3 x int32, int32 n, n bytes)* independent of block order.
func sortedBlockStream(b []byte) string {
	var recs []string
	for i := 0; i+16 <= len(b); {
		n := int(int32(binary.LittleEndian.Uint32(b[i+12:])))
		if n < 0 || i+16+n > len(b) {
			recs = append(recs, fmt.Sprintf("malformed@%d", i))
			break
		}
		h := sha1.Sum(b[i+16 : i+16+n])
		recs = append(recs, fmt.Sprintf("%x=%s", b[i:i+12], hex.EncodeToString(h[:6])))
		i += 16 + n
	}
	sort.Strings(recs)
	h := sha1.Sum([]byte(strings.Join(recs, ",")))
	return fmt.Sprintf("blocks=%d sha1=%s", len(recs), hex.EncodeToString(h[:8]))
}
