package c20

/*
FINDINGS of the C20 check on the unchanged tree (/repo at 3b32ba8; line numbers as of that commit), found by TestC20Mutants / TestC20Sweep / TestC20Parsers.

Every signature below has a one-request reproduction in harness/props/c20/replays/ (replayed twice in a fresh world
before it was kept) and a proposed KNOWN_FINDINGS line in harness/props/c20/known_entries.txt.  A signature is
C20/<endpoint>/<mutation class>/<symptom>; the same root cause shows up under several signatures because the
generator steers around a listed finding per (endpoint, mutation class).  Symptoms:
  server-died                 the child process is gone (Go panic outside the recovery middleware, or fatal error)
  panic-500                   the answer is the recovery middleware's 500 "Panic detected on request ..."
  panic-mid-response          the same recovery message appended to a response that had already begun (status stays 200)
  background-panic-recovered  stderr reports "Panic detected on <worker>" outside any request: the worker recovered AND RETURNED
  never-idle                  the server's own Updating()/SyncPending() predicates are not quiet within 25 s (no panic report explains it)
  later-read-panic-500        a well-formed read issued after the request is answered by the recovery middleware
  untouched-data-changed      an observable outside the scopes named by the request reads back differently
  malformed-accepted / -5xx   a payload that is certainly malformed under the documented format got 2xx / a non-panic 5xx (low priority)
All requests are well-formed HTTP against node/<root>/<instance>/...; "world" = harness/props/c20/c20_world_test.go.

---------------------------------------------------------------------------------------------------------------------
F1  labels.Block.setExportedVars trusts the counts embedded in a serialized block
    datatype/common/labels/compressed.go:1807-1864: b.data[16:16+numLabels*8] (1830), b.data[pos:pos+nbytes] (1845, also
    AliasByteToUint16 of an empty slice when gx*gy*gz == 0), b.data[pos:pos+subBlockIndexBytes] (1856) are sliced without
    comparing with len(b.data); UnmarshalBinary (1741) only checks len >= 24.
    Reached from POST blocks and POST ingest-supervoxels through readStreamedBlock (datatype/labelmap/read.go:68), in the
    request goroutine -> recovered -> 500.
    Minimal case: POST lm/blocks with ONE block record whose gzip content is a valid block cut after 308 of 8352 bytes
    (replays/C20-known-labelmap-blocks-inner-trunc-panic-500.json); also numLabels 10 -> 100000, gx 4 -> 0,
    numSBLabels[i] 3 -> 32767, a bit flip in the header.
    Signatures: C20/labelmap/{blocks,ingest-supervoxels}/inner/{trunc,bitflip,field:count,field:dim,field:subcount}/panic-500,
                C20/fuzz/Block.UnmarshalBinary/panic (TestC20Parsers, in-process).
    The property asks for a client error.

F2  UnmarshalBinary accepts blocks that are internally inconsistent; every consumer then indexes out of range
    A block passes setExportedVars when its sections fit its bytes, even if a sub-block table index is >= the number of
    labels (sbIndex 0 -> 2^31-1), numLabels is lowered (10 -> 9) so that existing indices dangle, a sub-block count is
    raised (3 -> 4) so that the value bits run out, gx/gy/gz disagree with the instance's block size (4 -> 1), or the
    packed values are cut short (SBValues = whatever is left, 1862).  Consumers: Block.calcNumLabels (649, 664, 678),
    MakeLabelVolume (1594, 1610 -> getPackedValue 2798), Value, GetPointLabels, WriteRLEs, WriteBinaryBlocks
    (C20/fuzz/Block.views/panic-on-accepted-block lists which view failed).
  F2a POST blocks (indexing on, the default): the panic happens in the per-block callback goroutine of storeBlocks
      (datatype/labelmap/write.go:465 -> labelidx.go:920 handleBlockIndexing -> CalcNumLabels compressed.go:607), which the
      recovery middleware does not cover: THE SERVER PROCESS DIES.  The request itself had not been answered yet.
      Minimal: replays/C20-known-labelmap-blocks-inner-field-index-server-died.json (one 437-byte POST).
      Signatures: C20/labelmap/blocks/inner/{trunc,bitflip,field:count,field:dim,field:index,field:subcount}/server-died.
  F2b POST blocks?noindexing=true: the block is stored and answered 200; the annotation instance synced to the labelmap
      receives the IngestBlockEvent, handleSyncMessage calls MakeLabelVolume (datatype/annotation/sync.go:290) and panics; the
      deferred recover in processEvents (sync.go:225) reports "Panic detected on annotation sync thread" and the event loop
      goroutine RETURNS.  From then on the annotation instance never processes another label event for the life of the
      process (element-to-label denormalisations silently stop following merges/splits), and when more messages are queued
      its SyncPending() stays true for good (BlockOnUpdating callers hang; the harness's settle saw 120 s, now bounded at 25 s).
      Minimal: replays/C20-known-labelmap-blocks-inner-field-index-background-panic-recovered.json.
      Signature: C20/labelmap/blocks/inner/field:index/background-panic-recovered (the never-idle variant appears with >= 2
      blocks in the stream when stderr could not be read).  Only reachable by the generator while the F2a signature of the same
      (endpoint, mutation class) is not listed.
  F2c POST ingest-supervoxels performs no validation beyond F1 and answers 200; the stored block kills the process at the
      next well-formed read of that region: GET raw / blocks decode it in a readChunk goroutine (datatype/labelmap/read.go:247
      -> 322 -> readBlock 352/415 -> MakeLabelVolume).  The harness's snapshot read (GET lm/raw/0_1_2/64_64_64/0_0_0?compression=lz4)
      is that read.  The same happens after POST blocks?noindexing=true&... with dimensions that disagree (gx 4 -> 1).
      Signatures: C20/labelmap/ingest-supervoxels/inner/{trunc,bitflip,field:count,field:dim,field:index,field:subcount}/server-died.
  F2d C20/labelmap/{blocks,ingest-supervoxels}/inner/trunc/malformed-accepted: a block cut inside its packed values (1234 of
      8352 bytes, POST ...?scale=1 where neither indexing nor sync runs) is stored with 200.  Low priority by itself; it is the
      precondition of F2c.

F3  dvid.ReadRLEs allocates 16 bytes per DECLARED span before reading a single one
    dvid/volumes.go:563-583 reads the uint32 span count and calls RLEs.UnmarshalBinaryReader (868), whose first statement is
    make(RLEs, numRLEs) (869).  POST split-supervoxel/<sv> and POST split/<label> (datatype/labelmap/mutate.go:926, 733) with a
    44-byte body declaring 2^32-1 spans request 64 GiB: "fatal error: runtime: out of memory", the process dies.  With 2^31
    spans (32 GiB) the outcome depends on the memory of the machine and on what else is allocated (it died under four parallel
    children, survived alone on the 62 GiB sandbox).  There is no span-count sanity check to drop.
    Minimal: replays/C20-known-labelmap-split-supervoxel-field-count-server-died.json.
    Signatures: C20/labelmap/{split-supervoxel,split}/field:count/server-died.

F4  GET arb far from the origin kills the process
    GET gray/arb/2147483616_0_0/20_0_0/0_20_0/1.0: a worker goroutine of imageblk GetArbitraryImage slices with a negative bound
    (datatype/imageblk/arb_image.go:122, goroutine started at 111) -> unrecovered panic -> the process dies on a GET.
    Signature: C20/uint8blk/arb/url-huge/server-died.

F5  GET arb with resolution 0 / negative: dvid.WriteImageHttp (dvid/image.go:1373, from imageblk.go:2490) panics after the
    response has begun; the client sees status 200 followed by the recovery message.
    Signatures: C20/uint8blk/arb/{url-label,url-neg,url-zero,url-nonnum}/panic-mid-response.

F6  GET mutations-range/<uuid>/<uuid of another repository> (any pair that yields an empty version sequence):
    server.StreamMutationsForSequence logs sequence[0] of an empty slice (server/mutationlog.go:183) after "[" "]" have been
    written.  Reached from labelmap handlers.go:748 and keyvalue.go:1273.  (With short hex strings as bounds the same happens when
    they happen to prefix-match a node of another repository held by the process; the generator avoids such state-dependent values.)
    Signatures: C20/{labelmap,keyvalue}/mutations-range/url-foreign-uuid/panic-mid-response.

F7-F17  request handlers that index URL segments or size arithmetic without checks (all recovered -> 500, a client error is asked for)
    F7  mutations-range with one bound: parts[5]      labelmap handlers.go:739, keyvalue.go:1264      C20/{labelmap,keyvalue}/mutations-range/url-missing/panic-500
    F8  index without a label: parts[4]                labelmap handlers.go:349                         C20/labelmap/{index-get,index-post-url}/url-missing/panic-500
    F9  proximity: the documented form proximity/<l1>,<l2> is answered 400 (ParseUint of "1,3"); the served form is
        proximity/<l1>/<l2> and indexes parts[4], parts[5] unchecked (handlers.go:276, 281)               C20/labelmap/proximity/{url-missing,url-huge,url-label,url-nonnum}/panic-500
    F10 GET blocks/-64_64_64/0_0_0: make(chan, negative) in sendBlocksVolume (labelmap/blocks.go:520)     C20/labelmap/blocks-get/url-neg/panic-500
    F11 GET raw|isotropic|pseudocolor 2d, size 2147483647_2147483647: NewLabels makeslice (labelmap.go:2477) C20/labelmap/{raw-2d,isotropic,pseudocolor}/url-huge/panic-500
    F12 GET pseudocolor/0_1/-32_-32/0_0_0: colorImage slices out of range (labelmap.go:2726)              C20/labelmap/pseudocolor/url-neg/panic-500
    F13 GET sparsevol-by-point/1_2 or /1_2_3_4_5_6_7_8_9: interface conversion ChunkPoint2d / Point3d.Value index
        (dvid/point.go:451, 1012 via labelmap/points.go:22)                                              C20/labelmap/sparsevol-by-point/url-nonnum/panic-500
    F14 POST merge with body [] : MergeTuple.Op indexes t[0] (labels/events.go:94 via handlers.go:1817)   C20/labelmap/merge/{json-empty,json-value}/panic-500
    F15 GET roi mask with size -64_64_64 or 100000^3: GetMask makeslice (roi/roi.go:735)                  C20/roi/mask/{url-neg,url-huge}/panic-500
    F16 GET uint8blk blocks/0_0_0/-2 | -1 | 2147483647: GetBlocks makeslice (imageblk/read.go:481)        C20/uint8blk/blocks-get/{url-neg,url-label,url-huge}/panic-500
    F17 GET subvolblocks/64_64_64 (no offset): parts[5] (imageblk/imageblk.go:2388)                       C20/uint8blk/subvolblocks/url-missing/panic-500

F18 POST raw?compression=lz4 whose payload decompresses to FEWER bytes than <size> says is accepted (200) and the missing voxels are
    written as zeros: uncompressReaderData decompresses into a zeroed buffer of the expected size and ignores how much was decoded
    (datatype/labelmap/compression.go:39-43), so PutLabels' length check (write.go:44) cannot notice.
    Signature: C20/labelmap/raw/inner/trunc/malformed-accepted (low priority).

Observations that are NOT reported as violations (named data may change on a refused request):
  * handleIndex (handlers.go:372) and handleMappings (handlers.go:660-668) answer 400 on a protobuf that does not parse but do not
    return: the partially decoded index / mappings are then stored.
  * POST blocks / ingest-supervoxels apply the records of a stream in order: the records before a bad one stay stored although the
    request is answered 400.
  * 400 is used for every kind of failure; no non-panic 5xx was ever seen (C20/.../malformed-5xx has no member).

Check corrections made while building (not defects of the code under test):
  * GET mappings streams from a map: line order differs between two reads -> compared as a set of lines.
  * labels.MakeBlock orders its label table by map iteration, so the "same" parent block differed between runs -> the harness
    has its own deterministic encoder of the documented format (encodeBlock, checked against the repository's decoder).
  * hostile values for UUID segments must not be short hex strings: they prefix-match nodes of other repositories that the reused
    child still holds (findings that depend on the state of earlier cases do not reproduce in a fresh process).
  * a death is summarised from the whole stderr written since the case began (a fatal error is followed by a goroutine dump far
    longer than any tail).

Sensitivity (scratch copy of /repo, findings listed, quick-size runs: 4 shards):
  M1 recovery middleware removed (server/web.go:749)                    caught: server-died on panic shapes not yet listed (2/4 sweep shards, 13 s); every listed panic-500 replay turns into server-died in the replay tier
  M2 keyvalue keyrange: len(parts) check removed (keyvalue.go:687)      caught by 4/4 sweep shards (15 s), 1/4 shards of the random lists (29 s): C20/keyvalue/keyrange/url-missing/panic-500
  M3 PutLabels body-length check removed (labelmap/write.go:44)         caught by 4/4 shards of both tests within 7 s: C20/labelmap/raw/trunc/{server-died,malformed-accepted}
  M5 DELETE key of a missing key removes its successor                  caught by 2/4 (lists) and 1/4 (sweep): C20/keyvalue/key-delete/url-neg/untouched-data-changed (kv/key/k0 gone)
*/
