package c20

import (
	"bytes"
	"encoding/json"
	"fmt"
	"strings"
	"testing"

	"pgregory.net/rapid"

	pb "google.golang.org/protobuf/proto"

	"github.com/janelia-flyem/dvid/datatype/annotation"
	"github.com/janelia-flyem/dvid/datatype/common/labels"
	"github.com/janelia-flyem/dvid/datatype/common/proto"
	"github.com/janelia-flyem/dvid/dvid"

	"verif/stats"
)

// Native fuzz targets (thorough tier): the parsers behind the ingestion endpoints, in-process and pure.  Oracle:
// no panic; for accepted inputs a validity predicate where one exists (an accepted block can be read through every
// view a read handler uses; an accepted document survives re-encoding).

func fuzzFail(t *testing.T, err error) {
	if err == nil {
		return
	}
	if sig := stats.SigOf(err); sig != "" && stats.IsKnown(sig) {
		return // listed finding: the campaign continues behind it
	}
	fmt.Printf("REPLAY-FAIL sig=%s msg=%s\n", stats.SigOf(err), err.Error())
	t.Fatalf("%v", err)
}

// runBlockOutput drives WriteRLEs / WriteBinaryBlocks the way the datatypes do (writer goroutine fed through an
// OutputOp) but survives a panic of the writer.
func runBlockOutput(kind string, sel labels.Set, main uint64, pblk *labels.PositionedBlock) (panicked interface{}) {
	var buf bytes.Buffer
	op := labels.NewOutputOp(&buf)
	pch := make(chan interface{}, 1)
	go func() {
		defer func() {
			if r := recover(); r != nil {
				pch <- r
			}
		}()
		if kind == "rle" {
			labels.WriteRLEs(sel, op, dvid.Bounds{})
		} else {
			labels.WriteBinaryBlocks(main, sel, op, dvid.Bounds{})
		}
	}()
	op.Process(pblk)
	done := make(chan error, 1)
	go func() { done <- op.Finish() }()
	select {
	case <-done:
		return nil
	case r := <-pch:
		return r
	}
}

func fuzzBlock(data []byte) error {
	if len(data) >= 12 {
		// keep the decoded volume small: at most 4x4x4 sub-blocks (a parser bug does not need a big block)
		for i := 0; i < 3; i++ {
			if g := uint32(data[4*i]) | uint32(data[4*i+1])<<8 | uint32(data[4*i+2])<<16 | uint32(data[4*i+3])<<24; g > 4 {
				return nil
			}
		}
	}
	var b labels.Block
	if err := stats.PanicGuard("C20/fuzz/Block.UnmarshalBinary/panic", func() error { b.UnmarshalBinary(data); return nil }); err != nil {
		return err
	}
	var b2 labels.Block
	if b2.UnmarshalBinary(data) != nil {
		return nil
	}
	// the block was accepted: every view a read handler uses must work on it
	views := []struct {
		name string
		f    func()
	}{
		{"MakeLabelVolume", func() { b2.MakeLabelVolume() }},
		{"CalcNumLabels", func() { b2.CalcNumLabels(nil) }},
		{"Value", func() {
			b2.Value(dvid.Point3d{0, 0, 0})
			b2.Value(dvid.Point3d{b2.Size[0] - 1, b2.Size[1] - 1, b2.Size[2] - 1})
		}},
		{"GetPointLabels", func() {
			b2.GetPointLabels([]dvid.Point3d{{0, 0, 0}, {b2.Size[0] / 2, b2.Size[1] / 2, b2.Size[2] / 2}, {b2.Size[0] - 1, b2.Size[1] - 1, b2.Size[2] - 1}})
		}},
		{"MarshalBinary", func() { b2.MarshalBinary() }},
		{"ReplaceLabels", func() { b2.ReplaceLabels(map[uint64]uint64{1: 2}) }},
		{"WriteGoogleCompression", func() { var buf bytes.Buffer; b2.WriteGoogleCompression(&buf) }},
	}
	for _, v := range views {
		if b2.Size[0] <= 0 || b2.Size[1] <= 0 || b2.Size[2] <= 0 {
			break
		}
		// one signature for all views: the defect is that UnmarshalBinary accepted the block
		if err := stats.PanicGuard("C20/fuzz/Block.views/panic-on-accepted-block", func() error { v.f(); return nil }); err != nil {
			return stats.Violf(stats.SigOf(err), "%s on a block UnmarshalBinary accepted: %v", v.name, err)
		}
	}
	if len(b2.Labels) > 0 && b2.Size[0] > 0 && b2.Size[1] > 0 && b2.Size[2] > 0 {
		sel := labels.Set{b2.Labels[0]: struct{}{}}
		pblk := &labels.PositionedBlock{Block: b2, BCoord: dvid.ChunkPoint3d{1, 2, 3}.ToIZYXString()}
		if r := runBlockOutput("rle", sel, b2.Labels[0], pblk); r != nil {
			return stats.Violf("C20/fuzz/Block.views/panic-on-accepted-block", "WriteRLEs on a block UnmarshalBinary accepted: panic: %v", r)
		}
		if r := runBlockOutput("bin", sel, b2.Labels[0], pblk); r != nil {
			return stats.Violf("C20/fuzz/Block.views/panic-on-accepted-block", "WriteBinaryBlocks on a block UnmarshalBinary accepted: panic: %v", r)
		}
	}
	return nil
}

// addSeed adds a corpus seed unless it already fails the oracle: a failing seed would stop the fuzzing engine before
// it starts (the structured mutants that fail are reported by TestC20Parsers with a replayable case instead).
func addSeed(f *testing.F, check func([]byte) error, data []byte) {
	if err := check(data); err == nil || stats.IsKnown(stats.SigOf(err)) {
		f.Add(data)
	}
}

func FuzzC20BlockUnmarshal(ff *testing.F) {
	f := seedAdder{ff, fuzzBlock}
	for v := 0; v < 6; v++ {
		ser := serBlock(v)
		f.Add(ser)
		l := blockLayout(ser)
		for a := 0; a < len(l.fields); a += 3 {
			for b := 0; b < 12; b += 5 {
				f.Add(applyBytes(&l, mutSpec{Kind: "field", A: a, B: b}, "").body)
			}
		}
		f.Add(ser[:len(ser)/2])
		f.Add(ser[:24])
	}
	small := encodeBlock(make([]uint64, 512), 1)
	f.Add(small)
	f.Add([]byte{1, 0, 0, 0, 1, 0, 0, 0, 1, 0, 0, 0, 2, 0, 0, 0, 1, 0, 0, 0, 0, 0, 0, 0, 2, 0, 0, 0, 0, 0, 0, 0, 2, 0, 0, 0, 0, 0, 1, 0, 0, 0})
	ff.Fuzz(func(t *testing.T, data []byte) { fuzzFail(t, fuzzBlock(data)) })
}

func fuzzElements(data []byte) error {
	return stats.PanicGuard("C20/fuzz/annotation.Elements/panic", func() error {
		var elems annotation.Elements
		if err := json.Unmarshal(data, &elems); err != nil {
			return nil
		}
		norm := elems.Normalize()
		if len(norm) != len(elems) {
			return stats.Violf("C20/fuzz/annotation.Elements/normalize-changes-count", "%d elements, %d after Normalize", len(elems), len(norm))
		}
		out, err := json.Marshal(norm)
		if err != nil {
			return stats.Violf("C20/fuzz/annotation.Elements/accepted-but-not-encodable", "%v", err)
		}
		var back annotation.Elements
		if err := json.Unmarshal(out, &back); err != nil {
			return stats.Violf("C20/fuzz/annotation.Elements/re-encoding-not-decodable", "%v: %s", err, clip(string(out), 300))
		}
		if len(back) != len(elems) {
			return stats.Violf("C20/fuzz/annotation.Elements/round-trip-changes-count", "%d elements, %d after a round trip", len(elems), len(back))
		}
		for i := range back {
			if back[i].Pos != elems[i].Pos && !norm[i].Pos.Equals(back[i].Pos) {
				return stats.Violf("C20/fuzz/annotation.Elements/round-trip-changes-position", "element %d", i)
			}
		}
		var nr annotation.ElementsNR
		json.Unmarshal(data, &nr)
		var blocks map[string]annotation.Elements
		json.Unmarshal(data, &blocks)
		return nil
	})
}

type seedAdder struct {
	f     *testing.F
	check func([]byte) error
}

func (s seedAdder) Add(data []byte) { addSeed(s.f, s.check, data) }

func FuzzC20Elements(ff *testing.F) {
	f := seedAdder{ff, fuzzElements}
	f.Add([]byte(worldElements))
	probe := &world{root: "00000000000000000000000000000000"}
	for a := 0; a < 6; a++ {
		p := buildElements(probe, baseSpec{A: a, B: a + 1, C: a + 2})
		f.Add(p.outer.data)
		for _, k := range []string{"json-value", "json-delkey", "json-arr-shorten", "json-arr-dup", "json-syntax"} {
			for m := 0; m < 40; m += 7 {
				f.Add(jsonMutate(p.outer.data, mutSpec{Kind: k, A: m, B: m / 3}).body)
			}
		}
	}
	f.Add(buildAnnBlocks(probe, baseSpec{1, 2, 3}).outer.data)
	ff.Fuzz(func(t *testing.T, data []byte) { fuzzFail(t, fuzzElements(data)) })
}

func fuzzLabelIndices(data []byte) error {
	return stats.PanicGuard("C20/fuzz/LabelIndices/panic", func() error {
		use := func(pi *proto.LabelIndex) error {
			if pi == nil {
				return nil
			}
			enc, err := pb.Marshal(pi)
			if err != nil {
				return stats.Violf("C20/fuzz/LabelIndex/accepted-but-not-encodable", "%v", err)
			}
			idx := new(labels.Index) // as the index handler does
			if err := pb.Unmarshal(enc, idx); err != nil {
				return stats.Violf("C20/fuzz/LabelIndex/re-encoding-not-decodable", "%v", err)
			}
			idx.NumVoxels()
			idx.GetSupervoxels()
			idx.GetBlockIndices()
			idx.GetSupervoxelCounts()
			idx.GetSupervoxelCount(idx.Label)
			idx.GetProcessedBlockIndices(0, dvid.Bounds{}, 0)
			idx.GetProcessedBlockIndices(1, dvid.Bounds{}, idx.Label)
			idx.LimitToSupervoxel(idx.Label)
			idx.StringDump(true)
			ser, err := pb.Marshal(&idx.LabelIndex)
			if err != nil {
				return stats.Violf("C20/fuzz/LabelIndex/accepted-but-not-encodable", "%v", err)
			}
			var back proto.LabelIndex
			if err := pb.Unmarshal(ser, &back); err != nil {
				return stats.Violf("C20/fuzz/LabelIndex/re-encoding-not-decodable", "%v", err)
			}
			if back.Label != pi.Label || len(back.Blocks) != len(pi.Blocks) {
				return stats.Violf("C20/fuzz/LabelIndex/round-trip-differs", "label %d -> %d, %d -> %d blocks", pi.Label, back.Label, len(pi.Blocks), len(back.Blocks))
			}
			idx2 := new(labels.Index)
			pb.Unmarshal(enc, idx2)
			idx.Add(idx2, dvid.MutInfo{})
			idx.Cleave(idx.Label+1, []uint64{idx.Label}, dvid.MutInfo{})
			return nil
		}
		var indices proto.LabelIndices
		if pb.Unmarshal(data, &indices) == nil {
			for _, pi := range indices.Indices {
				if err := use(pi); err != nil {
					return err
				}
			}
		}
		var one proto.LabelIndex
		if pb.Unmarshal(data, &one) == nil {
			if err := use(&one); err != nil {
				return err
			}
		}
		var ops proto.MappingOps
		if pb.Unmarshal(data, &ops) == nil {
			for _, op := range ops.Mappings {
				_ = op.GetOriginal()
			}
		}
		var kvs proto.KeyValues
		pb.Unmarshal(data, &kvs)
		return nil
	})
}

func FuzzC20LabelIndexProto(ff *testing.F) {
	f := seedAdder{ff, fuzzLabelIndices}
	probe := &world{root: "00000000000000000000000000000000"}
	for a := 0; a < 8; a++ {
		for _, build := range []func(*world, baseSpec) payload{buildIndex, buildIndices, buildMappings} {
			p := build(probe, baseSpec{A: a, B: a * 2, C: a * 3})
			f.Add(p.outer.data)
			for m := 0; m < len(p.outer.fields); m += 2 {
				for c := 0; c < 10; c += 3 {
					f.Add(applyBytes(&p.outer, mutSpec{Kind: "field", A: m, B: c}, "").body)
				}
			}
		}
	}
	ff.Fuzz(func(t *testing.T, data []byte) { fuzzFail(t, fuzzLabelIndices(data)) })
}

// ---- TestC20Parsers: the same structure-aware mutants as TestC20Mutants, fed in-process to the pure parsers
// (thousands per second), so that every failing input is a replayable generated case.

type parserCase struct {
	Fam  string   `json:"fam"`
	Base baseSpec `json:"base"`
	Mut  mutSpec  `json:"mut"`
}

var parserFams = []string{"labelmap/blocks", "labelmap/blocks", "annotation/elements", "annotation/blocks", "labelmap/index", "labelmap/indices", "labelmap/mappings", "keyvalue/keyvalues"}

func checkParser(c parserCase) (differs bool, err error) {
	probe := &world{root: "00000000000000000000000000000000"}
	f := familyByName(c.Fam)
	if f == nil {
		return false, fmt.Errorf("harness: unknown family %q", c.Fam)
	}
	p := f.build(probe, c.Base)
	switch c.Fam {
	case "labelmap/blocks":
		mu := applyBytes(p.inner, c.Mut, "inner/")
		return mu.differs, fuzzBlock(mu.body)
	case "annotation/elements", "annotation/blocks":
		var mu mutated
		if strings.HasPrefix(c.Mut.Kind, "json-") {
			mu = jsonMutate(p.outer.data, c.Mut)
		} else {
			mu = applyBytes(&p.outer, c.Mut, "")
		}
		return mu.differs, fuzzElements(mu.body)
	default:
		mu := applyBytes(&p.outer, c.Mut, "")
		return mu.differs, fuzzLabelIndices(mu.body)
	}
}

func TestC20Parsers(t *testing.T) {
	rapid.Check(t, func(t *rapid.T) {
		var c parserCase
		c.Fam = rapid.SampledFrom(parserFams).Draw(t, "fam")
		c.Base = baseSpec{A: rapid.IntRange(0, 40).Draw(t, "ba"), B: rapid.IntRange(0, 40).Draw(t, "bb"), C: rapid.IntRange(0, 40).Draw(t, "bc")}
		kinds := binKinds
		if strings.HasPrefix(c.Fam, "annotation/") {
			kinds = jsonKinds
		}
		c.Mut = mutSpec{Kind: rapid.SampledFrom(kinds).Draw(t, "kind"), A: rapid.IntRange(0, 1000).Draw(t, "ma"), B: rapid.IntRange(0, 63).Draw(t, "mb"), C: rapid.IntRange(0, 63).Draw(t, "mc")}
		differs, err := checkParser(c)
		if collect(err, mutCase{}) {
			return
		}
		if !stats.Judge(t, "C20", "TestC20Parsers", err, c) {
			return
		}
		stats.Record(stats.HashJSON(c), differs, []string{"parser/" + c.Fam + "|" + c.Mut.Kind}, func() interface{} { return c })
	})
}
