package c20

import (
	"bytes"
	"compress/gzip"
	"encoding/binary"
	"fmt"
	"strings"

	lz4 "github.com/janelia-flyem/go/golz4-updated"

	"github.com/janelia-flyem/dvid/datatype/common/labels"
)

// payload is a VALID request built from generated parameters, together with the structure the mutations need.
type payload struct {
	ep     string // endpoint family (signature fragment)
	method string
	url    string
	outer  layer
	inner  *layer                    // bytes inside the compression wrapper of one record
	rewrap func(inner []byte) []byte // rebuilds the body around mutated inner bytes
	isJSON bool
	named  []string // scopes named by the request (see world.observables)
}

type baseSpec struct {
	A int `json:"a"`
	B int `json:"b"`
	C int `json:"c"`
}

type family struct {
	name  string
	build func(w *world, b baseSpec) payload
	kinds []string // mutation kinds that make sense for the payload
	inner bool     // has an inner layer
}

var binKinds = []string{"none", "trunc", "trunc-boundary", "bitflip", "field", "field", "field", "extend"}
var jsonKinds = []string{"none", "json-syntax", "json-empty", "json-deep", "json-value", "json-value", "json-value", "json-delkey", "json-arr-shorten", "json-arr-dup", "trunc", "bitflip"}
var rawKinds = []string{"none", "trunc", "bitflip", "extend", "trunc"}

func gz(b []byte) []byte {
	var buf bytes.Buffer
	zw := gzip.NewWriter(&buf)
	zw.Write(b)
	zw.Close()
	return buf.Bytes()
}

func lz(b []byte) []byte {
	out := make([]byte, lz4.CompressBound(b))
	n, err := lz4.Compress(b, out)
	if err != nil {
		return nil
	}
	return out[:n]
}

// blockVoxels paints one 32^3 block: sub-blocks with one, two and many labels, labels from the world's bodies plus
// a few new ones, depending on the variant.
func blockVoxels(variant int) []uint64 {
	v := make([]uint64, lmB*lmB*lmB)
	if variant%5 == 4 { // solid block
		for i := range v {
			v[i] = uint64(3 + variant%3)
		}
		return v
	}
	i := 0
	for z := 0; z < lmB; z++ {
		for y := 0; y < lmB; y++ {
			for x := 0; x < lmB; x++ {
				sb := x/8 + 4*(y/8) + 16*(z/8)
				var l uint64
				switch sb % 4 {
				case 0:
					l = uint64(1 + (sb/4+variant)%6)
				case 1:
					l = uint64(3 + (x+variant)%2)
				case 2:
					l = uint64(1 + (x*7+y*3+z+variant)%9) // up to 9 labels in a sub-block
				default:
					if (x+y+z+variant)%5 == 0 {
						l = 0
					} else {
						l = uint64(5 + (y/4)%2)
					}
				}
				v[i] = l
				i++
			}
		}
	}
	return v
}

func serBlock(variant int) []byte { return encodeBlock(blockVoxels(variant), lmB/8) }

// encodeBlock writes the documented Block serialization for a cubic block of g^3 sub-blocks.  Label tables are in
// order of first appearance, so the bytes are a pure function of the voxels (the repository's MakeBlock orders its
// table by map iteration).
func encodeBlock(vox []uint64, g int) []byte {
	n := 8 * g
	tblIdx := map[uint64]uint32{}
	var tbl []uint64
	var counts []uint16
	var indices []uint32
	var values []byte
	for sz := 0; sz < g; sz++ {
		for sy := 0; sy < g; sy++ {
			for sx := 0; sx < g; sx++ {
				local := map[uint64]uint16{}
				var order []uint64
				var seq []uint16
				for z := 0; z < 8; z++ {
					for y := 0; y < 8; y++ {
						for x := 0; x < 8; x++ {
							l := vox[(sz*8+z)*n*n+(sy*8+y)*n+sx*8+x]
							k, ok := local[l]
							if !ok {
								k = uint16(len(order))
								local[l] = k
								order = append(order, l)
							}
							seq = append(seq, k)
						}
					}
				}
				counts = append(counts, uint16(len(order)))
				for _, l := range order {
					gi, ok := tblIdx[l]
					if !ok {
						gi = uint32(len(tbl))
						tblIdx[l] = gi
						tbl = append(tbl, l)
					}
					indices = append(indices, gi)
				}
				if len(order) > 1 {
					bits := 0
					for v := len(order) - 1; v > 0; v >>= 1 {
						bits++
					}
					var acc uint32
					nacc := 0
					for _, k := range seq {
						acc = acc<<uint(bits) | uint32(k)
						nacc += bits
						for nacc >= 8 {
							values = append(values, byte(acc>>uint(nacc-8)))
							nacc -= 8
						}
					}
					if nacc > 0 {
						values = append(values, byte(acc<<uint(8-nacc)))
					}
				}
			}
		}
	}
	out := make([]byte, 16, 16+8*len(tbl)+2*len(counts)+4*len(indices)+len(values))
	binary.LittleEndian.PutUint32(out[0:], uint32(g))
	binary.LittleEndian.PutUint32(out[4:], uint32(g))
	binary.LittleEndian.PutUint32(out[8:], uint32(g))
	binary.LittleEndian.PutUint32(out[12:], uint32(len(tbl)))
	out = append(out, u64le(tbl)...)
	if len(tbl) <= 1 {
		return out
	}
	for _, c := range counts {
		out = append(out, byte(c), byte(c>>8))
	}
	for _, i := range indices {
		out = append(out, byte(i), byte(i>>8), byte(i>>16), byte(i>>24))
	}
	return append(out, values...)
}

// blockStream builds the documented stream (3 x int32 coord, int32 n, n bytes gzip(block)) and its layout.
func blockStream(coords [][3]int32, sers [][]byte) layer {
	var l layer
	for i, c := range coords {
		base := len(l.data)
		for k, n := range []string{"bx", "by", "bz"} {
			l.fields = append(l.fields, field{Name: n, Class: "coord", Off: base + 4*k, W: 4, N: uint64(uint32(c[k]))})
		}
		z := gz(sers[i])
		l.fields = append(l.fields, field{Name: "numBytes", Class: "len", Off: base + 12, W: 4, Rec: 1, N: uint64(len(z))})
		var hdr [16]byte
		binary.LittleEndian.PutUint32(hdr[0:], uint32(c[0]))
		binary.LittleEndian.PutUint32(hdr[4:], uint32(c[1]))
		binary.LittleEndian.PutUint32(hdr[8:], uint32(c[2]))
		binary.LittleEndian.PutUint32(hdr[12:], uint32(len(z)))
		l.data = append(append(l.data, hdr[:]...), z...)
		l.cuts = append(l.cuts, len(l.data))
	}
	return l
}

func buildBlocks(ep, tail string) func(w *world, b baseSpec) payload {
	return func(w *world, b baseSpec) payload {
		nb := 1 + b.A%3
		var coords [][3]int32
		var sers [][]byte
		for i := 0; i < nb; i++ {
			k := (b.B + i) % 10
			c := [3]int32{int32(k % 2), int32((k / 2) % 2), int32((k / 4) % 2)}
			if k >= 8 { // blocks outside the stored volume
				c = [3]int32{2, int32(k - 8), 0}
			}
			coords = append(coords, c)
			sers = append(sers, serBlock(b.C+i))
		}
		q := ""
		switch ep {
		case "labelmap/blocks":
			q = []string{"", "", "?downres=true", "?noindexing=true", "?scale=1", "?compression=blocks"}[b.C%6]
		case "labelmap/ingest-supervoxels":
			q = []string{"", "?scale=1", "?scale=0"}[b.C%3]
		}
		p := payload{ep: ep, method: "POST", url: "node/" + w.root + "/lm/" + tail + q, named: []string{"lm", "ann", "sz"}}
		p.outer = blockStream(coords, sers)
		// the inner layer is the serialized block of the last record
		last := nb - 1
		il := blockLayout(sers[last])
		p.inner = &il
		p.rewrap = func(inner []byte) []byte {
			s2 := append([][]byte{}, sers...)
			s2[last] = inner
			return blockStream(coords, s2).data
		}
		return p
	}
}

func p3(x, y, z int) string { return fmt.Sprintf("%d_%d_%d", x, y, z) }

func buildLMRaw(w *world, b baseSpec) payload {
	// one or two blocks, block aligned, inside or next to the stored volume
	sx := lmB * (1 + b.A%2)
	ox, oy, oz := lmB*(b.B%3), lmB*((b.B/3)%2), lmB*((b.B/6)%2)
	raw := u64le(lmVolume(ox, oy, oz, sx, lmB, lmB, b.C%4))
	var q []string
	if b.C%2 == 1 || ox < lmExt {
		q = append(q, "mutate=true") // blocks that hold data are only overwritten as mutations
	}
	p := payload{ep: "labelmap/raw", method: "POST", named: []string{"lm", "ann", "sz"}}
	comp := []string{"", "", "gzip", "lz4"}[b.A/2%4]
	switch comp {
	case "":
		p.outer = layer{data: raw, rec: 8}
	case "gzip":
		q = append(q, "compression=gzip")
		p.outer = layer{data: gz(raw)}
		p.inner = &layer{data: raw, rec: 8}
		p.rewrap = gz
	case "lz4":
		q = append(q, "compression=lz4")
		p.outer = layer{data: lz(raw), anyCutOK: true} // an LZ4 block carries no length: a prefix may decode
		p.inner = &layer{data: raw, rec: 8}
		p.rewrap = lz
	}
	p.url = fmt.Sprintf("node/%s/lm/raw/0_1_2/%s/%s", w.root, p3(sx, lmB, lmB), p3(ox, oy, oz))
	if len(q) > 0 {
		p.url += "?" + strings.Join(q, "&")
	}
	return p
}

// rleBody is the documented binary sparse volume: header, #spans, runs.
func rleBody(runs [][4]int32) layer {
	var l layer
	b := make([]byte, 12, 12+16*len(runs))
	b[1] = 3
	binary.LittleEndian.PutUint32(b[8:], uint32(len(runs)))
	l.fields = append(l.fields,
		field{Name: "payloadDescriptor", Class: "flag", Off: 0, W: 1, N: 0},
		field{Name: "numDims", Class: "flag", Off: 1, W: 1, N: 3},
		field{Name: "dimOfRun", Class: "flag", Off: 2, W: 1, N: 0},
		field{Name: "numVoxels", Class: "flag", Off: 4, W: 4, N: 0},
		field{Name: "numSpans", Class: "count", Off: 8, W: 4, Rec: 16, N: uint64(len(runs))})
	for i, r := range runs {
		o := len(b)
		var t [16]byte
		for k := 0; k < 4; k++ {
			binary.LittleEndian.PutUint32(t[4*k:], uint32(r[k]))
		}
		b = append(b, t[:]...)
		if i == 0 || i == len(runs)-1 || i == len(runs)/2 {
			for k, n := range []string{"runX", "runY", "runZ"} {
				l.fields = append(l.fields, field{Name: n, Class: "coord", Off: o + 4*k, W: 4, N: uint64(uint32(r[k]))})
			}
			l.fields = append(l.fields, field{Name: "runLength", Class: "runlen", Off: o + 12, W: 4, N: uint64(uint32(r[3]))})
		}
	}
	l.data = b
	// the span count is declared up front: no truncation leaves a well-formed volume
	return l
}

// runsOfLabel lists the x-runs of a supervoxel of the world inside one 16^3 cell (a proper subset of the supervoxel).
func runsOfLabel(sv uint64, cell, rows int) [][4]int32 {
	cx, cy, cz := 16*(cell%4), 16*((cell/4)%4), 16*(cell/16)
	var runs [][4]int32
	for z := cz; z < cz+16 && len(runs) < rows; z++ {
		for y := cy; y < cy+16 && len(runs) < rows; y++ {
			start := -1
			for x := cx; x <= cx+16; x++ {
				in := x < cx+16 && lmLabelAt(x, y, z, 0) == sv
				if in && start < 0 {
					start = x
				}
				if !in && start >= 0 {
					runs = append(runs, [4]int32{int32(start), int32(y), int32(z), int32(x - start)})
					start = -1
				}
			}
		}
	}
	return runs
}

func buildSplitSV(w *world, b baseSpec) payload {
	sv := uint64(3 + b.A%4) // supervoxels 3..6, each its own body
	cell := int(sv-1) + 6*(b.B%3)
	runs := runsOfLabel(sv, cell, 2+b.C%30)
	q := []string{"", "", "?downres=false", "?split=900&remain=901"}[b.B/3%4]
	p := payload{ep: "labelmap/split-supervoxel", method: "POST", named: []string{"lm", "ann", "sz"}}
	p.url = fmt.Sprintf("node/%s/lm/split-supervoxel/%d%s", w.root, sv, q)
	p.outer = rleBody(runs)
	return p
}

func buildSplit(w *world, b baseSpec) payload {
	body := uint64(1 + b.A%6)
	if body == 2 {
		body = 1
	}
	cell := int(body-1) + 6*(b.B%3)
	runs := runsOfLabel(body, cell, 2+b.C%30)
	p := payload{ep: "labelmap/split", method: "POST", named: []string{"lm", "ann", "sz"}}
	p.url = fmt.Sprintf("node/%s/lm/split/%d", w.root, body)
	p.outer = rleBody(runs)
	return p
}

// labelIndexPB encodes a LabelIndex (blocks map, label, last_mut_id, strings) with remembered field positions.
func labelIndexPB(label uint64, blocks [][3]int32, svs []uint64, counts []uint32, meta bool) *pbuf {
	p := &pbuf{}
	for i, bc := range blocks {
		// SVCount { map<uint64,uint32> counts = 1 }
		svc := &pbuf{}
		for j, sv := range svs {
			e := &pbuf{}
			e.varField(1, fmt.Sprintf("sv"), "label", sv)
			e.varField(2, "count", "count", uint64(counts[(i+j)%len(counts)]))
			svc.lenField(1, "countsEntryLen", e.b, e.fields)
		}
		ent := &pbuf{}
		ent.varField(1, "blockKey", "coord", labels.EncodeBlockIndex(bc[0], bc[1], bc[2]))
		ent.lenField(2, "svCountLen", svc.b, svc.fields)
		var sub []field
		if i == 0 || i == len(blocks)-1 {
			sub = ent.fields
		}
		p.lenField(1, "blocksEntryLen", ent.b, sub)
		p.mark()
	}
	p.varField(2, "label", "label", label)
	p.mark()
	if meta {
		p.varField(3, "lastMutID", "label", 77)
		p.mark()
		p.lenField(4, "lastModTimeLen", []byte("2020-01-02T03:04:05Z"), nil)
		p.mark()
		p.lenField(5, "lastModUserLen", []byte("tester"), nil)
		p.mark()
	}
	return p
}

func indexSpec(b baseSpec) (label uint64, blocks [][3]int32, svs []uint64, counts []uint32) {
	label = []uint64{3, 4, 50, 1, 1 << 40}[b.A%5]
	nb := b.B % 4 // 0 blocks = documented deletion of the index
	for i := 0; i < nb; i++ {
		blocks = append(blocks, [3]int32{int32(i % 2), int32(i / 2), int32(b.C % 2)})
	}
	if b.B%7 == 6 {
		blocks = append(blocks, [3]int32{-1, 5, 1000})
	}
	svs = []uint64{label}
	if b.C%3 == 1 {
		svs = append(svs, label+100)
	}
	counts = []uint32{uint32(10 + b.C), 512, 1}
	return
}

func buildIndex(w *world, b baseSpec) payload {
	label, blocks, svs, counts := indexSpec(b)
	pb := labelIndexPB(label, blocks, svs, counts, b.C%2 == 0)
	p := payload{ep: "labelmap/index", method: "POST", named: []string{"lm", "ann", "sz"}}
	p.url = fmt.Sprintf("node/%s/lm/index/%d", w.root, label)
	p.outer = pb.layer()
	return p
}

func buildIndices(w *world, b baseSpec) payload {
	top := &pbuf{}
	n := 1 + b.A%3
	for i := 0; i < n; i++ {
		label, blocks, svs, counts := indexSpec(baseSpec{A: b.A + i, B: b.B + i, C: b.C})
		pb := labelIndexPB(label, blocks, svs, counts, i%2 == 0)
		var sub []field
		if i == n-1 {
			sub = pb.fields
		}
		top.lenField(1, "indexLen", pb.b, sub)
		top.mark()
	}
	p := payload{ep: "labelmap/indices", method: "POST", named: []string{"lm", "ann", "sz"}}
	p.url = "node/" + w.root + "/lm/indices"
	p.outer = top.layer()
	return p
}

func buildMappings(w *world, b baseSpec) payload {
	top := &pbuf{}
	n := 1 + b.A%3
	for i := 0; i < n; i++ {
		op := &pbuf{}
		op.varField(1, "mutid", "label", uint64(1000+i))
		mapped := []uint64{3, 4, 5, 60, 0}[(b.B+i)%5]
		op.varField(2, "mapped", "label", mapped)
		// repeated uint64 original = 3 (packed)
		var packed []byte
		origs := []uint64{uint64(4 + (b.C+i)%3), uint64(200 + i)}
		for _, o := range origs[:1+b.C%2] {
			packed = append(packed, putVarint(o)...)
		}
		op.lenField(3, "originalLen", packed, nil)
		var sub []field
		if i == n-1 {
			sub = op.fields
		}
		top.lenField(1, "mappingOpLen", op.b, sub)
		top.mark()
	}
	p := payload{ep: "labelmap/mappings", method: "POST", named: []string{"lm", "ann", "sz"}}
	p.url = "node/" + w.root + "/lm/mappings"
	p.outer = top.layer()
	return p
}

func jsonPayload(ep, method, url string, doc string, named []string) payload {
	return payload{ep: ep, method: method, url: url, outer: layer{data: []byte(doc), anyCutOK: false}, isJSON: true, named: named}
}

var lmNamed = []string{"lm", "ann", "sz"}

func buildMerge(w *world, b baseSpec) payload {
	bodies := []uint64{1, 3, 4, 5, 6}
	t := bodies[b.A%5]
	m := bodies[(b.A+1+b.B%4)%5]
	doc := fmt.Sprintf("[%d,%d]", t, m)
	if b.C%3 == 2 {
		doc = fmt.Sprintf("[%d,%d,%d]", t, m, bodies[(b.A+2+b.B%3)%5])
	}
	return jsonPayload("labelmap/merge", "POST", "node/"+w.root+"/lm/merge", doc, lmNamed)
}

func buildCleave(w *world, b baseSpec) payload {
	// body 1 holds supervoxels 1 and 2
	doc := []string{"[2]", "[1]", "[2,2]", "[2, 7]"}[b.A%4]
	q := []string{"", "", "?u=tester&app=c20"}[b.B%3]
	return jsonPayload("labelmap/cleave", "POST", "node/"+w.root+"/lm/cleave/1"+q, doc, lmNamed)
}

func buildRenumber(w *world, b baseSpec) payload {
	old := []uint64{3, 4, 5, 6, 1}[b.A%5]
	doc := fmt.Sprintf("[%d,%d]", 500+b.B, old)
	if b.C%3 == 2 {
		doc = fmt.Sprintf("[%d,%d,%d,%d]", 500+b.B, old, 600+b.B, []uint64{3, 4, 5, 6, 1}[(b.A+1)%5])
	}
	return jsonPayload("labelmap/renumber", "POST", "node/"+w.root+"/lm/renumber", doc, lmNamed)
}

func buildLMGetBody(w *world, b baseSpec) payload {
	n := "node/" + w.root + "/lm/"
	switch b.A % 5 {
	case 0:
		return jsonPayload("labelmap/get-mapping", "GET", n+"mapping"+[]string{"", "?nolookup=true"}[b.B%2], "[1,2,3,77,0]", nil)
	case 1:
		return jsonPayload("labelmap/get-labels", "GET", n+"labels"+[]string{"", "?supervoxels=true", "?scale=1"}[b.B%3], "[[1,2,3],[40,40,40],[63,63,63],[100,5,5]]", nil)
	case 2:
		return jsonPayload("labelmap/get-sizes", "GET", n+"sizes"+[]string{"", "?supervoxels=true"}[b.B%2], "[1,2,3,99]", nil)
	case 3:
		return jsonPayload("labelmap/get-indices", "GET", n+"indices", "[1,3,99]", nil)
	default:
		return jsonPayload("labelmap/get-indices-compressed", "GET", n+"indices-compressed", "[1,3,99]", nil)
	}
}

// ---- annotation

func elementJSON(x, y, z int, kind string, tags []string, rels string, prop string) string {
	ts := make([]string, len(tags))
	for i, t := range tags {
		ts[i] = fmt.Sprintf("%q", t)
	}
	return fmt.Sprintf(`{"Pos":[%d,%d,%d],"Kind":%q,"Tags":[%s],"Prop":{%s},"Rels":[%s]}`, x, y, z, kind, strings.Join(ts, ","), prop, rels)
}

func buildElements(w *world, b baseSpec) payload {
	x, y, z := (b.A*7)%lmExt, (b.B*5)%lmExt, (b.C*3)%lmExt
	x2, y2, z2 := (x+9)%lmExt, (y+17)%lmExt, z
	var doc string
	switch b.A % 6 {
	case 0: // a related pair
		doc = "[" + elementJSON(x, y, z, "PostSyn", []string{"t0"}, fmt.Sprintf(`{"Rel":"PostSynTo","To":[%d,%d,%d]}`, x2, y2, z2), `"n":"1"`) + "," +
			elementJSON(x2, y2, z2, "PreSyn", []string{"t1", "u"}, fmt.Sprintf(`{"Rel":"PreSynTo","To":[%d,%d,%d]}`, x, y, z), "") + "]"
	case 1: // relationship to nowhere
		doc = "[" + elementJSON(x, y, z, "PreSyn", []string{"t2"}, `{"Rel":"PreSynTo","To":[1000,1000,1000]}`, "") + "]"
	case 2: // the same element twice in one request
		e := elementJSON(x, y, z, "Note", []string{"t0"}, "", `"a":"b"`)
		doc = "[" + e + "," + e + "]"
	case 3: // two elements of one stored block: the stored element at (5,5,5) drops tag t0 while a new neighbour adds it
		doc = "[" + elementJSON(5, 5, 5, "PostSyn", nil, `{"Rel":"PostSynTo","To":[40,5,5]}`, "") + "," +
			elementJSON(6+b.B%20, 7, 5, "Note", []string{"t0"}, "", "") + "]"
	case 4: // overwrite of a stored element with another kind, negative coordinates for a second one
		doc = "[" + elementJSON(40, 5, 5, "Gap", []string{"t1"}, "", "") + "," + elementJSON(-x-1, -y-1, z, "Unknown", nil, "", "") + "]"
	default:
		doc = "[" + elementJSON(x, y, z, "PostSyn", []string{"t0", "t1", "t2"}, "", `"k":"v","k2":"v2"`) + "]"
	}
	q := []string{"", "?kafkalog=off"}[b.C%2]
	return jsonPayload("annotation/elements", "POST", "node/"+w.root+"/ann/elements"+q, doc, []string{"ann", "sz"})
}

func buildAnnBlocks(w *world, b baseSpec) payload {
	bx, by, bz := b.A%3, b.B%2, b.C%2
	x, y, z := bx*lmB+b.A%lmB, by*lmB+b.B%lmB, bz*lmB+b.C%lmB
	doc := fmt.Sprintf(`{"%d,%d,%d":[%s,%s]}`, bx, by, bz,
		elementJSON(x, y, z, "PostSyn", []string{"t0"}, "", ""), elementJSON((x+1)%lmB+bx*lmB, y, z, "PreSyn", nil, "", `"p":"q"`))
	if b.C%4 == 3 {
		doc = fmt.Sprintf(`{"%d,%d,%d":[%s],"%d,%d,%d":[]}`, bx, by, bz, elementJSON(x, y, z, "Note", nil, "", ""), bx+1, by, bz)
	}
	return jsonPayload("annotation/blocks", "POST", "node/"+w.root+"/ann/blocks", doc, []string{"ann", "sz"})
}

func buildAnnLabels(w *world, b baseSpec) payload {
	x, y, z := (b.A*7)%lmExt, (b.B*5)%lmExt, (b.C*3)%lmExt
	inner := "[" + elementJSON(x, y, z, "PostSyn", []string{"t0"}, "", "") + "]"
	doc := fmt.Sprintf(`{"%d":%q}`, 1+b.A%6, inner)
	if b.C%3 == 2 {
		doc = fmt.Sprintf(`{"%d":%q,"18446744073709551615":"[]"}`, 1+b.A%6, inner)
	}
	return jsonPayload("annotation/labels", "POST", "node/"+w.root+"/ann/labels", doc, []string{"ann", "sz"})
}

// ---- keyvalue / neuronjson (protobuf KeyValues, Keys)

func keyValuesPB(keys []string, vals [][]byte) *pbuf {
	top := &pbuf{}
	for i, k := range keys {
		kv := &pbuf{}
		kv.lenField(1, "keyLen", []byte(k), nil)
		kv.lenField(2, "valueLen", vals[i], nil)
		var sub []field
		if i == 0 || i == len(keys)-1 {
			sub = kv.fields
		}
		top.lenField(1, "kvLen", kv.b, sub)
		top.mark()
	}
	return top
}

func buildKVKeyvalues(w *world, b baseSpec) payload {
	n := 1 + b.A%3
	var keys []string
	var vals [][]byte
	for i := 0; i < n; i++ {
		keys = append(keys, []string{"k1", "k3", "new1", "new2", "k0"}[(b.B+i)%5])
		vals = append(vals, [][]byte{[]byte("v"), []byte(`{"a":1}`), bytes.Repeat([]byte{0xfe}, 300), {}}[(b.C+i)%4])
	}
	p := payload{ep: "keyvalue/keyvalues", method: "POST", url: "node/" + w.root + "/kv/keyvalues", named: []string{"kv"}}
	p.outer = keyValuesPB(keys, vals).layer()
	return p
}

func buildKVGetKeyvalues(w *world, b baseSpec) payload {
	keys := []string{"k0", "k2", "missing"}[:1+b.A%3]
	switch b.B % 3 {
	case 0:
		top := &pbuf{}
		for _, k := range keys {
			top.lenField(1, "keyLen", []byte(k), nil)
			top.mark()
		}
		q := []string{"", "?protobuf=true"}[b.C%2]
		return payload{ep: "keyvalue/get-keyvalues", method: "GET", url: "node/" + w.root + "/kv/keyvalues" + q, outer: top.layer()}
	case 1:
		return jsonPayload("keyvalue/get-keyvalues-jsontar", "GET", "node/"+w.root+"/kv/keyvalues?jsontar=true", `["k0","k2","missing"]`, nil)
	default:
		return jsonPayload("keyvalue/get-keyvalues-json", "GET", "node/"+w.root+"/kv/keyvalues?json=true", `["k2","missing"]`, nil)
	}
}

func buildKVKey(w *world, b baseSpec) payload {
	k := []string{"k1", "k4", "fresh", "with.dot", "UPPER_lower-9"}[b.A%5]
	val := [][]byte{[]byte("x"), {}, bytes.Repeat([]byte("0123456789"), 1000), {0, 0, 0}}[b.B%4]
	named := []string{"kv:list", "kv:" + k}
	return payload{ep: "keyvalue/key", method: "POST", url: "node/" + w.root + "/kv/key/" + k, outer: layer{data: val, anyCutOK: true}, named: named}
}

func buildNJKey(w *world, b baseSpec) payload {
	id := []uint64{10, 20, 3000, 55, 9007199254740993}[b.A%5]
	doc := fmt.Sprintf(`{"bodyid":%d,"type":"t%d","size":%d,"nested":{"a":[1,2,{"b":null}]}}`, id, b.B%3, b.C)
	if b.C%4 == 3 {
		doc = fmt.Sprintf(`{"bodyid":%d,"type":null}`, id)
	}
	if b.C%8 == 2 {
		// the server-maintained companion fields, supplied by the caller with values of other types
		doc = fmt.Sprintf(`{"bodyid":%d,"type":"t%d","type_time":%d,"type_user":{"x":1}}`, id, b.B%3, b.C)
	}
	q := []string{"?u=tester", "?u=tester&replace=true", "?u=other&conditional=type"}[b.B%3]
	return jsonPayload("neuronjson/key", "POST", fmt.Sprintf("node/%s/nj/key/%d%s", w.root, id, q), doc, []string{"nj:list", fmt.Sprintf("nj:%d", id)})
}

func buildNJKeyvalues(w *world, b baseSpec) payload {
	n := 1 + b.A%3
	var keys []string
	var vals [][]byte
	for i := 0; i < n; i++ {
		id := []uint64{10, 3000, 71, 72}[(b.B+i)%4]
		keys = append(keys, fmt.Sprint(id))
		vals = append(vals, []byte(fmt.Sprintf(`{"bodyid":%d,"f%d":"v%d"}`, id, b.C%3, i)))
	}
	q := []string{"?u=tester", "?u=tester&replace=true"}[b.C%2]
	p := payload{ep: "neuronjson/keyvalues", method: "POST", url: "node/" + w.root + "/nj/keyvalues" + q, named: []string{"nj"}}
	p.outer = keyValuesPB(keys, vals).layer()
	return p
}

func buildNJQuery(w *world, b baseSpec) payload {
	doc := []string{`{"type":"a"}`, `{"bodyid":10}`, `[{"type":"a"},{"group":7}]`, `{"type":"re/^a.*"}`, `{"instance":"exists/1"}`, `{"bodyid":[10,20]}`, `{"size":123,"type":["a","b"]}`}[b.A%7]
	q := []string{"", "?show=all", "?onlyid=true", "?fields=type"}[b.B%4]
	method := []string{"GET", "POST"}[b.C%2]
	var named []string
	if method == "POST" {
		named = []string{"nj"}
	}
	return jsonPayload("neuronjson/query", method, "node/"+w.root+"/nj/query"+q, doc, named)
}

func buildROI(w *world, b baseSpec) payload {
	// the last two are well-formed JSON but internally inconsistent span lists (a run that ends before it starts)
	doc := []string{`[[0,0,0,1],[0,1,0,0],[1,1,0,1]]`, `[[2,3,4,5]]`, `[]`, `[[0,0,0,0],[0,0,1,1],[0,0,2,2]]`, `[[-1,-1,-2,-1],[0,0,0,3]]`,
		`[[0,0,5,1]]`, `[[0,0,0,1],[0,1,3,2],[1,1,0,1]]`}[b.A%7]
	return jsonPayload("roi/roi", "POST", "node/"+w.root+"/roi/roi", doc, []string{"roi"})
}

func buildPtquery(w *world, b baseSpec) payload {
	doc := []string{`[[1,1,1],[40,40,40],[-5,0,0]]`, `[]`, `[[0,0,0]]`}[b.A%3]
	return jsonPayload("roi/ptquery", "POST", "node/"+w.root+"/roi/ptquery", doc, []string{"roi"})
}

func buildGrayRaw(w *world, b baseSpec) payload {
	sx := lmB * (1 + b.A%2)
	ox, oy, oz := lmB*(b.B%3), lmB*((b.B/3)%2), 0
	raw := grayVolume(sx, lmB, lmB, b.C)
	q := []string{"", "?mutate=true"}[b.C%2]
	p := payload{ep: "uint8blk/raw", method: "POST", named: []string{"gray"}}
	p.url = fmt.Sprintf("node/%s/gray/raw/0_1_2/%s/%s%s", w.root, p3(sx, lmB, lmB), p3(ox, oy, oz), q)
	p.outer = layer{data: raw}
	return p
}

func buildGrayBlocks(w *world, b baseSpec) payload {
	span := 1 + b.A%2
	raw := grayVolume(lmB*span, lmB, lmB, b.C)
	p := payload{ep: "uint8blk/blocks", method: "POST", named: []string{"gray"}}
	p.url = fmt.Sprintf("node/%s/gray/blocks/%s/%d", w.root, p3(b.B%3, b.B/3%2, 0), span)
	p.outer = layer{data: raw}
	return p
}

var families = []family{
	{"labelmap/blocks", buildBlocks("labelmap/blocks", "blocks"), binKinds, true},
	{"labelmap/ingest-supervoxels", buildBlocks("labelmap/ingest-supervoxels", "ingest-supervoxels"), binKinds, true},
	{"labelmap/raw", buildLMRaw, rawKinds, true},
	{"labelmap/split-supervoxel", buildSplitSV, binKinds, false},
	{"labelmap/split", buildSplit, binKinds, false},
	{"labelmap/index", buildIndex, binKinds, false},
	{"labelmap/indices", buildIndices, binKinds, false},
	{"labelmap/mappings", buildMappings, binKinds, false},
	{"labelmap/merge", buildMerge, jsonKinds, false},
	{"labelmap/cleave", buildCleave, jsonKinds, false},
	{"labelmap/renumber", buildRenumber, jsonKinds, false},
	{"labelmap/get-with-body", buildLMGetBody, jsonKinds, false},
	{"annotation/elements", buildElements, jsonKinds, false},
	{"annotation/blocks", buildAnnBlocks, jsonKinds, false},
	{"annotation/labels", buildAnnLabels, jsonKinds, false},
	{"keyvalue/keyvalues", buildKVKeyvalues, binKinds, false},
	{"keyvalue/get-keyvalues", buildKVGetKeyvalues, binKinds, false},
	{"keyvalue/key", buildKVKey, []string{"none", "bitflip", "extend"}, false},
	{"neuronjson/key", buildNJKey, jsonKinds, false},
	{"neuronjson/keyvalues", buildNJKeyvalues, binKinds, false},
	{"neuronjson/query", buildNJQuery, jsonKinds, false},
	{"roi/roi", buildROI, jsonKinds, false},
	{"roi/ptquery", buildPtquery, jsonKinds, false},
	{"uint8blk/raw", buildGrayRaw, rawKinds, false},
	{"uint8blk/blocks", buildGrayBlocks, rawKinds, false},
}

func familyByName(n string) *family {
	for i := range families {
		if families[i].name == n {
			return &families[i]
		}
	}
	return nil
}
