package c20

import (
	"encoding/json"
	"fmt"
	"os"
	"regexp"
	"strings"
	"testing"

	"verif/stats"
)

// dev tool: for each signature in $C20_SIGS (file) search a single-request case that yields exactly that signature
func TestFindRepros(t *testing.T) {
	b, err := os.ReadFile(os.Getenv("C20_SIGS"))
	if err != nil {
		t.Skip("no C20_SIGS")
	}
	out := os.Getenv("C20_OUT")
	probe := &world{root: "00000000000000000000000000000000"}
	bases := probe.urlBases()
	for _, sig := range strings.Fields(string(b)) {
		name := "C20-known-" + regexp.MustCompile(`[^A-Za-z0-9_.-]+`).ReplaceAllString(sig[4:], "-") + ".json"
		if _, err := os.Stat(out + "/" + name); err == nil {
			continue
		}
		var cands []hreq
		isURL := false
		for i, ub := range bases {
			if strings.HasPrefix(sig, "C20/"+ub.ep+"/url-") {
				isURL = true
				for _, k := range urlKinds {
					for bb := 0; bb < 31; bb++ {
						for a := 0; a < 4; a++ {
							rq := hreq{Fam: "url", Base: baseSpec{A: i}, Mut: mutSpec{Kind: k, A: a, B: bb, C: a}}
							br := probe.buildReq(rq)
							if strings.HasPrefix(sig, sigFor(br.ep, br.kind, "")) {
								cands = append(cands, rq)
							}
						}
					}
				}
			}
		}
		if !isURL {
			for _, f := range families {
				for ba := 0; ba < 12; ba++ {
					for _, k := range f.kinds {
						for _, inner := range []bool{false, true} {
							if inner && !f.inner {
								continue
							}
							for ma := 0; ma < 1000; ma += 37 {
								for mb := 0; mb < 16; mb++ {
									rq := hreq{Fam: f.name, Base: baseSpec{A: ba, B: ba * 3, C: ba * 5}, Mut: mutSpec{Kind: k, Inner: inner, A: ma, B: mb, C: mb}}
									if k != "field" && k != "json-value" && k != "json-syntax" && k != "json-empty" && k != "bitflip" && mb > 0 {
										continue
									}
									br := probe.buildReq(rq)
									if strings.HasPrefix(sig, sigFor(br.ep, br.kind, "")) {
										cands = append(cands, rq)
									}
								}
							}
						}
					}
				}
			}
		}
		found := false
		tried := 0
		seen := map[string]bool{}
		for _, rq := range cands {
			br := probe.buildReq(rq)
			key := br.method + br.url + string(br.body)
			if seen[key] {
				continue
			}
			seen[key] = true
			tried++
			if tried > 1500 {
				break
			}
			c := mutCase{Reqs: []hreq{rq}}
			_, err := checkMutants(c)
			if stats.SigOf(err) == sig {
				// confirm once more
				_, err2 := checkMutants(c)
				if stats.SigOf(err2) != sig {
					continue
				}
				cj, _ := json.Marshal(c)
				rec := stats.FailRecord{Property: "C20", Test: "TestC20Mutants", Sig: sig, Msg: strings.ReplaceAll(err.Error(), "\n", " | "), Case: cj}
				jb, _ := json.MarshalIndent(rec, "", " ")
				os.WriteFile(out+"/"+name, jb, 0644)
				found = true
				break
			}
		}
		fmt.Printf("%v %s (%d candidates, %d tried)\n", found, sig, len(cands), tried)
	}
}
