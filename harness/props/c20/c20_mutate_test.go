package c20

import (
	"bytes"
	"encoding/binary"
	"encoding/json"
	"fmt"
	"sort"
	"strings"
)

// ---- structure-aware byte-level mutation of a valid payload

// field is a count / length / index / coordinate field of a payload.
type field struct {
	Name   string
	Class  string // count len index subcount dim coord label runlen flag
	Off, W int    // byte offset and width; little-endian unless Varint
	Varint bool
	Rec    int    // bytes per counted record (count / len classes), 0 = unknown
	Tbl    uint64 // table size for index fields
	N      uint64 // current value
}

// layer is one level of bytes that can be mutated (the body itself, or the bytes inside a compression wrapper).
type layer struct {
	data     []byte
	fields   []field
	cuts     []int // offsets where cutting leaves a well-formed shorter payload (0 and len are implied valid / identity)
	anyCutOK bool  // the format has no declared extent: every prefix may be well formed (nothing is certain)
	rec      int   // >0: the payload is an array of fixed-size records (voxels): cuts between records are field boundaries too
}

func (l *layer) bounds() []int {
	set := map[int]bool{}
	for _, f := range l.fields {
		set[f.Off] = true
		set[f.Off+f.W] = true
	}
	for _, c := range l.cuts {
		set[c] = true
	}
	if l.rec > 0 && len(l.data) >= 2*l.rec {
		// a payload cut between two records is still an array of whole records: only its count is wrong
		n := len(l.data) / l.rec
		for _, k := range []int{1, n / 4, n / 2, 3 * n / 4, n - 1} {
			if k > 0 && k < n {
				set[k*l.rec] = true
			}
		}
	}
	var out []int
	for o := range set {
		if o > 0 && o < len(l.data) {
			out = append(out, o)
		}
	}
	sort.Ints(out)
	return out
}

type mutSpec struct {
	Kind  string `json:"kind"`
	Inner bool   `json:"inner,omitempty"`
	A     int    `json:"a"`
	B     int    `json:"b"`
	C     int    `json:"c"`
}

// mutated is the result of applying a mutation.
type mutated struct {
	body    []byte
	kind    string // signature fragment, e.g. "field:numLabels=max32" or "inner/trunc"
	kclass  string // coarse class for the histogram
	detail  string // what exactly was changed (message only)
	certain bool   // certainly malformed under the documented format
	differs bool   // bytes differ from the parent payload
}

var hostileConsts = []struct {
	name string
	v    func(f field) (uint64, bool)
}{
	{"0", func(f field) (uint64, bool) { return 0, true }},
	{"1", func(f field) (uint64, bool) { return 1, true }},
	{"max31", func(f field) (uint64, bool) { return 0x7fffffff, f.W >= 4 || f.Varint }},
	{"max32", func(f field) (uint64, bool) { return 0xffffffff, f.W >= 4 || f.Varint }},
	{"2^31", func(f field) (uint64, bool) { return 0x80000000, f.W >= 4 || f.Varint }},
	{"2^63", func(f field) (uint64, bool) { return 1 << 63, f.W == 8 || f.Varint }},
	{"2^64-1", func(f field) (uint64, bool) { return ^uint64(0), f.W == 8 || f.Varint }},
	{"n+1", func(f field) (uint64, bool) { return f.N + 1, true }},
	{"n-1", func(f field) (uint64, bool) { return f.N - 1, f.N > 0 }},
	{"max15", func(f field) (uint64, bool) { return 0x7fff, f.W == 2 }},
	{"max16", func(f field) (uint64, bool) { return 0xffff, f.W == 2 || f.W == 1 }},
	{"513", func(f field) (uint64, bool) { return 513, f.W == 2 }},
	{"tbl", func(f field) (uint64, bool) { return f.Tbl, f.Class == "index" }},
	{"tbl+1", func(f field) (uint64, bool) { return f.Tbl + 1, f.Class == "index" }},
	{"100000", func(f field) (uint64, bool) { return 100000, f.W >= 4 || f.Varint }},
}

// run lengths and similar "amount of work" fields must stay servable: a legal-but-huge run would make a correct
// server work for minutes, which is not what this property is about.
func constAllowed(f field, name string) bool {
	if f.Class == "runlen" || f.Class == "span" {
		switch name {
		case "max31", "2^63", "2^64-1":
			return false
		}
	}
	return true
}

func putVarint(v uint64) []byte {
	var b [10]byte
	n := binary.PutUvarint(b[:], v)
	return b[:n]
}

func applyBytes(l *layer, m mutSpec, prefix string) mutated {
	d := l.data
	out := mutated{kclass: m.Kind}
	switch m.Kind {
	case "trunc":
		if len(d) == 0 {
			return mutated{body: d, kind: prefix + "trunc", kclass: "trunc"}
		}
		off := (m.A * len(d)) / 1001
		out.body = append([]byte{}, d[:off]...)
		out.kind = prefix + "trunc"
		out.detail = fmt.Sprintf("at %d of %d", off, len(d))
		out.certain = !l.anyCutOK && off != 0 && !containsInt(l.cuts, off)
	case "trunc-boundary":
		b := l.bounds()
		if len(b) == 0 {
			return applyBytes(l, mutSpec{Kind: "trunc", A: m.A}, prefix)
		}
		off := b[m.A%len(b)]
		out.body = append([]byte{}, d[:off]...)
		out.kind = prefix + "trunc"
		out.detail = fmt.Sprintf("at field boundary %d of %d", off, len(d))
		out.kclass = "trunc"
		out.certain = !l.anyCutOK && !containsInt(l.cuts, off)
	case "bitflip":
		out.body = append([]byte{}, d...)
		out.kind = prefix + "bitflip"
		if len(d) > 0 {
			n := 1 + m.C%3
			for i := 0; i < n; i++ {
				off := ((m.A + i*337) * len(d) / 1001) % len(d)
				out.body[off] ^= 1 << uint((m.B+i)%8)
			}
		}
	case "extend":
		extra := [][]byte{{0}, {0xff, 0xff, 0xff, 0xff}, bytes.Repeat([]byte{0x41}, 64), nil}[m.A%4]
		if extra == nil { // repeat the tail of the payload
			t := len(d) / 3
			extra = d[len(d)-t:]
		}
		out.body = append(append([]byte{}, d...), extra...)
		out.kind = prefix + "extend"
	case "field":
		if len(l.fields) == 0 {
			return applyBytes(l, mutSpec{Kind: "bitflip", A: m.A, B: m.B, C: m.C}, prefix)
		}
		f := l.fields[m.A%len(l.fields)]
		// pick the B-th applicable constant
		var names []string
		var vals []uint64
		for _, hc := range hostileConsts {
			if v, ok := hc.v(f); ok && constAllowed(f, hc.name) && v != f.N {
				names = append(names, hc.name)
				vals = append(vals, v)
			}
		}
		if len(names) == 0 {
			return applyBytes(l, mutSpec{Kind: "bitflip", A: m.A, B: m.B, C: m.C}, prefix)
		}
		k := m.B % len(names)
		v := vals[k]
		var enc []byte
		if f.Varint {
			enc = putVarint(v)
		} else {
			enc = make([]byte, f.W)
			for i := 0; i < f.W; i++ {
				enc[i] = byte(v >> (8 * uint(i)))
			}
			// value as stored after narrowing
			if f.W < 8 {
				v &= (1 << (8 * uint(f.W))) - 1
			}
		}
		out.body = append(append(append([]byte{}, d[:f.Off]...), enc...), d[f.Off+f.W:]...)
		out.kind = prefix + "field:" + f.Class
		out.detail = f.Name + "=" + names[k] + fmt.Sprintf(" (%d -> %d)", f.N, v)
		out.kclass = "field:" + f.Class
		if (f.Class == "count" || f.Class == "len") && f.Rec > 0 {
			remaining := uint64(len(out.body) - (f.Off + len(enc)))
			if v > remaining/uint64(f.Rec) {
				out.certain = true
			}
		}
	default:
		out.body = d
		out.kind = prefix + "none"
		out.kclass = "none"
	}
	out.differs = !bytes.Equal(out.body, d)
	if !out.differs {
		out.certain = false
	}
	return out
}

func containsInt(s []int, v int) bool {
	for _, x := range s {
		if x == v {
			return true
		}
	}
	return false
}

// ---- JSON-level mutation

var jsonHostile = []struct {
	name string
	raw  string
}{
	{"null", `null`}, {"true", `true`}, {"string", `"x"`}, {"float", `1.5`}, {"neg", `-1`}, {"zero", `0`},
	{"2^64-1", `18446744073709551615`}, {"2^64", `18446744073709551616`}, {"2^63", `9223372036854775808`}, {"2^31", `2147483648`},
	{"1e400", `1e400`}, {"emptyarr", `[]`}, {"emptyobj", `{}`}, {"nested", `[[[]]]`}, {"numstring", `"12"`},
	{"longstring", `"` + strings.Repeat("A", 20000) + `"`}, {"-2^63", `-9223372036854775808`}, {"nul-string", `"a\u0000b"`},
}

type jnode struct {
	parent interface{} // map[string]interface{} or []interface{} holder
	key    string
	idx    int
}

// jsonMutate applies a tree-level mutation to a JSON document (numbers kept verbatim).
func jsonMutate(doc []byte, m mutSpec) mutated {
	out := mutated{kclass: m.Kind}
	switch m.Kind {
	case "json-syntax":
		d := append([]byte{}, doc...)
		switch m.A % 6 {
		case 0:
			if len(d) > 0 {
				d = d[:len(d)-1]
			}
		case 1:
			if len(d) > 0 {
				d = d[1:]
			}
		case 2:
			if i := bytes.IndexAny(d, "[{"); i >= 0 {
				d = append(append(append([]byte{}, d[:i+1]...), ','), d[i+1:]...)
			}
		case 3:
			qs := allIndex(d, '"')
			if len(qs) > 0 {
				i := qs[m.B%len(qs)]
				d = append(append([]byte{}, d[:i]...), d[i+1:]...)
			} else {
				d = append(d, '"')
			}
		case 4:
			d = append(d, ']')
		case 5:
			if len(d) > 2 {
				i := 1 + (m.B*(len(d)-2))/64%(len(d)-2)
				d = d[:i]
			}
		}
		out.body, out.kind = d, "json-syntax"
		out.certain = len(d) > 0 && !json.Valid(d)
	case "json-empty":
		out.body = [][]byte{{}, []byte("null"), []byte("[]"), []byte("{}"), []byte(" "), []byte(`""`), []byte("0")}[m.A%7]
		out.kind = "json-empty"
	case "json-deep":
		n := []int{100, 10001, 100000}[m.A%3]
		out.body = []byte(strings.Repeat("[", n) + strings.Repeat("]", n))
		if m.B%2 == 1 {
			out.body = []byte(strings.Repeat(`{"a":`, n) + "1" + strings.Repeat("}", n))
		}
		out.kind = "json-deep"
	case "json-value", "json-delkey", "json-arr-shorten", "json-arr-dup":
		dec := json.NewDecoder(bytes.NewReader(doc))
		dec.UseNumber()
		var root interface{}
		if err := dec.Decode(&root); err != nil {
			return jsonMutate(doc, mutSpec{Kind: "json-syntax", A: m.A, B: m.B})
		}
		holder := []interface{}{root}
		var nodes, keys, arrays []jnode
		var walk func(p interface{}, key string, idx int, v interface{})
		walk = func(p interface{}, key string, idx int, v interface{}) {
			nodes = append(nodes, jnode{p, key, idx})
			switch t := v.(type) {
			case map[string]interface{}:
				ks := make([]string, 0, len(t))
				for k := range t {
					ks = append(ks, k)
				}
				sort.Strings(ks)
				for _, k := range ks {
					keys = append(keys, jnode{t, k, 0})
					walk(t, k, 0, t[k])
				}
			case []interface{}:
				arrays = append(arrays, jnode{p, key, idx})
				for i, e := range t {
					walk(t, "", i, e)
				}
			}
		}
		walk(holder, "", 0, root)
		get := func(n jnode) interface{} {
			switch p := n.parent.(type) {
			case map[string]interface{}:
				return p[n.key]
			case []interface{}:
				return p[n.idx]
			}
			return nil
		}
		set := func(n jnode, v interface{}) {
			switch p := n.parent.(type) {
			case map[string]interface{}:
				p[n.key] = v
			case []interface{}:
				p[n.idx] = v
			}
		}
		switch m.Kind {
		case "json-value":
			n := nodes[m.A%len(nodes)]
			h := jsonHostile[m.B%len(jsonHostile)]
			set(n, json.RawMessage(h.raw))
			out.kind = "json-value"
			where := n.key
			if where == "" {
				where = fmt.Sprintf("[%d]", n.idx)
			}
			out.detail = where + "=" + h.name
		case "json-delkey":
			if len(keys) == 0 {
				return jsonMutate(doc, mutSpec{Kind: "json-value", A: m.A, B: m.B})
			}
			k := keys[m.A%len(keys)]
			delete(k.parent.(map[string]interface{}), k.key)
			out.kind = "json-delkey"
		case "json-arr-shorten":
			if len(arrays) == 0 {
				return jsonMutate(doc, mutSpec{Kind: "json-value", A: m.A, B: m.B})
			}
			a := arrays[m.A%len(arrays)]
			arr := get(a).([]interface{})
			if len(arr) > 0 {
				set(a, arr[:len(arr)-1])
			}
			out.kind, out.detail, out.kclass = "json-arr", "last member dropped", "json-arr"
		case "json-arr-dup":
			if len(arrays) == 0 {
				return jsonMutate(doc, mutSpec{Kind: "json-value", A: m.A, B: m.B})
			}
			a := arrays[m.A%len(arrays)]
			arr := get(a).([]interface{})
			if len(arr) > 0 {
				set(a, append(append([]interface{}{}, arr...), arr[m.B%len(arr)]))
			}
			out.kind, out.detail, out.kclass = "json-arr", "member duplicated", "json-arr"
		}
		b, err := json.Marshal(holder[0])
		if err != nil {
			b = doc
		}
		out.body = b
	default:
		out.body, out.kind, out.kclass = doc, "none", "none"
	}
	// "differs" for JSON = the documents are not byte-identical after compaction
	var a, b bytes.Buffer
	if json.Compact(&a, doc) == nil && json.Compact(&b, out.body) == nil {
		out.differs = !bytes.Equal(a.Bytes(), b.Bytes())
	} else {
		out.differs = !bytes.Equal(doc, out.body)
	}
	return out
}

func allIndex(b []byte, c byte) []int {
	var out []int
	for i, x := range b {
		if x == c {
			out = append(out, i)
		}
	}
	return out
}

// ---- a tiny protobuf writer that remembers where its length and value varints are

type pbuf struct {
	b      []byte
	fields []field
	cuts   []int
}

func (p *pbuf) tag(num, wt int) { p.b = append(p.b, putVarint(uint64(num<<3|wt))...) }

func (p *pbuf) varField(num int, name, class string, v uint64) {
	p.tag(num, 0)
	enc := putVarint(v)
	if name != "" {
		p.fields = append(p.fields, field{Name: name, Class: class, Off: len(p.b), W: len(enc), Varint: true, N: v})
	}
	p.b = append(p.b, enc...)
}

// lenField appends a length-delimited field; sub are the fields of the payload (offsets relative to it).
func (p *pbuf) lenField(num int, name string, payload []byte, sub []field) {
	p.tag(num, 2)
	enc := putVarint(uint64(len(payload)))
	if name != "" {
		p.fields = append(p.fields, field{Name: name, Class: "len", Off: len(p.b), W: len(enc), Varint: true, Rec: 1, N: uint64(len(payload))})
	}
	p.b = append(p.b, enc...)
	base := len(p.b)
	for _, f := range sub {
		f.Off += base
		p.fields = append(p.fields, f)
	}
	p.b = append(p.b, payload...)
}

func (p *pbuf) mark() { p.cuts = append(p.cuts, len(p.b)) }

func (p *pbuf) layer() layer { return layer{data: p.b, fields: p.fields, cuts: p.cuts} }

// ---- layout of a serialized label block (the documented Block serialization)

func blockLayout(ser []byte) layer {
	l := layer{data: ser}
	if len(ser) < 16 {
		return l
	}
	le32 := func(o int) uint64 { return uint64(binary.LittleEndian.Uint32(ser[o:])) }
	for i, n := range []string{"gx", "gy", "gz"} {
		l.fields = append(l.fields, field{Name: n, Class: "dim", Off: 4 * i, W: 4, N: le32(4 * i)})
	}
	n := int(le32(12))
	l.fields = append(l.fields, field{Name: "numLabels", Class: "count", Off: 12, W: 4, Rec: 8, N: uint64(n)})
	pick := func(cnt int) []int { // representative positions
		set := map[int]bool{}
		for _, i := range []int{0, 1, 2, cnt / 2, cnt - 2, cnt - 1} {
			if i >= 0 && i < cnt {
				set[i] = true
			}
		}
		var out []int
		for i := range set {
			out = append(out, i)
		}
		sort.Ints(out)
		return out
	}
	if 16+8*n > len(ser) {
		return l
	}
	for _, i := range pick(n) {
		l.fields = append(l.fields, field{Name: "label", Class: "label", Off: 16 + 8*i, W: 8, N: binary.LittleEndian.Uint64(ser[16+8*i:])})
	}
	if n <= 1 {
		return l
	}
	pos := 16 + 8*n
	nsb := int(le32(0) * le32(4) * le32(8))
	if pos+2*nsb > len(ser) {
		return l
	}
	sum := 0
	for i := 0; i < nsb; i++ {
		sum += int(binary.LittleEndian.Uint16(ser[pos+2*i:]))
	}
	for _, i := range pick(nsb) {
		l.fields = append(l.fields, field{Name: "numSBLabels", Class: "subcount", Off: pos + 2*i, W: 2, N: uint64(binary.LittleEndian.Uint16(ser[pos+2*i:]))})
	}
	pos += 2 * nsb
	if pos+4*sum > len(ser) {
		return l
	}
	for _, i := range pick(sum) {
		l.fields = append(l.fields, field{Name: "sbIndex", Class: "index", Off: pos + 4*i, W: 4, Tbl: uint64(n), N: le32(pos + 4*i)})
	}
	pos += 4 * sum
	l.cuts = nil // every truncation of a block leaves the declared counts unsatisfied
	_ = pos
	return l
}

func sigFrag(s string) string {
	s = strings.ReplaceAll(s, " ", "_")
	return s
}

func sigFor(ep, kind, cond string) string {
	return fmt.Sprintf("C20/%s/%s/%s", ep, sigFrag(kind), cond)
}
