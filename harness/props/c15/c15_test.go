// C15 — the serialization envelope round-trips and detects corruption.
package c15

import (
	"bytes"
	"compress/gzip"
	"encoding/binary"
	"encoding/json"
	"fmt"
	"hash/crc32"
	"image"
	"image/color"
	"image/jpeg"
	"io"
	"os"
	"testing"

	"github.com/golang/snappy"
	"github.com/janelia-flyem/dvid/dvid"
	lz4 "github.com/janelia-flyem/go/golz4-updated"
	"pgregory.net/rapid"

	"verif/stats"
)

func TestMain(m *testing.M) {
	rc := m.Run()
	stats.Flush()
	os.Exit(rc)
}

// ---------- payload construction (pure function of drawn values)

type payloadSpec struct {
	Kind  string `json:"kind"` // small|random|runs|text|zeros
	Size  int    `json:"size"`
	Seed  uint64 `json:"seed"`
	Small []byte `json:"small,omitempty"`
}

func xorshift(s *uint64) uint64 {
	x := *s
	if x == 0 {
		x = 0x9E3779B97F4A7C15
	}
	x ^= x << 13
	x ^= x >> 7
	x ^= x << 17
	*s = x
	return x
}

func (p payloadSpec) bytes() []byte {
	switch p.Kind {
	case "small":
		return p.Small
	case "zeros":
		return make([]byte, p.Size)
	}
	out := make([]byte, p.Size)
	s := p.Seed
	switch p.Kind {
	case "random":
		for i := 0; i < len(out); i += 8 {
			v := xorshift(&s)
			for j := 0; j < 8 && i+j < len(out); j++ {
				out[i+j] = byte(v >> (8 * j))
			}
		}
	case "runs":
		i := 0
		for i < len(out) {
			v := xorshift(&s)
			n := int(v>>8)%200 + 1
			for j := 0; j < n && i < len(out); j++ {
				out[i] = byte(v)
				i++
			}
		}
	case "text":
		words := []string{"dvid ", "label ", "block ", "voxel ", "{\"a\":1}", "\n", "0123456789", "merge "}
		i := 0
		for i < len(out) {
			w := words[xorshift(&s)%uint64(len(words))]
			i += copy(out[i:], w)
		}
	}
	return out
}

func genPayload(t *rapid.T, maxLarge int) payloadSpec {
	kind := rapid.SampledFrom([]string{"small", "small", "random", "runs", "text", "zeros"}).Draw(t, "kind")
	if kind == "small" {
		return payloadSpec{Kind: kind, Small: rapid.SliceOfN(rapid.Byte(), 0, 40).Draw(t, "small")}
	}
	size := rapid.OneOf(rapid.IntRange(1, 300), rapid.IntRange(1, 70000), rapid.IntRange(1, maxLarge)).Draw(t, "size")
	return payloadSpec{Kind: kind, Size: size, Seed: rapid.Uint64().Draw(t, "pseed")}
}

type formatSpec struct {
	Format   uint8 `json:"format"`
	Level    int8  `json:"level"`
	Checksum uint8 `json:"checksum"`
}

func genFormat(t *rapid.T) formatSpec {
	f := rapid.SampledFrom([]uint8{uint8(dvid.Uncompressed), uint8(dvid.Snappy), uint8(dvid.LZ4), uint8(dvid.Gzip)}).Draw(t, "format")
	lvl := int8(-1)
	if f == uint8(dvid.Gzip) {
		lvl = rapid.SampledFrom([]int8{-1, 1, 2, 3, 4, 5, 6, 7, 8, 9}).Draw(t, "level")
	}
	cs := rapid.SampledFrom([]uint8{uint8(dvid.NoChecksum), uint8(dvid.CRC32)}).Draw(t, "checksum")
	return formatSpec{f, lvl, cs}
}

func (f formatSpec) compression() (dvid.Compression, error) {
	return dvid.NewCompression(dvid.CompressionFormat(f.Format), dvid.CompressionLevel(f.Level))
}

func decompress(format dvid.CompressionFormat, c []byte) ([]byte, error) {
	switch format {
	case dvid.Uncompressed:
		return c, nil
	case dvid.Snappy:
		return snappy.Decode(nil, c)
	case dvid.LZ4:
		if len(c) < 4 {
			return nil, fmt.Errorf("short lz4")
		}
		n := binary.LittleEndian.Uint32(c[:4])
		out := make([]byte, n)
		if err := lz4.Uncompress(c[4:], out); err != nil {
			return nil, err
		}
		return out, nil
	case dvid.Gzip:
		r, err := gzip.NewReader(bytes.NewReader(c))
		if err != nil {
			return nil, err
		}
		return io.ReadAll(r)
	}
	return nil, fmt.Errorf("unknown format %d", format)
}

func compressWith(f formatSpec, p []byte) ([]byte, error) {
	switch dvid.CompressionFormat(f.Format) {
	case dvid.Uncompressed:
		return p, nil
	case dvid.Snappy:
		return snappy.Encode(nil, p), nil
	case dvid.LZ4:
		out := make([]byte, lz4.CompressBound(p)+4)
		binary.LittleEndian.PutUint32(out[:4], uint32(len(p)))
		n, err := lz4.Compress(p, out[4:])
		if err != nil {
			return nil, err
		}
		return out[:4+n], nil
	case dvid.Gzip:
		var b bytes.Buffer
		w, err := gzip.NewWriterLevel(&b, int(f.Level))
		if err != nil {
			return nil, err
		}
		w.Write(p)
		w.Close()
		return b.Bytes(), nil
	}
	return nil, fmt.Errorf("unknown format")
}

// ---------- 1. round trip

type rtCase struct {
	Payload    payloadSpec `json:"payload"`
	Format     formatSpec  `json:"format"`
	Uncompress bool        `json:"uncompress"`
	Precomp    bool        `json:"precompressed"`
}

func checkRT(c rtCase) error {
	p := c.Payload.bytes()
	comp, err := c.Format.compression()
	if err != nil {
		return stats.Violf("C15/NewCompression/rejects-documented-format", "%v", err)
	}
	return stats.PanicGuard("C15/roundtrip/panic", func() error {
		var s []byte
		if c.Precomp {
			cd, err := compressWith(c.Format, p)
			if err != nil {
				return nil // harness-side compressor failed; not the code under test
			}
			s, err = dvid.SerializePrecompressedData(cd, comp, dvid.Checksum(c.Format.Checksum))
			if err != nil {
				return stats.Violf("C15/SerializePrecompressedData/error", "%v", err)
			}
		} else {
			s, err = dvid.SerializeData(p, comp, dvid.Checksum(c.Format.Checksum))
			if err != nil {
				return stats.Violf("C15/SerializeData/error", "%v", err)
			}
		}
		orig := append([]byte(nil), s...)
		out, format, err := dvid.DeserializeData(s, c.Uncompress)
		if err != nil {
			return stats.Violf("C15/DeserializeData/error-on-own-output", "%v (payload %d bytes, format %+v)", err, len(p), c.Format)
		}
		if !bytes.Equal(orig, s) {
			return stats.Violf("C15/DeserializeData/mutates-input", "input envelope modified")
		}
		if c.Uncompress {
			if !bytes.Equal(out, p) {
				return stats.Violf("C15/roundtrip/differs", "payload %d bytes -> %d bytes back, format %+v", len(p), len(out), c.Format)
			}
			return nil
		}
		if len(p) == 0 && !c.Precomp {
			if len(out) != 0 {
				return stats.Violf("C15/roundtrip/differs", "empty payload -> %d bytes", len(out))
			}
			return nil
		}
		if len(out) == 0 { // empty envelope: nothing stored, format is reported as uncompressed
			if len(p) != 0 {
				return stats.Violf("C15/roundtrip/differs", "payload %d bytes -> empty", len(p))
			}
			return nil
		}
		if format != comp.Format() {
			return stats.Violf("C15/roundtrip/format-misreported", "serialised with %v, reported %v", comp.Format(), format)
		}
		back, err := decompress(format, out)
		if err != nil || !bytes.Equal(back, p) {
			return stats.Violf("C15/roundtrip/differs", "uncompress=false bytes do not decompress to payload: %v", err)
		}
		return nil
	})
}

func TestC15RoundTrip(t *testing.T) {
	maxLarge := 1 << 20
	if os.Getenv("VERIF_TIER") == "thorough" {
		maxLarge = 4 << 20
	}
	rapid.Check(t, func(t *rapid.T) {
		c := rtCase{Payload: genPayload(t, maxLarge), Format: genFormat(t), Uncompress: rapid.Bool().Draw(t, "uncompress"), Precomp: rapid.Bool().Draw(t, "precomp")}
		if c.Precomp && len(c.Payload.bytes()) == 0 {
			// domain: callers pre-compress real data; an LZ4 frame with length 0 is the documented legacy framing
			c.Precomp = false
		}
		err := checkRT(c)
		if !stats.Judge(t, "C15", "TestC15RoundTrip", err, c) {
			return
		}
		n := len(c.Payload.bytes())
		nt := n >= 2 && c.Format.Format != uint8(dvid.Uncompressed)
		cls := []string{"rt/kind=" + c.Payload.Kind, fmt.Sprintf("rt/format=%d", c.Format.Format), fmt.Sprintf("rt/checksum=%d", c.Format.Checksum), fmt.Sprintf("rt/uncompress=%v", c.Uncompress)}
		switch {
		case n == 0:
			cls = append(cls, "rt/size=0")
		case n == 1:
			cls = append(cls, "rt/size=1")
		case n < 65536:
			cls = append(cls, "rt/size<64K")
		case n < 1<<20:
			cls = append(cls, "rt/size<1M")
		default:
			cls = append(cls, "rt/size>=1M")
		}
		stats.Record(stats.HashJSON(c), nt, cls, func() interface{} {
			cc := c
			if len(cc.Payload.Small) > 16 {
				cc.Payload.Small = cc.Payload.Small[:16]
			}
			return map[string]interface{}{"test": "roundtrip", "case": cc, "payload_len": n}
		})
	})
}

// gob objects through Serialize / Deserialize
type gobObj struct {
	A int64
	B string
	C []byte
	D map[string]uint32
	E []float64
}

type gobCase struct {
	Obj    gobObj     `json:"obj"`
	Format formatSpec `json:"format"`
}

func checkGob(c gobCase) error {
	comp, err := c.Format.compression()
	if err != nil {
		return stats.Violf("C15/NewCompression/rejects-documented-format", "%v", err)
	}
	return stats.PanicGuard("C15/gob/panic", func() error {
		s, err := dvid.Serialize(c.Obj, comp, dvid.Checksum(c.Format.Checksum))
		if err != nil {
			return stats.Violf("C15/Serialize/error", "%v", err)
		}
		var back gobObj
		if err := dvid.Deserialize(s, &back); err != nil {
			return stats.Violf("C15/Deserialize/error-on-own-output", "%v", err)
		}
		a, _ := json.Marshal(normGob(c.Obj))
		b, _ := json.Marshal(normGob(back))
		if !bytes.Equal(a, b) {
			return stats.Violf("C15/gob-roundtrip/differs", "%s != %s", a, b)
		}
		return nil
	})
}

func normGob(o gobObj) gobObj { // gob does not distinguish nil and empty
	if len(o.C) == 0 {
		o.C = nil
	}
	if len(o.D) == 0 {
		o.D = nil
	}
	if len(o.E) == 0 {
		o.E = nil
	}
	return o
}

func TestC15Gob(t *testing.T) {
	rapid.Check(t, func(t *rapid.T) {
		c := gobCase{Format: genFormat(t)}
		c.Obj.A = rapid.Int64().Draw(t, "a")
		c.Obj.B = rapid.String().Draw(t, "b")
		c.Obj.C = rapid.SliceOfN(rapid.Byte(), 0, 200).Draw(t, "c")
		c.Obj.D = rapid.MapOfN(rapid.StringMatching("[a-z]{0,6}"), rapid.Uint32(), 0, 6).Draw(t, "d")
		c.Obj.E = rapid.SliceOfN(rapid.Float64Range(-1e9, 1e9), 0, 8).Draw(t, "e")
		if !stats.Judge(t, "C15", "TestC15Gob", checkGob(c), c) {
			return
		}
		stats.Record(stats.HashJSON(c), c.Format.Format != 0, []string{"gob"}, func() interface{} { return map[string]interface{}{"test": "gob", "case": c} })
	})
}

// ---------- 2. corruption detection

type corrCase struct {
	Payload payloadSpec `json:"payload"`
	Format  formatSpec  `json:"format"`
	// Exhaustive: every bit flip of every payload byte and every truncation (small envelopes).
	Exhaustive bool `json:"exhaustive"`
	// otherwise sampled positions (interpreted modulo the envelope's payload length)
	FlipPos  []int  `json:"flip_pos,omitempty"`
	FlipBit  []int  `json:"flip_bit,omitempty"`
	BytePos  []int  `json:"byte_pos,omitempty"`
	ByteXor  []byte `json:"byte_xor,omitempty"` // non-zero xor masks
	TruncLen []int  `json:"trunc_len,omitempty"`
}

// checkOneCorruption: env = original envelope, mut = corrupted one, p = payload.
func checkOneCorruption(env, mut, p []byte, hdrCRC bool, isGzip bool, what string) error {
	for _, unc := range []bool{true, false} {
		var out []byte
		var err error
		if perr := stats.PanicGuard("C15/DeserializeData/panic-on-corrupted", func() error {
			out, _, err = dvid.DeserializeData(append([]byte(nil), mut...), unc)
			return nil
		}); perr != nil {
			return stats.Violf("C15/DeserializeData/panic-on-corrupted", "%s uncompress=%v: %v", what, unc, perr)
		}
		if hdrCRC {
			if err == nil {
				// only acceptable if the stored CRC genuinely matches the altered payload (possible for truncations only)
				if len(mut) >= 5 && crc32.ChecksumIEEE(mut[5:]) == binary.LittleEndian.Uint32(mut[1:5]) {
					stats.Count("crc_true_collisions", 1)
					continue
				}
				return stats.Violf("C15/CRC32/corruption-returned-as-data", "%s uncompress=%v: no error, %d bytes returned", what, unc, len(out))
			}
		} else if isGzip && unc {
			if err == nil && !bytes.Equal(out, p) {
				return stats.Violf("C15/gzip/corruption-returned-as-data", "%s: no error and different payload (%d vs %d bytes)", what, len(out), len(p))
			}
		}
	}
	return nil
}

func checkCorr(c corrCase) error {
	p := c.Payload.bytes()
	if len(p) == 0 {
		return nil
	}
	comp, err := c.Format.compression()
	if err != nil {
		return stats.Violf("C15/NewCompression/rejects-documented-format", "%v", err)
	}
	env, err := dvid.SerializeData(p, comp, dvid.CRC32)
	if err != nil {
		return stats.Violf("C15/SerializeData/error", "%v", err)
	}
	isGzip := comp.Format() == dvid.Gzip
	_, hdrCS := dvid.DecodeSerializationFormat(dvid.SerializationFormat(env[0]))
	hdrCRC := hdrCS == dvid.CRC32
	if !isGzip && !hdrCRC {
		return stats.Violf("C15/SerializeData/checksum-not-stored", "CRC32 requested for format %v but header says %v", comp.Format(), hdrCS)
	}
	start := 1
	if hdrCRC {
		start = 5
	}
	plen := len(env) - start
	if plen <= 0 {
		return stats.Violf("C15/SerializeData/empty-envelope", "non-empty payload gave %d byte envelope", len(env))
	}
	n := 0
	flip := func(pos, bit int) error {
		mut := append([]byte(nil), env...)
		mut[start+pos] ^= 1 << uint(bit)
		n++
		return checkOneCorruption(env, mut, p, hdrCRC, isGzip, fmt.Sprintf("bit flip at payload byte %d bit %d", pos, bit))
	}
	trunc := func(l int) error { // l in [1, len(env)-1]
		n++
		return checkOneCorruption(env, env[:l], p, hdrCRC, isGzip, fmt.Sprintf("truncation to %d of %d bytes", l, len(env)))
	}
	if c.Exhaustive {
		for pos := 0; pos < plen; pos++ {
			for bit := 0; bit < 8; bit++ {
				if err := flip(pos, bit); err != nil {
					return err
				}
			}
		}
		for l := 1; l < len(env); l++ {
			if err := trunc(l); err != nil {
				return err
			}
		}
	}
	for i := range c.FlipPos {
		if err := flip(mod(c.FlipPos[i], plen), c.FlipBit[i]&7); err != nil {
			return err
		}
	}
	for i := range c.BytePos {
		mut := append([]byte(nil), env...)
		x := c.ByteXor[i]
		if x == 0 {
			x = 0xff
		}
		pos := mod(c.BytePos[i], plen)
		mut[start+pos] ^= x
		n++
		if err := checkOneCorruption(env, mut, p, hdrCRC, isGzip, fmt.Sprintf("byte %d xor %#x", pos, x)); err != nil {
			return err
		}
	}
	if len(env) > 1 {
		for _, l := range c.TruncLen {
			if err := trunc(1 + mod(l, len(env)-1)); err != nil {
				return err
			}
		}
	}
	stats.Count("corruptions_checked", int64(n))
	return nil
}

func mod(a, n int) int {
	a %= n
	if a < 0 {
		a += n
	}
	return a
}

func TestC15Corruption(t *testing.T) {
	rapid.Check(t, func(t *rapid.T) {
		c := corrCase{Format: genFormat(t)}
		c.Format.Checksum = uint8(dvid.CRC32)
		c.Exhaustive = rapid.Bool().Draw(t, "exhaustive")
		if c.Exhaustive {
			c.Payload = payloadSpec{Kind: "small", Small: rapid.SliceOfN(rapid.Byte(), 1, 48).Draw(t, "small")}
		} else {
			c.Payload = genPayload(t, 1<<18)
			k := rapid.IntRange(1, 24).Draw(t, "k")
			for i := 0; i < k; i++ {
				c.FlipPos = append(c.FlipPos, rapid.IntRange(0, 1<<20).Draw(t, "fp"))
				c.FlipBit = append(c.FlipBit, rapid.IntRange(0, 7).Draw(t, "fb"))
				c.BytePos = append(c.BytePos, rapid.IntRange(0, 1<<20).Draw(t, "bp"))
				c.ByteXor = append(c.ByteXor, byte(rapid.IntRange(1, 255).Draw(t, "bx")))
				c.TruncLen = append(c.TruncLen, rapid.IntRange(0, 1<<20).Draw(t, "tl"))
			}
		}
		if !stats.Judge(t, "C15", "TestC15Corruption", checkCorr(c), c) {
			return
		}
		cls := []string{fmt.Sprintf("corr/format=%d", c.Format.Format), fmt.Sprintf("corr/exhaustive=%v", c.Exhaustive)}
		stats.Record(stats.HashJSON(c), len(c.Payload.bytes()) > 0, cls, func() interface{} {
			return map[string]interface{}{"test": "corruption", "format": c.Format, "exhaustive": c.Exhaustive, "payload_kind": c.Payload.Kind, "payload_len": len(c.Payload.bytes()), "sampled_flips": len(c.FlipPos)}
		})
	})
}

// ---------- 3. arbitrary byte strings never crash

type arbCase struct {
	Kind string `json:"kind"` // raw | hdr+valid | jpeg-gray | jpeg-color | lz4-lenlie
	Hdr  byte   `json:"hdr"`
	Body []byte `json:"body"`
	W    int    `json:"w,omitempty"`
	H    int    `json:"h,omitempty"`
	Lie  uint32 `json:"lie,omitempty"`
}

// capLZ4Claim bounds the uncompressed size an LZ4 envelope claims to 64 MiB: DeserializeData allocates what the
// length prefix says before it decodes (up to 4 GiB from 5 bytes), and sixteen such workers at a time would have the
// kernel kill one of them — a question of memory, not of the round-trip / corruption property checked here.
func capLZ4Claim(env []byte) []byte {
	if len(env) >= 1 {
		f, cs := dvid.DecodeSerializationFormat(dvid.SerializationFormat(env[0]))
		off := 1
		if cs == dvid.CRC32 {
			off = 5 // the checksum comes first
		}
		if f == dvid.LZ4 && len(env) >= off+4 {
			env[off+3] &= 0x03
		}
	}
	return env
}

func (c arbCase) envelope() []byte {
	switch c.Kind {
	case "raw":
		return capLZ4Claim(append([]byte{c.Hdr}, c.Body...))
	case "hdr-only":
		return []byte{c.Hdr}
	case "jpeg-gray", "jpeg-color":
		var img image.Image
		if c.Kind == "jpeg-gray" {
			g := image.NewGray(image.Rect(0, 0, c.W, c.H))
			for i := range g.Pix {
				if len(c.Body) > 0 {
					g.Pix[i] = c.Body[i%len(c.Body)]
				}
			}
			img = g
		} else {
			g := image.NewRGBA(image.Rect(0, 0, c.W, c.H))
			for y := 0; y < c.H; y++ {
				for x := 0; x < c.W; x++ {
					var v byte
					if len(c.Body) > 0 {
						v = c.Body[(y*c.W+x)%len(c.Body)]
					}
					g.Set(x, y, color.RGBA{v, v ^ 0x55, 255 - v, 255})
				}
			}
			img = g
		}
		var b bytes.Buffer
		jpeg.Encode(&b, img, nil)
		comp, _ := dvid.NewCompression(dvid.JPEG, 80)
		hdr := byte(dvid.EncodeSerializationFormat(comp, dvid.NoChecksum))
		return append([]byte{hdr}, b.Bytes()...)
	case "lz4-lenlie":
		comp, _ := dvid.NewCompression(dvid.LZ4, dvid.DefaultCompression)
		hdr := byte(dvid.EncodeSerializationFormat(comp, dvid.NoChecksum))
		out := []byte{hdr, 0, 0, 0, 0}
		binary.LittleEndian.PutUint32(out[1:], c.Lie)
		cd := make([]byte, lz4.CompressBound(c.Body)+1)
		if len(c.Body) > 0 {
			n, _ := lz4.Compress(c.Body, cd)
			out = append(out, cd[:n]...)
		}
		return out
	}
	return nil
}

func checkArb(c arbCase) error {
	env := c.envelope()
	for _, unc := range []bool{true, false} {
		if err := stats.PanicGuard("C15/DeserializeData/panic-on-arbitrary-input", func() error {
			out, _, err := dvid.DeserializeData(append([]byte(nil), env...), unc)
			_ = out
			_ = err
			return nil
		}); err != nil {
			return stats.Violf(sigForArb(c), "kind=%s hdr=%#x len=%d uncompress=%v: %v", c.Kind, env0(env), len(env), unc, err)
		}
	}
	return nil
}

func env0(e []byte) byte {
	if len(e) == 0 {
		return 0
	}
	return e[0]
}

func sigForArb(c arbCase) string {
	env := c.envelope()
	if len(env) == 0 {
		return "C15/DeserializeData/panic-on-arbitrary-input"
	}
	f, _ := dvid.DecodeSerializationFormat(dvid.SerializationFormat(env[0]))
	return fmt.Sprintf("C15/DeserializeData/panic-on-arbitrary-input/format=%d", f)
}

func TestC15Arbitrary(t *testing.T) {
	rapid.Check(t, func(t *rapid.T) {
		c := arbCase{Kind: rapid.SampledFrom([]string{"raw", "raw", "raw", "hdr-only", "jpeg-gray", "jpeg-color", "lz4-lenlie"}).Draw(t, "kind")}
		c.Hdr = rapid.Byte().Draw(t, "hdr")
		switch c.Kind {
		case "raw":
			c.Body = rapid.SliceOfN(rapid.Byte(), 0, 64).Draw(t, "body")
		case "jpeg-gray", "jpeg-color":
			c.W = rapid.IntRange(1, 24).Draw(t, "w")
			c.H = rapid.IntRange(1, 24).Draw(t, "h")
			c.Body = rapid.SliceOfN(rapid.Byte(), 0, 16).Draw(t, "body")
		case "lz4-lenlie":
			c.Body = rapid.SliceOfN(rapid.Byte(), 0, 64).Draw(t, "body")
			c.Lie = rapid.SampledFrom([]uint32{0, 1, 2, 3, 63, 64, 65, 1 << 16, 1 << 24}).Draw(t, "lie")
		}
		if !stats.Judge(t, "C15", "TestC15Arbitrary", checkArb(c), c) {
			return
		}
		f, cs := dvid.DecodeSerializationFormat(dvid.SerializationFormat(env0(c.envelope())))
		stats.Record(stats.HashJSON(c), len(c.envelope()) >= 2, []string{"arb/kind=" + c.Kind, fmt.Sprintf("arb/format=%d", f), fmt.Sprintf("arb/checksum=%d", cs)}, func() interface{} {
			return map[string]interface{}{"test": "arbitrary", "case": c}
		})
	})
}

// ---------- native fuzz target (thorough tier)

func fuzzOne(data []byte, unc bool) error {
	if err := stats.PanicGuard("C15/DeserializeData/panic-on-arbitrary-input", func() error {
		out, _, err := dvid.DeserializeData(append([]byte(nil), data...), unc)
		if err == nil && len(data) >= 5 {
			_, cs := dvid.DecodeSerializationFormat(dvid.SerializationFormat(data[0]))
			if cs == dvid.CRC32 && crc32.ChecksumIEEE(data[5:]) != binary.LittleEndian.Uint32(data[1:5]) {
				return stats.Violf("C15/CRC32/corruption-returned-as-data", "accepted %d bytes with wrong CRC, returned %d bytes", len(data), len(out))
			}
		}
		return nil
	}); err != nil {
		return err
	}
	// the same bytes as a payload must round-trip through every lossless format
	if len(data) > 0 {
		for _, f := range []dvid.CompressionFormat{dvid.Uncompressed, dvid.Snappy, dvid.LZ4, dvid.Gzip} {
			c := rtCase{Payload: payloadSpec{Kind: "small", Small: data}, Format: formatSpec{uint8(f), -1, uint8(dvid.CRC32)}, Uncompress: unc}
			if err := checkRT(c); err != nil {
				return err
			}
		}
	}
	return nil
}

func FuzzC15Deserialize(f *testing.F) {
	comp, _ := dvid.NewCompression(dvid.LZ4, dvid.DefaultCompression)
	s, _ := dvid.SerializeData([]byte("hello hello hello hello"), comp, dvid.CRC32)
	f.Add(s, true)
	comp, _ = dvid.NewCompression(dvid.Gzip, dvid.DefaultCompression)
	s, _ = dvid.SerializeData([]byte("hello hello hello hello"), comp, dvid.NoChecksum)
	f.Add(s, true)
	comp, _ = dvid.NewCompression(dvid.Snappy, dvid.DefaultCompression)
	s, _ = dvid.SerializeData([]byte("hello hello hello hello"), comp, dvid.CRC32)
	f.Add(s, false)
	f.Add([]byte{0x80}, true)
	f.Add([]byte{0x80, 1, 2}, true)
	f.Add([]byte{0xa0, 0xff, 0xd8, 0xff}, true)
	f.Add(arbCase{Kind: "jpeg-color", W: 8, H: 8, Body: []byte{1, 2, 3}}.envelope(), true)
	f.Fuzz(func(t *testing.T, data []byte, unc bool) {
		data = capLZ4Claim(append([]byte(nil), data...))
		if err := fuzzOne(data, unc); err != nil {
			fmt.Printf("REPLAY-FAIL sig=%s msg=%s\n", stats.SigOf(err), err.Error())
			t.Fatalf("%v", err)
		}
	})
}

func TestReplay(t *testing.T) {
	stats.RunReplay(t, map[string]func(json.RawMessage) error{
		"TestC15RoundTrip": func(raw json.RawMessage) error {
			var c rtCase
			if err := json.Unmarshal(raw, &c); err != nil {
				return err
			}
			return checkRT(c)
		},
		"TestC15Gob": func(raw json.RawMessage) error {
			var c gobCase
			if err := json.Unmarshal(raw, &c); err != nil {
				return err
			}
			return checkGob(c)
		},
		"TestC15Corruption": func(raw json.RawMessage) error {
			var c corrCase
			if err := json.Unmarshal(raw, &c); err != nil {
				return err
			}
			return checkCorr(c)
		},
		"TestC15Arbitrary": func(raw json.RawMessage) error {
			var c arbCase
			if err := json.Unmarshal(raw, &c); err != nil {
				return err
			}
			return checkArb(c)
		},
	})
}
