// C10 — operations on compressed label blocks equal the voxel-wise reference.
//
// Oracle: every operation of the code under test (labels.Block.MergeLabels / ReplaceLabel(s) /
// PositionedBlock.Split* / Block.Downres*) is applied to a compressed block; the result is decoded with
// MakeLabelVolume and compared voxel for voxel with the naive operation of package verif/model applied
// to the decoded INPUT; reported counts are compared with counts taken from the arrays.
//
// splitFast is unexported and unreachable (Split always calls splitSlow), so the "fast vs slow split"
// sub-check is not implemented here; a build-tag shim in /repo may add it later.
package c10

import (
	"encoding/json"
	"fmt"
	"os"
	"sort"
	"testing"

	"github.com/janelia-flyem/dvid/datatype/common/labels"
	"github.com/janelia-flyem/dvid/dvid"
	"pgregory.net/rapid"

	"verif/model"
	"verif/props/blockgen"
	"verif/stats"
)

func TestMain(m *testing.M) {
	rc := m.Run()
	stats.Flush()
	os.Exit(rc)
}

// ---------- known-finding signatures the generators steer around

// MakeBlock (and therefore every array-domain operation) fails for blocks with an odd number of sub-blocks.
const sigOdd = "C10/setup-MakeBlock/error/odd-sub-block-count"

// ReplaceLabel's replaceSize is wrong; suffixes (see replaceSizeShape) separate the root causes.
const sigReplaceSize = "C10/ReplaceLabel/replaceSize-differs"

// Downres replaces the whole receiver by a solid label-0 block when all given octants are solid 0 and the others nil.
const sigDownresNil = "C10/Downres/nil-octant-portion-modified"

const sigFastDisagree = "C10/DownresFast/disagrees-with-DownresSlow"
const sigFastPanic = "C10/DownresFast/panic"
const sigFastError = "C10/DownresFast/error"

func shapeOpts(maxSmall int, big bool) blockgen.Opts {
	o := blockgen.Opts{MaxSmallG: maxSmall, Big: big}
	if stats.IsKnown(sigOdd) {
		o.EvenOnly, o.EvenOnlySig = true, sigOdd
	}
	return o
}

// ---------- helpers

func p3(d model.Dims) dvid.Point3d { return dvid.Point3d{int32(d[0]), int32(d[1]), int32(d[2])} }

func bcoordString(bc [3]int32) dvid.IZYXString {
	return dvid.ChunkPoint3d{bc[0], bc[1], bc[2]}.ToIZYXString()
}

// setupBlock compresses the spec's array (the codec itself is property C09; a failure here is reported
// under a setup signature).  canon != 0 fixes the order of the label table (blockgen.PermuteTable).
func setupBlock(s model.BlockSpec, canon uint64, useSolid bool) (*labels.Block, []uint64, error) {
	d := s.Dims()
	arr := s.Build()
	if useSolid && s.Kind == "solid" {
		return labels.MakeSolidBlock(s.LabelA, p3(d)), arr, nil
	}
	var b *labels.Block
	err := stats.PanicGuard("C10/setup-MakeBlock/panic", func() error {
		var err error
		b, err = labels.MakeBlock(model.LabelsToBytes(arr), p3(d))
		if err != nil {
			if s.G[0]*s.G[1]*s.G[2]%2 == 1 {
				return stats.Violf(sigOdd, "size %v (%d sub-blocks): %v", d, s.G[0]*s.G[1]*s.G[2], err)
			}
			return stats.Violf("C10/setup-MakeBlock/error", "size %v: %v", d, err)
		}
		if canon != 0 {
			if b, err = blockgen.PermuteTable(b, canon); err != nil {
				return stats.Violf("C10/setup-PermuteTable/error", "%v", err)
			}
		}
		return nil
	})
	if err != nil {
		return nil, nil, err
	}
	got, err := decode("C10/setup-decode", b, d)
	if err != nil {
		return nil, nil, err
	}
	if model.FirstDiff(arr, got) >= 0 {
		return nil, nil, stats.Violf("C10/setup-decode/differs", "%s", describeDiff(d, arr, got))
	}
	return b, arr, nil
}

func decode(sig string, b *labels.Block, d model.Dims) ([]uint64, error) {
	var out []uint64
	if b == nil {
		return nil, stats.Violf(sig+"/nil-block", "nil block returned without error")
	}
	err := stats.PanicGuard(sig+"/decode-panic", func() error {
		by, size := b.MakeLabelVolume()
		if !size.Equals(p3(d)) || len(by) != d.N()*8 {
			return stats.Violf(sig+"/size", "decoded size %s (%d bytes), expected %v", size, len(by), d)
		}
		out = model.LabelsFromBytes(by)
		return nil
	})
	return out, err
}

func describeDiff(d model.Dims, want, got []uint64) string {
	i := model.FirstDiff(want, got)
	if i < 0 {
		return "equal"
	}
	if i >= len(want) || i >= len(got) {
		return fmt.Sprintf("length %d vs %d", len(want), len(got))
	}
	n := 0
	for j := range want {
		if want[j] != got[j] {
			n++
		}
	}
	x, y, z := i%d[0], (i/d[0])%d[1], i/(d[0]*d[1])
	return fmt.Sprintf("%d of %d voxels differ, first at (%d,%d,%d) sub-block %d: want %d got %d", n, len(want), x, y, z, model.SubBlockOf(d, i), want[i], got[i])
}

// expectBlock decodes out and compares it with want.
func expectBlock(sig string, out *labels.Block, want []uint64, d model.Dims, ctx string) error {
	got, err := decode(sig, out, d)
	if err != nil {
		return err
	}
	if model.FirstDiff(want, got) >= 0 {
		return stats.Violf(sig+"/differs-from-model", "%s: %s", ctx, describeDiff(d, want, got))
	}
	return nil
}

// expectCounts: CalcNumLabels on the (possibly aliased) result equals the true per-label counts.
func expectCounts(sig string, out, prev *labels.Block, cur, prevArr []uint64, ctx string) error {
	return stats.PanicGuard(sig+"/CalcNumLabels-panic", func() error {
		got := out.CalcNumLabels(prev)
		want := map[uint64]int64{}
		for l, n := range model.Counts(cur) {
			if l != 0 {
				want[l] += n
			}
		}
		if prev != nil {
			for l, n := range model.Counts(prevArr) {
				if l != 0 {
					want[l] -= n
				}
			}
		}
		keys := map[uint64]bool{}
		for l := range want {
			keys[l] = true
		}
		for l := range got {
			keys[l] = true
		}
		var ks []uint64
		for l := range keys {
			ks = append(ks, l)
		}
		sort.Slice(ks, func(i, j int) bool { return ks[i] < ks[j] })
		for _, l := range ks {
			if int64(got[l]) != want[l] {
				return stats.Violf(sig+"/CalcNumLabels-differs", "%s: label %d delta %d, true %d", ctx, l, got[l], want[l])
			}
		}
		return nil
	})
}

func toSet(l []uint64) (labels.Set, map[uint64]bool) {
	s := labels.Set{}
	m := map[uint64]bool{}
	for _, v := range l {
		s[v] = struct{}{}
		m[v] = true
	}
	return s, m
}

func nonZero(l []uint64) []uint64 {
	var out []uint64
	for _, v := range l {
		if v != 0 {
			out = append(out, v)
		}
	}
	return out
}

func contains(l []uint64, v uint64) bool {
	for _, x := range l {
		if x == v {
			return true
		}
	}
	return false
}

// freshLabel(i) is never produced by blockgen's palette except through rapid.Uint64() (probability ~0).
func freshLabel(i int) uint64 { return 1<<40 + uint64(i) }

func drawCanon(t *rapid.T) uint64 {
	if rapid.IntRange(0, 3).Draw(t, "canon-table") == 3 {
		return 0 // leave MakeBlock's (random) table order
	}
	return rapid.Uint64Range(1, 1<<62).Draw(t, "canon-seed")
}

func dvidRuns(runs []model.Run, d model.Dims, bc [3]int32) dvid.RLEs {
	out := make(dvid.RLEs, 0, len(runs))
	for _, r := range runs {
		out = append(out, dvid.NewRLE(dvid.Point3d{r.X + bc[0]*int32(d[0]), r.Y + bc[1]*int32(d[1]), r.Z + bc[2]*int32(d[2])}, r.Len))
	}
	return out
}

// touched: number of sub-blocks in which before and after differ.
func ntRule(d model.Dims, before, after []uint64) bool {
	return model.DiffSubBlocks(d, before, after) >= 2 && len(model.SortedLabels(before)) >= 3
}

// ---------- TestC10Merge

type mergeOp struct {
	Target uint64   `json:"target"`
	Merged []uint64 `json:"merged"`
}

type mergeCase struct {
	Block    model.BlockSpec `json:"block"`
	Canon    uint64          `json:"canon"`
	UseSolid bool            `json:"use_solid"`
	Ops      []mergeOp       `json:"ops"` // each merge is applied to the result of the previous one
}

func applyMerge(sigp string, b *labels.Block, cur []uint64, d model.Dims, op mergeOp, ctx string) (*labels.Block, []uint64, error) {
	set, m := toSet(op.Merged)
	var out *labels.Block
	if err := stats.PanicGuard(sigp+"/panic", func() error {
		var err error
		out, err = b.MergeLabels(labels.MergeOp{Target: op.Target, Merged: set})
		if err != nil {
			return stats.Violf(sigp+"/error", "%s: %v", ctx, err)
		}
		return nil
	}); err != nil {
		return nil, nil, err
	}
	want := model.MergeLabels(cur, op.Target, m)
	if err := expectBlock(sigp, out, want, d, ctx); err != nil {
		return nil, nil, err
	}
	// "returns a new block": the receiver still decodes to its own content
	if err := expectBlock(sigp+"/input-block", b, cur, d, ctx+" (input after the call)"); err != nil {
		return nil, nil, err
	}
	if err := expectCounts(sigp, out, b, want, cur, ctx); err != nil {
		return nil, nil, err
	}
	return out, want, nil
}

func checkMerge(c mergeCase) error {
	d := c.Block.Dims()
	b, cur, err := setupBlock(c.Block, c.Canon, c.UseSolid)
	if err != nil {
		return err
	}
	for i, op := range c.Ops {
		sigp := "C10/MergeLabels"
		if i > 0 {
			sigp = "C10/MergeLabels/after-merge"
		}
		ctx := fmt.Sprintf("size %v merge #%d %v -> %d (table %d labels)", d, i, op.Merged, op.Target, len(b.Labels))
		if b, cur, err = applyMerge(sigp, b, cur, d, op, ctx); err != nil {
			return err
		}
	}
	return nil
}

// drawMerge draws a merge on an array with the given labels; returns class labels too.
func drawMerge(t *rapid.T, name string, cur []uint64, nFresh *int) (mergeOp, []string) {
	present := nonZero(model.SortedLabels(cur))
	var op mergeOp
	var cls []string
	fresh := func() uint64 { *nFresh++; return freshLabel(*nFresh) }
	kind := rapid.SampledFrom([]string{"target-present", "target-present", "target-absent"}).Draw(t, name+"-target-kind")
	if len(present) == 0 {
		kind = "target-absent"
	}
	if kind == "target-present" {
		op.Target = rapid.SampledFrom(present).Draw(t, name+"-target")
	} else {
		op.Target = fresh()
	}
	cls = append(cls, "op=merge/"+kind)
	var cand []uint64
	for _, l := range present {
		if l != op.Target {
			cand = append(cand, l)
		}
	}
	mk := rapid.SampledFrom([]string{"present", "present", "present", "absent", "mixed", "everything"}).Draw(t, name+"-merged-kind")
	if len(cand) == 0 {
		mk = "absent"
	}
	switch mk {
	case "present", "mixed":
		n := rapid.IntRange(1, 4).Draw(t, name+"-nmerged")
		for i := 0; i < n; i++ {
			l := rapid.SampledFrom(cand).Draw(t, name+"-merged")
			if !contains(op.Merged, l) {
				op.Merged = append(op.Merged, l)
			}
		}
		if mk == "mixed" {
			op.Merged = append(op.Merged, fresh())
		}
	case "absent":
		op.Merged = []uint64{fresh(), fresh()}
	case "everything":
		op.Merged = cand
	}
	cls = append(cls, "op=merge/merged-"+mk)
	return op, cls
}

func TestC10Merge(t *testing.T) {
	rapid.Check(t, func(t *rapid.T) {
		g := blockgen.Shape(t, "shape", shapeOpts(4, true))
		c := mergeCase{Block: blockgen.Spec(t, "block", g), Canon: drawCanon(t), UseSolid: rapid.Bool().Draw(t, "use-solid")}
		d := c.Block.Dims()
		arr := c.Block.Build()
		cur := arr
		nFresh := 0
		var cls []string
		n := rapid.SampledFrom([]int{1, 1, 2, 3}).Draw(t, "nops")
		nt := false
		for i := 0; i < n; i++ {
			op, cl := drawMerge(t, fmt.Sprintf("m%d", i), cur, &nFresh)
			if i > 0 && rapid.IntRange(0, 2).Draw(t, "reuse-target") == 2 {
				// merge into / out of the label produced by the earlier merge
				if rapid.Bool().Draw(t, "earlier-target-as-merged") && op.Target != c.Ops[i-1].Target {
					if !contains(op.Merged, c.Ops[i-1].Target) {
						op.Merged = append(op.Merged, c.Ops[i-1].Target)
					}
					cl = append(cl, "op=merge/earlier-target-merged-away")
				} else if !contains(op.Merged, c.Ops[i-1].Target) {
					op.Target = c.Ops[i-1].Target
					cl = append(cl, "op=merge/same-target-again")
				}
			}
			c.Ops = append(c.Ops, op)
			_, m := toSet(op.Merged)
			next := model.MergeLabels(cur, op.Target, m)
			if ntRule(d, cur, next) {
				nt = true
			}
			cur = next
			cls = append(cls, cl...)
			if i > 0 {
				cls = append(cls, "op=merge/on-merged-block")
			}
		}
		if !stats.Judge(t, "C10", "TestC10Merge", checkMerge(c), c) {
			return
		}
		bc, _, _ := blockgen.Classes("merge/", c.Block, arr)
		stats.Record(stats.HashJSON(c), nt, dedupe(append(cls, bc...)), func() interface{} {
			return map[string]interface{}{"test": "merge", "case": c}
		})
	})
}

// ---------- TestC10Replace

type pair struct {
	From uint64 `json:"from"`
	To   uint64 `json:"to"`
}

type replaceStep struct {
	Kind string `json:"kind"` // one | map
	From uint64 `json:"from,omitempty"`
	To   uint64 `json:"to,omitempty"`
	Map  []pair `json:"map,omitempty"`
}

type replaceCase struct {
	Block    model.BlockSpec `json:"block"`
	Canon    uint64          `json:"canon"`
	UseSolid bool            `json:"use_solid"`
	Steps    []replaceStep   `json:"steps"`
}

func applyReplace(b *labels.Block, cur []uint64, d model.Dims, st replaceStep, first bool, ctx string) (*labels.Block, []uint64, error) {
	var out *labels.Block
	var want []uint64
	if st.Kind == "one" {
		var n uint64
		want, n = model.ReplaceLabel(cur, st.From, st.To)
		var got uint64
		if err := stats.PanicGuard("C10/ReplaceLabel/panic", func() error {
			var err error
			out, got, err = b.ReplaceLabel(st.From, st.To)
			if err != nil {
				return stats.Violf("C10/ReplaceLabel/error", "%s: %v", ctx, err)
			}
			return nil
		}); err != nil {
			return nil, nil, err
		}
		if err := expectBlock("C10/ReplaceLabel", out, want, d, ctx); err != nil {
			return nil, nil, err
		}
		if got != n {
			sig := sigReplaceSize + replaceSizeShape(b, st.From)
			if !stats.IsKnown(sig) {
				return nil, nil, stats.Violf(sig, "%s: replaceSize %d, true number of voxels with label %d is %d", ctx, got, st.From, n)
			}
			stats.Excluded(sig) // the count is not compared on this shape while the finding is listed
		}
		if err := expectBlock("C10/ReplaceLabel/input-block", b, cur, d, ctx+" (input after the call)"); err != nil {
			return nil, nil, err
		}
		if err := expectCounts("C10/ReplaceLabel", out, b, want, cur, ctx); err != nil {
			return nil, nil, err
		}
		return out, want, nil
	}
	mp := map[uint64]uint64{}
	for _, p := range st.Map {
		mp[p.From] = p.To
	}
	want, any := model.ReplaceLabels(cur, mp)
	var replaced bool
	if err := stats.PanicGuard("C10/ReplaceLabels/panic", func() error {
		var err error
		out, replaced, err = b.ReplaceLabels(mp)
		if err != nil {
			return stats.Violf("C10/ReplaceLabels/error", "%s: %v", ctx, err)
		}
		return nil
	}); err != nil {
		return nil, nil, err
	}
	if err := expectBlock("C10/ReplaceLabels", out, want, d, ctx); err != nil {
		return nil, nil, err
	}
	// the flag is only compared on a block straight from MakeBlock, whose table holds exactly the labels present
	if first && replaced != any {
		return nil, nil, stats.Violf("C10/ReplaceLabels/replaced-flag-differs", "%s: replaced=%v but a label of the mapping is present=%v", ctx, replaced, any)
	}
	if err := expectBlock("C10/ReplaceLabels/input-block", b, cur, d, ctx+" (input after the call)"); err != nil {
		return nil, nil, err
	}
	if err := expectCounts("C10/ReplaceLabels", out, b, want, cur, ctx); err != nil {
		return nil, nil, err
	}
	return out, want, nil
}

// replaceSizeShape classifies the input of a ReplaceLabel call whose replaceSize was wrong, by inspecting
// the structure of the compressed input block, so that distinct root causes get distinct signatures:
//
//	/duplicate-sub-block-index: some sub-block's index list names a table entry of the target twice
//	    (left behind by MergeLabels, which redirects merged indices to the target's entry);
//	/skipped-sub-block: a multi-label sub-block that does not hold (an entry of) the target precedes a
//	    multi-label sub-block that does;
//	"" otherwise.
func replaceSizeShape(b *labels.Block, target uint64) string {
	if len(b.Labels) < 2 {
		return ""
	}
	skipped := false
	for slot, l := range b.Labels {
		if l != target {
			continue
		}
		pos := 0
		lacking := false
		for _, n := range b.NumSBLabels {
			cnt := 0
			for i := 0; i < int(n); i++ {
				if int(b.SBIndices[pos+i]) == slot {
					cnt++
				}
			}
			pos += int(n)
			if cnt > 1 {
				return "/duplicate-sub-block-index"
			}
			if n >= 2 {
				if cnt == 0 {
					lacking = true
				} else if lacking {
					skipped = true
				}
			}
		}
	}
	if skipped {
		return "/skipped-sub-block"
	}
	return ""
}

func checkReplace(c replaceCase) error {
	d := c.Block.Dims()
	b, cur, err := setupBlock(c.Block, c.Canon, c.UseSolid)
	if err != nil {
		return err
	}
	for i, st := range c.Steps {
		ctx := fmt.Sprintf("size %v step #%d %+v (table %d labels)", d, i, st, len(b.Labels))
		if b, cur, err = applyReplace(b, cur, d, st, i == 0, ctx); err != nil {
			return err
		}
	}
	return nil
}

func drawReplace(t *rapid.T, name string, cur []uint64, prev *replaceStep, nFresh *int) (replaceStep, []string) {
	present := model.SortedLabels(cur)
	fresh := func() uint64 { *nFresh++; return freshLabel(*nFresh) }
	var cls []string
	label := func(n string) (uint64, string) {
		switch rapid.SampledFrom([]string{"present", "present", "present", "fresh", "zero"}).Draw(t, n+"-kind") {
		case "present":
			return rapid.SampledFrom(present).Draw(t, n), "present"
		case "zero":
			return 0, "zero"
		}
		return fresh(), "absent"
	}
	st := replaceStep{Kind: rapid.SampledFrom([]string{"one", "one", "map"}).Draw(t, name+"-kind")}
	if st.Kind == "one" {
		var fk, tk string
		st.From, fk = label(name + "-from")
		st.To, tk = label(name + "-to")
		if prev != nil && prev.Kind == "one" && rapid.Bool().Draw(t, name+"-chain") {
			st.From = prev.To // a->b then b->c
			fk = "chain"
			cls = append(cls, "op=replace/chain-a->b,b->c")
		}
		if st.From == 0 {
			fk = "zero"
		}
		if st.To == 0 {
			tk = "zero"
		}
		cls = append(cls, "op=replace/source-"+fk, "op=replace/dest-"+tk)
		if st.From == st.To {
			cls = append(cls, "op=replace/identity")
		}
		return st, cls
	}
	n := rapid.IntRange(1, 4).Draw(t, name+"-npairs")
	for i := 0; i < n; i++ {
		f, fk := label(fmt.Sprintf("%s-p%d-from", name, i))
		to, tk := label(fmt.Sprintf("%s-p%d-to", name, i))
		if len(st.Map) > 0 && rapid.IntRange(0, 2).Draw(t, fmt.Sprintf("%s-p%d-chain", name, i)) == 2 {
			f = st.Map[len(st.Map)-1].To // a->b, b->c inside one mapping
			cls = append(cls, "op=replacemap/chain-a->b,b->c")
		}
		dup := false
		for _, p := range st.Map {
			dup = dup || p.From == f
		}
		if dup {
			continue
		}
		st.Map = append(st.Map, pair{f, to})
		if f == 0 {
			fk = "zero"
		}
		if to == 0 {
			tk = "zero"
		}
		cls = append(cls, "op=replacemap/source-"+fk, "op=replacemap/dest-"+tk)
		if f == to {
			cls = append(cls, "op=replacemap/identity")
		}
	}
	if len(st.Map) >= 2 && rapid.IntRange(0, 4).Draw(t, name+"-swap") == 4 {
		st.Map = []pair{{st.Map[0].From, st.Map[1].From}, {st.Map[1].From, st.Map[0].From}}
		cls = append(cls, "op=replacemap/swap")
	}
	return st, cls
}

func modelReplace(cur []uint64, st replaceStep) []uint64 {
	if st.Kind == "one" {
		out, _ := model.ReplaceLabel(cur, st.From, st.To)
		return out
	}
	mp := map[uint64]uint64{}
	for _, p := range st.Map {
		mp[p.From] = p.To
	}
	out, _ := model.ReplaceLabels(cur, mp)
	return out
}

func TestC10Replace(t *testing.T) {
	rapid.Check(t, func(t *rapid.T) {
		g := blockgen.Shape(t, "shape", shapeOpts(4, true))
		c := replaceCase{Block: blockgen.Spec(t, "block", g), Canon: drawCanon(t), UseSolid: rapid.Bool().Draw(t, "use-solid")}
		d := c.Block.Dims()
		arr := c.Block.Build()
		cur := arr
		nFresh := 0
		var cls []string
		nt := false
		n := rapid.SampledFrom([]int{1, 2, 2, 3}).Draw(t, "nsteps")
		for i := 0; i < n; i++ {
			var prev *replaceStep
			if i > 0 {
				prev = &c.Steps[i-1]
			}
			st, cl := drawReplace(t, fmt.Sprintf("s%d", i), cur, prev, &nFresh)
			c.Steps = append(c.Steps, st)
			next := modelReplace(cur, st)
			if ntRule(d, cur, next) {
				nt = true
			}
			cur = next
			cls = append(cls, cl...)
			if i > 0 {
				cls = append(cls, "op=replace/on-replaced-block")
			}
		}
		if !stats.Judge(t, "C10", "TestC10Replace", checkReplace(c), c) {
			return
		}
		bc, _, _ := blockgen.Classes("replace/", c.Block, arr)
		stats.Record(stats.HashJSON(c), nt, dedupe(append(cls, bc...)), func() interface{} {
			return map[string]interface{}{"test": "replace", "case": c}
		})
	})
}

// ---------- TestC10Split

type splitCase struct {
	Block     model.BlockSpec  `json:"block"`
	Canon     uint64           `json:"canon"`
	BCoord    [3]int32         `json:"bcoord"`
	Runs      blockgen.RunSpec `json:"runs"`
	Target    uint64           `json:"target"`    // Split target / SplitSupervoxel supervoxel
	NewLabel  uint64           `json:"new_label"` // label of the split part
	Remain    uint64           `json:"remain"`    // SplitSupervoxel: relabelling of the remainder
	SVs       []uint64         `json:"svs"`       // SplitSupervoxels: supervoxels that are split
	PreMapped []uint64         `json:"premapped"` // SplitStats / DoSplitWithStats: labels already in the SVSplitMap
	NoEntry   bool             `json:"no_entry"`  // SplitSupervoxel: the op's BlockRLEs has no entry for this block
}

func (c splitCase) negative() bool { return c.BCoord[0] < 0 || c.BCoord[1] < 0 || c.BCoord[2] < 0 }

type labelSource struct {
	next uint64
	used map[uint64]int
}

func (s *labelSource) f() (uint64, error) {
	s.next++
	s.used[s.next]++
	return s.next, nil
}

func checkSplit(c splitCase) error {
	d := c.Block.Dims()
	b, arr, err := setupBlock(c.Block, c.Canon, false)
	if err != nil {
		return err
	}
	runs := c.Runs.Build(d, arr)
	mask := model.RunMask(d, runs)
	rles := dvidRuns(runs, d, c.BCoord)
	pb := labels.PositionedBlock{Block: *b, BCoord: bcoordString(c.BCoord)}
	sfx := ""
	if c.negative() {
		sfx = "/negative-bcoord"
	}
	ctx := fmt.Sprintf("size %v bcoord %v, %d runs (%s), target %d", d, c.BCoord, len(runs), c.Runs.Kind, c.Target)

	// --- Split (body split by sparse volume)
	{
		want, kept, split := model.SplitLabel(arr, mask, c.Target, c.NewLabel)
		var out *labels.Block
		var gk, gs uint64
		if err := stats.PanicGuard("C10/Split/panic"+sfx, func() error {
			var err error
			out, gk, gs, err = pb.Split(labels.SplitOp{Target: c.Target, NewLabel: c.NewLabel, RLEs: rles})
			if err != nil {
				return stats.Violf("C10/Split/error"+sfx, "%s: %v", ctx, err)
			}
			return nil
		}); err != nil {
			return err
		}
		if kept+split == 0 {
			// "A nil split block is returned if target label is not within block."
			if out != nil {
				return stats.Violf("C10/Split/non-nil-for-absent-target"+sfx, "%s: target absent but a block was returned", ctx)
			}
			if gk != 0 || gs != 0 {
				return stats.Violf("C10/Split/sizes-differ"+sfx, "%s: target absent, kept %d split %d", ctx, gk, gs)
			}
		} else {
			if err := expectBlock("C10/Split"+sfx, out, want, d, ctx); err != nil {
				return err
			}
			if gk != kept || gs != split {
				return stats.Violf("C10/Split/sizes-differ"+sfx, "%s: keptSize %d splitSize %d, true %d and %d", ctx, gk, gs, kept, split)
			}
		}
	}

	// --- SplitSupervoxel
	{
		var m []bool
		brles := dvid.BlockRLEs{}
		if c.NoEntry {
			m = make([]bool, d.N())
			brles[bcoordString([3]int32{c.BCoord[0] + 1, c.BCoord[1], c.BCoord[2]})] = rles
		} else {
			m = mask
			brles[pb.BCoord] = rles
		}
		want, kept, split := model.SplitSupervoxel(arr, m, c.Target, c.NewLabel, c.Remain)
		var out *labels.Block
		var gk, gs uint64
		if err := stats.PanicGuard("C10/SplitSupervoxel/panic"+sfx, func() error {
			var err error
			out, gk, gs, err = pb.SplitSupervoxel(labels.SplitSupervoxelOp{Supervoxel: c.Target, SplitSupervoxel: c.NewLabel, RemainSupervoxel: c.Remain, Split: brles})
			if err != nil {
				return stats.Violf("C10/SplitSupervoxel/error"+sfx, "%s: %v", ctx, err)
			}
			return nil
		}); err != nil {
			return err
		}
		if err := expectBlock("C10/SplitSupervoxel"+sfx, out, want, d, ctx); err != nil {
			return err
		}
		if gk != kept || gs != split {
			return stats.Violf("C10/SplitSupervoxel/sizes-differ"+sfx, "%s: keptSize %d splitSize %d, true %d and %d", ctx, gk, gs, kept, split)
		}
	}

	// --- SplitSupervoxels
	{
		svm := map[uint64]model.SplitPair{}
		svs := map[uint64]labels.SVSplit{}
		for i, sv := range c.SVs {
			p := model.SplitPair{Split: freshLabel(1000 + 2*i), Remain: freshLabel(1001 + 2*i)}
			svm[sv] = p
			svs[sv] = labels.SVSplit{Split: p.Split, Remain: p.Remain}
		}
		want := model.SplitSupervoxels(arr, mask, svm)
		var out *labels.Block
		if err := stats.PanicGuard("C10/SplitSupervoxels/panic"+sfx, func() error {
			var err error
			out, err = pb.SplitSupervoxels(rles, svs)
			if err != nil {
				return stats.Violf("C10/SplitSupervoxels/error"+sfx, "%s: %v", ctx, err)
			}
			return nil
		}); err != nil {
			return err
		}
		if err := expectBlock("C10/SplitSupervoxels"+sfx, out, want, d, fmt.Sprintf("%s svs %v", ctx, c.SVs)); err != nil {
			return err
		}
	}

	// --- SplitStats and DoSplitWithStats
	trueStats := model.SplitStats(arr, mask)
	for _, fn := range []string{"SplitStats", "DoSplitWithStats"} {
		sig := "C10/" + fn
		src := &labelSource{next: freshLabel(5000), used: map[uint64]int{}}
		m := &labels.SVSplitMap{}
		pre := map[uint64]labels.SVSplit{}
		if len(c.PreMapped) > 0 {
			m.Splits = map[uint64]labels.SVSplit{}
			for i, l := range c.PreMapped {
				pre[l] = labels.SVSplit{Split: freshLabel(3000 + 2*i), Remain: freshLabel(3001 + 2*i)}
				m.Splits[l] = pre[l]
			}
		}
		var counts map[uint64]labels.SVSplitCount
		var out *labels.Block
		if err := stats.PanicGuard(sig+"/panic"+sfx, func() error {
			var err error
			if fn == "SplitStats" {
				counts, err = pb.SplitStats(rles, m, src.f)
			} else {
				out, counts, err = pb.DoSplitWithStats(labels.SplitOp{Target: c.Target, NewLabel: c.NewLabel, RLEs: rles}, m, src.f)
			}
			if err != nil {
				return stats.Violf(sig+"/error"+sfx, "%s: %v", ctx, err)
			}
			return nil
		}); err != nil {
			return err
		}
		// voxel counts per supervoxel under the sparse volume
		for l, n := range trueStats {
			if counts[l].Voxels != n {
				return stats.Violf(sig+"/voxel-counts-differ"+sfx, "%s: supervoxel %d reported %d voxels under the split, true %d", ctx, l, counts[l].Voxels, n)
			}
		}
		for l, sc := range counts {
			if _, ok := trueStats[l]; !ok {
				return stats.Violf(sig+"/voxel-counts-differ"+sfx, "%s: supervoxel %d reported (%d voxels) but has no voxel under the split", ctx, l, sc.Voxels)
			}
			ms, ok := m.Splits[l]
			if !ok || ms != sc.SVSplit {
				return stats.Violf(sig+"/mapping-inconsistent"+sfx, "%s: supervoxel %d reported split %+v, SVSplitMap holds %+v (present %v)", ctx, l, sc.SVSplit, ms, ok)
			}
			if p, ok := pre[l]; ok && p != sc.SVSplit {
				return stats.Violf(sig+"/mapping-inconsistent"+sfx, "%s: supervoxel %d was already mapped to %+v, reported %+v", ctx, l, p, sc.SVSplit)
			}
			if !ok && (src.used[sc.Split] != 1 || src.used[sc.Remain] != 1 || sc.Split == sc.Remain) {
				return stats.Violf(sig+"/mapping-inconsistent"+sfx, "%s: supervoxel %d got labels %+v which are not two distinct fresh labels", ctx, l, sc.SVSplit)
			}
		}
		if fn == "DoSplitWithStats" {
			svm := map[uint64]model.SplitPair{}
			for l := range trueStats {
				svm[l] = model.SplitPair{Split: m.Splits[l].Split, Remain: m.Splits[l].Remain}
			}
			want := model.SplitSupervoxels(arr, mask, svm)
			if err := expectBlock(sig+sfx, out, want, d, ctx); err != nil {
				return err
			}
		}
	}
	return expectBlock("C10/Split-family/input-block", b, arr, d, ctx+" (input after the calls)")
}

func genSplit(t *rapid.T) (splitCase, []string) {
	g := blockgen.Shape(t, "shape", shapeOpts(4, rapid.IntRange(0, 3).Draw(t, "allow-big") == 3))
	c := splitCase{Block: blockgen.Spec(t, "block", g), Canon: drawCanon(t)}
	d := c.Block.Dims()
	arr := c.Block.Build()
	present := model.SortedLabels(arr)
	nz := nonZero(present)
	var cls []string
	var neg bool
	c.BCoord, neg = blockgen.BCoord(t, "bcoord", true)
	if neg {
		cls = append(cls, "negative-bcoord")
	}
	c.Runs = blockgen.DrawRuns(t, "runs", d, present)
	cls = append(cls, "op=split/runs="+c.Runs.Kind)
	if len(nz) > 0 && rapid.IntRange(0, 7).Draw(t, "target-absent") < 7 {
		c.Target = rapid.SampledFrom(nz).Draw(t, "target")
		if c.Runs.Kind == "follow" && rapid.Bool().Draw(t, "target-follows") && c.Runs.Follow != 0 {
			c.Target = c.Runs.Follow
		}
	} else {
		c.Target = freshLabel(1)
		cls = append(cls, "op=split/target-absent")
	}
	c.NewLabel = freshLabel(2)
	if len(nz) > 1 && rapid.IntRange(0, 7).Draw(t, "newlabel-present") == 7 {
		c.NewLabel = rapid.SampledFrom(nz).Draw(t, "newlabel")
		if c.NewLabel == c.Target {
			c.NewLabel = freshLabel(2)
		} else {
			cls = append(cls, "op=split/newlabel-present")
		}
	}
	c.Remain = freshLabel(3)
	c.NoEntry = rapid.IntRange(0, 5).Draw(t, "no-entry") == 5
	if c.NoEntry {
		cls = append(cls, "op=splitsv/no-rles-for-block")
	}
	if len(nz) > 0 {
		n := rapid.IntRange(0, 4).Draw(t, "nsvs")
		for i := 0; i < n; i++ {
			l := rapid.SampledFrom(nz).Draw(t, "sv")
			if !contains(c.SVs, l) {
				c.SVs = append(c.SVs, l)
			}
		}
		n = rapid.IntRange(0, 3).Draw(t, "npremapped")
		for i := 0; i < n; i++ {
			l := rapid.SampledFrom(nz).Draw(t, "premapped")
			if !contains(c.PreMapped, l) {
				c.PreMapped = append(c.PreMapped, l)
			}
		}
	}
	if rapid.IntRange(0, 4).Draw(t, "sv-absent") == 4 {
		c.SVs = append(c.SVs, freshLabel(4))
	}
	if len(c.PreMapped) > 0 {
		cls = append(cls, "op=splitstats/premapped")
	}
	return c, cls
}

func TestC10Split(t *testing.T) {
	rapid.Check(t, func(t *rapid.T) {
		c, cls := genSplit(t)
		if !stats.Judge(t, "C10", "TestC10Split", checkSplit(c), c) {
			return
		}
		d := c.Block.Dims()
		arr := c.Block.Build()
		runs := c.Runs.Build(d, arr)
		mask := model.RunMask(d, runs)
		after, kept, split := model.SplitLabel(arr, mask, c.Target, c.NewLabel)
		if model.RunsCrossSubBlock(runs) {
			cls = append(cls, "op=split/run-crosses-sub-block")
		}
		outside := false
		for i, m := range mask {
			if m && arr[i] != c.Target {
				outside = true
				break
			}
		}
		if outside && split > 0 {
			cls = append(cls, "op=split/runs-partly-outside-target")
		}
		if split > 0 && kept == 0 {
			cls = append(cls, "op=split/whole-target-split")
		}
		if split > 0 && kept > 0 {
			cls = append(cls, "op=split/target-partly-split")
		}
		bc, _, _ := blockgen.Classes("split/", c.Block, arr)
		stats.Record(stats.HashJSON(c), ntRule(d, arr, after), dedupe(append(cls, bc...)), func() interface{} {
			return map[string]interface{}{"test": "split", "case": c, "runs": len(runs), "kept": kept, "split": split}
		})
	})
}

// ---------- TestC10Downres

type octSpec struct {
	Spec      model.BlockSpec `json:"spec"`
	MakeSolid bool            `json:"make_solid"`
}

type downresCase struct {
	G        [3]int           `json:"g"`
	Oct      [8]*octSpec      `json:"octants"`  // nil = absent
	Receiver string           `json:"receiver"` // fresh | solid0 | existing
	Recv     *model.BlockSpec `json:"recv,omitempty"`
	Canon    uint64           `json:"canon"`
	LDims    [3]int           `json:"ldims"` // even array size for the DownresLabels sub-check (need not be a multiple of 8)
}

func quietly(f func()) {
	old := os.Stdout
	null, err := os.OpenFile(os.DevNull, os.O_WRONLY, 0)
	if err == nil {
		os.Stdout = null
		defer func() {
			os.Stdout = old
			null.Close()
		}()
	}
	f()
}

func checkDownres(c downresCase) error {
	d := model.Dims{8 * c.G[0], 8 * c.G[1], 8 * c.G[2]}
	var octs [8]*labels.Block
	var octArr [8][]uint64
	nOct := 0
	for i, o := range c.Oct {
		if o == nil {
			continue
		}
		b, arr, err := setupBlock(o.Spec, c.Canon, o.MakeSolid)
		if err != nil {
			return err
		}
		octs[i], octArr[i] = b, arr
		nOct++
	}
	mkRecv := func() (*labels.Block, []uint64, error) {
		switch c.Receiver {
		case "fresh": // the idiom of labels.TestBlockDownres
			b := new(labels.Block)
			b.Size = p3(d)
			return b, make([]uint64, d.N()), nil
		case "solid0": // the idiom of labelmap's downresOctant when all eight octants are present
			return labels.MakeSolidBlock(0, p3(d)), make([]uint64, d.N()), nil
		}
		return setupBlock(*c.Recv, c.Canon, true)
	}
	_, recvArr, err := mkRecv()
	if err != nil {
		return err
	}
	want := append([]uint64(nil), recvArr...)
	for i := range octs {
		if octs[i] != nil {
			model.DownresInto(want, d, i, octArr[i])
		}
	}
	kinds := ""
	for _, o := range c.Oct {
		switch {
		case o == nil:
			kinds += "-"
		case len(model.SortedLabels(o.Spec.Build())) == 1:
			kinds += "s"
		default:
			kinds += "m"
		}
	}
	ctx := fmt.Sprintf("size %v octants %s receiver %s", d, kinds, c.Receiver)

	for _, fn := range []string{"Downres", "DownresSlow"} {
		sig := "C10/" + fn
		recv, _, err := mkRecv()
		if err != nil {
			return err
		}
		if err := stats.PanicGuard(sig+"/panic", func() error {
			var err error
			if fn == "Downres" {
				err = recv.Downres(octs)
			} else {
				err = recv.DownresSlow(octs)
			}
			if err != nil {
				return stats.Violf(sig+"/error", "%s: %v", ctx, err)
			}
			return nil
		}); err != nil {
			return err
		}
		got, err := decode(sig, recv, d)
		if err != nil {
			return err
		}
		if model.FirstDiff(want, got) >= 0 {
			// is every differing voxel in the portion of an absent octant?
			onlyNil := true
			for i := range want {
				if want[i] != got[i] {
					o := 0
					for ; o < 8; o++ {
						if model.InOctant(d, i, o) {
							break
						}
					}
					if octs[o] != nil {
						onlyNil = false
						break
					}
				}
			}
			if onlyNil {
				// doc: "If a given octant is a nil Block, the receiving Block is not modified for that portion"
				return stats.Violf(sig+"/nil-octant-portion-modified", "%s: %s", ctx, describeDiff(d, want, got))
			}
			return stats.Violf(sig+"/differs-from-vote", "%s: %s", ctx, describeDiff(d, want, got))
		}
		for i := range octs {
			if octs[i] != nil {
				if err := expectBlock(sig+"/octant-block", octs[i], octArr[i], d, ctx+" (octant after the call)"); err != nil {
					return err
				}
			}
		}
	}

	// --- DownresLabels on plain arrays (any even size)
	for i := range octs {
		if octs[i] == nil {
			continue
		}
		ld := model.Dims(c.LDims)
		hi := model.Crop(octArr[i], d, [3]int{0, 0, 0}, ld)
		wantLo, lod := model.Downres(hi, ld)
		if err := stats.PanicGuard("C10/DownresLabels/panic", func() error {
			lo, err := labels.DownresLabels(model.LabelsToBytes(hi), p3(ld))
			if err != nil {
				return stats.Violf("C10/DownresLabels/error", "size %v: %v", ld, err)
			}
			if len(lo) != lod.N()*8 {
				return stats.Violf("C10/DownresLabels/size", "size %v: %d bytes returned, expected %d", ld, len(lo), lod.N()*8)
			}
			if g := model.LabelsFromBytes(lo); model.FirstDiff(wantLo, g) >= 0 {
				return stats.Violf("C10/DownresLabels/differs-from-vote", "hi-res size %v: %s", ld, describeDiff(lod, wantLo, g))
			}
			return nil
		}); err != nil {
			return err
		}
		break // one octant is enough per case
	}

	// --- DownresFast against DownresSlow ("Not completely working" per its comment: own signatures)
	if c.G[0]%2 == 0 && c.G[1]%2 == 0 && c.G[2]%2 == 0 && nOct > 0 {
		// each failure kind has its own signature; a listed kind is tolerated (and counted), the others still checked
		if stats.IsKnown(sigFastPanic) {
			stats.Excluded(sigFastPanic)
			return nil
		}
		recv, _, err := mkRecv()
		if err != nil {
			return err
		}
		var ferr error
		quietly(func() {
			ferr = stats.PanicGuard(sigFastPanic, func() error {
				if err := recv.DownresFast(octs); err != nil {
					return stats.Violf(sigFastError, "%s: %v", ctx, err)
				}
				return nil
			})
		})
		if ferr != nil {
			if stats.IsKnown(stats.SigOf(ferr)) {
				stats.Excluded(stats.SigOf(ferr))
				return nil
			}
			return ferr
		}
		var got []uint64
		quietly(func() { got, ferr = decode("C10/DownresFast", recv, d) })
		if ferr != nil {
			if stats.IsKnown(sigFastDisagree) { // an undecodable result is a form of disagreement
				stats.Excluded(sigFastDisagree)
				return nil
			}
			return ferr
		}
		if model.FirstDiff(want, got) >= 0 {
			if stats.IsKnown(sigFastDisagree) {
				stats.Excluded(sigFastDisagree)
				return nil
			}
			return stats.Violf(sigFastDisagree, "%s: %s", ctx, describeDiff(d, want, got))
		}
		stats.Count("downresfast_agreed_with_slow", 1)
	}
	return nil
}

func genDownres(t *rapid.T) (downresCase, []string) {
	g := blockgen.Shape(t, "shape", shapeOpts(4, false))
	if rapid.IntRange(0, 15).Draw(t, "big") == 15 {
		g = [3]int{8, 8, 8}
	}
	c := downresCase{G: g, Canon: drawCanon(t)}
	d := model.Dims{8 * g[0], 8 * g[1], 8 * g[2]}
	var cls []string
	// labels shared by the octants so that votes have real competition
	proto := blockgen.Spec(t, "proto", g)
	nNil, nSolid, nMixed := 0, 0, 0
	allGivenSolid0 := true
	pattern := rapid.SampledFrom([]string{"random", "random", "random", "random", "random", "solid0+absent", "same-solid", "all-mixed", "mostly-absent"}).Draw(t, "pattern")
	sameSolid := rapid.SampledFrom([]uint64{0, 1, 7, 1<<64 - 1}).Draw(t, "same-solid-label")
	for i := 0; i < 8; i++ {
		choices := []string{"nil", "solid", "mixed", "mixed"}
		switch pattern {
		case "solid0+absent":
			choices = []string{"nil", "solid"}
		case "same-solid":
			choices = []string{"solid", "solid", "solid", "nil"}
		case "all-mixed":
			choices = []string{"mixed"}
		case "mostly-absent":
			choices = []string{"nil", "nil", "nil", "mixed", "solid"}
		}
		kind := rapid.SampledFrom(choices).Draw(t, fmt.Sprintf("oct%d", i))
		switch kind {
		case "nil":
			nNil++
			continue
		case "solid":
			o := &octSpec{Spec: model.BlockSpec{G: g, Kind: "solid"}, MakeSolid: rapid.Bool().Draw(t, fmt.Sprintf("oct%d-makesolid", i))}
			o.Spec.LabelA = rapid.SampledFrom([]uint64{0, 0, 1, 2, 1<<64 - 1}).Draw(t, fmt.Sprintf("oct%d-label", i))
			switch pattern {
			case "solid0+absent":
				o.Spec.LabelA = 0
			case "same-solid":
				o.Spec.LabelA = sameSolid
			}
			if o.Spec.LabelA != 0 {
				allGivenSolid0 = false
			}
			c.Oct[i] = o
			nSolid++
		default:
			s := proto
			s.Seed = rapid.Uint64().Draw(t, fmt.Sprintf("oct%d-seed", i))
			if s.Kind == "solid" || s.Kind == "zero" {
				s = blockgen.Spec(t, fmt.Sprintf("oct%d-spec", i), g)
			}
			// few labels per sub-block make ties and majorities likely
			if rapid.Bool().Draw(t, fmt.Sprintf("oct%d-fewlabels", i)) && len(s.KList) > 0 {
				s.KList = []int{rapid.IntRange(2, 4).Draw(t, fmt.Sprintf("oct%d-k", i))}
				s.Extra = 0
			}
			c.Oct[i] = &octSpec{Spec: s}
			if len(model.SortedLabels(s.Build())) > 1 || s.Build()[0] != 0 {
				allGivenSolid0 = false
			}
			nMixed++
		}
	}
	if nNil == 8 {
		// no caller passes eight absent octants (labelmap only down-samples changed blocks)
		c.Oct[rapid.IntRange(0, 7).Draw(t, "force-oct")] = &octSpec{Spec: model.BlockSpec{G: g, Kind: "solid", LabelA: 3}}
		nNil, nSolid = 7, 1
		allGivenSolid0 = false
	}
	c.Receiver = rapid.SampledFrom([]string{"fresh", "solid0", "existing", "existing"}).Draw(t, "receiver")
	if c.Receiver == "existing" {
		r := blockgen.Spec(t, "recv", g)
		c.Recv = &r
	}
	if nNil > 0 && allGivenSolid0 && c.Receiver == "existing" && stats.IsKnown(sigDownresNil) {
		// steer around the known finding: with a zero receiver the wholesale replacement is not observable
		c.Receiver, c.Recv = "solid0", nil
		stats.Excluded(sigDownresNil)
	}
	c.LDims = [3]int{2 * rapid.IntRange(1, d[0]/2).Draw(t, "lx"), 2 * rapid.IntRange(1, d[1]/2).Draw(t, "ly"), 2 * rapid.IntRange(1, d[2]/2).Draw(t, "lz")}
	cls = append(cls, fmt.Sprintf("op=downres/absent=%d", nNil), "op=downres/receiver="+c.Receiver, "op=downres/pattern="+pattern)
	if nSolid > 0 {
		cls = append(cls, "op=downres/has-solid-octant")
	}
	if nMixed > 0 {
		cls = append(cls, "op=downres/has-mixed-octant")
	}
	if nNil > 0 && nSolid > 0 && nMixed > 0 {
		cls = append(cls, "op=downres/absent+solid+mixed")
	}
	if nNil > 0 && allGivenSolid0 {
		cls = append(cls, "op=downres/only-solid0-and-absent")
	}
	if g[0]%2 == 1 || g[1]%2 == 1 || g[2]%2 == 1 {
		cls = append(cls, "op=downres/odd-sub-block-axis")
	}
	if c.LDims[0]%8 != 0 || c.LDims[1]%8 != 0 || c.LDims[2]%8 != 0 {
		cls = append(cls, "op=downreslabels/size-not-multiple-of-8")
	}
	return c, cls
}

func TestC10Downres(t *testing.T) {
	rapid.Check(t, func(t *rapid.T) {
		c, cls := genDownres(t)
		if !stats.Judge(t, "C10", "TestC10Downres", checkDownres(c), c) {
			return
		}
		// non-trivial: the result has >= 3 labels and >= 2 sub-blocks get content
		d := model.Dims{8 * c.G[0], 8 * c.G[1], 8 * c.G[2]}
		res := make([]uint64, d.N())
		if c.Recv != nil {
			res = c.Recv.Build()
		}
		before := append([]uint64(nil), res...)
		ties := false
		for i, o := range c.Oct {
			if o != nil {
				hi := o.Spec.Build()
				model.DownresInto(res, d, i, hi)
				if !ties {
					ties = hasTie(hi, d)
				}
			}
		}
		if ties {
			cls = append(cls, "op=downres/vote-tie")
		}
		nt := model.DiffSubBlocks(d, before, res) >= 2 && len(model.SortedLabels(res)) >= 3
		stats.Record(stats.HashJSON(c), nt, dedupe(cls), func() interface{} {
			return map[string]interface{}{"test": "downres", "case": c}
		})
	})
}

// hasTie: some 2x2x2 cell has two different non-zero labels with the same, maximal number of votes.
func hasTie(hi []uint64, d model.Dims) bool {
	for z := 0; z < d[2]; z += 2 {
		for y := 0; y < d[1]; y += 2 {
			for x := 0; x < d[0]; x += 2 {
				cnt := map[uint64]int{}
				for k := 0; k < 8; k++ {
					v := hi[d.Idx(x+k&1, y+(k>>1)&1, z+(k>>2)&1)]
					if v != 0 {
						cnt[v]++
					}
				}
				best, nbest := 0, 0
				for _, n := range cnt {
					if n > best {
						best, nbest = n, 1
					} else if n == best {
						nbest++
					}
				}
				if nbest > 1 {
					return true
				}
			}
		}
	}
	return false
}

// ---------- TestC10Sequences

type seqOp struct {
	Kind   string           `json:"kind"` // merge | replace | split | splitsv | splitsvs
	Merge  *mergeOp         `json:"merge,omitempty"`
	Repl   *replaceStep     `json:"replace,omitempty"`
	Runs   blockgen.RunSpec `json:"runs,omitempty"`
	Target uint64           `json:"target,omitempty"`
	New    uint64           `json:"new,omitempty"`
	Remain uint64           `json:"remain,omitempty"`
	SVs    []uint64         `json:"svs,omitempty"`
}

type seqCase struct {
	Block  model.BlockSpec `json:"block"`
	Canon  uint64          `json:"canon"`
	BCoord [3]int32        `json:"bcoord"`
	Ops    []seqOp         `json:"ops"`
}

// seqModel applies one op to the model array (also used by the generator to know the labels present).
func seqModel(cur []uint64, d model.Dims, op seqOp, idx int) (next []uint64, kept, split uint64) {
	switch op.Kind {
	case "merge":
		_, m := toSet(op.Merge.Merged)
		return model.MergeLabels(cur, op.Merge.Target, m), 0, 0
	case "replace":
		return modelReplace(cur, *op.Repl), 0, 0
	}
	mask := model.RunMask(d, op.Runs.Build(d, cur))
	switch op.Kind {
	case "split":
		return model.SplitLabel(cur, mask, op.Target, op.New)
	case "splitsv":
		return model.SplitSupervoxel(cur, mask, op.Target, op.New, op.Remain)
	}
	return model.SplitSupervoxels(cur, mask, svPairs(op.SVs, idx)), 0, 0
}

func svPairs(svs []uint64, idx int) map[uint64]model.SplitPair {
	m := map[uint64]model.SplitPair{}
	for i, sv := range svs {
		m[sv] = model.SplitPair{Split: freshLabel(10000 + 100*idx + 2*i), Remain: freshLabel(10001 + 100*idx + 2*i)}
	}
	return m
}

func checkSeq(c seqCase) error {
	d := c.Block.Dims()
	b, cur, err := setupBlock(c.Block, c.Canon, false)
	if err != nil {
		return err
	}
	for i, op := range c.Ops {
		ctx := fmt.Sprintf("size %v op #%d %s (table %d labels before)", d, i, op.Kind, len(b.Labels))
		sig := "C10/sequence/" + op.Kind
		if op.Kind == "merge" {
			sig = "C10/MergeLabels/in-sequence"
		}
		want, kept, split := seqModel(cur, d, op, i)
		var out *labels.Block
		switch op.Kind {
		case "merge":
			var err error
			if out, _, err = applyMerge(sig, b, cur, d, *op.Merge, ctx); err != nil {
				return err
			}
		case "replace":
			var err error
			if out, _, err = applyReplace(b, cur, d, *op.Repl, false, ctx); err != nil {
				return err // same call sites, same signatures as TestC10Replace
			}
		default:
			pb := labels.PositionedBlock{Block: *b, BCoord: bcoordString(c.BCoord)}
			rles := dvidRuns(op.Runs.Build(d, cur), d, c.BCoord)
			var gk, gs uint64
			checkSizes := false
			if err := stats.PanicGuard(sig+"/panic", func() error {
				var err error
				switch op.Kind {
				case "split":
					out, gk, gs, err = pb.Split(labels.SplitOp{Target: op.Target, NewLabel: op.New, RLEs: rles})
					checkSizes = true
				case "splitsv":
					out, gk, gs, err = pb.SplitSupervoxel(labels.SplitSupervoxelOp{Supervoxel: op.Target, SplitSupervoxel: op.New, RemainSupervoxel: op.Remain, Split: dvid.BlockRLEs{pb.BCoord: rles}})
					checkSizes = true
				default:
					svs := map[uint64]labels.SVSplit{}
					for sv, p := range svPairs(op.SVs, i) {
						svs[sv] = labels.SVSplit{Split: p.Split, Remain: p.Remain}
					}
					out, err = pb.SplitSupervoxels(rles, svs)
				}
				if err != nil {
					return stats.Violf(sig+"/error", "%s: %v", ctx, err)
				}
				return nil
			}); err != nil {
				return err
			}
			if op.Kind == "split" && kept+split == 0 {
				if out != nil {
					return stats.Violf(sig+"/non-nil-for-absent-target", "%s", ctx)
				}
				out = b // block stays as it is
			} else {
				if err := expectBlock(sig, out, want, d, ctx); err != nil {
					return err
				}
			}
			if checkSizes && (gk != kept || gs != split) {
				return stats.Violf(sig+"/sizes-differ", "%s: keptSize %d splitSize %d, true %d and %d", ctx, gk, gs, kept, split)
			}
			if err := expectCounts(sig, out, b, want, cur, ctx); err != nil {
				return err
			}
		}
		b, cur = out, want
	}
	return nil
}

func genSeq(t *rapid.T) (seqCase, []string, bool) {
	g := blockgen.Shape(t, "shape", shapeOpts(4, false))
	c := seqCase{Block: blockgen.Spec(t, "block", g), Canon: drawCanon(t)}
	c.BCoord, _ = blockgen.BCoord(t, "bcoord", false)
	d := c.Block.Dims()
	cur := c.Block.Build()
	nFresh := 100
	var cls []string
	nt := false
	n := rapid.IntRange(2, 4).Draw(t, "nops")
	for i := 0; i < n; i++ {
		name := fmt.Sprintf("op%d", i)
		op := seqOp{Kind: rapid.SampledFrom([]string{"merge", "merge", "replace", "replace", "split", "splitsv", "splitsvs"}).Draw(t, name+"-kind")}
		nz := nonZero(model.SortedLabels(cur))
		if len(nz) == 0 && op.Kind != "replace" {
			op.Kind = "replace"
		}
		switch op.Kind {
		case "merge":
			m, _ := drawMerge(t, name, cur, &nFresh)
			op.Merge = &m
		case "replace":
			var prev *replaceStep
			if i > 0 && c.Ops[i-1].Kind == "replace" {
				prev = c.Ops[i-1].Repl
			}
			r, _ := drawReplace(t, name, cur, prev, &nFresh)
			op.Repl = &r
		default:
			op.Runs = blockgen.DrawRuns(t, name+"-runs", d, model.SortedLabels(cur))
			op.Target = rapid.SampledFrom(nz).Draw(t, name+"-target")
			nFresh += 2
			op.New, op.Remain = freshLabel(nFresh-1), freshLabel(nFresh)
			if op.Kind == "splitsvs" {
				k := rapid.IntRange(1, 3).Draw(t, name+"-nsvs")
				for j := 0; j < k; j++ {
					l := rapid.SampledFrom(nz).Draw(t, name+"-sv")
					if !contains(op.SVs, l) {
						op.SVs = append(op.SVs, l)
					}
				}
			}
		}
		next, _, _ := seqModel(cur, d, op, i)
		if ntRule(d, cur, next) {
			nt = true
		}
		cur = next
		c.Ops = append(c.Ops, op)
		if i > 0 {
			cls = append(cls, "seq/"+c.Ops[i-1].Kind+"->"+op.Kind)
		}
	}
	cls = append(cls, fmt.Sprintf("seq/len=%d", n))
	return c, cls, nt
}

func TestC10Sequences(t *testing.T) {
	rapid.Check(t, func(t *rapid.T) {
		c, cls, nt := genSeq(t)
		if !stats.Judge(t, "C10", "TestC10Sequences", checkSeq(c), c) {
			return
		}
		stats.Record(stats.HashJSON(c), nt, dedupe(cls), func() interface{} {
			return map[string]interface{}{"test": "sequence", "case": c}
		})
	})
}

func dedupe(in []string) []string {
	seen := map[string]bool{}
	var out []string
	for _, s := range in {
		if !seen[s] {
			seen[s] = true
			out = append(out, s)
		}
	}
	return out
}

// ---------- replay

func TestReplay(t *testing.T) {
	stats.RunReplay(t, map[string]func(json.RawMessage) error{
		"TestC10Merge": func(raw json.RawMessage) error {
			var c mergeCase
			if err := json.Unmarshal(raw, &c); err != nil {
				return err
			}
			return checkMerge(c)
		},
		"TestC10Replace": func(raw json.RawMessage) error {
			var c replaceCase
			if err := json.Unmarshal(raw, &c); err != nil {
				return err
			}
			return checkReplace(c)
		},
		"TestC10Split": func(raw json.RawMessage) error {
			var c splitCase
			if err := json.Unmarshal(raw, &c); err != nil {
				return err
			}
			return checkSplit(c)
		},
		"TestC10Downres": func(raw json.RawMessage) error {
			var c downresCase
			if err := json.Unmarshal(raw, &c); err != nil {
				return err
			}
			return checkDownres(c)
		},
		"TestC10Sequences": func(raw json.RawMessage) error {
			var c seqCase
			if err := json.Unmarshal(raw, &c); err != nil {
				return err
			}
			return checkSeq(c)
		},
	})
}
