package c06

import (
	"fmt"
	"testing"
)

func TestExpDelete(t *testing.T) {
	for _, n := range []int{1, 2, 3, 4, 5, 10, 60, 100, 101, 150, 250} {
		c := histCase{Repos: 1, Init: [2][3]int{{0, 0, -1}, {-1, -1, -1}}, Ops: []histOp{
			{Kind: "bulk", Slot: 0, N: n}, {Kind: "bulk", Slot: 1, N: n}, {Kind: "delete", Slot: 0}}}
		_, err := runHistory(c)
		fmt.Printf("EXP n=%d: %v\n", n, err)
	}
}
