# Proposed CHECKS["C06"] entry for /verif/checks_config.py (uses T(...) defined there).
#
# Measured (16-core sandbox, other checks running): TestC06Pure ~17 000 cases/s (20 000 cases = 1.2 s).
# TestC06History: ~0.10 s per case while the DeleteAll finding is listed as known (deletions then only hit empty
# instances), ~0.22 s per case at full strength (measured on a scratch copy with DeleteAll fixed); the cost grows
# slowly with the number of cases in one process because a "reopen" op reloads the metadata of every repo made so far
# (1000 cases in one process: 211 s in known-finding mode).  Quick tier: 4 shards x 120 histories = 12..26 s wall
# + 1.2 s pure.  Thorough: 16 x 800 histories (<= ~6 min at full strength) + 4 x 1 250 000 pure cases (~75 s).
C06 = {
    "pkg": "c06",
    "level": "exploration",
    "tests": [
        T("TestC06Pure", (20000, 1), (1250000, 4)),
        T("TestC06History", (120, 4), (800, 16)),
    ],
    "required_classes": [
        "pure/differ-in-exactly-one+boundary-id",
        "pure/differ-in-exactly/inst", "pure/differ-in-exactly/tkey", "pure/differ-in-exactly/ver",
        "pure/differ-in-exactly/cli", "pure/differ-in-exactly/marker",
        "pure/user-key-is-prefix-of-the-other", "pure/inst=0", "pure/inst=max-1", "pure/version-or-client=max",
        "pure/family=keyvalue", "pure/family=labelmap", "pure/family=annotation", "pure/family=roi",
        "pure/family=imageblk", "pure/family=neuronjson", "pure/family=labelsz",
        "hist/create-after-delete", "hist/recreate-same-name-same-type", "hist/recreate-same-name-other-type",
        "hist/reopen-after-delete", "hist/rename", "hist/repos=2",
        "hist/delete-repo", "hist/delete-repo-while-other-repo-holds-data",
        "hist/type=keyvalue", "hist/type=roi", "hist/type=annotation", "hist/type=uint8blk",
        # full-strength classes (the DeleteAll and MaxInstanceID findings are fixed in /repo, nothing is steered around):
        "pure/inst=max", "hist/delete-nonempty-instance", "hist/delete-instance-with>=50-keys",
        "hist/delete-nonempty-instance-followed-by-nonempty-instance-of-same-type",
    ],
    "rule": "Pure: rapid-generated triples of storage keys (instance, version, client ids from a boundary-biased uint32 generator: 0, 1, 2^31-1, 2^31, 2^31+1, max-1, max, byte-carry values, neighbours by +-1 / one bit; data/tombstone marker; type-specific key from every exported constructor of keyvalue, neuronjson, labelmap, annotation, imageblk, labelsz plus the roi layout, with prefix-related NUL-free user keys / tags and boundary coordinates and labels); the 2nd and 3rd key are derived from another one by changing one component (or two, or independently). Each key is built three ways through the exported API (context + UpdateDataKey; other context + ConstructKeyVersion/TombstoneKeyVersion + ChangeDataKeyInstance; ids 0 + ChangeDataKeyVersion/Instance) which must agree; then inverses (TKeyFromKey, DataKeyToLocalIDs, VersionFromKey, VersionFromDataKey, ClientFromKey, InstanceFromKey, IsTombstone, SplitKey/MergeKey, UnversionedKey(Prefix)), injectivity, byte order vs (instance, datum key, version) order, contiguity of a datum's versions, membership of every key in [MinVersionKey,MaxVersionKey], KeyRange, DataInstanceKeyRange, DataKeyRange, TKeyClassRange of every other key's datum / instance / class. Non-trivial: some pair of the triple differs in exactly one component and involves a boundary id. History: op lists (write / erase / bulk write of 1-70 data / delete instance via the RPC switchboard / create / rename / newversion / datastore close+reopen) over instances A,B,C of types keyvalue, roi, annotation, uint8blk in one or two repos, built in phases data -> deletion -> (reopen) -> creation under the same or another name; after every op every other instance's raw key dump (RawRangeQuery over KeyRange and over DataInstanceKeyRange, cross-checked against a wide scan partitioned by the instance id parsed from each key) and read snapshot (every read endpoint at every version) must be unchanged, a new instance must hold no keys and read like a pristine instance at every version, its instance id must never have been handed out before in the process (own record + manager's id map), ids of live instances must not change, and no key may remain under the id of a deleted instance. Non-trivial: >=1 instance deletion followed by a creation. Distinct = hash of the case value.",
    "assumptions": [
        "user keys and tags are NUL-free (help text: alphanumeric keys; keyvalue.NewTKey / annotation.NewTagTKey terminate with 0x00); all type-specific keys of one case come from one data type's constructors (an instance has one type)",
        "only the order the property states is asserted (instance, datum key, version); nothing is asserted about the relative order of client ids and markers",
        "the roi key constructor is not exported; its layout (class 90, IndexZYX bytes + big-endian span) is mirrored in the check",
        "instance deletion is driven through the RPC command 'repo <uuid> delete <name>' (server.VerifRPC shim; there is no HTTP route) and is awaited by polling the repo's instance listing: the purge runs before the instance leaves the listing (repoT.deleteData)",
        "'no keys remain after a deletion' is asserted from the interface documentation of OrderedKeyValueSetter.DeleteAll ('removes all key-value pairs for the context')",
        "while the DeleteAll finding is listed as known, generated deletions only hit instances without stored keys (the generator keeps data away from instances it deletes later; altered cases are counted as excluded)",
        "repo deletion is driven through the RPC command 'repos delete <root>' (two-repo cases only; the instance ids of the two repos interleave because instances are created slot by slot across repos); its purge goroutines give no completion signal, so the check waits up to 20 s for the key range of each deleted instance to become empty and does not judge leftovers of one that is not (counter repo_delete_purge_not_finished_in_20s); the other repo's instances must keep their raw keys and reads",
        "close/reopen uses datastore.CloseReopenTest (the upstream persistence-test helper); package-level caches survive it, only the datastore metadata is reloaded",
    ],
}
