package c06

import (
	"bytes"
	"encoding/hex"
	"encoding/json"
	"fmt"
	"sort"
	"strings"
	"testing"
	"time"

	"github.com/janelia-flyem/dvid/datastore"
	"github.com/janelia-flyem/dvid/dvid"
	"github.com/janelia-flyem/dvid/server"
	"github.com/janelia-flyem/dvid/storage"
	"pgregory.net/rapid"

	"verif/drive"
	"verif/stats"
)

// ------------------------------------------------------------------ case value

var typeNames = []string{"keyvalue", "roi", "annotation", "uint8blk"}
var slotNames = []string{"A", "B", "C"}

const maxVersions = 3

// histOp operands are indices interpreted against the state at execution time.
type histOp struct {
	Kind string `json:"kind"` // write erase bulk delete create rename newversion reopen repodelete
	Repo int    `json:"repo"`
	Slot int    `json:"slot"`
	Type int    `json:"type,omitempty"` // create: type of the new instance
	Key  int    `json:"key,omitempty"`
	N    int    `json:"n,omitempty"` // bulk: number of data written
	// delete: immediately (while the purge may still run) request a new instance under the same name
	Eager bool `json:"eager,omitempty"`
}

type histCase struct {
	Repos int       `json:"repos"` // 1 or 2
	Init  [2][3]int `json:"init"`  // type index of slot A,B,C per repo at start; -1 = slot empty
	Ops   []histOp  `json:"ops"`
}

// signatures of the findings this check knows how to steer around
const (
	sigDelOtherRaw   = "C06/after-delete-instance/other-instance-raw-keys-changed"
	sigDelOtherReads = "C06/after-delete-instance/other-instance-reads-changed"
	sigDelLeftovers  = "C06/after-delete-instance/keys-left-behind"
)

// ------------------------------------------------------------------ executing state

type inst struct {
	typ     int
	id      dvid.InstanceID
	written map[string]bool // uint8blk: blocks written before (documented: later writes need mutate=true)
	bulked  bool
}

type repoState struct {
	deleted bool // the whole repo was deleted ("repos delete"); later ops naming it are passed over
	root    string
	uuids   []string // version chain, last = open head
	slots   [3]*inst
}

type obs struct {
	raw   []string                  // "hexkey=hexvalue" in scan order over the instance's key range
	reads map[int]map[string]string // version index -> relative url -> "code body"
}

type world struct {
	repos   []*repoState
	caseIDs map[dvid.InstanceID]string // every instance id handed out in this case -> description
	dead    map[dvid.InstanceID]string // ids of deleted instances
	cls     map[string]bool

	leftover error // set by observeAll: keys found under the id of a deleted instance
}

// instance ids ever seen in this process (the test store lives as long as the process)
var seenIDs = map[dvid.InstanceID]string{}

var kvNames = []string{"a", "aa", "ab", "a0", "b", "k000", "k001", "12345678901", "123456789012345"}

func (w *world) class(s string) { w.cls[s] = true }

func instKey(r, s int) string { return fmt.Sprintf("repo%d/%s", r, slotNames[s]) }

func respStr(r drive.Resp) string {
	return fmt.Sprintf("%d %s", r.Code, hex.EncodeToString(r.Body))
}

func short(s string) string {
	if len(s) > 400 {
		return s[:400] + "..."
	}
	return s
}

// rawScan collects a RawRangeQuery.
func rawScan(db storage.OrderedKeyValueDB, min, max storage.Key) (kvs []*storage.KeyValue, err error) {
	ch := make(chan *storage.KeyValue, 64)
	done := make(chan struct{})
	go func() {
		defer close(done)
		for kv := range ch {
			if kv == nil {
				return
			}
			kvs = append(kvs, kv)
		}
	}()
	err = db.RawRangeQuery(min, max, false, ch, make(chan struct{}))
	if err != nil {
		ch <- nil
	}
	<-done
	return kvs, err
}

func defaultDB() (storage.OrderedKeyValueDB, error) {
	st, err := storage.DefaultKVStore()
	if err != nil {
		return nil, err
	}
	db, ok := st.(storage.OrderedKeyValueDB)
	if !ok {
		return nil, fmt.Errorf("default store is not ordered")
	}
	return db, nil
}

func readURLs(typ int) []string {
	switch typeNames[typ] {
	case "keyvalue":
		u := []string{"keys", "keyrange/0/zzzzzz", "keyrangevalues/0/zzzzzz?json=true"}
		for _, k := range kvNames {
			u = append(u, "key/"+k)
		}
		return u
	case "roi":
		return []string{"roi"}
	case "annotation":
		return []string{"all-elements", "elements/1024_256_64/0_0_0", "tag/t0", "tag/t1"}
	case "uint8blk":
		return []string{"raw/0_1_2/32_16_16/0_0_0", "raw/0_1_2/64_16_16/0_0_16"}
	}
	return nil
}

// observe takes the raw key dump (two range functions, which must agree) and the read snapshot of one instance.
func (w *world) observe(ri, si int) (*obs, error) {
	r := w.repos[ri]
	in := r.slots[si]
	name := slotNames[si]
	data, err := datastore.GetDataByUUIDName(dvid.UUID(r.root), dvid.InstanceName(name))
	if err != nil {
		return nil, stats.Violf("C06/GetDataByUUIDName/live-instance-not-found", "%s: %v", instKey(ri, si), err)
	}
	if data.InstanceID() != in.id {
		return nil, stats.Violf("C06/instance-id/changed-for-live-instance", "%s: id was %d, now %d", instKey(ri, si), in.id, data.InstanceID())
	}
	db, err := datastore.GetOrderedKeyValueDB(data)
	if err != nil {
		return nil, fmt.Errorf("harness: no ordered db for %s: %v", instKey(ri, si), err)
	}
	o := &obs{reads: map[int]map[string]string{}}
	min, max := datastore.NewVersionedCtx(data, 0).KeyRange()
	kvs, err := rawScan(db, min, max)
	if err != nil {
		return nil, fmt.Errorf("harness: raw scan: %v", err)
	}
	for _, kv := range kvs {
		id, _, _, err := storage.DataKeyToLocalIDs(kv.K)
		if err != nil || id != in.id {
			return nil, stats.Violf("C06/RawRangeQuery-over-KeyRange/yields-key-of-another-instance", "%s (id %d): scan of [%x, %x] yielded key %x (instance %d, err %v)", instKey(ri, si), in.id, []byte(min), []byte(max), []byte(kv.K), id, err)
		}
		o.raw = append(o.raw, hex.EncodeToString(kv.K)+"="+hex.EncodeToString(kv.V))
	}
	min2, max2 := storage.DataInstanceKeyRange(in.id)
	kvs2, err := rawScan(db, min2, max2)
	if err != nil {
		return nil, fmt.Errorf("harness: raw scan: %v", err)
	}
	var raw2 []string
	for _, kv := range kvs2 {
		raw2 = append(raw2, hex.EncodeToString(kv.K)+"="+hex.EncodeToString(kv.V))
	}
	if strings.Join(o.raw, "\n") != strings.Join(raw2, "\n") {
		return nil, stats.Violf("C06/KeyRange-vs-DataInstanceKeyRange/scans-differ", "%s (id %d): %d vs %d entries", instKey(ri, si), in.id, len(o.raw), len(raw2))
	}
	for vi, uuid := range r.uuids {
		m := map[string]string{}
		for _, u := range readURLs(in.typ) {
			resp := drive.Get("node/" + uuid + "/" + name + "/" + u)
			if resp.IsPanic() {
				return nil, stats.Violf("C06/GET-"+typeNames[in.typ]+"-"+strings.SplitN(u, "/", 2)[0]+"/panic", "%s version %d: %s", instKey(ri, si), vi, resp)
			}
			m[u] = respStr(resp)
		}
		o.reads[vi] = m
	}
	return o, nil
}

// observeAll observes every live instance and cross-checks the per-instance scans with one wide scan over the id
// span of the case, partitioned by the instance id parsed from each key.
func (w *world) observeAll() (map[string]*obs, error) {
	w.leftover = nil
	out := map[string]*obs{}
	for ri, r := range w.repos {
		for si, in := range r.slots {
			if in == nil {
				continue
			}
			o, err := w.observe(ri, si)
			if err != nil {
				return nil, err
			}
			out[instKey(ri, si)] = o
		}
	}
	if len(w.caseIDs) == 0 {
		return out, nil
	}
	var lo, hi dvid.InstanceID
	first := true
	for id := range w.caseIDs {
		if first || id < lo {
			lo = id
		}
		if first || id > hi {
			hi = id
		}
		first = false
	}
	db, err := defaultDB()
	if err != nil {
		return nil, fmt.Errorf("harness: %v", err)
	}
	min, _ := storage.DataInstanceKeyRange(lo)
	_, max := storage.DataInstanceKeyRange(hi)
	kvs, err := rawScan(db, min, max)
	if err != nil {
		return nil, fmt.Errorf("harness: wide scan: %v", err)
	}
	part := map[dvid.InstanceID][]string{}
	for _, kv := range kvs {
		id, _, _, err := storage.DataKeyToLocalIDs(kv.K)
		if err != nil {
			continue
		}
		part[id] = append(part[id], hex.EncodeToString(kv.K)+"="+hex.EncodeToString(kv.V))
	}
	for ri, r := range w.repos {
		for si, in := range r.slots {
			if in == nil {
				continue
			}
			if a, b := strings.Join(out[instKey(ri, si)].raw, "\n"), strings.Join(part[in.id], "\n"); a != b {
				return nil, stats.Violf("C06/instance-range-scan/differs-from-partition-of-wide-scan", "%s (id %d): range scan %d entries, wide scan has %d entries with that instance id", instKey(ri, si), in.id, len(out[instKey(ri, si)].raw), len(part[in.id]))
			}
		}
	}
	var deadIDs []int
	for id := range w.dead {
		deadIDs = append(deadIDs, int(id))
	}
	sort.Ints(deadIDs)
	for _, id := range deadIDs {
		if left := part[dvid.InstanceID(id)]; len(left) > 0 {
			// reported after the comparison of the other instances (the graver symptom first)
			w.leftover = stats.Violf(sigDelLeftovers, "deleted instance %s (id %d): %d keys still stored after the deletion finished, first %s", w.dead[dvid.InstanceID(id)], id, len(left), short(left[0]))
			break
		}
	}
	return out, nil
}

func diffObs(a, b *obs) (rawDiff, readDiff string) {
	if x, y := strings.Join(a.raw, "\n"), strings.Join(b.raw, "\n"); x != y {
		am, bm := map[string]bool{}, map[string]bool{}
		for _, s := range a.raw {
			am[s] = true
		}
		for _, s := range b.raw {
			bm[s] = true
		}
		var gone, added []string
		for _, s := range a.raw {
			if !bm[s] {
				gone = append(gone, s)
			}
		}
		for _, s := range b.raw {
			if !am[s] {
				added = append(added, s)
			}
		}
		rawDiff = fmt.Sprintf("%d entries before, %d after; gone %v; new %v", len(a.raw), len(b.raw), short(fmt.Sprint(gone)), short(fmt.Sprint(added)))
	}
	var vis []int
	for vi := range a.reads {
		vis = append(vis, vi)
	}
	sort.Ints(vis)
	for _, vi := range vis {
		bm, ok := b.reads[vi]
		if !ok {
			continue
		}
		var urls []string
		for u := range a.reads[vi] {
			urls = append(urls, u)
		}
		sort.Strings(urls)
		for _, u := range urls {
			if a.reads[vi][u] != bm[u] {
				return rawDiff, fmt.Sprintf("version %d GET %s: before %s, after %s", vi, u, short(a.reads[vi][u]), short(bm[u]))
			}
		}
	}
	return rawDiff, ""
}

// ------------------------------------------------------------------ pristine reference: what an empty instance of a type reads like

var pristine = map[int]map[string]string{}

func pristineReads(typ int) (map[string]string, error) {
	if m, ok := pristine[typ]; ok {
		return m, nil
	}
	root, err := drive.NewRepo()
	if err != nil {
		return nil, fmt.Errorf("harness: %v", err)
	}
	if err := drive.NewInstance(root, typeNames[typ], "P", instConfig(typ)); err != nil {
		return nil, fmt.Errorf("harness: %v", err)
	}
	data, err := datastore.GetDataByUUIDName(dvid.UUID(root), "P")
	if err != nil {
		return nil, fmt.Errorf("harness: %v", err)
	}
	seenIDs[data.InstanceID()] = "pristine " + typeNames[typ]
	m := map[string]string{}
	for _, u := range readURLs(typ) {
		m[u] = respStr(drive.Get("node/" + root + "/P/" + u))
	}
	pristine[typ] = m
	return m, nil
}

func instConfig(typ int) map[string]string {
	if typeNames[typ] == "uint8blk" {
		return map[string]string{"BlockSize": "16,16,16"}
	}
	return nil
}

// ------------------------------------------------------------------ operations

func (w *world) create(ri, si, typ int, what string) error {
	r := w.repos[ri]
	name := slotNames[si]
	assigned := datastore.VerifIDs().InstanceIDs // ids the manager has assigned to instances it still knows
	resp := func() drive.Resp {
		m := map[string]string{"typename": typeNames[typ], "dataname": name}
		for k, v := range instConfig(typ) {
			m[k] = v
		}
		b, _ := json.Marshal(m)
		// through the open head: instances cannot be created through a committed node
		return drive.Post("repo/"+r.uuids[len(r.uuids)-1]+"/instance", b)
	}()
	if resp.IsPanic() {
		return stats.Violf("C06/POST-repo-instance/panic", "%s: %s", what, resp)
	}
	if !resp.OK() {
		return stats.Violf("C06/create-instance/refused-for-free-name", "%s: %s", what, resp)
	}
	data, err := datastore.GetDataByUUIDName(dvid.UUID(r.root), dvid.InstanceName(name))
	if err != nil {
		return stats.Violf("C06/GetDataByUUIDName/live-instance-not-found", "%s: %v", what, err)
	}
	id := data.InstanceID()
	desc := fmt.Sprintf("%s type %s (%s)", instKey(ri, si), typeNames[typ], what)
	if prev, dup := seenIDs[id]; dup {
		return stats.Violf("C06/create-instance/instance-id-reused", "%s got instance id %d, which was handed out before to %s", desc, id, prev)
	}
	if du, dup := assigned[id]; dup {
		return stats.Violf("C06/create-instance/instance-id-reused", "%s got instance id %d, which the manager had already assigned to data %s", desc, id, du)
	}
	seenIDs[id] = desc
	w.caseIDs[id] = desc
	r.slots[si] = &inst{typ: typ, id: id, written: map[string]bool{}}
	w.class("hist/type=" + typeNames[typ])
	return nil
}

// checkEmpty: a new instance holds no keys and reads like a pristine instance at every version.
func (w *world) checkEmpty(ri, si int, o *obs, what string) error {
	in := w.repos[ri].slots[si]
	if len(o.raw) != 0 {
		return stats.Violf("C06/create-instance/new-instance-has-keys", "%s: new %s (id %d) starts with %d stored keys, first %s", what, instKey(ri, si), in.id, len(o.raw), short(o.raw[0]))
	}
	ref, err := pristineReads(in.typ)
	if err != nil {
		return err
	}
	for vi, m := range o.reads {
		for u, got := range m {
			if got != ref[u] {
				return stats.Violf("C06/create-instance/new-instance-reads-not-empty", "%s: new %s (id %d, %s) version %d GET %s = %s, a pristine instance answers %s", what, instKey(ri, si), in.id, typeNames[in.typ], vi, u, short(got), short(ref[u]))
			}
		}
	}
	return nil
}

func (w *world) deleteInstance(ri, si int, what string, eager bool) error {
	r := w.repos[ri]
	in := r.slots[si]
	name := slotNames[si]
	if eager {
		return w.deleteAndRecreateAtOnce(ri, si, what)
	}
	// the documented way to delete an instance: RPC command "repo <uuid> delete <name> <passcode>" (no HTTP route exists)
	if err := stats.PanicGuard("C06/rpc-repo-delete/panic", func() error {
		_, err := server.VerifRPC("repo", r.root, "delete", name, "")
		return err
	}); err != nil {
		if stats.SigOf(err) != "" {
			return err
		}
		return stats.Violf("C06/delete-instance/refused", "%s: %v", what, err)
	}
	// deletion is asynchronous: keys are purged first, then the instance leaves the repo (repoT.deleteData)
	deadline := time.Now().Add(120 * time.Second)
	for {
		gone := true
		for _, n := range drive.InstanceNames(r.root) {
			if string(n) == name {
				gone = false
			}
		}
		if gone {
			break
		}
		if time.Now().After(deadline) {
			return fmt.Errorf("harness: %s: instance still listed in the repo 120 s after the delete command", what)
		}
		time.Sleep(time.Millisecond)
	}
	w.dead[in.id] = fmt.Sprintf("%s type %s", instKey(ri, si), typeNames[in.typ])
	r.slots[si] = nil
	return nil
}

// deleteAndRecreateAtOnce: delete an instance and, without waiting for the background purge, ask for a new instance
// of the same type under the same name.  Whatever the answer, an acknowledged creation must still be there once the
// purge of the old instance has finished, as an empty instance with a fresh id; a refusal is fine.
func (w *world) deleteAndRecreateAtOnce(ri, si int, what string) error {
	r := w.repos[ri]
	in := r.slots[si]
	name := slotNames[si]
	if err := stats.PanicGuard("C06/rpc-repo-delete/panic", func() error {
		_, err := server.VerifRPC("repo", r.root, "delete", name, "")
		return err
	}); err != nil {
		if stats.SigOf(err) != "" {
			return err
		}
		return stats.Violf("C06/delete-instance/refused", "%s: %v", what, err)
	}
	m := map[string]string{"typename": typeNames[in.typ], "dataname": name}
	for k, v := range instConfig(in.typ) {
		m[k] = v
	}
	b, _ := json.Marshal(m)
	resp := drive.Post("repo/"+r.uuids[len(r.uuids)-1]+"/instance", b)
	if resp.IsPanic() {
		return stats.Violf("C06/POST-repo-instance/panic", "%s: %s", what, resp)
	}
	acked := resp.OK()
	// wait until the old instance's keys are purged and the listing is stable for a while
	minK, maxK := storage.DataInstanceKeyRange(in.id)
	deadline := time.Now().Add(120 * time.Second)
	stable := 0
	for stable < 25 {
		if time.Now().After(deadline) {
			return fmt.Errorf("harness: %s: purge of the deleted instance did not settle in 120 s", what)
		}
		left := 0
		if d, err := datastore.GetDataByUUIDName(dvid.UUID(r.root), dvid.InstanceName(name)); err == nil && d.InstanceID() == in.id {
			left = 1 // old instance still registered
		}
		if left == 0 {
			if store, err := storage.DefaultKVStore(); err == nil {
				if odb, ok := store.(storage.OrderedKeyValueDB); ok {
					ch := make(chan *storage.KeyValue, 8)
					go odb.RawRangeQuery(minK, maxK, true, ch, nil)
					for kv := range ch {
						if kv == nil {
							break
						}
						left++
					}
				}
			}
		}
		if left == 0 {
			stable++
		} else {
			stable = 0
		}
		time.Sleep(2 * time.Millisecond)
	}
	w.dead[in.id] = fmt.Sprintf("%s type %s", instKey(ri, si), typeNames[in.typ])
	old := in
	r.slots[si] = nil
	d, err := datastore.GetDataByUUIDName(dvid.UUID(r.root), dvid.InstanceName(name))
	if !acked {
		if err == nil && d.InstanceID() != old.id {
			return stats.Violf("C06/recreate-during-purge/refused-creation-exists", "%s: creation answered %s but an instance %q (id %d) exists", what, resp, name, d.InstanceID())
		}
		w.class("hist/recreate-during-purge/refused")
		return nil
	}
	w.class("hist/recreate-during-purge/acknowledged")
	if err != nil {
		return stats.Violf("C06/recreate-during-purge/acknowledged-instance-vanished", "%s: POST instance %q was acknowledged (%s) while the old instance (id %d) was being deleted, but after the purge the name is gone: %v", what, name, resp, old.id, err)
	}
	id := d.InstanceID()
	if id == old.id {
		return stats.Violf("C06/recreate-during-purge/old-instance-still-registered", "%s: instance %q still has the deleted instance's id %d", what, name, id)
	}
	desc := fmt.Sprintf("%s type %s (%s, re-created during purge)", instKey(ri, si), typeNames[old.typ], what)
	if prev, dup := seenIDs[id]; dup {
		return stats.Violf("C06/create-instance/instance-id-reused", "%s got instance id %d, which was handed out before to %s", desc, id, prev)
	}
	seenIDs[id] = desc
	w.caseIDs[id] = desc
	r.slots[si] = &inst{typ: old.typ, id: id, written: map[string]bool{}}
	return nil
}

func okWrite(resp drive.Resp, sigbase, what string) error {
	if resp.IsPanic() {
		return stats.Violf("C06/"+sigbase+"/panic", "%s: %s", what, resp)
	}
	if !resp.OK() {
		return stats.Violf("C06/"+sigbase+"/refused", "%s: %s", what, resp)
	}
	return nil
}

func annotPos(k int) (int, int, int) { return (k%4)*70 + 1, ((k/4)%2)*70 + 2, 3 }

func (w *world) write(ri, si int, op histOp, i int, what string) error {
	r := w.repos[ri]
	in := r.slots[si]
	base := "node/" + r.uuids[len(r.uuids)-1] + "/" + slotNames[si] + "/"
	k := op.Key
	if k < 0 {
		k = -k
	}
	n := op.N
	if n < 1 {
		n = 1
	}
	switch typeNames[in.typ] {
	case "keyvalue":
		switch op.Kind {
		case "write":
			return okWrite(drive.Post(base+"key/"+kvNames[k%len(kvNames)], []byte(fmt.Sprintf("\"v%d\"", i))), "POST-keyvalue-key", what)
		case "erase":
			resp := drive.Delete(base + "key/" + kvNames[k%len(kvNames)])
			return okWrite(resp, "DELETE-keyvalue-key", what)
		case "bulk":
			for j := 0; j < n; j++ {
				if err := okWrite(drive.Post(base+fmt.Sprintf("key/k%03d", j), []byte(fmt.Sprintf("\"b%d_%d\"", i, j))), "POST-keyvalue-key", what); err != nil {
					return err
				}
			}
		}
	case "roi":
		switch op.Kind {
		case "write":
			return okWrite(drive.Post(base+"roi", []byte(fmt.Sprintf("[[%d,%d,0,%d]]", k%3, k%2, k%4))), "POST-roi-roi", what)
		case "erase":
			return okWrite(drive.Delete(base+"roi"), "DELETE-roi-roi", what)
		case "bulk":
			var spans []string
			for j := 0; j < n; j++ {
				spans = append(spans, fmt.Sprintf("[%d,%d,%d,%d]", j/8, j%8, j%3, j%3+1))
			}
			return okWrite(drive.Post(base+"roi", []byte("["+strings.Join(spans, ",")+"]")), "POST-roi-roi", what)
		}
	case "annotation":
		switch op.Kind {
		case "write":
			x, y, z := annotPos(k)
			body := fmt.Sprintf(`[{"Pos":[%d,%d,%d],"Kind":"Note","Tags":["t%d"],"Prop":{"i":"%d"}}]`, x, y, z, k%2, i)
			return okWrite(drive.Post(base+"elements", []byte(body)), "POST-annotation-elements", what)
		case "erase":
			x, y, z := annotPos(k)
			resp := drive.Delete(base + fmt.Sprintf("element/%d_%d_%d", x, y, z))
			if resp.IsPanic() {
				return stats.Violf("C06/DELETE-annotation-element/panic", "%s: %s", what, resp)
			}
		case "bulk":
			var els []string
			for j := 0; j < n; j++ {
				els = append(els, fmt.Sprintf(`{"Pos":[%d,%d,40],"Kind":"Note","Tags":["t%d"],"Prop":{"i":"%d"}}`, (j%12)*70+5, (j/12)*70+5, j%2, i))
			}
			return okWrite(drive.Post(base+"elements", []byte("["+strings.Join(els, ",")+"]")), "POST-annotation-elements", what)
		}
	case "uint8blk":
		post := func(size, off string, nbytes int) error {
			url := base + "raw/0_1_2/" + size + "/" + off
			if in.written[off] {
				url += "?mutate=true"
			}
			in.written[off] = true
			return okWrite(drive.Post(url, bytes.Repeat([]byte{byte(i%250 + 1)}, nbytes)), "POST-uint8blk-raw", what)
		}
		if op.Kind == "bulk" && !in.bulked {
			in.bulked = true
			if n > 4 {
				n = 4 + n%2 // 4 or 5 blocks of 16^3 in a row at z=16 (kept small: every snapshot reads them back)
			}
			return post(fmt.Sprintf("%d_16_16", 16*n), "0_0_16", 4096*n)
		}
		return post("16_16_16", fmt.Sprintf("%d_0_0", 16*(k%2)), 4096)
	}
	return nil
}

// ------------------------------------------------------------------ the check

func settleAll(w *world, deep bool) {
	for _, r := range w.repos {
		if r.deleted {
			continue
		}
		if deep {
			drive.DeepSettle(r.root)
		} else {
			drive.Settle(r.root)
		}
	}
}

func runHistory(c histCase) (cls []string, err error) {
	w := &world{caseIDs: map[dvid.InstanceID]string{}, dead: map[dvid.InstanceID]string{}, cls: map[string]bool{}}
	defer func() {
		for s := range w.cls {
			cls = append(cls, s)
		}
		sort.Strings(cls)
	}()
	nrepos := 1
	if c.Repos >= 2 {
		nrepos = 2
		w.class("hist/repos=2")
	}
	for t := range typeNames {
		if _, err := pristineReads(t); err != nil {
			return nil, err
		}
	}
	for ri := 0; ri < nrepos; ri++ {
		root, err := drive.NewRepo()
		if err != nil {
			return nil, fmt.Errorf("harness: %v", err)
		}
		w.repos = append(w.repos, &repoState{root: root, uuids: []string{root}})
	}
	// instances are created slot by slot across repos so that neighbours in id order belong to different repos too
	for si := 0; si < 3; si++ {
		for ri := 0; ri < nrepos; ri++ {
			typ := c.Init[ri][si]
			if typ < 0 {
				continue
			}
			if err := w.create(ri, si, typ%len(typeNames), "setup"); err != nil {
				return nil, err
			}
		}
	}
	base, err := w.observeAll()
	if err != nil {
		return nil, err
	}
	for ri, r := range w.repos {
		for si, in := range r.slots {
			if in != nil {
				if err := w.checkEmpty(ri, si, base[instKey(ri, si)], "setup"); err != nil {
					return nil, err
				}
			}
		}
	}
	deletions := 0
	deletedSlot := map[string]int{} // instKey -> type of the last deleted instance in that slot
	for i, op := range c.Ops {
		ri := op.Repo
		if ri < 0 {
			ri = -ri
		}
		ri %= nrepos
		si := op.Slot
		if si < 0 {
			si = -si
		}
		si %= 3
		r := w.repos[ri]
		what := fmt.Sprintf("op %d %+v", i, op)
		target := instKey(ri, si)
		opname := op.Kind
		created := false
		if r.deleted && op.Kind != "reopen" {
			continue
		}
		switch op.Kind {
		case "repodelete":
			// the documented way to delete a repo: RPC command "repos delete <root uuid> <passcode>".  Only with two
			// repos: the instances of the surviving repo (ids interleaved with the deleted repo's) are the observers.
			if nrepos < 2 {
				continue
			}
			opname = "delete-repo"
			target = ""
			if err := stats.PanicGuard("C06/rpc-repos-delete/panic", func() error {
				_, err := server.VerifRPC("repos", "delete", r.root, "")
				return err
			}); err != nil {
				if stats.SigOf(err) != "" {
					return nil, err
				}
				return nil, stats.Violf("C06/delete-repo/refused", "%s: %v", what, err)
			}
			r.deleted = true
			// the instances are purged by background goroutines with no completion signal: wait (bounded) until the
			// key range of each is empty; one that is not empty by then is not judged for leftovers (no alarm on slowness)
			db, err := defaultDB()
			if err != nil {
				return nil, fmt.Errorf("harness: %v", err)
			}
			deadline := time.Now().Add(20 * time.Second)
			for sj, in := range r.slots {
				if in == nil {
					continue
				}
				min, max := storage.DataInstanceKeyRange(in.id)
				for {
					kvs, err := rawScan(db, min, max)
					if err != nil {
						return nil, fmt.Errorf("harness: %s: scan: %v", what, err)
					}
					if len(kvs) == 0 {
						w.dead[in.id] = fmt.Sprintf("%s type %s (repo deleted)", instKey(ri, sj), typeNames[in.typ])
						break
					}
					if time.Now().After(deadline) {
						stats.Count("repo_delete_purge_not_finished_in_20s", 1)
						break
					}
					time.Sleep(2 * time.Millisecond)
				}
				if len(base[instKey(ri, sj)].raw) > 0 {
					w.class("hist/delete-repo-with-nonempty-instance")
				}
				r.slots[sj] = nil
			}
			w.class("hist/delete-repo")
			deletions++
			for rj, rr := range w.repos {
				if rj == ri || rr.deleted {
					continue
				}
				for sj, x := range rr.slots {
					if x != nil && len(base[instKey(rj, sj)].raw) > 0 {
						w.class("hist/delete-repo-while-other-repo-holds-data")
					}
				}
			}
		case "write", "erase", "bulk":
			in := r.slots[si]
			if in == nil {
				continue
			}
			opname = op.Kind + "-" + typeNames[in.typ]
			if err := w.write(ri, si, op, i, what); err != nil {
				return nil, err
			}
		case "delete":
			in := r.slots[si]
			if in == nil {
				continue
			}
			opname = "delete-instance"
			nkeys := len(base[target].raw)
			if nkeys >= 1 && deleteFindingKnown() {
				// known finding: the purge of an instance that holds keys deletes other keys instead of its own.
				// The generator keeps data away from instances it deletes (steerAroundDeleteFinding); this is
				// the backstop for what it cannot foresee: such an instance is not deleted.
				stats.Count("delete_of_nonempty_instance_skipped_by_known_finding", 1)
				w.class("hist/delete-skipped-by-known-finding")
				continue
			}
			if err := w.deleteInstance(ri, si, what, op.Eager); err != nil {
				return nil, err
			}
			deletions++
			deletedSlot[target] = in.typ
			w.class("hist/has-delete")
			if nkeys > 0 {
				w.class("hist/delete-nonempty-instance")
			}
			if nkeys >= 50 {
				w.class("hist/delete-instance-with>=50-keys")
			}
			// the live instance that follows in key order (next higher id)
			var succ *inst
			succKey := ""
			for rj, rr := range w.repos {
				for sj, x := range rr.slots {
					if x != nil && x.id > in.id && (succ == nil || x.id < succ.id) {
						succ, succKey = x, instKey(rj, sj)
					}
				}
			}
			if nkeys > 0 && succ != nil && len(base[succKey].raw) > 0 {
				w.class("hist/delete-nonempty-instance-followed-by-nonempty-instance")
				if succ.typ == in.typ {
					w.class("hist/delete-nonempty-instance-followed-by-nonempty-instance-of-same-type")
				}
			}
		case "create":
			if r.slots[si] != nil {
				continue
			}
			opname = "create-instance"
			typ := op.Type
			if typ < 0 {
				typ = -typ
			}
			typ %= len(typeNames)
			if err := w.create(ri, si, typ, what); err != nil {
				return nil, err
			}
			created = true
			if deletions > 0 {
				w.class("hist/create-after-delete")
			}
			if old, ok := deletedSlot[target]; ok {
				if old == typ {
					w.class("hist/recreate-same-name-same-type")
				} else {
					w.class("hist/recreate-same-name-other-type")
				}
			}
		case "rename":
			in := r.slots[si]
			if in == nil {
				continue
			}
			k := op.Key
			if k < 0 {
				k = -k
			}
			sj := renameTarget(si, k, [3]bool{r.slots[0] != nil, r.slots[1] != nil, r.slots[2] != nil})
			if sj < 0 {
				continue
			}
			opname = "rename-instance"
			if err := stats.PanicGuard("C06/rpc-repo-rename/panic", func() error {
				_, err := server.VerifRPC("repo", r.root, "rename", slotNames[si], slotNames[sj], "")
				return err
			}); err != nil {
				if stats.SigOf(err) != "" {
					return nil, err
				}
				return nil, stats.Violf("C06/rename-instance/refused-for-free-name", "%s: %v", what, err)
			}
			r.slots[sj], r.slots[si] = in, nil
			delete(deletedSlot, instKey(ri, sj))
			w.class("hist/rename")
		case "newversion":
			if len(r.uuids) >= maxVersions {
				continue
			}
			target = ""
			head := r.uuids[len(r.uuids)-1]
			if err := drive.Commit(head); err != nil {
				return nil, fmt.Errorf("harness: %s: %v", what, err)
			}
			child, err := drive.NewVersion(head)
			if err != nil {
				return nil, fmt.Errorf("harness: %s: %v", what, err)
			}
			r.uuids = append(r.uuids, child)
			w.class("hist/newversion")
		case "reopen":
			target = ""
			settleAll(w, false)
			// an asynchronous deletion persists the repo once more after the instance left the listing.  Its
			// goroutine belongs to the "old process": in a real restart it dies with the process, here it would
			// survive the reopen and write the old repo record over the new one.  Let it finish first.
			if deletions > 0 {
				time.Sleep(400 * time.Millisecond)
			} else {
				time.Sleep(20 * time.Millisecond)
			}
			datastore.CloseReopenTest()
			w.class("hist/reopen")
			if deletions > 0 {
				w.class("hist/reopen-after-delete")
			}
		default:
			continue
		}
		settleAll(w, false)
		var cur map[string]*obs
		oracle := func() error {
			var err error
			cur, err = w.observeAll()
			if err != nil {
				return err
			}
			var keys []string
			for k := range base {
				keys = append(keys, k)
			}
			sort.Strings(keys)
			for _, k := range keys {
				if k == target {
					continue
				}
				after, ok := cur[k]
				if !ok {
					continue
				}
				rawDiff, readDiff := diffObs(base[k], after)
				if rawDiff != "" {
					return stats.Violf("C06/after-"+opname+"/other-instance-raw-keys-changed", "%s on %s changed the stored keys of %s: %s", what, target, k, rawDiff)
				}
				if readDiff != "" {
					return stats.Violf("C06/after-"+opname+"/other-instance-reads-changed", "%s on %s changed what %s returns: %s", what, target, k, readDiff)
				}
			}
			if created {
				if err := w.checkEmpty(ri, si, cur[target], what); err != nil {
					return err
				}
			}
			return w.leftover
		}
		if err := oracle(); err != nil {
			settleAll(w, true)
			if err := oracle(); err != nil {
				return nil, err
			}
		}
		base = cur
	}
	return nil, nil
}

func checkHistory(c histCase) error {
	_, err := runHistory(c)
	return err
}

// ------------------------------------------------------------------ generator

func deleteFindingKnown() bool {
	return stats.IsKnown(sigDelOtherRaw) || stats.IsKnown(sigDelOtherReads) || stats.IsKnown(sigDelLeftovers)
}

// renameTarget picks the free slot an instance in slot si is renamed to (-1: none free).
func renameTarget(si, key int, occupied [3]bool) int {
	sj := -1
	for d := 1; d <= 2; d++ {
		if x := (si + d + key%2) % 3; x != si && !occupied[x] {
			sj = x
		}
	}
	return sj
}

func normOp(op histOp, nrepos int) (ri, si int) {
	ri, si = op.Repo, op.Slot
	if ri < 0 {
		ri = -ri
	}
	if si < 0 {
		si = -si
	}
	return ri % nrepos, si % 3
}

// simTokens replays only the existence part of a history: which instance (token) sits in which slot before each
// op.  Token 0 = empty slot.  It mirrors the interpreter in runHistory (assuming every delete executes).
func simTokens(c histCase, from int, slots [2][3]int, next int, visit func(i int, ri, si int, slots *[2][3]int) bool) {
	nrepos := 1
	if c.Repos >= 2 {
		nrepos = 2
	}
	for i := from; i < len(c.Ops); i++ {
		op := c.Ops[i]
		ri, si := normOp(op, nrepos)
		if visit != nil && !visit(i, ri, si, &slots) {
			return
		}
		switch op.Kind {
		case "delete":
			slots[ri][si] = 0
		case "create":
			if slots[ri][si] == 0 {
				next++
				slots[ri][si] = next
			}
		case "rename":
			if slots[ri][si] != 0 {
				var occ [3]bool
				for x := 0; x < 3; x++ {
					occ[x] = slots[ri][x] != 0
				}
				k := op.Key
				if k < 0 {
					k = -k
				}
				if sj := renameTarget(si, k, occ); sj >= 0 {
					slots[ri][sj], slots[ri][si] = slots[ri][si], 0
				}
			}
		}
	}
}

// steerAroundDeleteFinding (known-finding mode): no instance that a later op deletes receives data before that,
// so every generated deletion hits an instance without stored keys.  Returns the number of ops altered.
func steerAroundDeleteFinding(c *histCase) int {
	nrepos := 1
	if c.Repos >= 2 {
		nrepos = 2
	}
	var slots [2][3]int
	next := 0
	for ri := 0; ri < nrepos; ri++ {
		for si := 0; si < 3; si++ {
			if c.Init[ri][si] >= 0 {
				next++
				slots[ri][si] = next
			}
		}
	}
	next += len(c.Ops) + 1 // tokens of the look-ahead runs never collide with live ones
	doomed := func(i int, token int, cur [2][3]int) bool {
		d := false
		simTokens(*c, i, cur, next, func(j, rj, sj int, sl *[2][3]int) bool {
			if c.Ops[j].Kind == "delete" && sl[rj][sj] == token {
				d = true
				return false
			}
			return true
		})
		return d
	}
	changed := 0
	simTokens(*c, 0, slots, next+len(c.Ops)+1, func(i, ri, si int, sl *[2][3]int) bool {
		op := &c.Ops[i]
		if op.Kind != "write" && op.Kind != "erase" && op.Kind != "bulk" {
			return true
		}
		tok := sl[ri][si]
		if tok == 0 || !doomed(i+1, tok, *sl) {
			return true
		}
		changed++
		for d := 1; d <= 2; d++ {
			x := (si + d) % 3
			if t2 := sl[ri][x]; t2 != 0 && !doomed(i+1, t2, *sl) {
				op.Slot = x
				return true
			}
		}
		*op = histOp{Kind: "newversion", Repo: op.Repo, Slot: op.Slot}
		return true
	})
	return changed
}

func genHistory(t *rapid.T) histCase {
	var c histCase
	c.Repos = rapid.SampledFrom([]int{1, 1, 2}).Draw(t, "repos")
	typeGen := rapid.SampledFrom([]int{0, 0, 0, 0, 1, 2, 3})
	for ri := 0; ri < 2; ri++ {
		for si := 0; si < 3; si++ {
			c.Init[ri][si] = -1
			if ri < c.Repos && (si < 2 || rapid.Bool().Draw(t, "hasC")) {
				c.Init[ri][si] = typeGen.Draw(t, "inittype")
			}
		}
	}
	// "reopen" (close and reopen the datastore, ~0.3 s) is not among the free ops: it is placed where it matters,
	// between a deletion and the next creation, in about one case out of six
	kinds := []string{"write", "write", "write", "bulk", "bulk", "erase", "rename", "rename", "newversion", "create", "delete"}
	genOp := func(kind string) histOp {
		op := histOp{
			Kind: kind,
			Repo: rapid.IntRange(0, 1).Draw(t, "repo"),
			Slot: rapid.SampledFrom([]int{0, 0, 1, 1, 2}).Draw(t, "slot"),
		}
		if kind == "" {
			op.Kind = rapid.SampledFrom(kinds).Draw(t, "kind")
		}
		switch op.Kind {
		case "write", "erase", "rename":
			op.Key = rapid.IntRange(0, 8).Draw(t, "key")
		case "bulk":
			if rapid.Bool().Draw(t, "big") {
				op.N = rapid.IntRange(50, 70).Draw(t, "n")
			} else {
				op.N = rapid.IntRange(1, 6).Draw(t, "n")
			}
		case "create":
			op.Type = typeGen.Draw(t, "type")
		case "delete":
			op.Eager = rapid.IntRange(0, 3).Draw(t, "eager") == 0
		}
		return op
	}
	some := func(label string, max int) {
		n := rapid.IntRange(0, max).Draw(t, label)
		for i := 0; i < n; i++ {
			c.Ops = append(c.Ops, genOp(""))
		}
	}
	// phases: data, deletion of an instance, something, creation (same name / other name / other repo), something
	cycles := rapid.SampledFrom([]int{1, 1, 2}).Draw(t, "cycles")
	for cy := 0; cy < cycles; cy++ {
		some("pre", 5-2*cy)
		del := genOp("delete")
		if rapid.IntRange(0, 2).Draw(t, "loaded") == 0 {
			// the instance to be deleted and its neighbour both hold many data under the same names
			n := rapid.IntRange(50, 70).Draw(t, "load")
			c.Ops = append(c.Ops, histOp{Kind: "bulk", Repo: del.Repo, Slot: del.Slot, N: n},
				histOp{Kind: "bulk", Repo: del.Repo, Slot: (del.Slot + 1) % 3, N: n})
		}
		c.Ops = append(c.Ops, del)
		some("mid", 2)
		if rapid.IntRange(0, 5).Draw(t, "reopen") == 0 {
			c.Ops = append(c.Ops, histOp{Kind: "reopen"})
		}
		cr := genOp("create")
		if rapid.IntRange(0, 3).Draw(t, "same-name") > 0 {
			cr.Repo, cr.Slot = del.Repo, del.Slot
		}
		c.Ops = append(c.Ops, cr)
		some("post", 3)
	}
	if c.Repos == 2 && rapid.IntRange(0, 2).Draw(t, "repodelete") > 0 {
		victim := rapid.IntRange(0, 1).Draw(t, "victim")
		// both repos hold data first, so that a purge which strays outside the deleted repo has something to hit
		for ri := 0; ri < 2; ri++ {
			for si := 0; si < 2; si++ {
				c.Ops = append(c.Ops, histOp{Kind: "bulk", Repo: ri, Slot: si, N: rapid.IntRange(1, 6).Draw(t, "n")})
			}
		}
		c.Ops = append(c.Ops, histOp{Kind: "repodelete", Repo: victim})
		if rapid.IntRange(0, 3).Draw(t, "reopen2") == 0 {
			c.Ops = append(c.Ops, histOp{Kind: "reopen"})
		}
		n := rapid.IntRange(0, 3).Draw(t, "after")
		for i := 0; i < n; i++ {
			op := genOp("")
			op.Repo = 1 - victim
			c.Ops = append(c.Ops, op)
		}
	}
	if deleteFindingKnown() {
		if n := steerAroundDeleteFinding(&c); n > 0 {
			stats.Excluded(sigDelLeftovers)
		}
	}
	return c
}

func TestC06History(t *testing.T) {
	rapid.Check(t, func(t *rapid.T) {
		c := genHistory(t)
		stats.SetCur("C06", "TestC06History", c)
		cls, err := runHistory(c)
		if !judge(t, "TestC06History", err, c) {
			return
		}
		nt := false
		for _, s := range cls {
			if s == "hist/create-after-delete" {
				nt = true
			}
		}
		cls = append(cls, "hist")
		stats.Record(stats.HashJSON(c), nt, cls, func() interface{} {
			var s []string
			for _, op := range c.Ops {
				s = append(s, fmt.Sprintf("%s r%d s%d t%d k%d n%d", op.Kind, op.Repo, op.Slot, op.Type, op.Key, op.N))
			}
			return map[string]interface{}{"test": "history", "repos": c.Repos, "init": c.Init, "ops": strings.Join(s, "; ")}
		})
	})
}
