package c06

import (
	"bytes"
	"encoding/binary"
	"fmt"
	"sort"
	"strings"
	"testing"

	"github.com/janelia-flyem/dvid/datatype/annotation"
	"github.com/janelia-flyem/dvid/datatype/imageblk"
	"github.com/janelia-flyem/dvid/datatype/keyvalue"
	"github.com/janelia-flyem/dvid/datatype/labelmap"
	"github.com/janelia-flyem/dvid/datatype/labelsz"
	"github.com/janelia-flyem/dvid/datatype/neuronjson"
	"github.com/janelia-flyem/dvid/dvid"
	"github.com/janelia-flyem/dvid/storage"
	"pgregory.net/rapid"

	"verif/stats"
)

// ------------------------------------------------------------------ a dvid.Data whose only content is its instance id

type fakeData struct{ id dvid.InstanceID }

func (d *fakeData) InstanceID() dvid.InstanceID            { return d.id }
func (d *fakeData) DataUUID() dvid.UUID                    { return "c06fakedata" }
func (d *fakeData) DataName() dvid.InstanceName            { return "c06fake" }
func (d *fakeData) RootUUID() dvid.UUID                    { return "c06fakeroot" }
func (d *fakeData) RootVersionID() (dvid.VersionID, error) { return 1, nil }
func (d *fakeData) DAGRootUUID() (dvid.UUID, error)        { return "c06fakeroot", nil }
func (d *fakeData) TypeName() dvid.TypeString              { return "c06fake" }
func (d *fakeData) TypeURL() dvid.URLString                { return "verif/c06fake" }
func (d *fakeData) TypeVersion() string                    { return "0" }
func (d *fakeData) Tags() map[string]string                { return nil }
func (d *fakeData) Versioned() bool                        { return true }
func (d *fakeData) KVStore() (dvid.Store, error)           { return nil, fmt.Errorf("no store") }
func (d *fakeData) NewMutationID() uint64                  { return 1 }
func (d *fakeData) SetKVStore(dvid.Store)                  {}
func (d *fakeData) SetLogStore(dvid.Store)                 {}
func (d *fakeData) SetInstanceID(id dvid.InstanceID)       { d.id = id }
func (d *fakeData) SetDataUUID(dvid.UUID)                  {}
func (d *fakeData) SetName(dvid.InstanceName)              {}
func (d *fakeData) SetRootUUID(dvid.UUID)                  {}
func (d *fakeData) SetSync(dvid.UUIDSet)                   {}
func (d *fakeData) SetTags(map[string]string)              {}
func (d *fakeData) PersistMetadata() error                 { return nil }
func (d *fakeData) IsDeleted() bool                        { return false }
func (d *fakeData) SetDeleted(bool)                        {}

var _ dvid.Data = (*fakeData)(nil)

func ctxFor(inst, ver uint32) *storage.DataContext {
	return storage.NewDataContext(&fakeData{id: dvid.InstanceID(inst)}, dvid.VersionID(ver))
}

// ------------------------------------------------------------------ case value

// tkSpec names one call of an exported type-specific key constructor.
type tkSpec struct {
	Kind string `json:"kind"`
	S    string `json:"s,omitempty"`
	X    int32  `json:"x,omitempty"`
	Y    int32  `json:"y,omitempty"`
	Z    int32  `json:"z,omitempty"`
	L    uint64 `json:"l,omitempty"`
	U    uint32 `json:"u,omitempty"`
	B    uint8  `json:"b,omitempty"`
}

type keySpec struct {
	Inst uint32 `json:"inst"`
	Ver  uint32 `json:"ver"`
	Cli  uint32 `json:"cli"`
	Tomb bool   `json:"tomb"`
	TK   tkSpec `json:"tk"`
}

type pureCase struct {
	Family string     `json:"family"`
	Modes  [2]string  `json:"modes"` // how K[1] was derived from K[0] and K[2] from K[From2]
	From2  int        `json:"from2"`
	K      [3]keySpec `json:"k"`
	Class  uint8      `json:"class"` // an arbitrary class byte for TKeyClassRange
	// Skip is only set by saved replays: instance-range functions ("KeyRange", "DataInstanceKeyRange") left unchecked so
	// that the reproduction of a finding in the next function is not hidden behind the first one.
	Skip []string `json:"skip,omitempty"`
}

var families = map[string][]string{
	"keyvalue":   {"kv"},
	"neuronjson": {"nj", "nj", "nj", "njschema", "njschemabatch", "njjsonschema"},
	"labelmap":   {"lmblock", "lmblock", "lmindex", "lmaff"},
	"annotation": {"antag", "antag", "anlabel", "anblock"},
	"imageblk":   {"ibblock", "ibblock", "ibblock", "ibmeta"},
	"roi":        {"roi"},
	"labelsz":    {"lsts", "lstl"},
}
var familyNames = []string{"keyvalue", "keyvalue", "neuronjson", "labelmap", "annotation", "imageblk", "roi", "labelsz"}

const roiKeyClass = 90 // datatype/roi/roi.go keyROI; its key constructor is not exported, the layout (indexRLE.Bytes) is mirrored here

func (s tkSpec) build() (tk storage.TKey, err error) {
	idx := dvid.IndexZYX{s.X, s.Y, s.Z}
	switch s.Kind {
	case "kv":
		return keyvalue.NewTKey(s.S)
	case "nj":
		return neuronjson.NewTKey(s.S)
	case "njschema":
		return neuronjson.NewSchemaTKey()
	case "njschemabatch":
		return neuronjson.NewSchemaBatchTKey()
	case "njjsonschema":
		return neuronjson.NewJSONSchemaTKey()
	case "lmblock":
		a := labelmap.NewBlockTKey(s.B, &idx)
		b := labelmap.NewBlockTKeyByCoord(s.B, idx.ToIZYXString())
		if !bytes.Equal(a, b) {
			return nil, stats.Violf("C06/labelmap.NewBlockTKey/differs-from-NewBlockTKeyByCoord", "%v: %x vs %x", s, a, b)
		}
		return a, nil
	case "lmindex":
		return labelmap.NewLabelIndexTKey(s.L), nil
	case "lmaff":
		return labelmap.NewAffinitiesTKey(s.L), nil
	case "antag":
		return annotation.NewTagTKey(annotation.Tag(s.S))
	case "anlabel":
		return annotation.NewLabelTKey(s.L), nil
	case "anblock":
		return annotation.NewBlockTKey(dvid.ChunkPoint3d{s.X, s.Y, s.Z}), nil
	case "ibblock":
		a := imageblk.NewTKey(&idx)
		b := imageblk.NewTKeyByCoord(idx.ToIZYXString())
		if !bytes.Equal(a, b) {
			return nil, stats.Violf("C06/imageblk.NewTKey/differs-from-NewTKeyByCoord", "%v: %x vs %x", s, a, b)
		}
		return a, nil
	case "ibmeta":
		return imageblk.MetaTKey(), nil
	case "roi":
		buf := append(idx.Bytes(), 0, 0, 0, 0)
		binary.BigEndian.PutUint32(buf[12:], s.U)
		return storage.NewTKey(roiKeyClass, buf), nil
	case "lsts":
		return labelsz.NewTypeSizeLabelTKey(labelsz.IndexType(s.B), s.U, s.L), nil
	case "lstl":
		return labelsz.NewTypeLabelTKey(labelsz.IndexType(s.B), s.L), nil
	}
	return nil, fmt.Errorf("unknown tkey kind %q", s.Kind)
}

// ------------------------------------------------------------------ generators

const maxU32 = 0xFFFFFFFF

var boundaryIDs = []uint32{0, 1, 1<<31 - 1, 1 << 31, 1<<31 + 1, maxU32 - 1, maxU32}

func isBoundary(v uint32) bool {
	for _, b := range boundaryIDs {
		if v == b {
			return true
		}
	}
	return false
}

func genID(t *rapid.T, label string) uint32 {
	switch rapid.IntRange(0, 9).Draw(t, label+"/how") {
	case 0, 1, 2, 3, 4:
		return rapid.SampledFrom(boundaryIDs).Draw(t, label+"/b")
	case 5:
		return rapid.SampledFrom([]uint32{2, 255, 256, 257, 0xFFFF, 0x10000, 0x00FFFFFF, 0x01000000, 0xFEFFFFFF, 0xFF000000}).Draw(t, label+"/m")
	case 6, 7:
		return uint32(rapid.IntRange(1, 300).Draw(t, label+"/small"))
	}
	return rapid.Uint32().Draw(t, label+"/any")
}

func nearID(t *rapid.T, v uint32, label string) uint32 {
	switch rapid.IntRange(0, 3).Draw(t, label+"/near") {
	case 0:
		return v + 1 // wraps at the max on purpose
	case 1:
		return v - 1
	case 2:
		return v ^ (1 << uint(rapid.IntRange(0, 31).Draw(t, label+"/bit")))
	}
	return genID(t, label)
}

var coordPool = []int32{0, 1, -1, 2, 255, 256, -256, 1 << 20, -(1 << 20), 1<<31 - 1, -(1 << 31), 1<<31 - 2, -(1 << 31) + 1}

func genCoord(t *rapid.T, label string) int32 {
	if rapid.IntRange(0, 3).Draw(t, label+"/how") > 0 {
		return rapid.SampledFrom(coordPool).Draw(t, label+"/b")
	}
	return rapid.Int32().Draw(t, label+"/any")
}

var labelPool = []uint64{0, 1, 2, 255, 256, 1<<32 - 1, 1 << 32, 1<<32 + 1, 1<<63 - 1, 1 << 63, 1<<64 - 2, 1<<64 - 1}

func genLabel(t *rapid.T, label string) uint64 {
	if rapid.IntRange(0, 3).Draw(t, label+"/how") > 0 {
		return rapid.SampledFrom(labelPool).Draw(t, label+"/b")
	}
	return rapid.Uint64().Draw(t, label+"/any")
}

// user keys / tags: NUL-free (documented domain: "alphanumeric key"); prefix-related ones on purpose
var strPool = []string{"a", "aa", "ab", "a0", "b", "aaa", "a00", "0", "00", "k000", "k001", "k0000", "A", "a_b", "a-b", "a.b", "z", "zz", "12345678901", "123456789012345"}

const strAlphabet = "0123456789ABCZabcxyz_-."

func genStr(t *rapid.T, label string) string {
	if rapid.IntRange(0, 2).Draw(t, label+"/how") > 0 {
		return rapid.SampledFrom(strPool).Draw(t, label+"/pool")
	}
	n := rapid.IntRange(1, 20).Draw(t, label+"/len")
	var sb strings.Builder
	for i := 0; i < n; i++ {
		sb.WriteByte(strAlphabet[rapid.IntRange(0, len(strAlphabet)-1).Draw(t, label+"/ch")])
	}
	return sb.String()
}

func genTK(t *rapid.T, family, label string) tkSpec {
	s := tkSpec{Kind: rapid.SampledFrom(families[family]).Draw(t, label+"/kind")}
	fillTK(t, &s, label)
	return s
}

func fillTK(t *rapid.T, s *tkSpec, label string) {
	switch s.Kind {
	case "kv", "nj", "antag":
		s.S = genStr(t, label+"/s")
	case "lmblock":
		s.B = uint8(rapid.SampledFrom([]int{0, 0, 1, 2, 7, 255}).Draw(t, label+"/scale"))
		s.X, s.Y, s.Z = genCoord(t, label+"/x"), genCoord(t, label+"/y"), genCoord(t, label+"/z")
	case "anblock", "ibblock":
		s.X, s.Y, s.Z = genCoord(t, label+"/x"), genCoord(t, label+"/y"), genCoord(t, label+"/z")
	case "roi":
		s.X, s.Y, s.Z = genCoord(t, label+"/x"), genCoord(t, label+"/y"), genCoord(t, label+"/z")
		s.U = genID(t, label+"/span")
	case "lmindex", "lmaff", "anlabel":
		s.L = genLabel(t, label+"/l")
	case "lsts":
		s.B = uint8(rapid.IntRange(0, 6).Draw(t, label+"/itype"))
		s.U = genID(t, label+"/size")
		s.L = genLabel(t, label+"/l")
	case "lstl":
		s.B = uint8(rapid.IntRange(0, 6).Draw(t, label+"/itype"))
		s.L = genLabel(t, label+"/l")
	}
}

// mutTK changes the spec minimally (same constructor, one argument perturbed) or switches the constructor.
func mutTK(t *rapid.T, family string, s tkSpec, label string) tkSpec {
	if len(families[family]) > 1 && rapid.IntRange(0, 4).Draw(t, label+"/switch") == 0 {
		return genTK(t, family, label+"/new")
	}
	o := s
	nearC := func(v int32, l string) int32 {
		switch rapid.IntRange(0, 3).Draw(t, l+"/n") {
		case 0:
			return v + 1
		case 1:
			return v - 1
		case 2:
			return -v
		}
		return genCoord(t, l)
	}
	nearL := func(v uint64, l string) uint64 {
		switch rapid.IntRange(0, 3).Draw(t, l+"/n") {
		case 0:
			return v + 1
		case 1:
			return v - 1
		case 2:
			return v ^ (1 << uint(rapid.IntRange(0, 63).Draw(t, l+"/bit")))
		}
		return genLabel(t, l)
	}
	switch s.Kind {
	case "kv", "nj", "antag":
		switch rapid.IntRange(0, 3).Draw(t, label+"/smut") {
		case 0: // extension: s is a proper prefix of the result
			o.S = s.S + string(strAlphabet[rapid.IntRange(0, len(strAlphabet)-1).Draw(t, label+"/ch")])
		case 1: // truncation
			if len(s.S) > 1 {
				o.S = s.S[:len(s.S)-1]
			} else {
				o.S = s.S + "0"
			}
		case 2: // last character replaced
			o.S = s.S[:len(s.S)-1] + string(strAlphabet[rapid.IntRange(0, len(strAlphabet)-1).Draw(t, label+"/ch")])
		default:
			o.S = genStr(t, label+"/s")
		}
	case "lmblock", "anblock", "ibblock", "roi":
		switch rapid.IntRange(0, 3).Draw(t, label+"/axis") {
		case 0:
			o.X = nearC(s.X, label+"/x")
		case 1:
			o.Y = nearC(s.Y, label+"/y")
		case 2:
			o.Z = nearC(s.Z, label+"/z")
		default:
			if s.Kind == "roi" {
				o.U = nearID(t, s.U, label+"/span")
			} else if s.Kind == "lmblock" {
				o.B = s.B + 1
			} else {
				o.X, o.Z = s.Z, s.X
			}
		}
	case "lmindex", "lmaff", "anlabel":
		o.L = nearL(s.L, label+"/l")
	case "lsts", "lstl":
		switch rapid.IntRange(0, 2).Draw(t, label+"/f") {
		case 0:
			o.L = nearL(s.L, label+"/l")
		case 1:
			o.B = (s.B + 1) % 7
		default:
			if s.Kind == "lsts" {
				o.U = nearID(t, s.U, label+"/size")
			} else {
				o.L = genLabel(t, label+"/l2")
			}
		}
	default: // constant keys: switch constructor
		return genTK(t, family, label+"/new")
	}
	return o
}

var deriveModes = []string{"inst", "inst", "ver", "ver", "cli", "tomb", "tk", "tk", "tk", "same", "two", "indep"}

func derive(t *rapid.T, family string, k keySpec, mode, label string) keySpec {
	o := k
	switch mode {
	case "inst":
		o.Inst = nearID(t, k.Inst, label+"/inst")
	case "ver":
		o.Ver = nearID(t, k.Ver, label+"/ver")
	case "cli":
		o.Cli = nearID(t, k.Cli, label+"/cli")
	case "tomb":
		o.Tomb = !k.Tomb
	case "tk":
		o.TK = mutTK(t, family, k.TK, label+"/tk")
	case "two":
		a := rapid.SampledFrom([]string{"inst", "ver", "cli", "tomb", "tk"}).Draw(t, label+"/a")
		b := rapid.SampledFrom([]string{"inst", "ver", "cli", "tomb", "tk"}).Draw(t, label+"/b")
		o = derive(t, family, derive(t, family, k, a, label+"/1"), b, label+"/2")
	case "indep":
		o = genKey(t, family, label+"/indep")
	}
	return o
}

func genKey(t *rapid.T, family, label string) keySpec {
	k := keySpec{
		Inst: genID(t, label+"/inst"),
		Ver:  genID(t, label+"/ver"),
		Tomb: rapid.IntRange(0, 3).Draw(t, label+"/tomb") == 0,
		TK:   genTK(t, family, label+"/tk"),
	}
	if rapid.Bool().Draw(t, label+"/hascli") {
		k.Cli = genID(t, label+"/cli")
	}
	return k
}

const (
	sigKeyRangeMax     = "C06/DataContext.KeyRange/own-key-outside/max-instance-id"
	sigInstRangeMax    = "C06/DataInstanceKeyRange/own-key-outside/max-instance-id"
	sigDataKeyRangeMax = "C06/DataKeyRange/own-key-outside/max-instance-id"
)

func genPure(t *rapid.T) pureCase {
	var c pureCase
	c.Family = rapid.SampledFrom(familyNames).Draw(t, "family")
	c.K[0] = genKey(t, c.Family, "k0")
	c.Modes[0] = rapid.SampledFrom(deriveModes).Draw(t, "mode1")
	c.K[1] = derive(t, c.Family, c.K[0], c.Modes[0], "k1")
	c.Modes[1] = rapid.SampledFrom(deriveModes).Draw(t, "mode2")
	c.From2 = rapid.IntRange(0, 1).Draw(t, "from2")
	c.K[2] = derive(t, c.Family, c.K[c.From2], c.Modes[1], "k2")
	c.Class = uint8(rapid.IntRange(0, 255).Draw(t, "class"))
	if rapid.Bool().Draw(t, "class-of-k") {
		if tk, err := c.K[rapid.IntRange(0, 2).Draw(t, "class-k")].TK.build(); err == nil && len(tk) > 0 {
			c.Class = tk[0]
		}
	}
	// known finding: the instance range functions compute id+1, which wraps at MaxInstanceID
	if stats.IsKnown(sigKeyRangeMax) || stats.IsKnown(sigInstRangeMax) || stats.IsKnown(sigDataKeyRangeMax) {
		changed := false
		for i := range c.K {
			if c.K[i].Inst == maxU32 {
				c.K[i].Inst = maxU32 - 1
				changed = true
			}
		}
		if changed {
			stats.Excluded(sigKeyRangeMax)
		}
	}
	return c
}

// ------------------------------------------------------------------ oracle

type built struct {
	spec keySpec
	tk   storage.TKey
	key  storage.Key
	ctx  *storage.DataContext
}

func marker(tomb bool) string {
	if tomb {
		return "tombstone"
	}
	return "data"
}

// construct builds the storage key of spec through the exported API only, three different ways, which must agree.
func construct(s keySpec, tk storage.TKey) (storage.Key, error) {
	mk := func(ctx *storage.DataContext, useVersionArg bool) storage.Key {
		switch {
		case s.Tomb && useVersionArg:
			return ctx.TombstoneKeyVersion(tk, dvid.VersionID(s.Ver))
		case s.Tomb:
			return ctx.TombstoneKey(tk)
		case useVersionArg:
			return ctx.ConstructKeyVersion(tk, dvid.VersionID(s.Ver))
		}
		return ctx.ConstructKey(tk)
	}
	// (a) context with the ids, client through UpdateDataKey
	ka := mk(ctxFor(s.Inst, s.Ver), false)
	if s.Cli != 0 {
		if err := storage.UpdateDataKey(ka, dvid.InstanceID(s.Inst), dvid.VersionID(s.Ver), dvid.ClientID(s.Cli)); err != nil {
			return nil, stats.Violf("C06/UpdateDataKey/error", "%+v: %v", s, err)
		}
	}
	// (b) context of another instance and version, explicit version argument, instance changed afterwards
	kb := mk(ctxFor(s.Inst^0x5A5A5A5A, s.Ver+7), true)
	if err := storage.ChangeDataKeyInstance(kb, dvid.InstanceID(s.Inst)); err != nil {
		return nil, stats.Violf("C06/ChangeDataKeyInstance/error", "%+v: %v", s, err)
	}
	// (c) context with ids 0, everything through UpdateDataKey / ChangeDataKeyVersion
	kc := mk(ctxFor(0, 0), false)
	if err := storage.ChangeDataKeyVersion(kc, dvid.VersionID(s.Ver)); err != nil {
		return nil, stats.Violf("C06/ChangeDataKeyVersion/error", "%+v: %v", s, err)
	}
	if err := storage.ChangeDataKeyInstance(kc, dvid.InstanceID(s.Inst)); err != nil {
		return nil, stats.Violf("C06/ChangeDataKeyInstance/error", "%+v: %v", s, err)
	}
	if s.Cli != 0 {
		for _, k := range []storage.Key{kb, kc} {
			if err := storage.UpdateDataKey(k, dvid.InstanceID(s.Inst), dvid.VersionID(s.Ver), dvid.ClientID(s.Cli)); err != nil {
				return nil, stats.Violf("C06/UpdateDataKey/error", "%+v: %v", s, err)
			}
		}
	}
	if !bytes.Equal(ka, kb) {
		return nil, stats.Violf("C06/ChangeDataKeyInstance/differs-from-direct-construction", "%+v: direct %x, via ConstructKeyVersion+ChangeDataKeyInstance %x", s, ka, kb)
	}
	if !bytes.Equal(ka, kc) {
		return nil, stats.Violf("C06/ChangeDataKeyVersion/differs-from-direct-construction", "%+v: direct %x, via ids 0 + ChangeDataKeyVersion/Instance %x", s, ka, kc)
	}
	return ka, nil
}

func within(k, min, max storage.Key) bool {
	return bytes.Compare(min, k) <= 0 && bytes.Compare(k, max) <= 0
}

func sameDatum(a, b *built) bool {
	return a.spec.Inst == b.spec.Inst && bytes.Equal(a.tk, b.tk)
}

func sameTuple(a, b *built) bool {
	return sameDatum(a, b) && a.spec.Ver == b.spec.Ver && a.spec.Cli == b.spec.Cli && a.spec.Tomb == b.spec.Tomb
}

func cmpU32(a, b uint32) int {
	switch {
	case a < b:
		return -1
	case a > b:
		return 1
	}
	return 0
}

// order the property states: instance, then datum key, then version
func cmpStated(a, b *built) int {
	if c := cmpU32(a.spec.Inst, b.spec.Inst); c != 0 {
		return c
	}
	if c := bytes.Compare(a.tk, b.tk); c != 0 {
		return c
	}
	return cmpU32(a.spec.Ver, b.spec.Ver)
}

func instSuffix(inst uint32) string {
	if inst == maxU32 {
		return "/max-instance-id"
	}
	return ""
}

func checkOne(b *built, class uint8, skip map[string]bool) error {
	s, k, tk, ctx := b.spec, b.key, b.tk, b.ctx
	desc := fmt.Sprintf("%+v tkey %x key %x", s, []byte(tk), []byte(k))
	if !k.IsDataKey() {
		return stats.Violf("C06/Key.IsDataKey/false-for-data-key", "%s", desc)
	}
	if got := k.IsTombstone(); got != s.Tomb {
		return stats.Violf("C06/Key.IsTombstone/wrong-marker", "want %s; %s", marker(s.Tomb), desc)
	}
	wantLast := byte(storage.MarkData)
	if s.Tomb {
		wantLast = storage.MarkTombstone
	}
	if k[len(k)-1] != wantLast {
		return stats.Violf("C06/key-construction/last-byte-not-marker", "last byte %#x want %#x; %s", k[len(k)-1], wantLast, desc)
	}
	if got, err := storage.TKeyFromKey(k); err != nil || !bytes.Equal(got, tk) {
		return stats.Violf("C06/TKeyFromKey/not-inverse", "got %x err %v; %s", []byte(got), err, desc)
	}
	if i, v, cl, err := storage.DataKeyToLocalIDs(k); err != nil || uint32(i) != s.Inst || uint32(v) != s.Ver || uint32(cl) != s.Cli {
		return stats.Violf("C06/DataKeyToLocalIDs/not-inverse", "got (%d,%d,%d) err %v; %s", i, v, cl, err, desc)
	}
	any := ctxFor(12345, 678) // "any DataContext is sufficient as receiver"
	if v, err := any.VersionFromKey(k); err != nil || uint32(v) != s.Ver {
		return stats.Violf("C06/DataContext.VersionFromKey/not-inverse", "got %d err %v; %s", v, err, desc)
	}
	if v, err := storage.VersionFromDataKey(k); err != nil || uint32(v) != s.Ver {
		return stats.Violf("C06/VersionFromDataKey/not-inverse", "got %d err %v; %s", v, err, desc)
	}
	if cl, err := any.ClientFromKey(k); err != nil || uint32(cl) != s.Cli {
		return stats.Violf("C06/DataContext.ClientFromKey/not-inverse", "got %d err %v; %s", cl, err, desc)
	}
	if i, err := any.InstanceFromKey(k); err != nil || uint32(i) != s.Inst {
		return stats.Violf("C06/DataContext.InstanceFromKey/not-inverse", "got %d err %v; %s", i, err, desc)
	}
	// unversioned prefix / split / merge: two more routes to the same key
	unv := ctx.UnversionedKeyPrefix(tk)
	if !bytes.HasPrefix(k, unv) {
		return stats.Violf("C06/DataContext.UnversionedKeyPrefix/not-a-prefix-of-key", "prefix %x; %s", []byte(unv), desc)
	}
	if u2, v2, err := ctx.UnversionedKey(tk); err != nil || !bytes.Equal(u2, unv) || uint32(v2) != s.Ver {
		return stats.Violf("C06/DataContext.UnversionedKey/differs", "got %x version %d err %v; %s", []byte(u2), v2, err, desc)
	}
	su, sv, err := storage.SplitKey(k)
	if err != nil || !bytes.Equal(su, unv) || !bytes.Equal(storage.MergeKey(su, sv), k) {
		return stats.Violf("C06/SplitKey/not-unversioned-plus-versioned", "unversioned %x versioned %x err %v; %s", []byte(su), sv, err, desc)
	}
	if s.Cli == 0 && !s.Tomb {
		cu, cv, err := ctx.SplitKey(tk)
		if err != nil || !bytes.Equal(storage.MergeKey(cu, cv), k) {
			return stats.Violf("C06/DataContext.SplitKey/merge-differs-from-ConstructKey", "unversioned %x versioned %x err %v; %s", []byte(cu), cv, err, desc)
		}
	}
	// datum range
	minV, err1 := ctx.MinVersionKey(tk)
	maxV, err2 := ctx.MaxVersionKey(tk)
	if err1 != nil || err2 != nil {
		return stats.Violf("C06/DataContext.MinMaxVersionKey/error", "%v %v; %s", err1, err2, desc)
	}
	if !within(k, minV, maxV) {
		return stats.Violf("C06/DataContext.MinMaxVersionKey/own-key-outside", "range [%x, %x]; %s", []byte(minV), []byte(maxV), desc)
	}
	if m2, err := storage.MaxVersionDataKey(dvid.InstanceID(s.Inst), tk); err != nil || !bytes.Equal(m2, maxV) {
		return stats.Violf("C06/MaxVersionDataKey/differs-from-MaxVersionKey", "%x vs %x; %s", []byte(m2), []byte(maxV), desc)
	}
	if m3 := storage.MaxVersionDataKeyFromKey(k); !bytes.Equal(m3, maxV) {
		return stats.Violf("C06/MaxVersionDataKeyFromKey/differs-from-MaxVersionKey", "%x vs %x; %s", []byte(m3), []byte(maxV), desc)
	}
	// instance ranges
	minI, maxI := ctx.KeyRange()
	if !within(k, minI, maxI) && !skip["KeyRange"] {
		return stats.Violf("C06/DataContext.KeyRange/own-key-outside"+instSuffix(s.Inst), "range [%x, %x]; %s", []byte(minI), []byte(maxI), desc)
	}
	minD, maxD := storage.DataInstanceKeyRange(dvid.InstanceID(s.Inst))
	if !within(k, minD, maxD) && !skip["DataInstanceKeyRange"] {
		return stats.Violf("C06/DataInstanceKeyRange/own-key-outside"+instSuffix(s.Inst), "range [%x, %x]; %s", []byte(minD), []byte(maxD), desc)
	}
	minA, maxA := storage.DataKeyRange()
	if !within(k, minA, maxA) {
		return stats.Violf("C06/DataKeyRange/own-key-outside"+instSuffix(s.Inst), "range [%x, %x]; %s", []byte(minA), []byte(maxA), desc)
	}
	// class ranges
	own, err := tk.Class()
	if err != nil {
		return stats.Violf("C06/TKey.Class/error", "%v; %s", err, desc)
	}
	minC, maxC := ctx.TKeyClassRange(own)
	if !within(k, minC, maxC) {
		return stats.Violf("C06/DataContext.TKeyClassRange/own-key-outside", "class %d range [%x, %x]; %s", own, []byte(minC), []byte(maxC), desc)
	}
	minC, maxC = ctx.TKeyClassRange(storage.TKeyClass(class))
	if in := within(k, minC, maxC); in != (uint8(own) == class) {
		return stats.Violf("C06/DataContext.TKeyClassRange/membership-differs-from-class", "class %d range [%x, %x] contains=%v, key class %d; %s", class, []byte(minC), []byte(maxC), in, own, desc)
	}
	return nil
}

func checkPair(a, b *built) error {
	desc := fmt.Sprintf("A=%+v (tkey %x key %x) B=%+v (tkey %x key %x)", a.spec, []byte(a.tk), []byte(a.key), b.spec, []byte(b.tk), []byte(b.key))
	// the TKey contract the constructors have to deliver on in-domain arguments
	if !bytes.Equal(a.tk, b.tk) && bytes.HasPrefix(b.tk, a.tk) {
		return stats.Violf("C06/tkey-constructors/one-tkey-is-prefix-of-another", "%s", desc)
	}
	eq := bytes.Equal(a.key, b.key)
	if st := sameTuple(a, b); st != eq {
		if eq {
			return stats.Violf("C06/key-construction/distinct-tuples-share-a-key", "%s", desc)
		}
		return stats.Violf("C06/key-construction/not-deterministic", "%s", desc)
	}
	if c := cmpStated(a, b); c != 0 {
		if got := bytes.Compare(a.key, b.key); got != c {
			return stats.Violf("C06/key-order/differs-from-instance-datum-version-order", "stated order %d, byte order %d; %s", c, got, desc)
		}
	}
	minV, _ := a.ctx.MinVersionKey(a.tk)
	maxV, _ := a.ctx.MaxVersionKey(a.tk)
	if in := within(b.key, minV, maxV); in != sameDatum(a, b) {
		if in {
			return stats.Violf("C06/DataContext.MinMaxVersionKey/contains-key-of-another-datum", "range of A [%x, %x]; %s", []byte(minV), []byte(maxV), desc)
		}
		return stats.Violf("C06/DataContext.MinMaxVersionKey/own-key-outside", "range of A [%x, %x]; %s", []byte(minV), []byte(maxV), desc)
	}
	sameInst := a.spec.Inst == b.spec.Inst
	if !sameInst {
		minI, maxI := a.ctx.KeyRange()
		if within(b.key, minI, maxI) {
			return stats.Violf("C06/DataContext.KeyRange/contains-key-of-another-instance", "range of A [%x, %x]; %s", []byte(minI), []byte(maxI), desc)
		}
		minD, maxD := storage.DataInstanceKeyRange(dvid.InstanceID(a.spec.Inst))
		if within(b.key, minD, maxD) {
			return stats.Violf("C06/DataInstanceKeyRange/contains-key-of-another-instance", "range of A [%x, %x]; %s", []byte(minD), []byte(maxD), desc)
		}
	}
	ca, _ := a.tk.Class()
	cb, _ := b.tk.Class()
	minC, maxC := a.ctx.TKeyClassRange(ca)
	if in := within(b.key, minC, maxC); in != (sameInst && ca == cb) {
		return stats.Violf("C06/DataContext.TKeyClassRange/membership-differs-from-instance-and-class", "range of A's class %d [%x, %x] contains B=%v; %s", ca, []byte(minC), []byte(maxC), in, desc)
	}
	return nil
}

func buildAll(c pureCase) ([]*built, error) {
	var bs []*built
	for _, s := range c.K {
		tk, err := s.TK.build()
		if err != nil {
			return nil, err
		}
		k, err := construct(s, tk)
		if err != nil {
			return nil, err
		}
		bs = append(bs, &built{spec: s, tk: tk, key: k, ctx: ctxFor(s.Inst, s.Ver)})
	}
	return bs, nil
}

func checkPure(c pureCase) error {
	return stats.PanicGuard("C06/storage-key-functions/panic", func() error {
		bs, err := buildAll(c)
		if err != nil {
			return err
		}
		skip := map[string]bool{}
		for _, s := range c.Skip {
			skip[s] = true
		}
		for _, b := range bs {
			if err := checkOne(b, c.Class, skip); err != nil {
				return err
			}
		}
		for i, a := range bs {
			for j, b := range bs {
				if i != j {
					if err := checkPair(a, b); err != nil {
						return err
					}
				}
			}
		}
		// contiguity: nothing of another datum sorts between two keys of one datum
		for i, a := range bs {
			for j, b := range bs {
				if i == j || !sameDatum(a, b) || bytes.Compare(a.key, b.key) >= 0 {
					continue
				}
				for l, x := range bs {
					if l == i || l == j || sameDatum(a, x) {
						continue
					}
					if bytes.Compare(a.key, x.key) < 0 && bytes.Compare(x.key, b.key) < 0 {
						return stats.Violf("C06/key-order/versions-of-a-datum-not-contiguous", "key %x of %+v sorts between %x and %x of datum %+v", []byte(x.key), x.spec, []byte(a.key), []byte(b.key), a.spec)
					}
				}
			}
		}
		return nil
	})
}

// ------------------------------------------------------------------ classes

func diffComponents(a, b keySpec) []string {
	var d []string
	if a.Inst != b.Inst {
		d = append(d, "inst")
	}
	if a.Ver != b.Ver {
		d = append(d, "ver")
	}
	if a.Cli != b.Cli {
		d = append(d, "cli")
	}
	if a.Tomb != b.Tomb {
		d = append(d, "marker")
	}
	if a.TK != b.TK {
		d = append(d, "tkey")
	}
	return d
}

func pureClasses(c pureCase) (bool, []string) {
	cls := []string{"pure/family=" + c.Family, "pure/mode=" + c.Modes[0]}
	nt := false
	for i := 0; i < 3; i++ {
		for j := i + 1; j < 3; j++ {
			a, b := c.K[i], c.K[j]
			d := diffComponents(a, b)
			if len(d) != 1 {
				continue
			}
			cls = append(cls, "pure/differ-in-exactly/"+d[0])
			bnd := false
			switch d[0] {
			case "inst":
				bnd = isBoundary(a.Inst) || isBoundary(b.Inst)
			case "ver":
				bnd = isBoundary(a.Ver) || isBoundary(b.Ver)
			case "cli":
				bnd = isBoundary(a.Cli) || isBoundary(b.Cli)
			default:
				bnd = isBoundary(a.Inst) || isBoundary(a.Ver) || isBoundary(a.Cli)
			}
			if bnd {
				nt = true
				cls = append(cls, "pure/differ-in-exactly-one+boundary-id")
			}
			if d[0] == "tkey" && a.TK.Kind == b.TK.Kind && a.TK.S != "" && b.TK.S != "" &&
				(strings.HasPrefix(a.TK.S, b.TK.S) || strings.HasPrefix(b.TK.S, a.TK.S)) {
				cls = append(cls, "pure/user-key-is-prefix-of-the-other")
			}
		}
	}
	for _, k := range c.K {
		switch k.Inst {
		case 0:
			cls = append(cls, "pure/inst=0")
		case maxU32:
			cls = append(cls, "pure/inst=max")
		case maxU32 - 1:
			cls = append(cls, "pure/inst=max-1")
		}
		if k.Ver == maxU32 || k.Cli == maxU32 {
			cls = append(cls, "pure/version-or-client=max")
		}
		if k.Ver == 0 {
			cls = append(cls, "pure/version=0")
		}
		if k.Tomb {
			cls = append(cls, "pure/has-tombstone")
		}
		if k.Cli != 0 {
			cls = append(cls, "pure/client!=0")
		}
		cls = append(cls, "pure/tkey="+k.TK.Kind)
	}
	sort.Strings(cls)
	var out []string
	for i, s := range cls {
		if i == 0 || s != cls[i-1] {
			out = append(out, s)
		}
	}
	return nt, out
}

func TestC06Pure(t *testing.T) {
	rapid.Check(t, func(t *rapid.T) {
		c := genPure(t)
		if !judge(t, "TestC06Pure", checkPure(c), c) {
			return
		}
		nt, cls := pureClasses(c)
		stats.Record(stats.HashJSON(c), nt, cls, func() interface{} { return map[string]interface{}{"test": "pure", "case": c} })
	})
}
