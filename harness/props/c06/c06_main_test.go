// C06 — storage keys isolate data instances, data and versions.
//
// Two checks: TestC06Pure (key construction / parsing / ordering / range functions of package storage over
// boundary ids and the type-specific keys of every data type's exported constructors) and TestC06History
// (op lists over instances of several types in one or two repos incl. instance deletion, re-creation and a
// datastore close/reopen; raw key dumps and read snapshots of the untouched instances must not change).
package c06

import (
	"encoding/json"
	"os"
	"testing"

	"pgregory.net/rapid"

	"verif/drive"
	"verif/stats"
)

func TestMain(m *testing.M) {
	drive.Open()
	rc := m.Run()
	drive.Close()
	stats.Flush()
	os.Exit(rc)
}

// judge has the semantics of stats.Judge (known signature: counted, case discarded; otherwise the failing case is
// recorded and the test fails) but fails with a text that only names the signature.  rapid's shrinker accepts a
// smaller case only if it fails with the *same* message, and the full messages carry op indices, instance ids and
// key bytes that change from run to run; the full message goes to the fail record and is printed again by TestReplay.
func judge(t *rapid.T, test string, err error, cse interface{}) bool {
	if err == nil {
		return true
	}
	sig := stats.SigOf(err)
	if sig != "" && stats.IsKnown(sig) {
		stats.KnownHit(sig)
		return false
	}
	stats.WriteFail("C06", test, err, cse)
	t.Logf("detail: %v", err)
	if sig == "" {
		sig = "harness-error"
	}
	t.Fatalf("VIOLATION-CANDIDATE property=C06 test=%s: %s (full message in the fail record / replay)", test, sig)
	return false
}

func TestReplay(t *testing.T) {
	stats.RunReplay(t, map[string]func(json.RawMessage) error{
		"TestC06Pure": func(raw json.RawMessage) error {
			var c pureCase
			if err := json.Unmarshal(raw, &c); err != nil {
				return err
			}
			return checkPure(c)
		},
		"TestC06History": func(raw json.RawMessage) error {
			var c histCase
			if err := json.Unmarshal(raw, &c); err != nil {
				return err
			}
			return checkHistory(c)
		},
	})
}
