// C06 — storage keys isolate data instances, data and versions.
//
// Two checks: TestC06Pure (key construction / parsing / ordering / range functions of package storage over
// boundary ids and the type-specific keys of every data type's exported constructors) and TestC06History
// (op lists over instances of several types in one or two repos incl. instance deletion, re-creation and a
// datastore close/reopen; raw key dumps and read snapshots of the untouched instances must not change).
package c06

import (
	"encoding/json"
	"os"
	"testing"

	"verif/drive"
	"verif/stats"
)

func TestMain(m *testing.M) {
	drive.Open()
	rc := m.Run()
	drive.Close()
	stats.Flush()
	os.Exit(rc)
}

func TestReplay(t *testing.T) {
	stats.RunReplay(t, map[string]func(json.RawMessage) error{
		"TestC06Pure": func(raw json.RawMessage) error {
			var c pureCase
			if err := json.Unmarshal(raw, &c); err != nil {
				return err
			}
			return checkPure(c)
		},
		"TestC06History": func(raw json.RawMessage) error {
			var c histCase
			if err := json.Unmarshal(raw, &c); err != nil {
				return err
			}
			return checkHistory(c)
		},
	})
}
