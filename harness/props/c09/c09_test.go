// C09 — the compressed label block codec is lossless and its views agree.
//
// Oracle: every array is built per 8x8x8 sub-block by model.BlockSpec.Build (pure function of
// rapid-drawn values); the code under test compresses it (labels.MakeBlock / SubvolumeToBlock /
// MakeSolidBlock) and every result or view is compared with the same thing computed naively on
// the array (package verif/model).
package c09

import (
	"bytes"
	"encoding/json"
	"fmt"
	"os"
	"sort"
	"testing"

	"github.com/janelia-flyem/dvid/datatype/common/labels"
	"github.com/janelia-flyem/dvid/dvid"
	"pgregory.net/rapid"

	"verif/model"
	"verif/props/blockgen"
	"verif/stats"
)

func TestMain(m *testing.M) {
	rc := m.Run()
	stats.Flush()
	os.Exit(rc)
}

// ---------- helpers

func p3(d model.Dims) dvid.Point3d { return dvid.Point3d{int32(d[0]), int32(d[1]), int32(d[2])} }

func bcoordString(bc [3]int32) dvid.IZYXString {
	return dvid.ChunkPoint3d{bc[0], bc[1], bc[2]}.ToIZYXString()
}

// sigOdd: MakeBlock / SubvolumeToBlock return an error for block sizes with an odd number of sub-blocks.
const sigOdd = "C09/MakeBlock/error/odd-sub-block-count"

func shapeOpts(maxSmall int, big bool) blockgen.Opts {
	o := blockgen.Opts{MaxSmallG: maxSmall, Big: big}
	if stats.IsKnown(sigOdd) {
		o.EvenOnly, o.EvenOnlySig = true, sigOdd
	}
	return o
}

// makeBlock compresses arr and checks that the input bytes are left alone.
func makeBlock(arr []uint64, d model.Dims) (*labels.Block, error) {
	in := model.LabelsToBytes(arr)
	var b *labels.Block
	err := stats.PanicGuard("C09/MakeBlock/panic", func() error {
		var err error
		b, err = labels.MakeBlock(in, p3(d))
		if err != nil {
			if (d[0]/8)*(d[1]/8)*(d[2]/8)%2 == 1 {
				return stats.Violf(sigOdd, "size %v (%d sub-blocks): %v", d, (d[0]/8)*(d[1]/8)*(d[2]/8), err)
			}
			return stats.Violf("C09/MakeBlock/error", "size %v: %v", d, err)
		}
		return nil
	})
	if err != nil {
		return nil, err
	}
	if b == nil {
		return nil, stats.Violf("C09/MakeBlock/error", "nil block without error")
	}
	if !bytes.Equal(in, model.LabelsToBytes(arr)) {
		return nil, stats.Violf("C09/MakeBlock/mutates-input", "input array modified")
	}
	return b, nil
}

func decode(sig string, b *labels.Block, d model.Dims) ([]uint64, error) {
	var out []uint64
	err := stats.PanicGuard(sig+"/panic", func() error {
		by, size := b.MakeLabelVolume()
		if !size.Equals(p3(d)) {
			return stats.Violf(sig+"/size", "decoded size %s, expected %v", size, d)
		}
		if len(by) != d.N()*8 {
			return stats.Violf(sig+"/size", "decoded %d bytes, expected %d", len(by), d.N()*8)
		}
		out = model.LabelsFromBytes(by)
		return nil
	})
	return out, err
}

func describeDiff(d model.Dims, want, got []uint64) string {
	i := model.FirstDiff(want, got)
	if i < 0 {
		return "equal"
	}
	if i >= len(want) || i >= len(got) {
		return fmt.Sprintf("length %d vs %d", len(want), len(got))
	}
	n := 0
	for j := range want {
		if want[j] != got[j] {
			n++
		}
	}
	x, y, z := i%d[0], (i/d[0])%d[1], i/(d[0]*d[1])
	return fmt.Sprintf("%d of %d voxels differ, first at (%d,%d,%d) sub-block %d: want %d got %d", n, len(want), x, y, z, model.SubBlockOf(d, i), want[i], got[i])
}

// roundTrip is the codec oracle shared by the rapid test and the fuzz target.
func roundTrip(arr []uint64, d model.Dims, withWrite bool) error {
	b, err := makeBlock(arr, d)
	if err != nil {
		return err
	}
	got, err := decode("C09/MakeLabelVolume", b, d)
	if err != nil {
		return err
	}
	if model.FirstDiff(arr, got) >= 0 {
		return stats.Violf("C09/MakeLabelVolume/differs", "size %v: %s", d, describeDiff(d, arr, got))
	}
	// documented layout: N labels in the block table, Ns[i] labels per sub-block
	distinct := model.SortedLabels(arr)
	if len(b.Labels) != len(distinct) {
		return stats.Violf("C09/MakeBlock/layout-label-table", "block table has %d labels, array has %d distinct", len(b.Labels), len(distinct))
	}
	if len(distinct) > 1 {
		sbc := model.SubBlockLabelCounts(arr, d)
		if len(b.NumSBLabels) != len(sbc) {
			return stats.Violf("C09/MakeBlock/layout-sub-block-counts", "%d sub-block counts, expected %d", len(b.NumSBLabels), len(sbc))
		}
		for i, n := range sbc {
			if int(b.NumSBLabels[i]) != n {
				return stats.Violf("C09/MakeBlock/layout-sub-block-counts", "sub-block %d: Ns=%d, array has %d distinct labels", i, b.NumSBLabels[i], n)
			}
		}
	}
	if withWrite {
		var buf bytes.Buffer
		if err := stats.PanicGuard("C09/WriteLabelVolume/panic", func() error {
			if err := b.WriteLabelVolume(&buf); err != nil {
				return stats.Violf("C09/WriteLabelVolume/error", "%v", err)
			}
			return nil
		}); err != nil {
			return err
		}
		if buf.Len() != d.N()*8 {
			return stats.Violf("C09/WriteLabelVolume/differs", "wrote %d bytes, expected %d", buf.Len(), d.N()*8)
		}
		if w := model.LabelsFromBytes(buf.Bytes()); model.FirstDiff(arr, w) >= 0 {
			return stats.Violf("C09/WriteLabelVolume/differs", "size %v: %s", d, describeDiff(d, arr, w))
		}
	}
	// serialise, re-parse
	ser, err := b.MarshalBinary()
	if err != nil {
		return stats.Violf("C09/MarshalBinary/error", "%v", err)
	}
	cp := append([]byte(nil), ser...)
	var b2 labels.Block
	if err := stats.PanicGuard("C09/UnmarshalBinary/panic", func() error {
		if err := b2.UnmarshalBinary(cp); err != nil {
			return stats.Violf("C09/UnmarshalBinary/error-on-own-output", "%v (%d bytes)", err, len(cp))
		}
		return nil
	}); err != nil {
		return err
	}
	for i := range cp { // "the receiver block does not depend on the passed slice"
		cp[i] = 0xAA
	}
	if !b2.Size.Equals(b.Size) {
		return stats.Violf("C09/UnmarshalBinary/fields-differ", "size %s vs %s", b2.Size, b.Size)
	}
	if !equalU64(b.Labels, b2.Labels) || !equalU16(b.NumSBLabels, b2.NumSBLabels) || !equalU32(b.SBIndices, b2.SBIndices) || !bytes.Equal(b.SBValues, b2.SBValues) {
		return stats.Violf("C09/UnmarshalBinary/fields-differ", "exported fields differ after re-parse (labels %d/%d, sbindices %d/%d, values %d/%d)", len(b.Labels), len(b2.Labels), len(b.SBIndices), len(b2.SBIndices), len(b.SBValues), len(b2.SBValues))
	}
	got2, err := decode("C09/UnmarshalBinary/decode", &b2, d)
	if err != nil {
		return err
	}
	if model.FirstDiff(arr, got2) >= 0 {
		return stats.Violf("C09/UnmarshalBinary/roundtrip-differs", "size %v: %s", d, describeDiff(d, arr, got2))
	}
	ser2, _ := b2.MarshalBinary()
	if !bytes.Equal(ser, ser2) {
		return stats.Violf("C09/MarshalBinary/reserialise-differs", "%d vs %d bytes", len(ser), len(ser2))
	}
	return nil
}

func equalU64(a, b []uint64) bool {
	if len(a) != len(b) {
		return false
	}
	for i := range a {
		if a[i] != b[i] {
			return false
		}
	}
	return true
}
func equalU32(a, b []uint32) bool {
	if len(a) != len(b) {
		return false
	}
	for i := range a {
		if a[i] != b[i] {
			return false
		}
	}
	return true
}
func equalU16(a, b []uint16) bool {
	if len(a) != len(b) {
		return false
	}
	for i := range a {
		if a[i] != b[i] {
			return false
		}
	}
	return true
}

// ---------- TestC09Codec

type codecCase struct {
	Block   model.BlockSpec `json:"block"`
	Grid    [3]int          `json:"grid"`     // blocks per axis of the larger subvolume (0,0,0: none)
	SVStart [3]int32        `json:"sv_start"` // block coordinate of the subvolume's first block
	VolSeed uint64          `json:"vol_seed"`
}

func (c codecCase) negative() bool { return c.SVStart[0] < 0 || c.SVStart[1] < 0 || c.SVStart[2] < 0 }

func checkCodec(c codecCase) error {
	d := c.Block.Dims()
	arr := c.Block.Build()
	if err := roundTrip(arr, d, true); err != nil {
		return err
	}
	if c.Grid[0] == 0 {
		return nil
	}
	// a block-aligned subvolume of Grid blocks (callers only pass block-aligned subvolumes: labelmap PutLabels)
	vs := c.Block
	vs.G = [3]int{c.Block.G[0] * c.Grid[0], c.Block.G[1] * c.Grid[1], c.Block.G[2] * c.Grid[2]}
	vs.Seed ^= c.VolSeed
	vd := vs.Dims()
	vol := vs.Build()
	volBytes := model.LabelsToBytes(vol)
	svOff := dvid.Point3d{c.SVStart[0] * int32(d[0]), c.SVStart[1] * int32(d[1]), c.SVStart[2] * int32(d[2])}
	sv := dvid.NewSubvolume(svOff, p3(vd))
	suffix := ""
	if c.negative() {
		suffix = "/negative-bcoord"
	}
	for bz := 0; bz < c.Grid[2]; bz++ {
		for by := 0; by < c.Grid[1]; by++ {
			for bx := 0; bx < c.Grid[0]; bx++ {
				idx := dvid.IndexZYX{c.SVStart[0] + int32(bx), c.SVStart[1] + int32(by), c.SVStart[2] + int32(bz)}
				var b *labels.Block
				if err := stats.PanicGuard("C09/SubvolumeToBlock/panic"+suffix, func() error {
					var err error
					b, err = labels.SubvolumeToBlock(sv, volBytes, idx, p3(d))
					if err != nil {
						return stats.Violf("C09/SubvolumeToBlock/error"+suffix, "block %v of subvolume %s: %v", idx, sv, err)
					}
					return nil
				}); err != nil {
					return err
				}
				want := model.Crop(vol, vd, [3]int{bx * d[0], by * d[1], bz * d[2]}, d)
				got, err := decode("C09/SubvolumeToBlock/decode", b, d)
				if err != nil {
					return err
				}
				if model.FirstDiff(want, got) >= 0 {
					return stats.Violf("C09/SubvolumeToBlock/differs-from-crop"+suffix, "block offset (%d,%d,%d) of grid %v, block %v: %s", bx, by, bz, c.Grid, d, describeDiff(d, want, got))
				}
				// SubvolumeToBlock(off) = MakeBlock(crop(off)) up to label table order
				mb, err := makeBlock(want, d)
				if err != nil {
					return err
				}
				if len(mb.Labels) != len(b.Labels) || len(mb.SBIndices) != len(b.SBIndices) || len(mb.SBValues) != len(b.SBValues) || !equalU16(mb.NumSBLabels, b.NumSBLabels) {
					return stats.Violf("C09/SubvolumeToBlock/differs-from-MakeBlock"+suffix, "block offset (%d,%d,%d): table %d vs %d labels, %d vs %d indices, %d vs %d value bytes", bx, by, bz, len(b.Labels), len(mb.Labels), len(b.SBIndices), len(mb.SBIndices), len(b.SBValues), len(mb.SBValues))
				}
			}
		}
	}
	if !bytes.Equal(volBytes, model.LabelsToBytes(vol)) {
		return stats.Violf("C09/SubvolumeToBlock/mutates-input", "input array modified")
	}
	return nil
}

func genCodec(t *rapid.T) codecCase {
	g := blockgen.Shape(t, "shape", shapeOpts(4, true))
	c := codecCase{Block: blockgen.Spec(t, "block", g)}
	if g[0]*g[1]*g[2] <= 64 && rapid.IntRange(0, 2).Draw(t, "with-subvolume") > 0 {
		c.Grid = rapid.SampledFrom([][3]int{{2, 1, 1}, {1, 2, 1}, {1, 1, 2}, {2, 2, 1}, {2, 2, 2}, {3, 1, 1}, {1, 3, 2}, {1, 1, 1}}).Draw(t, "grid")
		if g[0]*g[1]*g[2] > 27 && c.Grid[0]*c.Grid[1]*c.Grid[2] > 4 {
			c.Grid = [3]int{2, 1, 2}
		}
		c.SVStart, _ = blockgen.BCoord(t, "svstart", true)
		c.VolSeed = rapid.Uint64().Draw(t, "volseed")
	}
	return c
}

func TestC09Codec(t *testing.T) {
	rapid.Check(t, func(t *rapid.T) {
		c := genCodec(t)
		if !stats.Judge(t, "C09", "TestC09Codec", checkCodec(c), c) {
			return
		}
		arr := c.Block.Build()
		cls, maxK, nl := blockgen.Classes("codec/", c.Block, arr)
		if c.Grid[0] > 0 {
			cls = append(cls, "codec/subvolume")
			if c.negative() {
				cls = append(cls, "codec/subvolume/negative-bcoord")
			}
		}
		stats.Record(stats.HashJSON(c), maxK >= 3, cls, func() interface{} {
			return map[string]interface{}{"test": "codec", "case": c, "distinct_labels": nl, "max_labels_in_sub_block": maxK}
		})
	})
}

// ---------- TestC09Views

type viewsCase struct {
	G         [3]int            `json:"g"`
	Blocks    []model.BlockSpec `json:"blocks"`     // a row of blocks along X
	MakeSolid []bool            `json:"make_solid"` // build a solid spec with MakeSolidBlock instead of MakeBlock
	BCoord    [3]int32          `json:"bcoord"`     // block coordinate of the first block
	Gaps      []int             `json:"gaps"`       // gap in blocks between consecutive blocks (0 = adjacent)
	Pts       [][3]int32        `json:"pts"`        // query points inside the block
	OutPts    [][3]int32        `json:"out_pts"`    // query points outside the block
	Sel       []uint64          `json:"sel"`        // labels selected for the sparse outputs
	Main      uint64            `json:"main"`
	Prev      *model.BlockSpec  `json:"prev,omitempty"`
	// Alias: make block 0's label table hold duplicate / dead entries before taking the views:
	// "replace" = ReplaceLabel(AliasFrom[i] -> AliasTo), "merge" = MergeLabels(AliasTo <- AliasFrom)
	Alias     string   `json:"alias,omitempty"`
	AliasFrom []uint64 `json:"alias_from,omitempty"`
	AliasTo   uint64   `json:"alias_to,omitempty"`
	AliasSeed uint64   `json:"alias_seed,omitempty"` // fixes the order of block 0's label table (see permuteTable)
}

func (c viewsCase) negative() bool { return c.BCoord[0] < 0 || c.BCoord[1] < 0 || c.BCoord[2] < 0 }

type builtBlock struct {
	arr    []uint64
	b      *labels.Block
	bc     [3]int32
	offset [3]int
}

// WriteBinaryBlocks stops scanning the label table at the first non-selected label once it has seen as
// many entries as there are selected labels; when a selected label has several table entries (after
// ReplaceLabel(a -> existing b)) the later entries are treated as background.
const sigBinaryDup = "C09/WriteBinaryBlocks/mask-differs/aliased-table"

// WriteRLEs mis-addresses the packed values of multi-label blocks whose DVID voxel offset is negative in
// Y or Z (Go's % is negative there): it panics or, when the wrapped bit position happens to be in
// range, emits wrong runs.  When listed as known, the run-length view is not taken for such blocks.
const sigRLENegPanic = "C09/WriteRLEs/panic/negative-bcoord"
const sigRLENegDiffer = "C09/WriteRLEs/voxels-differ/negative-bcoord"

func (c viewsCase) build() ([]builtBlock, error) {
	d := model.Dims{8 * c.G[0], 8 * c.G[1], 8 * c.G[2]}
	var out []builtBlock
	bx := c.BCoord[0]
	for i, s := range c.Blocks {
		if i > 0 {
			bx += 1 + int32(c.Gaps[i-1])
		}
		bb := builtBlock{arr: s.Build(), bc: [3]int32{bx, c.BCoord[1], c.BCoord[2]}}
		bb.offset = [3]int{int(bx) * d[0], int(c.BCoord[1]) * d[1], int(c.BCoord[2]) * d[2]}
		if i < len(c.MakeSolid) && c.MakeSolid[i] && s.Kind == "solid" {
			bb.b = labels.MakeSolidBlock(s.LabelA, p3(d))
		} else {
			b, err := makeBlock(bb.arr, d)
			if err != nil {
				return nil, err
			}
			bb.b = b
		}
		if i == 0 && c.Alias != "" {
			pb, err := permuteTable(bb.b, c.AliasSeed)
			if err != nil {
				return nil, err
			}
			bb.b = pb
			err = stats.PanicGuard("C09/alias-setup/panic", func() error {
				switch c.Alias {
				case "replace":
					for _, from := range c.AliasFrom {
						nb, _, err := bb.b.ReplaceLabel(from, c.AliasTo)
						if err != nil {
							return stats.Violf("C09/alias-setup/error", "ReplaceLabel: %v", err)
						}
						bb.b = nb
						bb.arr, _ = model.ReplaceLabel(bb.arr, from, c.AliasTo)
					}
				case "merge":
					m := labels.Set{}
					mm := map[uint64]bool{}
					for _, from := range c.AliasFrom {
						m[from] = struct{}{}
						mm[from] = true
					}
					nb, err := bb.b.MergeLabels(labels.MergeOp{Target: c.AliasTo, Merged: m})
					if err != nil {
						return stats.Violf("C09/alias-setup/error", "MergeLabels: %v", err)
					}
					bb.b = nb
					bb.arr = model.MergeLabels(bb.arr, c.AliasTo, mm)
				}
				return nil
			})
			if err != nil {
				return nil, err
			}
		}
		out = append(out, bb)
	}
	return out, nil
}

// permuteTable: see blockgen.PermuteTable.
func permuteTable(b *labels.Block, seed uint64) (*labels.Block, error) {
	nb, err := blockgen.PermuteTable(b, seed)
	if err != nil {
		return nil, stats.Violf("C09/UnmarshalBinary/error-on-permuted-table", "%v", err)
	}
	return nb, nil
}

// runOutput drives WriteRLEs / WriteBinaryBlocks the way the datatypes do (writer goroutine fed
// through OutputOp), but survives a panic of the writer.
func runOutput(kind string, sel labels.Set, main uint64, pbs []*labels.PositionedBlock) (out []byte, err error, panicked interface{}) {
	var buf bytes.Buffer
	op := labels.NewOutputOp(&buf)
	pch := make(chan interface{}, 1)
	go func() {
		defer func() {
			if r := recover(); r != nil {
				pch <- r
			}
		}()
		if kind == "rle" {
			labels.WriteRLEs(sel, op, dvid.Bounds{})
		} else {
			labels.WriteBinaryBlocks(main, sel, op, dvid.Bounds{})
		}
	}()
	for _, pb := range pbs {
		op.Process(pb)
	}
	done := make(chan error, 1)
	go func() { done <- op.Finish() }()
	select {
	case err := <-done:
		return append([]byte(nil), buf.Bytes()...), err, nil
	case r := <-pch:
		return nil, nil, r
	}
}

func checkViews(c viewsCase) error {
	d := model.Dims{8 * c.G[0], 8 * c.G[1], 8 * c.G[2]}
	blocks, err := c.build()
	if err != nil {
		return err
	}
	aliasSfx := ""
	if c.Alias != "" {
		aliasSfx = "/aliased-table"
	}
	// --- point views and counts, per block
	for bi, bb := range blocks {
		sfx := ""
		if bi == 0 {
			sfx = aliasSfx
		}
		b := bb.b
		// the aliased block must still decode to the model array (otherwise the views have no reference)
		dec, err := decode("C09/views/decode"+sfx, b, d)
		if err != nil {
			return err
		}
		if model.FirstDiff(bb.arr, dec) >= 0 {
			return stats.Violf("C09/views/decode-differs"+sfx, "block %d: %s", bi, describeDiff(d, bb.arr, dec))
		}
		var pts []dvid.Point3d
		if d.N() <= 32768 {
			for z := 0; z < d[2]; z++ {
				for y := 0; y < d[1]; y++ {
					for x := 0; x < d[0]; x++ {
						pts = append(pts, dvid.Point3d{int32(x), int32(y), int32(z)})
					}
				}
			}
		} else {
			for i := 0; i < d.N(); i += 37 {
				pts = append(pts, dvid.Point3d{int32(i % d[0]), int32((i / d[0]) % d[1]), int32(i / (d[0] * d[1]))})
			}
			pts = append(pts, dvid.Point3d{int32(d[0] - 1), int32(d[1] - 1), int32(d[2] - 1)})
		}
		for _, p := range c.Pts { // drawn points come last and may repeat / be unordered
			pts = append(pts, dvid.Point3d{p[0] % int32(d[0]), p[1] % int32(d[1]), p[2] % int32(d[2])})
		}
		if err := stats.PanicGuard("C09/Value/panic"+sfx, func() error {
			for _, p := range pts {
				want := bb.arr[d.Idx(int(p[0]), int(p[1]), int(p[2]))]
				if got := b.Value(p); got != want {
					return stats.Violf("C09/Value/differs"+sfx, "block %d %v point %s: got %d want %d", bi, d, p, got, want)
				}
			}
			for _, p := range c.OutPts {
				if got := b.Value(dvid.Point3d{p[0], p[1], p[2]}); got != 0 {
					return stats.Violf("C09/Value/outside-point-not-zero", "block %v point %v outside: got %d", d, p, got)
				}
			}
			return nil
		}); err != nil {
			return err
		}
		if err := stats.PanicGuard("C09/GetPointLabels/panic"+sfx, func() error {
			got := b.GetPointLabels(pts)
			if len(got) != len(pts) {
				return stats.Violf("C09/GetPointLabels/length", "%d labels for %d points", len(got), len(pts))
			}
			for i, p := range pts {
				want := bb.arr[d.Idx(int(p[0]), int(p[1]), int(p[2]))]
				if got[i] != want {
					return stats.Violf("C09/GetPointLabels/differs"+sfx, "block %d %v point %s (#%d of %d): got %d want %d", bi, d, p, i, len(pts), got[i], want)
				}
			}
			if got := b.GetPointLabels(nil); len(got) != 0 {
				return stats.Violf("C09/GetPointLabels/length", "%d labels for no points", len(got))
			}
			return nil
		}); err != nil {
			return err
		}
		if len(c.OutPts) > 0 && os.Getenv("VERIF_C09_OUTSIDE_POINTS") == "1" {
			// doc: "If the point is outside the block, a zero is returned."  NOT asserted by default: no caller
			// passes out-of-block points (labelmap/points.go reduces every point with PointInChunk) and the
			// property statement is about points of the array.  See FINDINGS.md (observation O1).
			if err := stats.PanicGuard("C09/GetPointLabels/outside-point-panic", func() error {
				var op []dvid.Point3d
				for _, p := range c.OutPts {
					op = append(op, dvid.Point3d{p[0], p[1], p[2]})
				}
				got := b.GetPointLabels(op)
				for i := range op {
					if i < len(got) && got[i] != 0 {
						return stats.Violf("C09/GetPointLabels/outside-point-not-zero", "block %v (%d labels) point %s is outside, got label %d", d, len(b.Labels), op[i], got[i])
					}
				}
				return nil
			}); err != nil {
				return err
			}
		}
		// per-label voxel counts
		counts := model.Counts(bb.arr)
		if err := stats.PanicGuard("C09/CalcNumLabels/panic"+sfx, func() error {
			got := b.CalcNumLabels(nil)
			if msg := compareDelta(got, counts, nil); msg != "" {
				return stats.Violf("C09/CalcNumLabels/nil-prev-differs"+sfx, "block %d %v: %s", bi, d, msg)
			}
			return nil
		}); err != nil {
			return err
		}
		if c.Prev != nil {
			parr := c.Prev.Build()
			var pb *labels.Block
			if bi%2 == 1 && c.Prev.Kind == "solid" {
				pb = labels.MakeSolidBlock(c.Prev.LabelA, p3(d))
			} else if pb, err = makeBlock(parr, d); err != nil {
				return err
			}
			if err := stats.PanicGuard("C09/CalcNumLabels/panic"+sfx, func() error {
				got := b.CalcNumLabels(pb)
				if msg := compareDelta(got, counts, model.Counts(parr)); msg != "" {
					return stats.Violf("C09/CalcNumLabels/with-prev-differs"+sfx, "block %d %v: %s", bi, d, msg)
				}
				return nil
			}); err != nil {
				return err
			}
		}
	}

	// --- sparse outputs over the row of blocks
	sel := labels.Set{}
	selm := map[uint64]bool{}
	for _, l := range c.Sel {
		sel[l] = struct{}{}
		selm[l] = true
	}
	var pbs []*labels.PositionedBlock
	for _, bb := range blocks {
		pbs = append(pbs, &labels.PositionedBlock{Block: *bb.b, BCoord: bcoordString(bb.bc)})
	}
	negSfx := ""
	if c.negative() {
		negSfx = "/negative-bcoord"
	}
	sfx := aliasSfx + negSfx

	if err := checkRLEView(c, d, blocks, pbs, sel, selm, sfx); err != nil {
		return err
	}
	return checkBinaryView(c, d, blocks, pbs, sel, selm, sfx)
}

func checkRLEView(c viewsCase, d model.Dims, blocks []builtBlock, pbs []*labels.PositionedBlock, sel labels.Set, selm map[uint64]bool, sfx string) error {
	if (c.BCoord[1] < 0 || c.BCoord[2] < 0) && (stats.IsKnown(sigRLENegPanic) || stats.IsKnown(sigRLENegDiffer)) {
		stats.Excluded(sigRLENegPanic)
		return nil
	}
	// run-length output
	out, werr, pan := runOutput("rle", sel, c.Main, pbs)
	if pan != nil {
		return stats.Violf("C09/WriteRLEs/panic"+sfx, "bcoord %v size %v sel %v: panic: %v", c.BCoord, d, c.Sel, pan)
	}
	if werr != nil {
		return stats.Violf("C09/WriteRLEs/error"+sfx, "bcoord %v size %v: %v", c.BCoord, d, werr)
	}
	var rles dvid.RLEs
	if err := rles.UnmarshalBinary(out); err != nil {
		return stats.Violf("C09/WriteRLEs/unparsable"+sfx, "%d bytes: %v", len(out), err)
	}
	cnt := make([][]uint8, len(blocks))
	for i := range cnt {
		cnt[i] = make([]uint8, d.N())
	}
	for _, r := range rles {
		s := r.StartPt()
		if r.Length() <= 0 {
			return stats.Violf("C09/WriteRLEs/empty-run"+sfx, "run %s", r)
		}
		for k := int32(0); k < r.Length(); k++ {
			x, y, z := int(s[0]+k), int(s[1]), int(s[2])
			found := false
			for bi, bb := range blocks {
				lx, ly, lz := x-bb.offset[0], y-bb.offset[1], z-bb.offset[2]
				if lx >= 0 && lx < d[0] && ly >= 0 && ly < d[1] && lz >= 0 && lz < d[2] {
					if cnt[bi][d.Idx(lx, ly, lz)] < 255 {
						cnt[bi][d.Idx(lx, ly, lz)]++
					}
					found = true
					break
				}
			}
			if !found {
				return stats.Violf("C09/WriteRLEs/voxel-outside-blocks"+sfx, "run %s covers (%d,%d,%d) which is in none of the %d blocks (first at bcoord %v, size %v)", r, x, y, z, len(blocks), c.BCoord, d)
			}
		}
	}
	for bi, bb := range blocks {
		for i, v := range bb.arr {
			want := uint8(0)
			if selm[v] {
				want = 1
			}
			if cnt[bi][i] != want {
				x, y, z := i%d[0], (i/d[0])%d[1], i/(d[0]*d[1])
				if cnt[bi][i] > 1 && want == 1 {
					return stats.Violf("C09/WriteRLEs/voxel-emitted-twice"+sfx, "block %d bcoord %v local (%d,%d,%d) label %d emitted %d times", bi, bb.bc, x, y, z, v, cnt[bi][i])
				}
				return stats.Violf("C09/WriteRLEs/voxels-differ"+sfx, "block %d bcoord %v size %v local voxel (%d,%d,%d) label %d selected=%v but covered by %d runs (%d runs total, sel %v)", bi, bb.bc, d, x, y, z, v, want == 1, cnt[bi][i], len(rles), c.Sel)
			}
		}
	}

	return nil
}

func checkBinaryView(c viewsCase, d model.Dims, blocks []builtBlock, pbs []*labels.PositionedBlock, sel labels.Set, selm map[uint64]bool, sfx string) error {
	if c.Alias == "replace" && selm[c.AliasTo] && stats.IsKnown(sigBinaryDup) {
		stats.Excluded(sigBinaryDup)
		return nil
	}
	out, werr, pan := runOutput("binary", sel, c.Main, pbs)
	if pan != nil {
		return stats.Violf("C09/WriteBinaryBlocks/panic"+sfx, "bcoord %v size %v sel %v: panic: %v", c.BCoord, d, c.Sel, pan)
	}
	if werr != nil {
		return stats.Violf("C09/WriteBinaryBlocks/error"+sfx, "%v", werr)
	}
	var got []labels.BinaryBlock
	if len(out) > 0 {
		if err := stats.PanicGuard("C09/ReceiveBinaryBlocks/panic"+sfx, func() error {
			var err error
			got, err = labels.ReceiveBinaryBlocks(bytes.NewReader(out))
			if err != nil {
				return stats.Violf("C09/ReceiveBinaryBlocks/error-on-own-output"+sfx, "%d bytes: %v", len(out), err)
			}
			return nil
		}); err != nil {
			return err
		}
	}
	seen := map[int]bool{}
	for _, g := range got {
		bi := -1
		for i, bb := range blocks {
			if int(g.Offset[0]) == bb.offset[0] && int(g.Offset[1]) == bb.offset[1] && int(g.Offset[2]) == bb.offset[2] {
				bi = i
			}
		}
		if bi < 0 {
			return stats.Violf("C09/WriteBinaryBlocks/unknown-block-offset"+sfx, "binary block at offset %s matches no input block (first bcoord %v size %v)", g.Offset, c.BCoord, d)
		}
		if seen[bi] {
			return stats.Violf("C09/WriteBinaryBlocks/block-twice"+sfx, "block %d emitted twice", bi)
		}
		seen[bi] = true
		if !g.Size.Equals(p3(d)) || g.Label != c.Main {
			return stats.Violf("C09/WriteBinaryBlocks/header-differs"+sfx, "size %s label %d, expected %v label %d", g.Size, g.Label, d, c.Main)
		}
		if len(g.Voxels) != d.N() {
			return stats.Violf("C09/WriteBinaryBlocks/header-differs"+sfx, "%d voxels, expected %d", len(g.Voxels), d.N())
		}
		for i, v := range blocks[bi].arr {
			if g.Voxels[i] != selm[v] {
				x, y, z := i%d[0], (i/d[0])%d[1], i/(d[0]*d[1])
				return stats.Violf("C09/WriteBinaryBlocks/mask-differs"+sfx, "block %d size %v local voxel (%d,%d,%d) sub-block %d label %d: mask %v, selected %v (sel %v, table %d labels)", bi, d, x, y, z, model.SubBlockOf(d, i), v, g.Voxels[i], selm[v], c.Sel, len(blocks[bi].b.Labels))
			}
		}
	}
	for bi, bb := range blocks {
		if seen[bi] {
			continue
		}
		for i, v := range bb.arr {
			if selm[v] {
				return stats.Violf("C09/WriteBinaryBlocks/block-missing"+sfx, "block %d has selected label %d at position %d but no binary block was written", bi, v, i)
			}
		}
	}
	return nil
}

// compareDelta compares CalcNumLabels output with counts(cur)-counts(prev) over non-zero labels
// (entries with value 0 are not significant).
func compareDelta(got map[uint64]int32, cur, prev map[uint64]int64) string {
	want := map[uint64]int64{}
	for l, n := range cur {
		if l != 0 {
			want[l] += n
		}
	}
	for l, n := range prev {
		if l != 0 {
			want[l] -= n
		}
	}
	keys := map[uint64]bool{}
	for l := range want {
		keys[l] = true
	}
	for l := range got {
		keys[l] = true
	}
	var ks []uint64
	for l := range keys {
		ks = append(ks, l)
	}
	sort.Slice(ks, func(i, j int) bool { return ks[i] < ks[j] })
	for _, l := range ks {
		if int64(got[l]) != want[l] {
			return fmt.Sprintf("label %d: delta %d, true %d", l, got[l], want[l])
		}
	}
	if _, has := got[0]; has {
		return "label 0 has an entry although only non-zero labels are counted"
	}
	return ""
}

func genViews(t *rapid.T) viewsCase {
	g := blockgen.Shape(t, "shape", shapeOpts(4, rapid.IntRange(0, 5).Draw(t, "allow-big") == 5))
	if g[0]*g[1]*g[2] > 512 { // keep the row of blocks affordable
		g = [3]int{8, 8, 8}
	}
	c := viewsCase{G: g}
	d := model.Dims{8 * g[0], 8 * g[1], 8 * g[2]}
	nb := rapid.SampledFrom([]int{1, 1, 2, 2, 3}).Draw(t, "nblocks")
	if d.N() > 32768 {
		nb = 1
	}
	present := map[uint64]bool{}
	var arr0 []uint64
	for i := 0; i < nb; i++ {
		s := blockgen.Spec(t, fmt.Sprintf("b%d", i), g)
		if i > 0 && rapid.IntRange(0, 2).Draw(t, fmt.Sprintf("b%d-share", i)) > 0 && (s.Kind == "mixed" || s.Kind == "some-solid") && (c.Blocks[0].Kind == "mixed" || c.Blocks[0].Kind == "some-solid") {
			// share the label table with the first block so that selected labels continue across block borders
			s.Specials, s.Base, s.Extra, s.KList = c.Blocks[0].Specials, c.Blocks[0].Base, c.Blocks[0].Extra, c.Blocks[0].KList
		}
		c.Blocks = append(c.Blocks, s)
		c.MakeSolid = append(c.MakeSolid, rapid.Bool().Draw(t, fmt.Sprintf("b%d-makesolid", i)))
		if i > 0 {
			c.Gaps = append(c.Gaps, rapid.SampledFrom([]int{0, 0, 0, 1}).Draw(t, fmt.Sprintf("gap%d", i)))
		}
		a := s.Build()
		if i == 0 {
			arr0 = a
		}
		for _, l := range model.SortedLabels(a) {
			present[l] = true
		}
	}
	c.BCoord, _ = blockgen.BCoord(t, "bcoord", true)
	np := rapid.IntRange(0, 8).Draw(t, "npts")
	for i := 0; i < np; i++ {
		c.Pts = append(c.Pts, [3]int32{int32(rapid.IntRange(0, d[0]-1).Draw(t, "px")), int32(rapid.IntRange(0, d[1]-1).Draw(t, "py")), int32(rapid.IntRange(0, d[2]-1).Draw(t, "pz"))})
	}
	no := rapid.IntRange(0, 3).Draw(t, "noutpts")
	for i := 0; i < no; i++ {
		p := [3]int32{int32(rapid.IntRange(0, d[0]-1).Draw(t, "ox")), int32(rapid.IntRange(0, d[1]-1).Draw(t, "oy")), int32(rapid.IntRange(0, d[2]-1).Draw(t, "oz"))}
		ax := rapid.IntRange(0, 2).Draw(t, "oaxis")
		if rapid.Bool().Draw(t, "obelow") {
			p[ax] = -int32(rapid.IntRange(1, 9).Draw(t, "odist"))
		} else {
			p[ax] = int32(d[ax]) + int32(rapid.IntRange(0, 9).Draw(t, "odist"))
		}
		c.OutPts = append(c.OutPts, p)
	}
	var pl []uint64
	for l := range present {
		pl = append(pl, l)
	}
	sort.Slice(pl, func(i, j int) bool { return pl[i] < pl[j] })
	// aliasing pre-op on block 0
	l0 := model.SortedLabels(arr0)
	if len(l0) >= 3 && rapid.IntRange(0, 3).Draw(t, "alias") == 3 {
		c.Alias = rapid.SampledFrom([]string{"replace", "merge"}).Draw(t, "alias-kind")
		c.AliasSeed = rapid.Uint64().Draw(t, "alias-seed")
		nz := l0
		if nz[0] == 0 {
			nz = nz[1:]
		}
		c.AliasTo = rapid.SampledFrom(nz).Draw(t, "alias-to")
		if c.Alias == "merge" && rapid.IntRange(0, 3).Draw(t, "alias-to-absent") == 3 {
			c.AliasTo = 1<<40 + 7
		}
		n := rapid.IntRange(1, 3).Draw(t, "alias-n")
		for i := 0; i < n; i++ {
			f := rapid.SampledFrom(nz).Draw(t, "alias-from")
			dup := f == c.AliasTo
			for _, x := range c.AliasFrom {
				dup = dup || x == f
			}
			if !dup {
				c.AliasFrom = append(c.AliasFrom, f)
			}
		}
		if len(c.AliasFrom) == 0 {
			c.Alias = ""
			c.AliasTo = 0
			c.AliasSeed = 0
		} else {
			pl = append(pl, c.AliasTo)
		}
	}
	// selected labels: mostly present non-zero labels, sometimes an absent one, never 0
	// (label 0 is the background of sparse volumes)
	ns := rapid.IntRange(1, 3).Draw(t, "nsel")
	for i := 0; i < ns; i++ {
		var l uint64
		if rapid.IntRange(0, 7).Draw(t, "sel-absent") == 7 {
			l = 1<<41 + uint64(i)
		} else {
			l = rapid.SampledFrom(pl).Draw(t, "sel")
		}
		if c.Alias != "" && i == 0 && rapid.Bool().Draw(t, "sel-alias-to") {
			l = c.AliasTo
		}
		if l == 0 {
			continue
		}
		dup := false
		for _, x := range c.Sel {
			dup = dup || x == l
		}
		if !dup {
			c.Sel = append(c.Sel, l)
		}
	}
	if len(c.Sel) == 0 {
		c.Sel = []uint64{1<<41 + 99}
	}
	c.Main = c.Sel[0]
	if rapid.IntRange(0, 2).Draw(t, "with-prev") > 0 {
		p := blockgen.Spec(t, "prev", g)
		if rapid.Bool().Draw(t, "prev-related") && (p.Kind == "mixed" || p.Kind == "some-solid") && (c.Blocks[0].Kind == "mixed" || c.Blocks[0].Kind == "some-solid") {
			p.Specials, p.Base, p.Extra, p.KList = c.Blocks[0].Specials, c.Blocks[0].Base, c.Blocks[0].Extra, c.Blocks[0].KList
		}
		c.Prev = &p
	}
	return c
}

func TestC09Views(t *testing.T) {
	rapid.Check(t, func(t *rapid.T) {
		c := genViews(t)
		if !stats.Judge(t, "C09", "TestC09Views", checkViews(c), c) {
			return
		}
		var cls []string
		maxK := 0
		for i, s := range c.Blocks {
			arr := s.Build()
			cl, k, _ := blockgen.Classes("views/", s, arr)
			cls = append(cls, cl...)
			if k > maxK {
				maxK = k
			}
			if c.MakeSolid[i] && s.Kind == "solid" {
				cls = append(cls, "views/MakeSolidBlock")
			}
		}
		cls = dedupe(cls)
		cls = append(cls, fmt.Sprintf("views/blocks=%d", len(c.Blocks)))
		if c.negative() {
			cls = append(cls, "views/negative-bcoord")
		}
		if c.Prev != nil {
			cls = append(cls, "views/with-prev")
		}
		if c.Alias != "" {
			cls = append(cls, "views/aliased-table="+c.Alias)
		}
		if len(c.OutPts) > 0 {
			cls = append(cls, "views/outside-points")
		}
		if len(c.Sel) > 1 {
			cls = append(cls, "views/multi-label-selection")
		}
		if c.Sel[0] >= 1<<41 && c.Sel[0] < 1<<42 {
			cls = append(cls, "views/selected-label-absent")
		}
		for _, g := range c.Gaps {
			if g == 0 {
				cls = append(cls, "views/adjacent-blocks")
				break
			}
		}
		stats.Record(stats.HashJSON(c), maxK >= 3, cls, func() interface{} {
			return map[string]interface{}{"test": "views", "case": c, "max_labels_in_sub_block": maxK}
		})
	})
}

func dedupe(in []string) []string {
	seen := map[string]bool{}
	var out []string
	for _, s := range in {
		if !seen[s] {
			seen[s] = true
			out = append(out, s)
		}
	}
	return out
}

// ---------- native fuzz target (thorough tier)

// fuzzDecode turns bytes into (shape, per-sub-block label count k, label stream).
func fuzzDecode(data []byte) ([]uint64, model.Dims) {
	if len(data) < 5 {
		data = append(append([]byte(nil), data...), 0, 0, 0, 0, 0)
	}
	g := [3]int{2 + int(data[0])%3, 2 + int(data[1])%3, 2 + int(data[2])%3}
	mode := data[3]
	rest := data[4:]
	pos := 0
	next := func() int {
		v := rest[pos%len(rest)]
		pos++
		return int(v)
	}
	pal := func(n int) uint64 {
		switch mode % 5 {
		case 0:
			return uint64(n)
		case 1:
			return 1<<32 - 300 + uint64(n)
		case 2:
			return 1<<63 - 300 + uint64(n)
		case 3:
			return 1<<64 - 1 - uint64(n)
		default:
			return uint64(n) * 0x0101010101010101
		}
	}
	d := model.Dims{8 * g[0], 8 * g[1], 8 * g[2]}
	arr := make([]uint64, d.N())
	for sz := 0; sz < g[2]; sz++ {
		for sy := 0; sy < g[1]; sy++ {
			for sx := 0; sx < g[0]; sx++ {
				k := 1 + (next()<<8|next())%512
				base := next()
				if mode&0x80 != 0 {
					base = 0 // all sub-blocks share one table
				}
				a := next() | 1
				b := next()
				var idx [512]int
				for i := 0; i < 512; i++ {
					v := next()
					if k > 256 {
						v = v<<8 | next()
					}
					idx[i] = v % k
				}
				for i := 0; i < k; i++ {
					idx[(a*i+b)%512] = i
				}
				for z := 0; z < 8; z++ {
					for y := 0; y < 8; y++ {
						for x := 0; x < 8; x++ {
							arr[d.Idx(sx*8+x, sy*8+y, sz*8+z)] = pal(base + idx[(z*8+y)*8+x])
						}
					}
				}
			}
		}
	}
	return arr, d
}

func fuzzOne(data []byte) error {
	arr, d := fuzzDecode(data)
	if (d[0]/8)*(d[1]/8)*(d[2]/8)%2 == 1 && stats.IsKnown(sigOdd) {
		// steer around the known finding: same content stream, one more sub-block along x
		data = append([]byte(nil), data...)
		for len(data) < 5 {
			data = append(data, 0)
		}
		data[0] = 2 // g is in 2..4 per axis, so the only odd product is 3x3x3; this decodes to gx = 4
		arr, d = fuzzDecode(data)
	}
	if err := roundTrip(arr, d, false); err != nil {
		return err
	}
	b, err := makeBlock(arr, d)
	if err != nil {
		return err
	}
	return stats.PanicGuard("C09/fuzz-views/panic", func() error {
		for i := 0; i < d.N(); i += 29 {
			p := dvid.Point3d{int32(i % d[0]), int32((i / d[0]) % d[1]), int32(i / (d[0] * d[1]))}
			if got := b.Value(p); got != arr[i] {
				return stats.Violf("C09/Value/differs", "size %v point %s: got %d want %d", d, p, got, arr[i])
			}
		}
		if msg := compareDelta(b.CalcNumLabels(nil), model.Counts(arr), nil); msg != "" {
			return stats.Violf("C09/CalcNumLabels/nil-prev-differs", "size %v: %s", d, msg)
		}
		return nil
	})
}

func FuzzC09Codec(f *testing.F) {
	f.Add([]byte{0, 0, 0, 0, 0})
	f.Add([]byte{1, 2, 0, 1, 0, 2, 7, 3, 9, 1, 0, 1, 1, 0})
	f.Add([]byte{2, 2, 2, 0x83, 1, 255, 3, 5, 17, 1, 2, 3, 4, 5, 6, 7, 8, 9, 200, 100, 50, 25})
	f.Add([]byte{0, 1, 2, 2, 0, 16, 0, 1, 0, 1, 2, 3, 4, 5, 6, 7, 8, 9, 10, 11, 12, 13, 14, 15, 16})
	f.Add([]byte{0, 0, 0, 4, 1, 0, 9, 33, 77, 0xff, 0x00, 0x80, 0x7f, 0x01})
	seed := uint64(12345)
	long := make([]byte, 700)
	for i := range long {
		long[i] = byte(model.XorShift(&seed))
	}
	f.Add(long)
	f.Fuzz(func(t *testing.T, data []byte) {
		if len(data) > 4096 {
			data = data[:4096]
		}
		if err := fuzzOne(data); err != nil {
			fmt.Printf("REPLAY-FAIL sig=%s msg=%s\n", stats.SigOf(err), err.Error())
			t.Fatalf("%v", err)
		}
	})
}

// ---------- replay

func TestReplay(t *testing.T) {
	stats.RunReplay(t, map[string]func(json.RawMessage) error{
		"TestC09Codec": func(raw json.RawMessage) error {
			var c codecCase
			if err := json.Unmarshal(raw, &c); err != nil {
				return err
			}
			return checkCodec(c)
		},
		"TestC09Views": func(raw json.RawMessage) error {
			var c viewsCase
			if err := json.Unmarshal(raw, &c); err != nil {
				return err
			}
			return checkViews(c)
		},
	})
}
