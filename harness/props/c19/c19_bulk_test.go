package c19

import (
	"fmt"
	"sort"
	"strings"
	"testing"

	"github.com/janelia-flyem/dvid/datastore"
	"github.com/janelia-flyem/dvid/datatype/keyvalue"
	"github.com/janelia-flyem/dvid/dvid"
	"github.com/janelia-flyem/dvid/storage"
	"pgregory.net/rapid"

	"verif/drive"
	"verif/model"
	"verif/stats"
)

// ------------------------------------------------------------------ size class: > 1000 live pairs
//
// DAG: 0 root; 1 child of 0; 2 child of 0 on a sibling branch; 3 child of 1.  The root holds N pairs (written with
// storage-level batches); node 1 deletes a run of D1 keys and overrides every Ov-th key outside the run; node 2
// deletes D2 keys from the other end and overrides two; node 3 overrides the last key, deletes one more key and
// re-creates a key node 1 deleted.  copyData hands pairs to the storing goroutine through channels of capacity 1000,
// so the live count at V is steered to 1000, its neighbours and multiples.

type bulkCase struct {
	Live    int  `json:"live"` // pairs visible at node 1
	D1      int  `json:"d1"`   // keys deleted at node 1 (root holds Live+D1 keys)
	D1At    int  `json:"d1_at"`
	D2      int  `json:"d2"`
	Ov      int  `json:"ov"` // node 1 overrides keys with index % Ov == 0 (0 = none)
	Flatten bool `json:"flatten"`
	V       int  `json:"v"`
}

func bulkKey(i int) string { return fmt.Sprintf("k%06d", i) }

type bulkWrite struct {
	i   int
	val string // "" = delete
}

func checkBulk(c bulkCase) error {
	_, err := runBulk(c)
	return err
}

// runBulk returns the number of live pairs at the node the copy was made at.
func runBulk(c bulkCase) (int, error) {
	d := &model.DAG{}
	d.Add()
	d.Add(0)
	d.Add(0)
	d.Add(1)
	b, err := drive.BuildDAG(d)
	if err != nil {
		return 0, fmt.Errorf("harness: build: %v", err)
	}
	srcData, err := b.NewData("keyvalue", "src", nil)
	if err != nil {
		return 0, fmt.Errorf("harness: %v", err)
	}
	db, err := datastore.GetOrderedKeyValueDB(srcData)
	if err != nil {
		return 0, fmt.Errorf("harness: %v", err)
	}
	batcher, ok := db.(storage.KeyValueBatcher)
	if !ok {
		return 0, fmt.Errorf("harness: store has no batches")
	}
	n := c.Live + c.D1
	state := make([]map[int]string, 4)
	state[0] = map[int]string{}
	commit := func(node int, ws []bulkWrite) error {
		ctx := datastore.NewVersionedCtx(srcData, b.Version[node])
		bt := batcher.NewBatch(ctx)
		for j, x := range ws {
			tk, err := keyvalue.NewTKey(bulkKey(x.i))
			if err != nil {
				return err
			}
			if x.val == "" {
				bt.Delete(tk)
				delete(state[node], x.i)
			} else {
				bt.Put(tk, []byte(x.val))
				state[node][x.i] = x.val
			}
			if (j+1)%400 == 0 {
				if err := bt.Commit(); err != nil {
					return err
				}
				bt = batcher.NewBatch(ctx)
			}
		}
		return bt.Commit()
	}
	inherit := func(child, parent int) {
		state[child] = map[int]string{}
		for k, v := range state[parent] {
			state[child][k] = v
		}
	}
	// ---- root
	var ws []bulkWrite
	for i := 0; i < n; i++ {
		ws = append(ws, bulkWrite{i, fmt.Sprintf("root-%d", i)})
	}
	if err := commit(0, ws); err != nil {
		return 0, fmt.Errorf("harness: %v", err)
	}
	// ---- node 1
	inherit(1, 0)
	ws = nil
	at := c.D1At % (n - c.D1 + 1)
	if c.Ov > 0 {
		for i := 0; i < n; i += c.Ov {
			if i < at || i >= at+c.D1 {
				ws = append(ws, bulkWrite{i, fmt.Sprintf("one-%d", i)})
			}
		}
	}
	for i := at; i < at+c.D1; i++ {
		ws = append(ws, bulkWrite{i, ""})
	}
	if err := commit(1, ws); err != nil {
		return 0, fmt.Errorf("harness: %v", err)
	}
	// ---- node 2 (sibling branch): deletes from the top end, overrides two keys
	inherit(2, 0)
	ws = nil
	for i := n - c.D2; i < n; i++ {
		ws = append(ws, bulkWrite{i, ""})
	}
	ws = append(ws, bulkWrite{0, "two-0"}, bulkWrite{n / 2, "two-mid"})
	if err := commit(2, ws); err != nil {
		return 0, fmt.Errorf("harness: %v", err)
	}
	// ---- node 3 (below node 1); one commit per write: the keys may coincide
	inherit(3, 1)
	ws = []bulkWrite{{n - 1, "three-last"}, {n / 3, ""}}
	if c.D1 > 0 {
		ws = append(ws, bulkWrite{at, "three-resurrected"})
	}
	for _, x := range ws {
		if err := commit(3, []bulkWrite{x}); err != nil {
			return 0, fmt.Errorf("harness: %v", err)
		}
	}

	v := c.V % 4
	srcRawBefore, err := rawDump(srcData)
	if err != nil {
		return 0, fmt.Errorf("harness: %v", err)
	}
	lo, _ := keyvalue.NewTKey(bulkKey(0))
	hi, _ := keyvalue.NewTKey(bulkKey(n + 5))
	read := func(data dvid.Data, node int) (map[int]string, []string, error) {
		ctx := datastore.NewVersionedCtx(data, b.Version[node])
		kdb, err := datastore.GetOrderedKeyValueDB(data)
		if err != nil {
			return nil, nil, err
		}
		tkvs, err := kdb.GetRange(ctx, lo, hi)
		if err != nil {
			return nil, nil, err
		}
		out := map[int]string{}
		var order []string
		for _, tkv := range tkvs {
			k, err := keyvalue.DecodeTKey(tkv.K)
			if err != nil {
				return nil, nil, err
			}
			var i int
			fmt.Sscanf(k, "k%d", &i)
			out[i] = string(tkv.V)
			order = append(order, k)
		}
		tks, err := kdb.KeysInRange(ctx, lo, hi)
		if err != nil {
			return nil, nil, err
		}
		if len(tks) != len(tkvs) {
			return nil, nil, fmt.Errorf("KeysInRange lists %d keys, GetRange %d", len(tks), len(tkvs))
		}
		return out, order, nil
	}
	// the source answers as the model says (otherwise the case says nothing about the copy)
	for node := 0; node < 4; node++ {
		got, _, err := read(srcData, node)
		if err != nil {
			return 0, stats.Violf("C19/bulk/source-read/error", "node %d: %v", node, err)
		}
		if diff := diffMaps(state[node], got); diff != "" {
			return 0, stats.Violf("C19/bulk/source-read/differs-from-model", "n=%d node %d: %s", n, node, diff)
		}
	}
	mode := "full"
	if c.Flatten {
		mode = "flatten"
	}
	errsBefore, err := startCopy(string(b.Root), string(b.UUID[v]), "src", "dst", c.Flatten, false)
	if err != nil {
		return 0, err
	}
	judge := func() error {
		if es := watch.errsSince(errsBefore); len(es) > 0 {
			return stats.Violf("C19/rpc-repo-copy/"+mode+"/error-logged", "bulk copy at node %d: %s", v, strings.Join(es, " | "))
		}
		dstData, err := datastore.GetDataByUUIDName(b.Root, "dst")
		if err != nil {
			return stats.Violf("C19/rpc-repo-copy/"+mode+"/target-instance-missing", "%v", err)
		}
		nodes := []int{0, 1, 2, 3}
		if c.Flatten {
			nodes = []int{v}
		}
		for _, node := range nodes {
			got, order, err := read(dstData, node)
			if err != nil {
				return stats.Violf("C19/bulk/"+mode+"-copy/read-error", "node %d: %v", node, err)
			}
			if diff := diffMaps(state[node], got); diff != "" {
				return stats.Violf("C19/bulk/"+mode+"-copy/differs-from-source", "n=%d copy made at node %d, read at node %d (%d live pairs in the source): %s", n, v, node, len(state[node]), diff)
			}
			if !sort.StringsAreSorted(order) {
				return stats.Violf("C19/bulk/"+mode+"-copy/keys-not-ascending", "node %d", node)
			}
		}
		srcRawAfter, err := rawDump(srcData)
		if err != nil {
			return fmt.Errorf("harness: %v", err)
		}
		if strings.Join(srcRawBefore, "\n") != strings.Join(srcRawAfter, "\n") {
			return stats.Violf("C19/source/raw-keys-changed-by-copy", "bulk: %d pairs before, %d after", len(srcRawBefore), len(srcRawAfter))
		}
		for node := 0; node < 4; node++ {
			got, _, err := read(srcData, node)
			if err != nil {
				return stats.Violf("C19/bulk/source-read/error", "node %d after the copy: %v", node, err)
			}
			if diff := diffMaps(state[node], got); diff != "" {
				return stats.Violf("C19/source/reads-changed-by-copy", "bulk n=%d node %d: %s", n, node, diff)
			}
		}
		return nil
	}
	if err := judge(); err != nil {
		deepWait(string(b.Root), "dst")
		if err := judge(); err != nil {
			return 0, err
		}
	}
	return len(state[v]), nil
}

func diffMaps(want, got map[int]string) string {
	var missing, extra, wrong []int
	for k, v := range want {
		g, ok := got[k]
		if !ok {
			missing = append(missing, k)
		} else if g != v {
			wrong = append(wrong, k)
		}
	}
	for k := range got {
		if _, ok := want[k]; !ok {
			extra = append(extra, k)
		}
	}
	if len(missing)+len(extra)+len(wrong) == 0 {
		return ""
	}
	sort.Ints(missing)
	sort.Ints(extra)
	sort.Ints(wrong)
	head := func(xs []int) string {
		if len(xs) > 5 {
			return fmt.Sprintf("%v... (%d)", xs[:5], len(xs))
		}
		return fmt.Sprint(xs)
	}
	s := fmt.Sprintf("want %d pairs, got %d; missing keys %s; keys that should be absent %s; wrong value at %s", len(want), len(got), head(missing), head(extra), head(wrong))
	if len(wrong) > 0 {
		s += fmt.Sprintf(" (key %d: want %q got %q)", wrong[0], want[wrong[0]], got[wrong[0]])
	}
	return s
}

func TestC19Bulk(t *testing.T) {
	rapid.Check(t, func(t *rapid.T) {
		var c bulkCase
		if rapid.Bool().Draw(t, "steered") {
			c.Live = rapid.SampledFrom([]int{1000, 1001, 1002, 1999, 2000, 2001, 2002, 2499, 2500}).Draw(t, "live")
		} else {
			c.Live = rapid.IntRange(1001, 2500).Draw(t, "live")
		}
		c.D1 = rapid.SampledFrom([]int{0, 1, 2, 7, 300, 1000}).Draw(t, "d1")
		c.D1At = rapid.IntRange(0, 3000).Draw(t, "d1at")
		c.D2 = rapid.IntRange(0, 2).Draw(t, "d2")
		c.Ov = rapid.SampledFrom([]int{0, 1, 2, 3, 50, 999}).Draw(t, "ov")
		c.Flatten = rapid.Bool().Draw(t, "flatten")
		c.V = rapid.IntRange(0, 3).Draw(t, "v")
		stats.SetCur("C19", "TestC19Bulk", c)
		liveAt, err := runBulk(c)
		if !stats.Judge(t, "C19", "TestC19Bulk", err, c) {
			return
		}
		cls := []string{"bulk"}
		if c.Flatten {
			cls = append(cls, "bulk/flatten", "flatten")
		} else {
			cls = append(cls, "bulk/full", "full")
		}
		if liveAt > 1000 {
			cls = append(cls, "bulk>1000")
			if c.Flatten {
				cls = append(cls, "bulk>1000/flatten")
			} else {
				cls = append(cls, "bulk>1000/full")
			}
		}
		if liveAt%1000 == 0 {
			cls = append(cls, "bulk/live-at-V-multiple-of-1000")
		}
		if liveAt%1000 == 1 {
			cls = append(cls, "bulk/live-at-V-multiple-of-1000-plus-1")
		}
		if c.D1 > 0 {
			cls = append(cls, "bulk/deleted-run")
		}
		if c.D1 >= 1000 {
			cls = append(cls, "bulk/deleted-run>=1000")
		}
		cls = append(cls, fmt.Sprintf("bulk/V=%d", c.V%4))
		stats.Record(stats.HashJSON(c), liveAt > 1000, cls, func() interface{} { return map[string]interface{}{"test": "bulk", "case": c} })
	})
}
