// Package c19 holds the check of property C19 (copying a data instance preserves its versioned content).
//
// This file carries no code; it is the findings record of the check (what FINDINGS.md would hold).
//
// # F1 — copying any imageblk (uint8blk, ...) instance panics; through the RPC command the server process dies
//
// Signature:  C19/copy-uint8blk/CopyPropertiesFrom-panics-duplicating-source-extents
// Replay:     harness/props/c19/replays/C19-known-uint8blk-copy-extents-panic.json
// Status:     genuine defect on a legal input, NOT fixed here (/repo is read-only for this check); the check keeps
// failing on it unless the signature is listed in VERIF_KNOWN_SIGS.
//
// Minimal failing case (shrunk by rapid): a fresh repo, a uint8blk instance "src" (BlockSize 16,16,16), one
// POST node/<root>/src/raw/0_1_2/16_16_16/0_0_0 of 4096 bytes, then "repo <root> copy src dst" (full copy; the
// flattened copy fails the same way, and so does the copy of an instance that was never written to).
//
// What happens: datastore.CopyInstance creates the target and calls its PropertyCopier
// (/repo/datastore/copy_local.go:728-731).  imageblk.(*Data).CopyPropertiesFrom (/repo/datatype/imageblk/imageblk.go:862-872)
// ends with
//
//	d.Properties.Extents = d2.Properties.Extents.Duplicate()
//
// and dvid.(*Extents).Duplicate (/repo/dvid/geometry.go:47-54) calls a method on each of the four interface fields
// MinPoint, MaxPoint, MinIndex, MaxIndex without a nil check.  For an imageblk instance MinIndex/MaxIndex are always
// nil: the only writer of the cached extents is PostExtents (/repo/datatype/imageblk/imageblk.go:1455-1470), which
// builds a dvid.Extents with MinPoint/MaxPoint only (AdjustIndices is only ever called by labelmap/labelarray), and
// GetExtents derives the indices into a local value (imageblk.go:1428-1429).  A never-written instance has all four
// nil.  So Duplicate dereferences a nil interface ("invalid memory address or nil pointer dereference") for every
// imageblk source.
//
// Severity: server/rpc.go:603-607 runs CopyInstance in a bare goroutine (`go func() { ... CopyInstance ... }()`);
// nothing recovers the panic, so the documented command "repo <UUID> copy <source> <clone>" on an image instance
// terminates the whole DVID server.  The first run of this check died exactly like that:
//
//	panic: runtime error: invalid memory address or nil pointer dereference
//	dvid.(*Extents).Duplicate            /repo/dvid/geometry.go:51
//	imageblk.(*Data).CopyPropertiesFrom  /repo/datatype/imageblk/imageblk.go:870
//	datastore.CopyInstance               /repo/datastore/copy_local.go:730
//	server.handleCommand.func4           /repo/server/rpc.go:604
//
// How the check reports it without dying: a panic in the server's own goroutine cannot be recovered by a test, so
// before the command is issued for an imageblk source the check evaluates the very expression that will panic
// (`src.Properties.Extents.Duplicate()`) on the source's own properties under stats.PanicGuard ("preflight" in
// c19_test.go); a quarter of the cases additionally call datastore.CopyInstance synchronously (case field "direct")
// under a PanicGuard, so that any other panic on the copy path becomes a violation with a replayable case rather than
// a process death.
//
// Steering while the finding is listed: every copy of an imageblk instance fails, so nothing of that type can be
// explored behind it; the generator replaces a drawn uint8blk source by one of the other three types and counts the
// case under excluded[F1 signature] (23 % of the cases).  The class "type=uint8blk" is therefore empty while F1 is
// listed and must not be a required class until the defect is fixed.
//
// What lies behind it: on a scratch copy of /repo with the obvious repair (nil checks on the four fields in
// Extents.Duplicate, 8 lines) the whole check — uint8blk full and flattened copies included — passes at every seed
// tried (3 x 400 + 2 x 400 cases, 93-100 uint8blk cases per 400), and the four deliberate breakages listed in
// config_entry.py are caught there, two of them first through a uint8blk case.  So once F1 is fixed the image class
// is expected to be clean.
//
// # Check-side corrections made while building (not findings)
//
//   - GET <annotation>/tag/<tag>?relationships=true assembles its answer by ranging over a Go map of blocks
//     (/repo/datatype/annotation/annotation.go:1274), so the element order differs from call to call even on one
//     instance; no order is documented.  Annotation answers are compared as multisets of elements.
//   - GET <uint8blk>/specificblocks (concurrent block fetches) and subvolblocks document no record order; the records
//     are sorted before comparison (as C17 does).
//   - Answers over an unresolved merge conflict (two unsuperseded live values of one stored key at a merge node) are
//     only compared as "refused vs answered"; a flattened copy is never taken at such a node (ProcessRange refuses it).
//
// # Not covered
//
// A destination on a second store (DataStorageMap): the shared in-process test datastore is opened by the driver with
// a single Badger store; the copy code path is the same apart from the store handle (GetOrderedKeyValueDB(d2)).
package c19
