# Proposed CHECKS["C19"] entry for /verif/checks_config.py (uses T(...) defined there).
#
# Measured (16-core sandbox):
#   TestC19Copy  ~50 ms per case for the first few hundred cases of a process, growing with the number of repos the
#                process has made (1500 cases in one process: 168 s = 112 ms/case); 4 shards x 200 cases in parallel
#                = 11.4 s wall, 16 shards x 150 = 11 s wall.
#   TestC19Bulk  ~0.25 s per case (4 shards x 25 = 6 s wall; 16 shards x 20 = 8 s wall).
# Quick: 4 x 300 copy cases (~18 s) + 4 x 25 bulk cases (~6 s).  Thorough: 16 x 1500 copy cases (~4-5 min; the per-case
# cost grows inside a process, so more cases per shard do not pay) + 16 x 250 bulk cases (~2 min).
#
# Known finding to list (see props/c19/findings.go, F1):
#   known: property=C19 signature=C19/copy-uint8blk/CopyPropertiesFrom-panics-duplicating-source-extents
#          repro=harness/props/c19/replays/C19-known-uint8blk-copy-extents-panic.json
# While it is listed the generator replaces uint8blk sources by the other types (counted under excluded), so
# "type=uint8blk", "full/type=uint8blk", "flatten/type=uint8blk" must NOT be required; once dvid.(*Extents).Duplicate
# is nil-safe they should be added to required_classes (the check passes on a scratch copy with that repair).
#
# Sensitivity (scratch copy of /repo with Extents.Duplicate made nil-safe so that all four types run; each breakage
# applied alone to datastore/copy_local.go:copyData, 150 copy cases / 20 bulk cases, seeds 1 and 2):
#   M1 full copy skips tombstone keys                      -> caught (after 1-4 cases): C19/full-copy/keyvalue-GET-key/deleted-or-absent-key-present-in-copy; bulk: C19/bulk/full-copy/differs-from-source
#   M2 flattened copy resolves at the root version, not V  -> caught: C19/flatten-copy/keyvalue-GET-key/differs-from-source, .../uint8blk-GET-raw/...; bulk too
#   M3 storing goroutine stops after 1000 pairs            -> missed by TestC19Copy (sources hold < 100 pairs), caught by TestC19Bulk (n=1001: 4 keys missing)
#   M4 full copy keeps only versions on the path to <uuid> -> caught: C19/full-copy/uint8blk-GET-raw/differs-from-source (also keyvalue)
#   M6 copy deletes the source's tombstones while copying  -> caught: C19/source/raw-keys-changed-by-copy
C19 = {
    "pkg": "c19",
    "level": "exploration",
    "tests": [
        T("TestC19Copy", (300, 4), (1500, 16)),
        T("TestC19Bulk", (25, 4), (250, 16)),
    ],
    "required_classes": [
        "type=keyvalue", "type=annotation", "type=roi", "type=uint8blk", "full/type=uint8blk", "flatten/type=uint8blk",
        "full", "flatten", "full/type=keyvalue", "flatten/type=keyvalue", "full/type=annotation", "flatten/type=annotation",
        "full/type=roi", "flatten/type=roi",
        "via=rpc", "via=CopyInstance",
        "merge-in-dag", "dag-has-conflicted-node", "delete-on-two-sibling-branches", "override", "deletion", "inherited-value",
        "flatten/V-not-root", "flatten/V-is-merge-node", "flatten/V-committed", "flatten/V-open",
        "flatten/deletion-visible-at-V", "flatten/inherited-value-at-V",
        "nontrivial/full", "nontrivial/flatten", "keyvalue/binary-values",
        "bulk>1000", "bulk>1000/full", "bulk>1000/flatten", "bulk/live-at-V-multiple-of-1000",
        "bulk/live-at-V-multiple-of-1000-plus-1", "bulk/deleted-run>=1000",
    ],
    "rule": "TestC19Copy: rapid-generated source instance of type keyvalue (10 prefix-related keys, JSON or arbitrary byte values) / uint8blk (8 blocks of 16^3, 1- and 2-block POST raw writes, mutate=true on visible blocks) / annotation without sync (8 element slots over 4 blocks and 2 tags, POST elements / DELETE element) / roi (5 span sets, POST roi / DELETE roi), filled by an op list (optional skeleton: values at the root, an override on one branch, a deletion one level deeper on a sibling branch, optionally the same deletion on both; or two siblings writing one datum and merged; then 3-22 ops of put x4, del x2, commit, newversion x2, branch x2, merge of 2-3 committed nodes) interpreted against the state at execution time over <= 8 versions; then one copy, full or transmit=flatten, started through the RPC switchboard (server.VerifRPC 'repo <uuid> copy src dst [transmit=flatten]'; 1 in 4 through a synchronous datastore.CopyInstance call) at a drawn version (any / newest / a merge node / a deepest node; for flatten always a version without unresolved merge conflict). Oracles: FULL: every read endpoint of the copy at every version equals the source's (keyvalue: key/<k> for the whole universe and a never-stored key, keys, keyrange, keyrangevalues protobuf|tar|json over 3 intervals, GET keyvalues protobuf|jsontar|json; uint8blk: raw 3-D aligned and unaligned, raw xy and xz PNG, blocks, subvolblocks, specificblocks; annotation: all-elements, elements, blocks, tag/<t> with and without relationships, scan; roi: roi, mask x2, ptquery, partition); FLATTEN at V: the same reads at V only; SOURCE: raw key dump (RawRangeQuery over DataInstanceKeyRange) and the whole read snapshot of the source before = after; for keyvalue the source's point reads are also compared with the DAG model (model.DAG.Resolve) so that two equally wrong answers cannot agree. Answers behind an unresolved merge conflict are compared as refused/answered only. Non-trivial: the source has an override and an effective deletion (uint8blk: a second override) at different depths on two incomparable versions. TestC19Bulk: keyvalue instance written with storage-level batches on the DAG root -> {1 -> 3, 2}: N = live + d1 pairs at the root (live steered to 1000, 1001, 1002, 1999..2002, 2499, 2500 or uniform 1001..2500), node 1 deletes a run of d1 in {0,1,2,7,300,1000} keys and overrides every ov-th key, sibling node 2 deletes 0-2 keys and overrides 2, node 3 overrides, deletes and re-creates one key each; full or flattened copy at a drawn node through the RPC command; GetRange/KeysInRange of the copy at every node (flatten: at V) vs an explicit per-node map model, ascending order, source raw dump and reads unchanged. Non-trivial: > 1000 live pairs at the copied version. Distinct = hash of the case value.",
    "assumptions": [
        "the end of the asynchronous copy is awaited by watching the server log for the line copyData's storing goroutine prints after its last put ('Sent|Copied <n> ... key-value pairs') or for 'copy error', then by polling the target's raw keys until 3 identical polls; on any mismatch the comparison is repeated after a further quiet period (deep settle + 0.5 s + 5 identical polls when the end was not observed). Waiting never decides a verdict",
        "what a flattened copy returns at versions other than V is not specified and not read",
        "reads that depend on a stored key with an unresolved merge conflict (>= 2 unsuperseded live values at a merge node) may be refused; source and copy are then only required to agree on refused vs answered, read-modify-write ops on such a datum are skipped, and a flattened copy is never taken at such a version. For non-keyvalue types every write of a stored key counts as a live value in this conflict model (conservative)",
        "orders that are not documented are not compared: annotation element arrays are compared as multisets (tag?relationships=true ranges over a Go map), specificblocks/subvolblocks records are sorted",
        "annotation sources have no sync; DELETE element is only issued for an element that exists at the node; uint8blk writes are block aligned and use mutate=true when a covered block is visible (help text)",
        "instance metadata outside the key-value store (GET info, extents cache) is not compared; destination on the same store only (the shared test datastore has one Badger store)",
        "for imageblk sources the expression that panics inside CopyPropertiesFrom is evaluated beforehand on the source's own properties under a panic guard, because the command's goroutine is not recoverable (finding F1)",
    ],
}
