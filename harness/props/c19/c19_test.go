// C19 — copying a data instance preserves its versioned content.
//
// The copy is started through the real RPC switchboard ("repo <uuid> copy <src> <dst> [transmit=flatten]",
// server.VerifRPC shim), awaited (log line of the copy goroutine + stability of the target's raw keys; waiting only
// ever gives the server more time) and then judged differentially: every read endpoint of the copy against the same
// read of the source (every version for a full copy, version V for a flattened one), and the source's raw key dump
// and read snapshot before against after.
package c19

import (
	"encoding/binary"
	"encoding/hex"
	"encoding/json"
	"fmt"
	"io"
	"log"
	"os"
	"sort"
	"strings"
	"sync"
	"testing"
	"time"

	"github.com/janelia-flyem/dvid/datastore"
	"github.com/janelia-flyem/dvid/datatype/common/proto"
	"github.com/janelia-flyem/dvid/datatype/imageblk"
	"github.com/janelia-flyem/dvid/dvid"
	"github.com/janelia-flyem/dvid/server"
	"github.com/janelia-flyem/dvid/storage"
	pb "google.golang.org/protobuf/proto"
	"pgregory.net/rapid"

	"verif/drive"
	"verif/model"
	"verif/stats"
)

func TestMain(m *testing.M) {
	drive.Open()
	installWatcher()
	rc := m.Run()
	drive.Close()
	stats.Flush()
	os.Exit(rc)
}

// ------------------------------------------------------------------ copy completion watcher
//
// datastore.copyData logs "Sent <n> <name> key-value pairs (...)" (full copy) or "Copied <n> ... [flattened]" from the
// goroutine that stores the pairs, after the last pair was stored; server/rpc.go logs "copy error: ..." when
// CopyInstance returns an error.  The watcher sees the server log (std logger) and counts those lines.

type watcher struct {
	mu   sync.Mutex
	done int
	errs []string
	tee  io.Writer
}

var watch = &watcher{}

func installWatcher() {
	if os.Getenv("VERIF_SERVER_LOG") != "" {
		watch.tee = os.Stderr
	}
	log.SetOutput(watch)
	dvid.SetLogMode(dvid.InfoMode)
}

var copyErrMarks = []string{"copy error", "to destination instance", "can't update raw key", "TKey from Key", "problem applying filter", "flatten push", "range query"}

func (w *watcher) Write(p []byte) (int, error) {
	s := string(p)
	w.mu.Lock()
	if strings.Contains(s, "key-value pairs (") && (strings.Contains(s, " Sent ") || strings.Contains(s, " Copied ")) {
		w.done++
	}
	if strings.Contains(s, " ERROR ") || strings.Contains(s, " CRITICAL ") {
		for _, m := range copyErrMarks {
			if strings.Contains(s, m) {
				if len(w.errs) < 50 {
					w.errs = append(w.errs, strings.TrimSpace(s))
				}
				break
			}
		}
	}
	tee := w.tee
	w.mu.Unlock()
	if tee != nil {
		tee.Write(p)
	}
	return len(p), nil
}

func (w *watcher) snapshot() (int, int) {
	w.mu.Lock()
	defer w.mu.Unlock()
	return w.done, len(w.errs)
}

func (w *watcher) errsSince(n int) []string {
	w.mu.Lock()
	defer w.mu.Unlock()
	if n >= len(w.errs) {
		return nil
	}
	return append([]string(nil), w.errs[n:]...)
}

// rawDump returns "hexkey=hexvalue" for every stored pair of the instance, in store order.
func rawDump(d dvid.Data) ([]string, error) {
	db, err := datastore.GetOrderedKeyValueDB(d)
	if err != nil {
		return nil, err
	}
	min, max := storage.DataInstanceKeyRange(d.InstanceID())
	ch := make(chan *storage.KeyValue, 256)
	var out []string
	fin := make(chan struct{})
	go func() {
		defer close(fin)
		for kv := range ch {
			if kv == nil {
				return
			}
			out = append(out, hex.EncodeToString(kv.K)+"="+hex.EncodeToString(kv.V))
		}
	}()
	err = db.RawRangeQuery(min, max, false, ch, make(chan struct{}))
	if err != nil {
		ch <- nil
	}
	<-fin
	return out, err
}

// sigImgExtents: copying any imageblk instance panics in imageblk.(*Data).CopyPropertiesFrom (see findings.go F1).
const sigImgExtents = "C19/copy-uint8blk/CopyPropertiesFrom-panics-duplicating-source-extents"

// preflight predicts, on the source's own properties, the one panic that is known to take the server down when the
// command's goroutine reaches it (a panic in that goroutine cannot be recovered by the harness): CopyPropertiesFrom
// of imageblk duplicates the source's cached extents.
func preflight(root, src string) error {
	d, err := datastore.GetDataByUUIDName(dvid.UUID(root), dvid.InstanceName(src))
	if err != nil {
		return fmt.Errorf("harness: %v", err)
	}
	img, ok := d.(*imageblk.Data)
	if !ok {
		return nil
	}
	if err := stats.PanicGuard(sigImgExtents, func() error { _ = img.Properties.Extents.Duplicate(); return nil }); err != nil {
		v := err.(*stats.Violation)
		v.Msg = fmt.Sprintf("imageblk.(*Data).CopyPropertiesFrom calls Extents.Duplicate() on the source's cached extents (MinPoint %v MaxPoint %v MinIndex %v MaxIndex %v): %s (inside 'repo <uuid> copy' this panic is raised in an unrecovered goroutine and ends the server process)", img.Properties.Extents.MinPoint, img.Properties.Extents.MaxPoint, img.Properties.Extents.MinIndex, img.Properties.Extents.MaxIndex, v.Msg)
		return v
	}
	return nil
}

var errFlattenRefused = fmt.Errorf("flatten refused at a version with a stored merge conflict")

// storedConflict reports whether reading every stored key of the instance at the version fails with a merge
// conflict (two unsuperseded values among the parents of a merge): an oracle independent of the request-level model.
func storedConflict(root, uuid, name string) bool {
	d, err := datastore.GetDataByUUIDName(dvid.UUID(root), dvid.InstanceName(name))
	if err != nil {
		return false
	}
	_, v, err := datastore.MatchingUUID(uuid)
	if err != nil {
		return false
	}
	db, err := datastore.GetOrderedKeyValueDB(d)
	if err != nil {
		return false
	}
	ctx := datastore.NewVersionedCtx(d, v)
	lo, hi := storage.MinTKey(storage.TKeyMinClass), storage.MaxTKey(storage.TKeyMaxClass)
	_, err = db.KeysInRange(ctx, lo, hi)
	if err == nil {
		_, err = db.GetRange(ctx, lo, hi)
	}
	return err != nil && strings.Contains(err.Error(), "found multiple kv")
}

// startCopy starts the copy and waits for it.  direct=false: the RPC command (CopyInstance runs in a goroutine of the
// server).  direct=true: datastore.CopyInstance called synchronously with the same settings, so that a panic becomes
// a violation instead of the end of the test process.
func startCopy(root, uuid, src, dst string, flatten, direct bool) (errsBefore int, err error) {
	copyObserved = false
	doneBefore, errsBefore := watch.snapshot()
	if err := preflight(root, src); err != nil {
		return errsBefore, err
	}
	if direct {
		cfg := dvid.NewConfig()
		if flatten {
			cfg.Set("transmit", "flatten")
		}
		mode := "full"
		if flatten {
			mode = "flatten"
		}
		var cerr error
		if perr := stats.PanicGuard("C19/CopyInstance/"+mode+"/panic", func() error {
			cerr = datastore.CopyInstance(dvid.UUID(uuid), dvid.InstanceName(src), dvid.InstanceName(dst), cfg)
			return nil
		}); perr != nil {
			return errsBefore, perr
		}
		if cerr != nil {
			return errsBefore, stats.Violf("C19/CopyInstance/"+mode+"/error", "%v", cerr)
		}
		copyObserved = true // synchronous call returned
		waitStable(root, dst, 2, 200*time.Microsecond)
		return errsBefore, nil
	}
	args := []string{"repo", uuid, "copy", src, dst}
	if flatten {
		args = append(args, "transmit=flatten")
	}
	if perr := stats.PanicGuard("C19/rpc-repo-copy/panic", func() error {
		_, e := server.VerifRPC(args...)
		return e
	}); perr != nil {
		if stats.SigOf(perr) != "" {
			return errsBefore, perr
		}
		return errsBefore, stats.Violf("C19/rpc-repo-copy/refused", "%v: %v", args, perr)
	}
	deadline := time.Now().Add(60 * time.Second)
	for time.Now().Before(deadline) {
		d, e := watch.snapshot()
		if d > doneBefore || e > errsBefore {
			copyObserved = true
			break
		}
		time.Sleep(200 * time.Microsecond)
	}
	waitStable(root, dst, 3, 500*time.Microsecond)
	return errsBefore, nil
}

// waitStable polls until the target's raw keys are identical on n consecutive polls (or 60 s pass).
func waitStable(root, dst string, n int, gap time.Duration) {
	deadline := time.Now().Add(60 * time.Second)
	var prev string
	same := 0
	first := true
	for same < n && time.Now().Before(deadline) {
		cur := "\x00missing"
		if d, err := datastore.GetDataByUUIDName(dvid.UUID(root), dvid.InstanceName(dst)); err == nil {
			if raw, err := rawDump(d); err == nil {
				cur = strings.Join(raw, "\n")
			}
		}
		if !first && cur == prev {
			same++
		} else {
			same = 0
		}
		first = false
		prev = cur
		time.Sleep(gap)
	}
}

// copyObserved: the end of the last started copy was seen (log line of the storing goroutine, written after its last
// put, or the synchronous call returned).
var copyObserved bool

// deepWait is the second chance before a mismatch is believed.  When the end of the copy was observed there is nothing
// left running, so a short pause and a stable target suffice; otherwise the server gets a long quiet period.
func deepWait(root, dst string) {
	if copyObserved {
		time.Sleep(60 * time.Millisecond)
		waitStable(root, dst, 3, 5*time.Millisecond)
		return
	}
	drive.DeepSettle(root)
	time.Sleep(500 * time.Millisecond)
	waitStable(root, dst, 5, 50*time.Millisecond)
}

// ------------------------------------------------------------------ case value

var typeNames = []string{"keyvalue", "uint8blk", "annotation", "roi"}

const (
	tKV = iota
	tImg
	tAnn
	tROI
)

type op struct {
	Kind string `json:"kind"` // put del commit newversion branch merge
	Node int    `json:"node"` // put/del: index into the open nodes; others: index into all nodes
	Key  int    `json:"key"`
	Ps   []int  `json:"ps,omitempty"` // merge parents: indices into the committed nodes
}

type copyCase struct {
	Type    int  `json:"type"`
	Binary  bool `json:"binary,omitempty"` // keyvalue: arbitrary byte values instead of JSON values
	Ops     []op `json:"ops"`
	Flatten bool `json:"flatten"`
	Direct  bool `json:"direct,omitempty"` // datastore.CopyInstance called directly instead of through the RPC command
	V       int  `json:"v"`                // node whose uuid is given to the copy command: index into the candidates (see VPref)
	// VPref narrows the candidates when possible: "" any node, "newest" the last node, "merge" merge nodes, "deep"
	// nodes of maximal depth.  For a flattened copy candidates are always conflict-free nodes.
	VPref string `json:"vpref,omitempty"`
}

const maxNodes = 8

// keyvalue key universe (prefix related, as in C05)
var universe = []string{"0", "B", "a", "a0", "aa", "aaa", "ab", "b", "z", "zz"}

// roi span sets (z, y, x0, x1), block size 16
var roiSets = []string{
	"[[0,0,0,1]]",
	"[[0,0,0,1],[0,1,2,3],[1,0,0,0]]",
	"[[2,1,1,4]]",
	"[[0,0,1,2],[2,2,0,4]]",
	"[[1,1,0,0],[1,1,2,2],[1,2,0,4]]",
}

// ------------------------------------------------------------------ executing state

type world struct {
	c       copyCase
	root    string
	dag     *model.DAG
	uuid    []string
	locked  []bool
	branch  []string
	kids    map[int]map[string]bool
	nbranch int
	// conflict model: datum -> node -> kind.  keyvalue: datum = key index, kinds exact.  Other types: datum = stored
	// key the write touches (block / tag / the roi as a whole), every touch counted as a live value (conservative).
	entries map[int]map[int]int
	// item model (exact kinds): keyvalue key / image block / annotation slot / the roi
	items         map[int]map[int]int
	vals          map[int]map[int]string // keyvalue values
	nDatum, nItem int
	applied       map[string]int
}

func newWorld(c copyCase) (*world, error) {
	root, err := drive.NewRepo()
	if err != nil {
		return nil, fmt.Errorf("harness: %v", err)
	}
	var cfg map[string]string
	if c.Type == tImg || c.Type == tROI {
		cfg = map[string]string{"BlockSize": "16,16,16"}
	}
	if err := drive.NewInstance(root, typeNames[c.Type], "src", cfg); err != nil {
		return nil, fmt.Errorf("harness: %v", err)
	}
	w := &world{c: c, root: root, dag: &model.DAG{}, kids: map[int]map[string]bool{}, entries: map[int]map[int]int{}, items: map[int]map[int]int{}, vals: map[int]map[int]string{}, applied: map[string]int{}}
	w.dag.Add()
	w.uuid = []string{root}
	w.locked = []bool{false}
	w.branch = []string{""}
	return w, nil
}

func vec(m map[int]int, n int) []int {
	out := make([]int, n)
	for u, e := range m {
		out[u] = e
	}
	return out
}

func (w *world) resolveDatum(d, v int) string {
	k, _, _ := w.dag.Resolve(vec(w.entries[d], w.dag.N()), v)
	return k
}

func (w *world) resolveItem(it, v int) (string, int) {
	k, at, _ := w.dag.Resolve(vec(w.items[it], w.dag.N()), v)
	return k, at
}

func (w *world) touch(d, u, kind int) {
	if w.entries[d] == nil {
		w.entries[d] = map[int]int{}
	}
	w.entries[d][u] = kind
}

func (w *world) setItem(it, u, kind int) {
	if w.items[it] == nil {
		w.items[it] = map[int]int{}
	}
	w.items[it][u] = kind
}

// datum ids
func annSlotPos(k int) (x, y, z int) { return (k%4)*40 + 3, (k/4)*70 + 5, 7 }
func annBlockDatum(k int) int {
	x, y, _ := annSlotPos(k)
	return 100 + x/64 + 2*(y/64)
}
func annTagDatum(k int) int { return 200 + k%2 }

const roiDatum = 300

// datums lists the stored keys a write of item k (and its neighbour for a 2-block image write) touches
func (w *world) datums(o op) (items []int, datums []int) {
	switch w.c.Type {
	case tKV:
		k := o.Key % len(universe)
		return []int{k}, []int{k}
	case tImg:
		k := o.Key % 8
		items = []int{k}
		if (o.Key/8)%2 == 1 && k%4 < 3 {
			items = append(items, k+1)
		}
		return items, items
	case tAnn:
		k := o.Key % 8
		return []int{k}, []int{annBlockDatum(k), annTagDatum(k)}
	default:
		return []int{0}, []int{roiDatum}
	}
}

func kvValue(binary bool, i int) string {
	if !binary {
		return fmt.Sprintf(`{"v":%d}`, i)
	}
	switch i % 4 {
	case 0:
		return fmt.Sprintf("bin\x00\xff%d", i)
	case 1:
		return fmt.Sprintf("%d", i)
	case 2:
		return strings.Repeat("x", 100+i)
	}
	return fmt.Sprintf("v%d", i)
}

func okWrite(r drive.Resp, endpoint, what string) error {
	if r.IsPanic() {
		return stats.Violf("C19/"+endpoint+"/panic", "%s: %s", what, r)
	}
	if !r.OK() {
		return stats.Violf("C19/"+endpoint+"/refused-on-open-node", "%s: %s", what, r)
	}
	return nil
}

func (w *world) write(i int, o op, u int, what string) error {
	items, datums := w.datums(o)
	for _, d := range datums {
		if w.resolveDatum(d, u) == model.Conflict && w.c.Type != tKV {
			return nil // a read-modify-write of a datum with an unresolved merge conflict is outside the domain
		}
	}
	base := "node/" + w.uuid[u] + "/src/"
	del := o.Kind == "del"
	switch w.c.Type {
	case tKV:
		k := items[0]
		url := base + "key/" + universe[k]
		if del {
			if err := okWrite(drive.Delete(url), "DELETE-keyvalue-key", what); err != nil {
				return err
			}
			w.setItem(k, u, model.Tombstone)
			w.touch(k, u, model.Tombstone)
		} else {
			val := kvValue(w.c.Binary, i)
			if err := okWrite(drive.Post(url, []byte(val)), "POST-keyvalue-key", what); err != nil {
				return err
			}
			w.setItem(k, u, model.Value)
			w.touch(k, u, model.Value)
			if w.vals[k] == nil {
				w.vals[k] = map[int]string{}
			}
			w.vals[k][u] = val
		}
	case tImg:
		k := items[0]
		n := len(items)
		mutate := false
		for _, it := range items {
			if kind, _ := w.resolveItem(it, u); kind != model.Absent {
				mutate = true
			}
		}
		buf := make([]byte, 4096*n)
		for j := range buf {
			buf[j] = byte((i*37+j*7+j/16+j/256)%251 + 1)
		}
		url := fmt.Sprintf("%sraw/0_1_2/%d_16_16/%d_%d_0", base, 16*n, 16*(k%4), 16*(k/4))
		if mutate {
			url += "?mutate=true"
		}
		if err := okWrite(drive.Post(url, buf), "POST-uint8blk-raw", what); err != nil {
			return err
		}
		for _, it := range items {
			w.setItem(it, u, model.Value)
			w.touch(it, u, model.Value)
		}
	case tAnn:
		k := items[0]
		x, y, z := annSlotPos(k)
		if del {
			if kind, _ := w.resolveItem(k, u); kind != model.Found {
				return nil // only elements that exist at the node are deleted
			}
			if err := okWrite(drive.Delete(fmt.Sprintf("%selement/%d_%d_%d", base, x, y, z)), "DELETE-annotation-element", what); err != nil {
				return err
			}
			w.setItem(k, u, model.Tombstone)
		} else {
			kinds := []string{"Note", "PostSyn", "PreSyn", "Gap"}
			body := fmt.Sprintf(`[{"Pos":[%d,%d,%d],"Kind":"%s","Tags":["t%d"],"Prop":{"i":"%d","slot":"%d"}}]`, x, y, z, kinds[i%len(kinds)], k%2, i, k)
			if err := okWrite(drive.Post(base+"elements", []byte(body)), "POST-annotation-elements", what); err != nil {
				return err
			}
			w.setItem(k, u, model.Value)
		}
		for _, d := range datums {
			w.touch(d, u, model.Value)
		}
	case tROI:
		if del {
			if err := okWrite(drive.Delete(base+"roi"), "DELETE-roi-roi", what); err != nil {
				return err
			}
			w.setItem(0, u, model.Tombstone)
		} else {
			if err := okWrite(drive.Post(base+"roi", []byte(roiSets[o.Key%len(roiSets)])), "POST-roi-roi", what); err != nil {
				return err
			}
			w.setItem(0, u, model.Value)
		}
		w.touch(roiDatum, u, model.Value)
	}
	w.applied[o.Kind]++
	return nil
}

func (w *world) addNode(uuid, branch string, parents ...int) {
	w.dag.Add(parents...)
	w.uuid = append(w.uuid, uuid)
	w.locked = append(w.locked, false)
	w.branch = append(w.branch, branch)
}

func (w *world) commit(u int, what string) error {
	if w.locked[u] {
		return nil
	}
	if err := drive.Commit(w.uuid[u]); err != nil {
		return stats.Violf("C19/commit/refused", "%s: %v", what, err)
	}
	w.locked[u] = true
	return nil
}

func (w *world) apply() error {
	for i, o := range w.c.Ops {
		n := w.dag.N()
		what := fmt.Sprintf("op %d %+v", i, o)
		switch o.Kind {
		case "put", "del":
			var open []int
			for x, l := range w.locked {
				if !l {
					open = append(open, x)
				}
			}
			if len(open) == 0 {
				continue
			}
			if err := w.write(i, o, open[o.Node%len(open)], what); err != nil {
				return err
			}
		case "commit":
			if err := w.commit(o.Node%n, what); err != nil {
				return err
			}
		case "newversion", "branch":
			if n >= maxNodes {
				continue
			}
			u := o.Node % n
			if err := w.commit(u, what); err != nil {
				return err
			}
			if w.kids[u] == nil {
				w.kids[u] = map[string]bool{}
			}
			br := w.branch[u]
			var child string
			var err error
			if o.Kind == "newversion" && !w.kids[u][br] {
				child, err = drive.NewVersion(w.uuid[u])
			} else {
				w.nbranch++
				br = fmt.Sprintf("br%d", w.nbranch)
				child, err = drive.Branch(w.uuid[u], br)
			}
			if err != nil {
				return stats.Violf("C19/newversion/refused", "%s: %v", what, err)
			}
			w.kids[u][br] = true
			w.addNode(child, br, u)
			w.applied[o.Kind]++
		case "merge":
			if n >= maxNodes {
				continue
			}
			var committed []int
			for x, l := range w.locked {
				if l {
					committed = append(committed, x)
				}
			}
			var ps []int
			used := map[int]bool{}
			for _, p := range o.Ps {
				if len(committed) == 0 {
					break
				}
				x := committed[p%len(committed)]
				if !used[x] {
					used[x] = true
					ps = append(ps, x)
				}
			}
			if len(ps) < 2 {
				continue
			}
			var uu []string
			for _, p := range ps {
				uu = append(uu, w.uuid[p])
			}
			child, err := drive.Merge(w.root, uu)
			if err != nil {
				return stats.Violf("C19/merge/refused", "%s parents %v: %v", what, ps, err)
			}
			for _, p := range ps {
				if w.kids[p] == nil {
					w.kids[p] = map[string]bool{}
				}
				w.kids[p][""] = true
			}
			w.addNode(child, "", ps...)
			w.applied["merge"]++
		}
	}
	return nil
}

// ------------------------------------------------------------------ reads

type readReq struct {
	label  string
	method string
	path   string // relative to node/<uuid>/<instance>/
	body   []byte
	datums []int // stored keys the answer depends on; nil = all of the instance
}

func (w *world) readReqs() []readReq {
	var rs []readReq
	get := func(path string, datums []int) {
		rs = append(rs, readReq{label: "GET " + path, method: "GET", path: path, datums: datums})
	}
	switch w.c.Type {
	case tKV:
		for k, name := range universe {
			get("key/"+name, []int{k})
		}
		get("key/neverstored", []int{})
		get("keys", nil)
		in := func(lo, hi string) []int {
			d := []int{}
			for k, name := range universe {
				if name >= lo && name <= hi {
					d = append(d, k)
				}
			}
			return d
		}
		for _, iv := range [][2]string{{"0", "zz"}, {"a", "ab"}, {"a1", "c"}} {
			d := in(iv[0], iv[1])
			get("keyrange/"+iv[0]+"/"+iv[1], d)
			get("keyrangevalues/"+iv[0]+"/"+iv[1], d)
			get("keyrangevalues/"+iv[0]+"/"+iv[1]+"?tar=true", d)
			if !w.c.Binary {
				get("keyrangevalues/"+iv[0]+"/"+iv[1]+"?json=true", d)
			}
		}
		ask := append(append([]string(nil), universe...), "neverstored")
		pbody, _ := pb.Marshal(&proto.Keys{Keys: ask})
		jbody, _ := json.Marshal(ask)
		rs = append(rs, readReq{label: "GET keyvalues (protobuf)", method: "GET", path: "keyvalues", body: pbody})
		rs = append(rs, readReq{label: "GET keyvalues?jsontar=true", method: "GET", path: "keyvalues?jsontar=true", body: jbody})
		if !w.c.Binary {
			rs = append(rs, readReq{label: "GET keyvalues?json=true", method: "GET", path: "keyvalues?json=true", body: jbody})
		}
	case tImg:
		get("raw/0_1_2/64_32_16/0_0_0", nil)
		get("raw/0_1_2/37_21_9/5_3_2", nil)
		get("raw/0_1/64_32/0_0_5", nil)
		get("raw/0_2/40_16/10_17_0", nil)
		get("blocks/0_0_0/4", []int{0, 1, 2, 3})
		get("blocks/0_1_0/4", []int{4, 5, 6, 7})
		get("subvolblocks/64_32_16/0_0_0?compression=uncompressed", nil)
		get("specificblocks?compression=uncompressed&blocks=0,0,0,3,1,0,1,0,0,2,1,0", []int{0, 7, 1, 6})
	case tAnn:
		get("all-elements", nil)
		get("elements/200_200_64/0_0_0", nil)
		get("elements/60_60_20/30_0_0", []int{100})
		get("blocks/128_128_64/0_0_0", nil)
		get("tag/t0", []int{200})
		get("tag/t1", []int{201})
		get("tag/t0?relationships=true", []int{200})
		get("tag/unused", []int{})
		get("scan", nil)
	case tROI:
		get("roi", nil)
		get("mask/0_1_2/80_48_48/0_0_0", nil)
		get("mask/0_1_2/21_30_17/9_5_14", nil)
		get("partition?batchsize=2", nil)
		rs = append(rs, readReq{label: "POST ptquery", method: "POST", path: "ptquery", body: []byte("[[0,0,0],[31,15,15],[32,0,0],[20,20,5],[70,20,40],[16,16,16],[5,40,20],[100,100,100]]")})
	}
	return rs
}

// clean reports whether no stored key the request depends on has an unresolved merge conflict at node v.
func (w *world) clean(r readReq, v int) bool {
	if r.datums != nil {
		for _, d := range r.datums {
			if w.resolveDatum(d, v) == model.Conflict {
				return false
			}
		}
		return true
	}
	for d := range w.entries {
		if w.resolveDatum(d, v) == model.Conflict {
			return false
		}
	}
	return true
}

func (w *world) nodeClean(v int) bool {
	for d := range w.entries {
		if w.resolveDatum(d, v) == model.Conflict {
			return false
		}
	}
	return true
}

type snapshot struct {
	raw   []string
	reads map[int]map[string]drive.Resp // node -> label -> response
}

func endpointOf(r readReq) string {
	p := r.path
	if i := strings.IndexAny(p, "/?"); i >= 0 {
		p = p[:i]
	}
	return r.method + "-" + p
}

func (w *world) snap(inst string, nodes []int) (*snapshot, error) {
	d, err := datastore.GetDataByUUIDName(dvid.UUID(w.root), dvid.InstanceName(inst))
	if err != nil {
		return nil, fmt.Errorf("instance %q: %v", inst, err)
	}
	s := &snapshot{reads: map[int]map[string]drive.Resp{}}
	if s.raw, err = rawDump(d); err != nil {
		return nil, fmt.Errorf("harness: raw dump of %q: %v", inst, err)
	}
	reqs := w.readReqs()
	for _, v := range nodes {
		m := map[string]drive.Resp{}
		for _, r := range reqs {
			resp := drive.Do(r.method, "node/"+w.uuid[v]+"/"+inst+"/"+r.path, r.body)
			if resp.IsPanic() {
				return nil, stats.Violf("C19/"+typeNames[w.c.Type]+"-"+endpointOf(r)+"/panic", "instance %q node %d %s: %s", inst, v, r.label, resp)
			}
			if w.c.Type == tAnn && resp.OK() {
				resp.Body = normalizeElements(resp.Body)
			}
			if w.c.Type == tImg && resp.OK() && (strings.HasPrefix(r.path, "specificblocks") || strings.HasPrefix(r.path, "subvolblocks")) {
				resp.Body = normalizeBlockStream(resp.Body)
			}
			m[r.label] = resp
		}
		s.reads[v] = m
	}
	return s, nil
}

// normalizeElements: annotation answers are JSON arrays of elements, or objects of such arrays keyed by block.  No
// order of the elements is documented (tag?relationships=true assembles them from a Go map), so arrays are compared
// as multisets: elements are sorted by their canonical JSON.
func normalizeElements(b []byte) []byte {
	var v interface{}
	if err := json.Unmarshal(b, &v); err != nil {
		return b
	}
	sortArr := func(a []interface{}) {
		keys := make([]string, len(a))
		for i, e := range a {
			x, _ := json.Marshal(e)
			keys[i] = string(x)
		}
		sort.Strings(keys)
		for i := range a {
			a[i] = json.RawMessage(keys[i])
		}
	}
	switch t := v.(type) {
	case []interface{}:
		sortArr(t)
	case map[string]interface{}:
		for _, e := range t {
			if a, ok := e.([]interface{}); ok {
				sortArr(a)
			}
		}
	}
	out, err := json.Marshal(v)
	if err != nil {
		return b
	}
	return out
}

// normalizeBlockStream: specificblocks / subvolblocks answer with records (3 x int32 block coordinate, int32 length,
// bytes) in no documented order (specificblocks fetches the blocks concurrently): records are sorted.
func normalizeBlockStream(b []byte) []byte {
	var recs []string
	for p := 0; p < len(b); {
		if p+16 > len(b) {
			return b
		}
		n := int(binary.LittleEndian.Uint32(b[p+12:]))
		if n < 0 || p+16+n > len(b) {
			return b
		}
		recs = append(recs, string(b[p:p+16+n]))
		p += 16 + n
	}
	sort.Strings(recs)
	return []byte(strings.Join(recs, ""))
}

func short(b []byte) string {
	if len(b) > 240 {
		return fmt.Sprintf("%q...(%d bytes)", b[:240], len(b))
	}
	return fmt.Sprintf("%q", b)
}

func (w *world) describe() string {
	var its []string
	var ks []int
	for k := range w.items {
		ks = append(ks, k)
	}
	sort.Ints(ks)
	for _, k := range ks {
		its = append(its, fmt.Sprintf("%d:%v", k, vec(w.items[k], w.dag.N())))
	}
	return fmt.Sprintf("type=%s dag=%v items(node->0 none,1 value,2 deleted)={%s}", typeNames[w.c.Type], w.dag.Parents, strings.Join(its, " "))
}

// compareCopy: reads of the copy at the given nodes equal the source's.
func (w *world) compareCopy(src, dst *snapshot, nodes []int, mode string) error {
	reqs := w.readReqs()
	for _, v := range nodes {
		for _, r := range reqs {
			a, b := src.reads[v][r.label], dst.reads[v][r.label]
			ep := typeNames[w.c.Type] + "-" + endpointOf(r)
			if !w.clean(r, v) {
				// an unresolved merge conflict among the stored keys behind this answer: only refusal vs answer is compared
				if a.OK() != b.OK() {
					return stats.Violf("C19/"+mode+"-copy/"+ep+"/status-differs-at-conflicted-node", "node %d %s: source %s, copy %s; %s", v, r.label, a, b, w.describe())
				}
				continue
			}
			if a.OK() != b.OK() || (a.OK() && (a.Code != b.Code || string(a.Body) != string(b.Body))) {
				sig := "C19/" + mode + "-copy/" + ep + "/differs-from-source"
				if w.c.Type == tKV && strings.HasPrefix(r.path, "key/") && len(r.datums) == 1 {
					// name the symptom with the model: deleted key back / live key lost / other value
					kind, _ := w.resolveItem(r.datums[0], v)
					switch {
					case kind == model.Absent && b.Code == 200:
						sig = "C19/" + mode + "-copy/keyvalue-GET-key/deleted-or-absent-key-present-in-copy"
					case kind == model.Found && b.Code != 200:
						sig = "C19/" + mode + "-copy/keyvalue-GET-key/live-key-missing-in-copy"
					}
				}
				return stats.Violf(sig, "node %d %s: source %d %s, copy %d %s; %s", v, r.label, a.Code, short(a.Body), b.Code, short(b.Body), w.describe())
			}
		}
	}
	return nil
}

// compareSource: the source is unchanged by the copy.
func (w *world) compareSource(before, after *snapshot) error {
	if x, y := strings.Join(before.raw, "\n"), strings.Join(after.raw, "\n"); x != y {
		bm := map[string]bool{}
		for _, s := range before.raw {
			bm[s] = true
		}
		am := map[string]bool{}
		for _, s := range after.raw {
			am[s] = true
		}
		var gone, added []string
		for _, s := range before.raw {
			if !am[s] {
				gone = append(gone, s)
			}
		}
		for _, s := range after.raw {
			if !bm[s] {
				added = append(added, s)
			}
		}
		return stats.Violf("C19/source/raw-keys-changed-by-copy", "%d pairs before, %d after; gone %s; new %s; %s", len(before.raw), len(after.raw), short([]byte(fmt.Sprint(gone))), short([]byte(fmt.Sprint(added))), w.describe())
	}
	for v, m := range before.reads {
		for label, a := range m {
			b := after.reads[v][label]
			// refusals (reads over an unresolved merge conflict) are compared by status only: their text is not an answer
			if a.Code != b.Code || (a.OK() && string(a.Body) != string(b.Body)) {
				return stats.Violf("C19/source/reads-changed-by-copy", "node %d %s: before %d %s, after %d %s; %s", v, label, a.Code, short(a.Body), b.Code, short(b.Body), w.describe())
			}
		}
	}
	return nil
}

// sourceVsModel (keyvalue): the source itself answers as the DAG model says (guards the differential oracle against
// comparing two equally wrong answers; a failure here is not a copy failure and gets its own signature).
func (w *world) sourceVsModel(src *snapshot) error {
	if w.c.Type != tKV {
		return nil
	}
	for v, m := range src.reads {
		for k, name := range universe {
			kind, at := w.resolveItem(k, v)
			r := m["GET key/"+name]
			switch kind {
			case model.Found:
				if r.Code != 200 || string(r.Body) != w.vals[k][at] {
					return stats.Violf("C19/source/keyvalue-GET-key/differs-from-model", "node %d key %q: model %q, response %s; %s", v, name, w.vals[k][at], r, w.describe())
				}
			case model.Absent:
				if r.Code != 404 {
					return stats.Violf("C19/source/keyvalue-GET-key/differs-from-model", "node %d key %q: model absent, response %s; %s", v, name, r, w.describe())
				}
			}
		}
	}
	return nil
}

// ------------------------------------------------------------------ the check

type outcome struct {
	nontrivial bool
	classes    []string
}

func allNodes(n int) []int {
	out := make([]int, n)
	for i := range out {
		out[i] = i
	}
	return out
}

func checkCopy(c copyCase) (*outcome, error) {
	w, err := newWorld(c)
	if err != nil {
		return nil, err
	}
	if err := w.apply(); err != nil {
		return nil, err
	}
	drive.Settle(w.root)
	n := w.dag.N()
	nodes := allNodes(n)
	// the node named in the command
	var cand []int
	for u := 0; u < n; u++ {
		if !c.Flatten || w.nodeClean(u) {
			cand = append(cand, u) // the root is always conflict free
		}
	}
	depth := w.depth()
	maxd := 0
	for _, u := range cand {
		if depth[u] > maxd {
			maxd = depth[u]
		}
	}
	var pref []int
	for _, u := range cand {
		switch c.VPref {
		case "newest":
			pref = []int{u}
		case "merge":
			if len(w.dag.Parents[u]) >= 2 {
				pref = append(pref, u)
			}
		case "deep":
			if depth[u] == maxd {
				pref = append(pref, u)
			}
		}
	}
	if len(pref) > 0 {
		cand = pref
	}
	v := cand[c.V%len(cand)]
	before, err := w.snap("src", nodes)
	if err != nil {
		return nil, err
	}
	if err := w.sourceVsModel(before); err != nil {
		return nil, err
	}
	errsBefore, err := startCopy(w.root, w.uuid[v], "src", "dst", c.Flatten, c.Direct)
	if err != nil {
		if c.Flatten && strings.Contains(err.Error(), "found multiple kv") && storedConflict(w.root, w.uuid[v], "src") {
			// the version holds a stored key with two unsuperseded values among the parents of a merge (a key the
			// request-level conflict model does not track, e.g. one image block written on both branches): every
			// read of that key refuses, and so does flattening the version — the documented behaviour, not a defect
			return &outcome{classes: []string{"flatten-refused-at-conflicted-node"}}, nil
		}
		return nil, err
	}
	cmpNodes := nodes
	mode := "full"
	if c.Flatten {
		cmpNodes = []int{v}
		mode = "flatten"
	}
	judge := func() error {
		if es := watch.errsSince(errsBefore); len(es) > 0 && c.Flatten && strings.Contains(strings.Join(es, " "), "found multiple kv") && storedConflict(w.root, w.uuid[v], "src") {
			return errFlattenRefused
		}
		if es := watch.errsSince(errsBefore); len(es) > 0 {
			return stats.Violf("C19/rpc-repo-copy/"+mode+"/error-logged", "copy of a %s instance at node %d: %s; %s", typeNames[c.Type], v, strings.Join(es, " | "), w.describe())
		}
		after, err := w.snap("src", nodes)
		if err != nil {
			return err
		}
		if err := w.compareSource(before, after); err != nil {
			return err
		}
		if _, err := datastore.GetDataByUUIDName(dvid.UUID(w.root), "dst"); err != nil {
			return stats.Violf("C19/rpc-repo-copy/"+mode+"/target-instance-missing", "%v; %s", err, w.describe())
		}
		dst, err := w.snap("dst", cmpNodes)
		if err != nil {
			return err
		}
		return w.compareCopy(after, dst, cmpNodes, mode)
	}
	if err := judge(); err != nil {
		if err == errFlattenRefused {
			return &outcome{classes: []string{"flatten-refused-at-conflicted-node"}}, nil
		}
		deepWait(w.root, "dst")
		if err := judge(); err != nil {
			if err == errFlattenRefused {
				return &outcome{classes: []string{"flatten-refused-at-conflicted-node"}}, nil
			}
			return nil, err
		}
	}
	return w.classify(v), nil
}

func (w *world) depth() []int {
	d := make([]int, w.dag.N())
	for i := 1; i < w.dag.N(); i++ {
		for _, p := range w.dag.Parents[i] {
			if d[p]+1 > d[i] {
				d[i] = d[p] + 1
			}
		}
	}
	return d
}

func (w *world) visibleInParents(it, u int) bool {
	for _, p := range w.dag.Parents[u] {
		if kind, _ := w.resolveItem(it, p); kind == model.Found {
			return true
		}
	}
	return false
}

func (w *world) classify(v int) *outcome {
	c := w.c
	cls := []string{"type=" + typeNames[c.Type]}
	if c.Flatten {
		cls = append(cls, "flatten", "flatten/type="+typeNames[c.Type])
		if v != 0 {
			cls = append(cls, "flatten/V-not-root")
		}
		if len(w.dag.Parents[v]) >= 2 {
			cls = append(cls, "flatten/V-is-merge-node")
		}
		if w.locked[v] {
			cls = append(cls, "flatten/V-committed")
		} else {
			cls = append(cls, "flatten/V-open")
		}
	} else {
		cls = append(cls, "full", "full/type="+typeNames[c.Type])
	}
	merges := 0
	for _, ps := range w.dag.Parents {
		if len(ps) >= 2 {
			merges++
		}
	}
	if merges > 0 {
		cls = append(cls, "merge-in-dag")
	}
	if c.Direct {
		cls = append(cls, "via=CopyInstance")
	} else {
		cls = append(cls, "via=rpc")
	}
	if c.Type == tKV && c.Binary {
		cls = append(cls, "keyvalue/binary-values")
	}
	// overrides, deletions, inheritance
	depth := w.depth()
	var overrides, deletions []int // nodes
	delByItem := map[int][]int{}
	inherited, tombAtV, inheritedAtV := false, false, false
	for it, m := range w.items {
		for u, kind := range m {
			if !w.visibleInParents(it, u) {
				continue
			}
			if kind == model.Value {
				overrides = append(overrides, u)
			} else if kind == model.Tombstone {
				deletions = append(deletions, u)
				delByItem[it] = append(delByItem[it], u)
			}
		}
		for u := 0; u < w.dag.N(); u++ {
			kind, at := w.resolveItem(it, u)
			if kind == model.Found && at != u {
				inherited = true
				if u == v {
					inheritedAtV = true
				}
			}
		}
		if kind, _ := w.resolveItem(it, v); kind == model.Absent && len(m) > 0 {
			for u := range w.dag.Ancestors(v) {
				if m[u] == model.Tombstone && w.visibleInParents(it, u) {
					tombAtV = true
				}
			}
		}
	}
	incomparable := func(a, b int) bool {
		return a != b && !w.dag.IsAncestor(a, b) && !w.dag.IsAncestor(b, a)
	}
	nt := false
	second := deletions
	if c.Type == tImg {
		second = overrides // image volumes have no deletion: two overrides instead
	}
	for _, a := range overrides {
		for _, b := range second {
			if incomparable(a, b) && depth[a] != depth[b] {
				nt = true
			}
		}
	}
	for _, ds := range delByItem {
		for _, a := range ds {
			for _, b := range ds {
				if incomparable(a, b) {
					cls = append(cls, "delete-on-two-sibling-branches")
				}
			}
		}
	}
	if len(overrides) > 0 {
		cls = append(cls, "override")
	}
	if len(deletions) > 0 {
		cls = append(cls, "deletion")
	}
	if inherited {
		cls = append(cls, "inherited-value")
	}
	if c.Flatten && tombAtV {
		cls = append(cls, "flatten/deletion-visible-at-V")
	}
	if c.Flatten && inheritedAtV {
		cls = append(cls, "flatten/inherited-value-at-V")
	}
	conflict := false
	for u := 0; u < w.dag.N(); u++ {
		if !w.nodeClean(u) {
			conflict = true
		}
	}
	if conflict {
		cls = append(cls, "dag-has-conflicted-node")
	}
	if nt {
		cls = append(cls, "nontrivial", "nontrivial/type="+typeNames[c.Type])
		if c.Flatten {
			cls = append(cls, "nontrivial/flatten")
		} else {
			cls = append(cls, "nontrivial/full")
		}
	}
	return &outcome{nontrivial: nt, classes: dedup(cls)}
}

func dedup(in []string) []string {
	sort.Strings(in)
	var out []string
	for i, s := range in {
		if i == 0 || s != in[i-1] {
			out = append(out, s)
		}
	}
	return out
}

// ------------------------------------------------------------------ generator

func genOps(t *rapid.T, typ int) []op {
	var ops []op
	add := func(kind string, node, key int, ps ...int) {
		ops = append(ops, op{Kind: kind, Node: node, Key: key, Ps: ps})
	}
	nkeys := []int{len(universe), 16, 8, len(roiSets)}[typ]
	// optional skeleton: values at the root, an override on one branch, a deletion one level deeper on another
	skeleton := rapid.IntRange(0, 5).Draw(t, "skeleton")
	if skeleton == 5 {
		// two sibling branches write the same datum and are merged: the merge node holds an unresolved conflict
		k0 := rapid.IntRange(0, nkeys-1).Draw(t, "k0")
		add("put", 0, k0)
		add("branch", 0, 0) // node 1
		add("put", 0, k0)
		add("branch", 0, 0) // node 2
		add("put", 1, k0)   // open nodes 1, 2 -> node 2
		add("commit", 1, 0)
		add("commit", 2, 0)
		add("merge", 0, 0, 1, 2) // committed nodes 0, 1, 2
	} else if skeleton >= 2 {
		k0 := rapid.IntRange(0, nkeys-1).Draw(t, "k0")
		k1 := rapid.IntRange(0, nkeys-1).Draw(t, "k1")
		add("put", 0, k0)
		add("put", 0, k1)
		add("branch", 0, 0) // node 1
		add("put", 0, k0)   // override at depth 1 (only open node)
		add("branch", 0, 0) // node 2 (sibling branch)
		add("newversion", 2, 0)
		// node 3 child of 2; open nodes are 1 and 3 -> index 1 = node 3
		add("del", 1, k1)
		if rapid.Bool().Draw(t, "del-sibling") {
			add("del", 0, k1) // same key deleted at node 1 too
		}
	}
	nops := rapid.IntRange(3, 22).Draw(t, "nops")
	for i := 0; i < nops; i++ {
		kind := rapid.SampledFrom([]string{"put", "put", "put", "put", "del", "del", "commit", "newversion", "newversion", "branch", "branch", "merge"}).Draw(t, "kind")
		o := op{Kind: kind, Node: rapid.IntRange(0, 7).Draw(t, "node"), Key: rapid.IntRange(0, nkeys-1).Draw(t, "key")}
		if kind == "merge" {
			for j := rapid.IntRange(2, 3).Draw(t, "k"); j > 0; j-- {
				o.Ps = append(o.Ps, rapid.IntRange(0, 7).Draw(t, "p"))
			}
		}
		ops = append(ops, o)
	}
	return ops
}

func genCase(t *rapid.T) copyCase {
	c := copyCase{Type: rapid.SampledFrom([]int{tKV, tKV, tKV, tImg, tImg, tAnn, tAnn, tROI}).Draw(t, "type")}
	if c.Type == tImg && stats.IsKnown(sigImgExtents) {
		// listed finding: every copy of an imageblk instance panics; the search continues on the other types
		c.Type = []int{tKV, tAnn, tROI}[rapid.IntRange(0, 2).Draw(t, "type-instead-of-uint8blk")]
		stats.Excluded(sigImgExtents)
	}
	if c.Type == tKV {
		c.Binary = rapid.IntRange(0, 3).Draw(t, "binary") == 0
	}
	c.Ops = genOps(t, c.Type)
	c.Flatten = rapid.Bool().Draw(t, "flatten")
	c.Direct = rapid.IntRange(0, 3).Draw(t, "direct") == 0
	c.V = rapid.IntRange(0, 7).Draw(t, "v")
	c.VPref = rapid.SampledFrom([]string{"", "", "newest", "merge", "deep"}).Draw(t, "vpref")
	return c
}

func TestC19Copy(t *testing.T) {
	rapid.Check(t, func(t *rapid.T) {
		c := genCase(t)
		stats.SetCur("C19", "TestC19Copy", c)
		out, err := checkCopy(c)
		if !stats.Judge(t, "C19", "TestC19Copy", err, c) {
			return
		}
		stats.Record(stats.HashJSON(c), out.nontrivial, out.classes, func() interface{} {
			var s []string
			for _, o := range c.Ops {
				s = append(s, fmt.Sprintf("%s n%d k%d %v", o.Kind, o.Node, o.Key, o.Ps))
			}
			return map[string]interface{}{"test": "copy", "type": typeNames[c.Type], "binary": c.Binary, "flatten": c.Flatten, "direct": c.Direct, "v": c.V, "vpref": c.VPref, "ops": strings.Join(s, "; ")}
		})
	})
}

func TestReplay(t *testing.T) {
	stats.RunReplay(t, map[string]func(json.RawMessage) error{
		"TestC19Copy": func(raw json.RawMessage) error {
			var c copyCase
			if err := json.Unmarshal(raw, &c); err != nil {
				return err
			}
			_, err := checkCopy(c)
			return err
		},
		"TestC19Bulk": func(raw json.RawMessage) error {
			var c bulkCase
			if err := json.Unmarshal(raw, &c); err != nil {
				return err
			}
			return checkBulk(c)
		},
	})
}
