// C03 — a restart changes nothing observable.
package c03

import (
	"encoding/binary"
	"encoding/json"
	"fmt"
	"os"
	"path/filepath"
	"sort"
	"strings"
	"testing"

	"pgregory.net/rapid"

	"verif/drive"
	"verif/stats"
)

func TestMain(m *testing.M) {
	rc := m.Run()
	stats.Flush()
	os.Exit(rc)
}

type wop struct {
	Kind string `json:"kind"`
	Node int    `json:"node"`
	A    int    `json:"a,omitempty"`
	B    int    `json:"b,omitempty"`
	C    int    `json:"c,omitempty"`
}

type c03Case struct {
	Ops []wop `json:"ops"`
}

const blk = 16

var ext = [3]int32{2 * blk, 2 * blk, 2 * blk}

type world struct {
	c          *drive.Child
	dir        string
	root       string
	nodes      []string
	locked     map[string]bool
	nbr        int
	rebuilt    int // ops whose effect lives in state rebuilt at start-up
	panics     []string
	mergeNodes map[string]bool // nodes created by a merge
	njJump     bool            // since the last restart a new version was made from a merge node (master head left its lineage)
}

// The neuronjson in-memory database of the master head follows the head: it is only right while the head moves to
// descendants.  A new version made from a merge node moves the head to a node with another lineage (genuine defect,
// listed as known finding; the history steers around it when it is listed).
const sigNJJump = "C03/neuronjson/memory-stale-after-head-moved-to-merge-lineage"

func (w *world) do(method, url string, body []byte) (drive.Resp, error) {
	r, err := w.c.Do(method, url, body)
	if err != nil {
		return r, err
	}
	if r.IsPanic() {
		w.panics = append(w.panics, method+" "+url+" -> "+string(r.Body))
	}
	return r, nil
}

func (w *world) post(url string, body []byte) (drive.Resp, error) { return w.do("POST", url, body) }

func u64s(v []uint64) []byte {
	s := make([]string, len(v))
	for i, x := range v {
		s[i] = fmt.Sprint(x)
	}
	return []byte("[" + strings.Join(s, ",") + "]")
}

// bodies at a node: (label, size) from listlabels
func (w *world) bodies(uuid string) ([]uint64, error) {
	r, err := w.do("GET", "node/"+uuid+"/lm/listlabels", nil)
	if err != nil {
		return nil, err
	}
	var out []uint64
	for i := 0; i+8 <= len(r.Body); i += 8 {
		out = append(out, binary.LittleEndian.Uint64(r.Body[i:]))
	}
	return out, nil
}

func (w *world) supervoxels(uuid string, body uint64) ([]uint64, error) {
	r, err := w.do("GET", fmt.Sprintf("node/%s/lm/supervoxels/%d", uuid, body), nil)
	if err != nil {
		return nil, err
	}
	var out []uint64
	json.Unmarshal(r.Body, &out)
	sort.Slice(out, func(i, j int) bool { return out[i] < out[j] })
	return out, nil
}

// volume with labels laid out in 8^3 cells: label = 1 + (cell index + shift) % nlabels
func volume(shift, nlabels int, size [3]int32) []byte {
	b := make([]byte, int(size[0])*int(size[1])*int(size[2])*8)
	i := 0
	for z := int32(0); z < size[2]; z++ {
		for y := int32(0); y < size[1]; y++ {
			for x := int32(0); x < size[0]; x++ {
				cell := int(x/8) + 4*int(y/8) + 16*int(z/8)
				l := uint64(1 + (cell+shift)%nlabels)
				if (x+y+z)%11 == 0 {
					l = 0
				}
				binary.LittleEndian.PutUint64(b[i:], l)
				i += 8
			}
		}
	}
	return b
}

func (w *world) setup() error {
	r, err := w.post("repos", []byte(`{"alias":"c03","description":"restart"}`))
	if err != nil {
		return err
	}
	var rr struct{ Root string }
	if json.Unmarshal(r.Body, &rr) != nil || rr.Root == "" {
		return fmt.Errorf("new repo: %s", r)
	}
	w.root = rr.Root
	w.nodes = []string{rr.Root}
	w.locked = map[string]bool{}
	mk := func(typ, name string, extra map[string]string) error {
		m := map[string]string{"typename": typ, "dataname": name}
		for k, v := range extra {
			m[k] = v
		}
		b, _ := json.Marshal(m)
		r, err := w.post("repo/"+w.root+"/instance", b)
		if err != nil {
			return err
		}
		if !r.OK() {
			return fmt.Errorf("new instance %s: %s", name, r)
		}
		return nil
	}
	bs := fmt.Sprintf("%d,%d,%d", blk, blk, blk)
	if err := mk("keyvalue", "kv", nil); err != nil {
		return err
	}
	if err := mk("labelmap", "lm", map[string]string{"BlockSize": bs}); err != nil {
		return err
	}
	if err := mk("annotation", "ann", map[string]string{"BlockSize": bs}); err != nil {
		return err
	}
	if err := mk("labelsz", "sz", nil); err != nil {
		return err
	}
	if err := mk("neuronjson", "nj", nil); err != nil {
		return err
	}
	if err := mk("roi", "roi", map[string]string{"BlockSize": bs}); err != nil {
		return err
	}
	if r, err := w.post("node/"+w.root+"/ann/sync", []byte(`{"sync":"lm"}`)); err != nil || !r.OK() {
		return fmt.Errorf("sync ann: %v %s", err, r)
	}
	if r, err := w.post("node/"+w.root+"/sz/sync", []byte(`{"sync":"ann"}`)); err != nil || !r.OK() {
		return fmt.Errorf("sync sz: %v %s", err, r)
	}
	return nil
}

func (w *world) openNode(i int) (string, bool) {
	if i < 0 {
		i = len(w.nodes) - 1
	}
	u := w.nodes[i%len(w.nodes)]
	return u, !w.locked[u]
}

func (w *world) apply(o wop) error {
	u, open := w.openNode(o.Node)
	if o.Node < 0 {
		u = w.nodes[len(w.nodes)-1]
		open = !w.locked[u]
	}
	var err error
	switch o.Kind {
	case "kvput":
		_, err = w.post(fmt.Sprintf("node/%s/kv/key/k%d", u, o.A%6), []byte(fmt.Sprintf("value-%d-%d", o.A, o.B)))
	case "kvdel":
		_, err = w.do("DELETE", fmt.Sprintf("node/%s/kv/key/k%d", u, o.A%6), nil)
	case "commit":
		var r drive.Resp
		r, err = w.post("node/"+u+"/commit", []byte(fmt.Sprintf(`{"note":"commit %d","log":["l%d"]}`, o.A, o.B)))
		if err == nil && r.OK() {
			w.locked[u] = true
		}
	case "note":
		_, err = w.post("node/"+u+"/note", []byte(fmt.Sprintf(`{"note":"note %d"}`, o.A)))
	case "log":
		_, err = w.post("node/"+u+"/log", []byte(fmt.Sprintf(`{"log":["entry %d"]}`, o.A)))
	case "newversion", "branch":
		if o.Kind == "newversion" && w.mergeNodes[u] {
			if stats.IsKnown(sigNJJump) {
				stats.Excluded(sigNJJump)
				return nil
			}
			w.njJump = true
		}
		if open {
			r, e := w.post("node/"+u+"/commit", []byte(`{"note":"auto"}`))
			if e != nil {
				return e
			}
			if r.OK() {
				w.locked[u] = true
			}
		}
		var r drive.Resp
		if o.Kind == "newversion" {
			r, err = w.post("node/"+u+"/newversion", []byte(`{"note":"nv"}`))
		} else {
			w.nbr++
			r, err = w.post("node/"+u+"/branch", []byte(fmt.Sprintf(`{"branch":"b%d","note":"br"}`, w.nbr)))
		}
		if err == nil && r.OK() {
			var c struct{ Child string }
			if json.Unmarshal(r.Body, &c) == nil && c.Child != "" {
				w.nodes = append(w.nodes, c.Child)
			}
		}
	case "dagmerge":
		var committed []string
		for _, n := range w.nodes {
			if w.locked[n] {
				committed = append(committed, n)
			}
		}
		if len(committed) < 2 {
			return nil
		}
		p1, p2 := committed[o.A%len(committed)], committed[o.B%len(committed)]
		if p1 == p2 {
			return nil
		}
		b, _ := json.Marshal(map[string]interface{}{"mergeType": "conflict-free", "parents": []string{p1, p2}, "note": "m"})
		var r drive.Resp
		r, err = w.post("repo/"+w.root+"/merge", b)
		if err == nil && r.OK() {
			var c struct{ Child string }
			if json.Unmarshal(r.Body, &c) == nil && c.Child != "" {
				w.nodes = append(w.nodes, c.Child)
				if w.mergeNodes == nil {
					w.mergeNodes = map[string]bool{}
				}
				w.mergeNodes[c.Child] = true
			}
		}
	case "dagdiamond":
		// two committed sibling branches off the (committed) root, then their merge: a merge node on master
		for _, p := range []wop{{Kind: "commit", Node: 0}, {Kind: "branch", Node: 0}, {Kind: "kvput", Node: -1, A: o.A, B: 1}, {Kind: "commit", Node: -1},
			{Kind: "branch", Node: 0}, {Kind: "kvput", Node: -1, A: o.A + 1, B: 2}, {Kind: "commit", Node: -1}} {
			if err = w.apply(p); err != nil {
				return err
			}
		}
		n := len(w.nodes)
		b, _ := json.Marshal(map[string]interface{}{"mergeType": "conflict-free", "parents": []string{w.nodes[n-2], w.nodes[n-1]}, "note": "diamond"})
		var r drive.Resp
		r, err = w.post("repo/"+w.root+"/merge", b)
		if err == nil && r.OK() {
			var c struct{ Child string }
			if json.Unmarshal(r.Body, &c) == nil && c.Child != "" {
				w.nodes = append(w.nodes, c.Child)
				if w.mergeNodes == nil {
					w.mergeNodes = map[string]bool{}
				}
				w.mergeNodes[c.Child] = true
			}
		}
	case "lmingest":
		mut := ""
		if o.B%2 == 1 {
			mut = "?mutate=true"
		}
		_, err = w.post(fmt.Sprintf("node/%s/lm/raw/0_1_2/%d_%d_%d/0_0_0%s", u, ext[0], ext[1], ext[2], mut), volume(o.A, 3+o.C%6, ext))
		w.rebuilt++
	case "lmmerge":
		bs, e := w.bodies(u)
		if e != nil {
			return e
		}
		if len(bs) < 2 {
			return nil
		}
		t, m := bs[o.A%len(bs)], bs[o.B%len(bs)]
		if t == m {
			return nil
		}
		_, err = w.post("node/"+u+"/lm/merge", u64s([]uint64{t, m}))
		w.rebuilt++
	case "lmcleave":
		bs, e := w.bodies(u)
		if e != nil {
			return e
		}
		if len(bs) == 0 {
			return nil
		}
		b := bs[o.A%len(bs)]
		svs, e := w.supervoxels(u, b)
		if e != nil {
			return e
		}
		if len(svs) < 2 {
			return nil
		}
		_, err = w.post(fmt.Sprintf("node/%s/lm/cleave/%d", u, b), u64s([]uint64{svs[o.B%len(svs)]}))
		w.rebuilt++
	case "lmundo":
		// an edit in one version undone in a descendant version: (merge so a body has two supervoxels,) cleave a
		// supervoxel off, commit, new version, merge the cleaved body back
		if !open {
			return nil
		}
		bs, e := w.bodies(u)
		if e != nil {
			return e
		}
		if len(bs) == 0 {
			return nil
		}
		b := bs[o.A%len(bs)]
		svs, e := w.supervoxels(u, b)
		if e != nil {
			return e
		}
		if len(svs) < 2 && len(bs) >= 2 {
			m := bs[(o.A+1+o.B%(len(bs)-1))%len(bs)]
			if m == b {
				return nil
			}
			if _, e = w.post("node/"+u+"/lm/merge", u64s([]uint64{b, m})); e != nil {
				return e
			}
			if e = w.c.Settle(false); e != nil {
				return e
			}
			if svs, e = w.supervoxels(u, b); e != nil {
				return e
			}
		}
		if len(svs) < 2 {
			return nil
		}
		sv := svs[o.C%len(svs)]
		if o.C%3 != 0 {
			for _, s := range svs {
				if s == b {
					sv = s
				}
			}
		}
		r, e := w.post(fmt.Sprintf("node/%s/lm/cleave/%d", u, b), u64s([]uint64{sv}))
		if e != nil {
			return e
		}
		var cl struct{ CleavedLabel uint64 }
		if !r.OK() || json.Unmarshal(r.Body, &cl) != nil || cl.CleavedLabel == 0 {
			return nil
		}
		w.rebuilt++
		if e = w.c.Settle(false); e != nil {
			return e
		}
		if e = w.apply(wop{Kind: "newversion", Node: o.Node}); e != nil {
			return e
		}
		child := w.nodes[len(w.nodes)-1]
		if child == u || w.locked[child] {
			return nil
		}
		_, err = w.post("node/"+child+"/lm/merge", u64s([]uint64{b, cl.CleavedLabel}))
	case "lmrenumber":
		bs, e := w.bodies(u)
		if e != nil {
			return e
		}
		if len(bs) == 0 {
			return nil
		}
		r, e := w.post("node/"+u+"/lm/nextlabel/1", nil)
		if e != nil {
			return e
		}
		var nl struct{ Start uint64 }
		if !r.OK() || json.Unmarshal(r.Body, &nl) != nil {
			return nil
		}
		_, err = w.post("node/"+u+"/lm/renumber", u64s([]uint64{nl.Start, bs[o.A%len(bs)]}))
		w.rebuilt++
	case "lmsplitsv":
		bs, e := w.bodies(u)
		if e != nil {
			return e
		}
		if len(bs) == 0 {
			return nil
		}
		svs, e := w.supervoxels(u, bs[o.A%len(bs)])
		if e != nil || len(svs) == 0 {
			return e
		}
		sv := svs[o.B%len(svs)]
		// split off the supervoxel's voxels with x < 8+o.C%16: fetch its sparse volume and keep a prefix of the runs
		r, e := w.do("GET", fmt.Sprintf("node/%s/lm/sparsevol/%d?format=srles&supervoxels=true", u, sv), nil)
		if e != nil {
			return e
		}
		if !r.OK() || len(r.Body) < 32 {
			return nil
		}
		nruns := len(r.Body) / 16
		keep := 1 + o.C%(nruns-1+1)
		if keep >= nruns {
			keep = nruns - 1
		}
		if keep < 1 {
			return nil
		}
		body := make([]byte, 12, 12+16*keep)
		body[1] = 3
		binary.LittleEndian.PutUint32(body[8:], uint32(keep))
		body = append(body, r.Body[:16*keep]...)
		_, err = w.post(fmt.Sprintf("node/%s/lm/split-supervoxel/%d", u, sv), body)
		w.rebuilt++
	case "annpost":
		x, y, z := (o.A*7)%int(ext[0]), (o.B*5)%int(ext[1]), (o.C*3)%int(ext[2])
		x2, y2, z2 := (x+9)%int(ext[0]), (y+17)%int(ext[1]), z
		kind := []string{"PostSyn", "PreSyn", "Note"}[o.A%3]
		el := fmt.Sprintf(`[{"Pos":[%d,%d,%d],"Kind":%q,"Tags":["t%d"],"Prop":{"n":"%d"},"Rels":[{"Rel":"PostSynTo","To":[%d,%d,%d]}]},{"Pos":[%d,%d,%d],"Kind":"PreSyn","Tags":["t%d","u"],"Prop":{},"Rels":[{"Rel":"PreSynTo","To":[%d,%d,%d]}]}]`,
			x, y, z, kind, o.B%3, o.C, x2, y2, z2, x2, y2, z2, o.C%3, x, y, z)
		_, err = w.post("node/"+u+"/ann/elements", []byte(el))
		w.rebuilt++
	case "anndel":
		x, y, z := (o.A*7)%int(ext[0]), (o.B*5)%int(ext[1]), (o.C*3)%int(ext[2])
		_, err = w.do("DELETE", fmt.Sprintf("node/%s/ann/element/%d_%d_%d", u, x, y, z), nil)
	case "annmove":
		x, y, z := (o.A*7)%int(ext[0]), (o.B*5)%int(ext[1]), (o.C*3)%int(ext[2])
		_, err = w.post(fmt.Sprintf("node/%s/ann/move/%d_%d_%d/%d_%d_%d", u, x, y, z, (x+13)%int(ext[0]), (y+3)%int(ext[1]), (z+20)%int(ext[2])), nil)
	case "njpost":
		id := []uint64{5, 30, 200, 1000, 9007199254740993}[o.A%5]
		q := ""
		if o.B%4 == 0 {
			q = "?replace=true"
		}
		doc := fmt.Sprintf(`{"bodyid":%d,"f%d":"v%d","g":%d}`, id, o.B%3, o.C, o.C)
		if o.C%5 == 0 {
			doc = fmt.Sprintf(`{"bodyid":%d,"f%d":null}`, id, o.B%3)
		}
		_, err = w.post(fmt.Sprintf("node/%s/nj/key/%d%s", u, id, q)+userQ(q, o.A), []byte(doc))
		w.rebuilt++
	case "njdel":
		id := []uint64{5, 30, 200, 1000, 9007199254740993}[o.A%5]
		_, err = w.do("DELETE", fmt.Sprintf("node/%s/nj/key/%d", u, id), nil)
		w.rebuilt++
	case "roipost":
		_, err = w.post("node/"+u+"/roi/roi", []byte(fmt.Sprintf(`[[%d,%d,%d,%d],[1,1,0,1]]`, o.A%2, o.B%2, o.C%2, o.C%2+1)))
	case "newinst":
		b, _ := json.Marshal(map[string]string{"typename": "keyvalue", "dataname": fmt.Sprintf("kv%d", o.A%3)})
		_, err = w.post("repo/"+w.root+"/instance", b)
	case "delinst":
		_, e := w.c.RPC("repo", w.root, "delete", fmt.Sprintf("kv%d", o.A%3), "")
		_ = e
	}
	return err
}

func userQ(q string, a int) string {
	if q == "" {
		return fmt.Sprintf("?u=user%d", a%2)
	}
	return fmt.Sprintf("&u=user%d", a%2)
}

var snapOpts = drive.SnapOpts{LabelOff: [3]int32{0, 0, 0}, LabelSize: ext}

func checkC03(c c03Case) (restarts int, rebuilt int, err error) {
	base := os.Getenv("VERIF_SCRATCH_DIR")
	if base == "" {
		base = os.TempDir()
	}
	dir, e := os.MkdirTemp(base, "c03-")
	if e != nil {
		return 0, 0, e
	}
	defer os.RemoveAll(dir)
	w := &world{dir: dir}
	if w.c, e = drive.StartChild(filepath.Join(dir, "srv")); e != nil {
		return 0, 0, fmt.Errorf("harness: start child: %v", e)
	}
	defer func() {
		if w.c != nil {
			w.c.Kill()
		}
	}()
	died := func(what string, e error) error {
		if e == drive.ErrChildDied {
			return stats.Violf("C03/server-process-died", "%s: the server process died; stderr: %s", what, w.c.StderrTail(1200))
		}
		return fmt.Errorf("harness: %s: %v", what, e)
	}
	if e := w.setup(); e != nil {
		return 0, 0, died("setup", e)
	}
	sinceRestart := 0
	for i, o := range c.Ops {
		if o.Kind != "restart-clean" && o.Kind != "restart-abrupt" {
			if e := w.apply(o); e != nil {
				return restarts, w.rebuilt, died(fmt.Sprintf("op %d %+v", i, o), e)
			}
			sinceRestart++
			continue
		}
		if e := w.c.Settle(true); e != nil {
			return restarts, w.rebuilt, died("settle before restart", e)
		}
		var pan []string
		so := snapOpts
		so.Panics = &pan
		before, e := drive.TakeSnapshot(w.c, so)
		if e != nil {
			return restarts, w.rebuilt, died("snapshot before restart", e)
		}
		// a second snapshot must equal the first: otherwise the observable is not stable even without a restart
		again, e := drive.TakeSnapshot(w.c, so)
		if e != nil {
			return restarts, w.rebuilt, died("second snapshot before restart", e)
		}
		unstable := map[string]bool{}
		for _, d := range drive.DiffSnapshots(before, again) {
			unstable[strings.SplitN(d, ": ", 2)[0]] = true
		}
		if o.Kind == "restart-clean" {
			if e := w.c.Shutdown(); e != nil {
				return restarts, w.rebuilt, stats.Violf("C03/clean-shutdown-failed", "op %d: %v; stderr: %s", i, e, w.c.StderrTail(800))
			}
		} else {
			w.c.Kill()
		}
		nc, e := drive.StartChild(filepath.Join(dir, "srv"))
		if e != nil {
			return restarts, w.rebuilt, stats.Violf("C03/restart-failed/"+o.Kind, "op %d: server did not come up on the same stores: %v", i, e)
		}
		w.c = nc
		restarts++
		after, e := drive.TakeSnapshot(w.c, so)
		if e != nil {
			return restarts, w.rebuilt, died("snapshot after restart", e)
		}
		var diffs, orderDiffs []string
		for _, d := range drive.DiffSnapshots(before, after) {
			k := strings.SplitN(d, ": ", 2)[0]
			if unstable[k] {
				continue
			}
			if strings.HasSuffix(k, "#order") {
				orderDiffs = append(orderDiffs, d)
				continue
			}
			diffs = append(diffs, d)
		}
		if len(diffs) == 0 && len(orderDiffs) > 0 {
			// same members, different order of a neuronjson list answer (keys / all / keyrange)
			const sig = "C03/neuronjson/list-order-changes-across-restart"
			if stats.IsKnown(sig) {
				stats.KnownHit(sig)
			} else {
				return restarts, w.rebuilt, stats.Violf(sig, "after %s at op %d: %s", o.Kind, i, strings.Join(orderDiffs, " || "))
			}
		}
		if len(diffs) > 0 && w.njJump {
			onlyNJ := true
			for _, d := range diffs {
				if !strings.Contains(strings.SplitN(d, ": ", 2)[0], "/nj/") {
					onlyNJ = false
				}
			}
			if onlyNJ {
				return restarts, w.rebuilt, stats.Violf(sigNJJump, "after %s at op %d: a new version was made from a merge node, the master head moved to it, and %d neuronjson observables differ: %s", o.Kind, i, len(diffs), strings.Join(diffs[:1], ""))
			}
		}
		if len(diffs) > 0 {
			first := strings.SplitN(diffs[0], ": ", 2)[0]
			n := len(diffs)
			if n > 6 {
				diffs = append(diffs[:6], "...")
			}
			return restarts, w.rebuilt, stats.Violf("C03/"+o.Kind+"/"+sigOf(first), "after %s at op %d (%d ops since last restart) %d observables differ: %s", o.Kind, i, sinceRestart, n, strings.Join(diffs, " || "))
		}
		sinceRestart = 0
		w.njJump = false
	}
	if len(w.panics) > 0 {
		return restarts, w.rebuilt, stats.Violf("C03/panic-response", "%s", w.panics[0])
	}
	return restarts, w.rebuilt, nil
}

// sigOf turns a snapshot key into a stable signature fragment: uuids and numbers removed.
func sigOf(key string) string {
	parts := strings.Split(key, "/")
	var out []string
	for _, p := range parts {
		if len(p) >= 32 && isHex(p[:32]) {
			out = append(out, "<uuid>"+p[32:])
			continue
		}
		q := p
		if i := strings.IndexAny(q, "?"); i >= 0 {
			q = q[:i]
		}
		if q != "" && strings.Trim(q, "0123456789_") == "" {
			out = append(out, "<n>")
			continue
		}
		out = append(out, q)
	}
	return strings.Join(out, "/")
}

func isHex(s string) bool {
	for _, c := range s {
		if !(c >= '0' && c <= '9' || c >= 'a' && c <= 'f') {
			return false
		}
	}
	return true
}

func genC03(t *rapid.T) c03Case {
	var c c03Case
	kinds := []string{"kvput", "kvput", "kvdel", "commit", "note", "log", "newversion", "newversion", "branch", "dagmerge", "dagdiamond",
		"lmingest", "lmmerge", "lmmerge", "lmcleave", "lmcleave", "lmsplitsv", "lmsplitsv", "lmrenumber", "lmundo",
		"annpost", "annpost", "anndel", "annmove", "njpost", "njpost", "njpost", "njdel", "roipost", "newinst", "delinst"}
	// start with content so restarts have something to rebuild
	c.Ops = append(c.Ops, wop{Kind: "lmingest", Node: 0, A: rapid.IntRange(0, 20).Draw(t, "s"), C: rapid.IntRange(0, 5).Draw(t, "nl")})
	n := rapid.IntRange(4, 26).Draw(t, "nops")
	nrest := 0
	for i := 0; i < n; i++ {
		k := rapid.SampledFrom(kinds).Draw(t, "kind")
		if nrest < 3 && rapid.IntRange(0, 7).Draw(t, "restart") == 0 {
			k = rapid.SampledFrom([]string{"restart-clean", "restart-abrupt"}).Draw(t, "rk")
			nrest++
		}
		o := wop{Kind: k, A: rapid.IntRange(0, 40).Draw(t, "a"), B: rapid.IntRange(0, 40).Draw(t, "b"), C: rapid.IntRange(0, 40).Draw(t, "c")}
		o.Node = rapid.IntRange(0, 6).Draw(t, "node")
		if rapid.IntRange(0, 2).Draw(t, "latest") > 0 {
			o.Node = -1
		}
		c.Ops = append(c.Ops, o)
	}
	// always end with a restart followed by a few more ops and a final restart (second comparison)
	c.Ops = append(c.Ops, wop{Kind: rapid.SampledFrom([]string{"restart-clean", "restart-abrupt"}).Draw(t, "rk1")})
	for i := rapid.IntRange(1, 4).Draw(t, "tail"); i > 0; i-- {
		c.Ops = append(c.Ops, wop{Kind: rapid.SampledFrom(kinds).Draw(t, "tk"), Node: -1, A: rapid.IntRange(0, 40).Draw(t, "ta"), B: rapid.IntRange(0, 40).Draw(t, "tb"), C: rapid.IntRange(0, 40).Draw(t, "tc")})
	}
	c.Ops = append(c.Ops, wop{Kind: rapid.SampledFrom([]string{"restart-clean", "restart-abrupt"}).Draw(t, "rk2")})
	return c
}

func TestC03Restart(t *testing.T) {
	rapid.Check(t, func(t *rapid.T) {
		c := genC03(t)
		stats.SetCur("C03", "TestC03Restart", c)
		restarts, rebuilt, err := checkC03(c)
		if !stats.Judge(t, "C03", "TestC03Restart", err, c) {
			return
		}
		cls := map[string]bool{"history": true}
		for _, o := range c.Ops {
			cls["op/"+o.Kind] = true
		}
		var cl []string
		for k := range cls {
			cl = append(cl, k)
		}
		sort.Strings(cl)
		stats.Count("restarts", int64(restarts))
		stats.Record(stats.HashJSON(c), rebuilt >= 1 && restarts >= 2, cl, func() interface{} {
			var s []string
			for _, o := range c.Ops {
				s = append(s, fmt.Sprintf("%s@%d(%d,%d,%d)", o.Kind, o.Node, o.A, o.B, o.C))
			}
			return map[string]interface{}{"test": "restart", "ops": strings.Join(s, "; "), "restarts": restarts}
		})
	})
}

func TestReplay(t *testing.T) {
	stats.RunReplay(t, map[string]func(json.RawMessage) error{
		"TestC03Restart": func(raw json.RawMessage) error {
			var c c03Case
			if err := json.Unmarshal(raw, &c); err != nil {
				return err
			}
			_, _, err := checkC03(c)
			return err
		},
	})
}
