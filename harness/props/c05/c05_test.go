// C05 — range and listing queries agree with point reads.
package c05

import (
	"archive/tar"
	"bytes"
	"encoding/json"
	"fmt"
	"io"
	"os"
	"sort"
	"strings"
	"testing"

	"github.com/janelia-flyem/dvid/datastore"
	"github.com/janelia-flyem/dvid/datatype/common/proto"
	"github.com/janelia-flyem/dvid/datatype/keyvalue"
	"github.com/janelia-flyem/dvid/dvid"
	"github.com/janelia-flyem/dvid/storage"
	pb "google.golang.org/protobuf/proto"
	"pgregory.net/rapid"

	"verif/drive"
	"verif/model"
	"verif/stats"
)

func TestMain(m *testing.M) {
	drive.Open()
	rc := m.Run()
	drive.Close()
	stats.Flush()
	os.Exit(rc)
}

// key universe built to stress boundaries (prefix-related, digits, case)
var universe = []string{"0", "B", "a", "a0", "aa", "aaa", "ab", "b", "z", "zz"}

// interval ends: universe plus keys that are never stored
var ends = []string{"0", "B", "a", "a0", "aa", "aaa", "ab", "b", "z", "zz", "A", "a1", "aab", "c", "zzz", "00"}

type histOp struct {
	Kind string `json:"kind"` // put del commit newversion branch merge delrange
	Node int    `json:"node"`
	Key  int    `json:"key"`
	Lo   int    `json:"lo,omitempty"`
	Hi   int    `json:"hi,omitempty"`
	Ps   []int  `json:"ps,omitempty"`
}

type query struct {
	Node int `json:"node"`
	Lo   int `json:"lo"`
	Hi   int `json:"hi"`
}

type histCase struct {
	Binary  bool     `json:"binary"` // arbitrary byte values (JSON variants skipped) instead of JSON values
	Ops     []histOp `json:"ops"`
	Queries []query  `json:"queries"`
}

type repo struct {
	root    string
	dag     *model.DAG
	uuid    []string
	version []dvid.VersionID
	locked  []bool
	branch  []string
	kids    map[int]map[string]bool
	entries []map[int]int    // key -> node -> kind
	vals    []map[int]string // key -> node -> value
	nbranch int
	data    datastore.DataService
	db      storage.OrderedKeyValueDB
}

func newRepo() (*repo, error) {
	root, err := drive.NewRepo()
	if err != nil {
		return nil, err
	}
	if err := drive.NewInstance(root, "keyvalue", "kv", nil); err != nil {
		return nil, err
	}
	m := &repo{root: root, dag: &model.DAG{}, kids: map[int]map[string]bool{}}
	m.dag.Add()
	m.uuid = []string{root}
	v, err := datastore.VersionFromUUID(dvid.UUID(root))
	if err != nil {
		return nil, err
	}
	m.version = []dvid.VersionID{v}
	m.locked = []bool{false}
	m.branch = []string{""}
	m.entries = make([]map[int]int, len(universe))
	m.vals = make([]map[int]string, len(universe))
	for k := range universe {
		m.entries[k] = map[int]int{}
		m.vals[k] = map[int]string{}
	}
	m.data, err = datastore.GetDataByUUIDName(dvid.UUID(root), "kv")
	if err != nil {
		return nil, err
	}
	m.db, err = datastore.GetOrderedKeyValueDB(m.data)
	return m, err
}

func (m *repo) addNode(uuid string, branch string, parents ...int) error {
	v, err := datastore.VersionFromUUID(dvid.UUID(uuid))
	if err != nil {
		return err
	}
	m.dag.Add(parents...)
	m.uuid = append(m.uuid, uuid)
	m.version = append(m.version, v)
	m.locked = append(m.locked, false)
	m.branch = append(m.branch, branch)
	return nil
}

func (m *repo) entryVec(key int) []int {
	out := make([]int, m.dag.N())
	for u, e := range m.entries[key] {
		out[u] = e
	}
	return out
}

func (m *repo) expect(key, v int) (string, string) {
	kind, at, _ := m.dag.Resolve(m.entryVec(key), v)
	if kind == model.Found {
		return kind, m.vals[key][at]
	}
	return kind, ""
}

func value(binary bool, i int) string {
	if !binary {
		return fmt.Sprintf(`{"v":%d}`, i)
	}
	switch i % 4 {
	case 0:
		return fmt.Sprintf("bin\x00\xff%d", i)
	case 1:
		return fmt.Sprintf("%d", i)
	case 2:
		return strings.Repeat("x", 100+i)
	}
	return fmt.Sprintf("v%d", i)
}

func (m *repo) apply(c histCase) error {
	for i, op := range c.Ops {
		n := m.dag.N()
		u := op.Node % n
		what := fmt.Sprintf("op %d %+v", i, op)
		switch op.Kind {
		case "put", "del":
			if m.locked[u] {
				continue // writes are only generated against open nodes; skip otherwise
			}
			key := op.Key % len(universe)
			url := fmt.Sprintf("node/%s/kv/key/%s", m.uuid[u], universe[key])
			var r drive.Resp
			val := value(c.Binary, i)
			if op.Kind == "put" {
				r = drive.Post(url, []byte(val))
			} else {
				r = drive.Delete(url)
			}
			if r.IsPanic() {
				return stats.Violf("C05/write/panic", "%s: %s", what, r)
			}
			if !r.OK() {
				return stats.Violf("C05/write/refused-on-open-node", "%s: %s", what, r)
			}
			if op.Kind == "put" {
				m.entries[key][u] = model.Value
				m.vals[key][u] = val
			} else {
				m.entries[key][u] = model.Tombstone
			}
		case "delrange":
			if m.locked[u] {
				continue
			}
			lo, hi := ends[op.Lo%len(ends)], ends[op.Hi%len(ends)]
			// snapshot of expectations before: keys visible at u in [lo,hi] become absent at u; conflicts make the call's outcome unspecified
			conflict := false
			for k, name := range universe {
				if name >= lo && name <= hi {
					if kind, _ := m.expect(k, u); kind == model.Conflict {
						conflict = true
					}
				}
			}
			if conflict {
				continue // domain: DeleteRange over an interval holding an unresolved merge conflict is not exercised
			}
			tlo, _ := keyvalue.NewTKey(lo)
			thi, _ := keyvalue.NewTKey(hi)
			ctx := datastore.NewVersionedCtx(m.data, m.version[u])
			if err := stats.PanicGuard("C05/DeleteRange/panic", func() error { return m.db.DeleteRange(ctx, tlo, thi) }); err != nil {
				return stats.Violf("C05/DeleteRange/error", "%s [%s,%s]: %v", what, lo, hi, err)
			}
			for k, name := range universe {
				if name >= lo && name <= hi {
					if kind, _ := m.expect(k, u); kind == model.Found {
						m.entries[k][u] = model.Tombstone
					}
				}
			}
			// exactly those keys absent at u and descendants, everything else unchanged: full point-read sweep
			if err := m.pointSweep(what + fmt.Sprintf(" DeleteRange[%s,%s]", lo, hi)); err != nil {
				return err
			}
		case "commit":
			if !m.locked[u] {
				if err := drive.Commit(m.uuid[u]); err != nil {
					return stats.Violf("C05/commit/refused", "%s: %v", what, err)
				}
				m.locked[u] = true
			}
		case "newversion", "branch":
			if !m.locked[u] {
				if err := drive.Commit(m.uuid[u]); err != nil {
					return stats.Violf("C05/commit/refused", "%s: %v", what, err)
				}
				m.locked[u] = true
			}
			if m.kids[u] == nil {
				m.kids[u] = map[string]bool{}
			}
			br := m.branch[u]
			var child string
			var err error
			if op.Kind == "newversion" && !m.kids[u][br] {
				child, err = drive.NewVersion(m.uuid[u])
			} else {
				m.nbranch++
				br = fmt.Sprintf("br%d", m.nbranch)
				child, err = drive.Branch(m.uuid[u], br)
			}
			if err != nil {
				return stats.Violf("C05/newversion/refused", "%s: %v", what, err)
			}
			m.kids[u][br] = true
			if err := m.addNode(child, br, u); err != nil {
				return err
			}
		case "merge":
			var committed []int
			for x, l := range m.locked {
				if l {
					committed = append(committed, x)
				}
			}
			var ps []int
			used := map[int]bool{}
			for _, p := range op.Ps {
				if len(committed) == 0 {
					break
				}
				x := committed[p%len(committed)]
				if !used[x] {
					used[x] = true
					ps = append(ps, x)
				}
			}
			if len(ps) < 2 {
				continue
			}
			var uu []string
			for _, p := range ps {
				uu = append(uu, m.uuid[p])
			}
			child, err := drive.Merge(m.root, uu)
			if err != nil {
				return stats.Violf("C05/merge/refused", "%s parents %v: %v", what, ps, err)
			}
			for _, p := range ps {
				if m.kids[p] == nil {
					m.kids[p] = map[string]bool{}
				}
				m.kids[p][""] = true
			}
			if err := m.addNode(child, "", ps...); err != nil {
				return err
			}
		}
	}
	return nil
}

// point reads of every (key, node) vs the model
func (m *repo) pointSweep(what string) error {
	for k := range universe {
		for v := 0; v < m.dag.N(); v++ {
			kind, val := m.expect(k, v)
			r := drive.Get(fmt.Sprintf("node/%s/kv/key/%s", m.uuid[v], universe[k]))
			desc := fmt.Sprintf("%s: key %q node %d dag=%v entries=%v model=%s %q response=%s", what, universe[k], v, m.dag.Parents, m.entryVec(k), kind, val, r)
			switch kind {
			case model.Found:
				if r.Code != 200 || string(r.Body) != val {
					return stats.Violf("C05/point-read/differs-from-model", "%s", desc)
				}
			case model.Absent:
				if r.Code != 404 {
					return stats.Violf("C05/point-read/differs-from-model", "%s", desc)
				}
			case model.Conflict:
				if r.Code == 200 {
					return stats.Violf("C05/point-read/succeeds-on-conflict", "%s", desc)
				}
			}
		}
	}
	return nil
}

type kvPair struct{ K, V string }

func (m *repo) checkQuery(c histCase, q query) (nontrivial bool, err error) {
	v := q.Node % m.dag.N()
	lo, hi := ends[q.Lo%len(ends)], ends[q.Hi%len(ends)]
	whole := q.Lo%7 == 6 // some queries cover the whole key space through the "keys" endpoint as well
	// expected = keys in [lo,hi] whose individual read finds a value (point reads through HTTP), cross-checked with the model
	var want []kvPair
	conflict := false
	present, absent := 0, 0
	for k, name := range universe {
		if name < lo || name > hi {
			continue
		}
		r := drive.Get(fmt.Sprintf("node/%s/kv/key/%s", m.uuid[v], name))
		kind, val := m.expect(k, v)
		switch kind {
		case model.Conflict:
			conflict = true
			if r.Code == 200 {
				return false, stats.Violf("C05/point-read/succeeds-on-conflict", "key %q node %d: %s", name, v, r)
			}
			continue
		case model.Found:
			if r.Code != 200 || string(r.Body) != val {
				return false, stats.Violf("C05/point-read/differs-from-model", "key %q node %d model=%q response=%s entries=%v dag=%v", name, v, val, r, m.entryVec(k), m.dag.Parents)
			}
			want = append(want, kvPair{name, val})
			present++
		case model.Absent:
			if r.Code != 404 {
				return false, stats.Violf("C05/point-read/differs-from-model", "key %q node %d model=absent response=%s entries=%v dag=%v", name, v, r, m.entryVec(k), m.dag.Parents)
			}
			if len(m.entries[k]) > 0 {
				absent++
			}
		}
	}
	hasBranch := false
	for _, ch := range m.dag.Children() {
		if len(ch) >= 2 {
			hasBranch = true
		}
	}
	nontrivial = present >= 1 && absent >= 1 && hasBranch
	desc := fmt.Sprintf("node %d interval [%q,%q] dag=%v", v, lo, hi, m.dag.Parents)
	cmp := func(sig string, got []kvPair, gotErr error, withValues bool) error {
		if gotErr != nil {
			if conflict {
				return nil // an interval holding an unresolved conflict may be refused
			}
			return stats.Violf(sig+"/error", "%s: %v", desc, gotErr)
		}
		var w []kvPair
		for _, p := range want {
			if withValues {
				w = append(w, p)
			} else {
				w = append(w, kvPair{p.K, ""})
			}
		}
		if len(got) != len(w) {
			return stats.Violf(sig+"/differs-from-point-reads", "%s: got %v want %v", desc, got, w)
		}
		for i := range got {
			if got[i] != w[i] {
				return stats.Violf(sig+"/differs-from-point-reads", "%s: got %v want %v (position %d; results must be ascending, once each)", desc, got, w, i)
			}
		}
		return nil
	}

	// ---- storage layer
	tlo, _ := keyvalue.NewTKey(lo)
	thi, _ := keyvalue.NewTKey(hi)
	ctx := datastore.NewVersionedCtx(m.data, m.version[v])
	decode := func(tk storage.TKey, val []byte, withVal bool) (kvPair, error) {
		k, err := keyvalue.DecodeTKey(tk)
		if err != nil {
			return kvPair{}, err
		}
		if !withVal {
			return kvPair{k, ""}, nil
		}
		raw, _, err := dvid.DeserializeData(val, true)
		return kvPair{k, string(raw)}, err
	}
	{
		var got []kvPair
		var gerr error
		if perr := stats.PanicGuard("C05/GetRange/panic", func() error {
			tkvs, err := m.db.GetRange(ctx, tlo, thi)
			gerr = err
			for _, tkv := range tkvs {
				p, err := decode(tkv.K, tkv.V, true)
				if err != nil {
					gerr = err
				}
				got = append(got, p)
			}
			return nil
		}); perr != nil {
			return false, perr
		}
		if err := cmp("C05/GetRange", got, gerr, true); err != nil {
			return false, err
		}
	}
	{
		var got []kvPair
		var gerr error
		if perr := stats.PanicGuard("C05/KeysInRange/panic", func() error {
			tks, err := m.db.KeysInRange(ctx, tlo, thi)
			gerr = err
			for _, tk := range tks {
				p, _ := decode(tk, nil, false)
				got = append(got, p)
			}
			return nil
		}); perr != nil {
			return false, perr
		}
		if err := cmp("C05/KeysInRange", got, gerr, false); err != nil {
			return false, err
		}
	}
	{
		var got []kvPair
		kch := make(storage.KeyChan, 64)
		done := make(chan error, 1)
		go func() { done <- m.db.SendKeysInRange(ctx, tlo, thi, kch) }()
		for k := range kch {
			if k == nil {
				break
			}
			tk, err := storage.TKeyFromKey(k)
			if err != nil {
				return false, stats.Violf("C05/SendKeysInRange/bad-key", "%v", err)
			}
			p, _ := decode(tk, nil, false)
			got = append(got, p)
		}
		gerr := <-done
		if err := cmp("C05/SendKeysInRange", got, gerr, false); err != nil {
			return false, err
		}
	}
	{
		var got []kvPair
		gerr := m.db.ProcessRange(ctx, tlo, thi, &storage.ChunkOp{}, func(c *storage.Chunk) error {
			p, err := decode(c.K, c.V, true)
			got = append(got, p)
			return err
		})
		if err := cmp("C05/ProcessRange", got, gerr, true); err != nil {
			return false, err
		}
	}

	// ---- HTTP
	httpErr := func(r drive.Resp) error {
		if r.IsPanic() {
			return fmt.Errorf("PANIC %s", r)
		}
		if !r.OK() {
			return fmt.Errorf("%s", r)
		}
		return nil
	}
	base := "node/" + m.uuid[v] + "/kv/"
	{
		r := drive.Get(base + "keyrange/" + lo + "/" + hi)
		if r.IsPanic() {
			return false, stats.Violf("C05/http-keyrange/panic", "%s", r)
		}
		var ks []string
		gerr := httpErr(r)
		if gerr == nil {
			gerr = json.Unmarshal(r.Body, &ks)
		}
		var got []kvPair
		for _, k := range ks {
			got = append(got, kvPair{k, ""})
		}
		if err := cmp("C05/http-keyrange", got, gerr, false); err != nil {
			return false, err
		}
	}
	if whole {
		// all keys of the instance at v vs point reads of the whole universe
		r := drive.Get(base + "keys")
		if r.IsPanic() {
			return false, stats.Violf("C05/http-keys/panic", "%s", r)
		}
		var ks []string
		gerr := httpErr(r)
		if gerr == nil {
			gerr = json.Unmarshal(r.Body, &ks)
		}
		var wantAll []string
		anyConflict := false
		for k, name := range universe {
			kind, _ := m.expect(k, v)
			if kind == model.Found {
				wantAll = append(wantAll, name)
			}
			if kind == model.Conflict {
				anyConflict = true
			}
		}
		if gerr != nil {
			if !anyConflict {
				return false, stats.Violf("C05/http-keys/error", "%s: %v", desc, gerr)
			}
		} else if strings.Join(ks, ",") != strings.Join(wantAll, ",") {
			return false, stats.Violf("C05/http-keys/differs-from-point-reads", "%s: got %v want %v", desc, ks, wantAll)
		}
	}
	{ // keyrangevalues protobuf (default)
		r := drive.Get(base + "keyrangevalues/" + lo + "/" + hi)
		if r.IsPanic() {
			return false, stats.Violf("C05/http-keyrangevalues-protobuf/panic", "%s", r)
		}
		gerr := httpErr(r)
		var got []kvPair
		if gerr == nil {
			var kvs proto.KeyValues
			gerr = pb.Unmarshal(r.Body, &kvs)
			for _, kv := range kvs.Kvs {
				got = append(got, kvPair{kv.Key, string(kv.Value)})
			}
		}
		if err := cmp("C05/http-keyrangevalues-protobuf", got, gerr, true); err != nil {
			return false, err
		}
	}
	{ // tar
		r := drive.Get(base + "keyrangevalues/" + lo + "/" + hi + "?tar=true")
		if r.IsPanic() {
			return false, stats.Violf("C05/http-keyrangevalues-tar/panic", "%s", r)
		}
		gerr := httpErr(r)
		var got []kvPair
		if gerr == nil {
			got, gerr = readTar(r.Body)
		}
		if conflict && gerr == nil {
			// streaming endpoint: an error after the stream started cannot change the status; output may be cut short
		} else if err := cmp("C05/http-keyrangevalues-tar", got, gerr, true); err != nil {
			return false, err
		}
	}
	if !c.Binary { // json
		r := drive.Get(base + "keyrangevalues/" + lo + "/" + hi + "?json=true")
		if r.IsPanic() {
			return false, stats.Violf("C05/http-keyrangevalues-json/panic", "%s", r)
		}
		gerr := httpErr(r)
		var got []kvPair
		if gerr == nil {
			got, gerr = readJSONObject(r.Body)
		}
		if conflict && gerr == nil {
		} else if err := cmp("C05/http-keyrangevalues-json", got, gerr, true); err != nil {
			return false, err
		}
	}
	// GET keyvalues with an explicit key list (keys of the universe inside the interval, present or not)
	var ask []string
	for _, name := range universe {
		if name >= lo && name <= hi {
			ask = append(ask, name)
		}
	}
	if len(ask) > 0 && !conflict {
		wantMap := map[string]string{}
		for _, p := range want {
			wantMap[p.K] = p.V
		}
		{
			body, _ := pb.Marshal(&proto.Keys{Keys: ask})
			r := drive.Do("GET", base+"keyvalues", body)
			if r.IsPanic() {
				return false, stats.Violf("C05/http-keyvalues-protobuf/panic", "%s", r)
			}
			if !r.OK() {
				return false, stats.Violf("C05/http-keyvalues-protobuf/error", "%s: %s", desc, r)
			}
			var kvs proto.KeyValues
			if err := pb.Unmarshal(r.Body, &kvs); err != nil {
				return false, stats.Violf("C05/http-keyvalues-protobuf/error", "%s: %v", desc, err)
			}
			if len(kvs.Kvs) != len(ask) {
				return false, stats.Violf("C05/http-keyvalues-protobuf/differs-from-point-reads", "%s: asked %v got %d entries", desc, ask, len(kvs.Kvs))
			}
			for i, kv := range kvs.Kvs {
				if kv.Key != ask[i] || string(kv.Value) != wantMap[ask[i]] {
					return false, stats.Violf("C05/http-keyvalues-protobuf/differs-from-point-reads", "%s: key %q got %q want %q", desc, ask[i], kv.Value, wantMap[ask[i]])
				}
			}
		}
		{
			body, _ := json.Marshal(ask)
			r := drive.Do("GET", base+"keyvalues?jsontar=true", body)
			if r.IsPanic() {
				return false, stats.Violf("C05/http-keyvalues-jsontar/panic", "%s", r)
			}
			if !r.OK() {
				return false, stats.Violf("C05/http-keyvalues-jsontar/error", "%s: %s", desc, r)
			}
			got, err := readTar(r.Body)
			if err != nil || len(got) != len(ask) {
				return false, stats.Violf("C05/http-keyvalues-jsontar/differs-from-point-reads", "%s: asked %v got %v (%v)", desc, ask, got, err)
			}
			for i, p := range got {
				if p.K != ask[i] || p.V != wantMap[ask[i]] {
					return false, stats.Violf("C05/http-keyvalues-jsontar/differs-from-point-reads", "%s: key %q got %q want %q", desc, ask[i], p.V, wantMap[ask[i]])
				}
			}
		}
		if !c.Binary {
			body, _ := json.Marshal(ask)
			r := drive.Do("GET", base+"keyvalues?json=true", body)
			if r.IsPanic() {
				return false, stats.Violf("C05/http-keyvalues-json/panic", "%s", r)
			}
			if !r.OK() {
				return false, stats.Violf("C05/http-keyvalues-json/error", "%s: %s", desc, r)
			}
			got, err := readJSONObject(r.Body)
			if err != nil || len(got) != len(ask) {
				return false, stats.Violf("C05/http-keyvalues-json/differs-from-point-reads", "%s: asked %v got %v (%v)", desc, ask, got, err)
			}
			for i, p := range got {
				w, ok := wantMap[ask[i]]
				if !ok {
					w = "{}" // documented: a key that is not found is returned with the "{}" value
				}
				if p.K != ask[i] || p.V != w {
					return false, stats.Violf("C05/http-keyvalues-json/differs-from-point-reads", "%s: key %q got %q want %q", desc, ask[i], p.V, w)
				}
			}
		}
	}
	return nontrivial, nil
}

func readTar(b []byte) ([]kvPair, error) {
	var out []kvPair
	tr := tar.NewReader(bytes.NewReader(b))
	for {
		h, err := tr.Next()
		if err == io.EOF {
			return out, nil
		}
		if err != nil {
			return out, err
		}
		v, err := io.ReadAll(tr)
		if err != nil {
			return out, err
		}
		out = append(out, kvPair{h.Name, string(v)})
	}
}

// readJSONObject returns the members of a JSON object in document order with raw values.
func readJSONObject(b []byte) ([]kvPair, error) {
	dec := json.NewDecoder(bytes.NewReader(b))
	tok, err := dec.Token()
	if err != nil {
		return nil, err
	}
	if d, ok := tok.(json.Delim); !ok || d != '{' {
		return nil, fmt.Errorf("not an object")
	}
	var out []kvPair
	for dec.More() {
		kt, err := dec.Token()
		if err != nil {
			return out, err
		}
		var raw json.RawMessage
		if err := dec.Decode(&raw); err != nil {
			return out, err
		}
		out = append(out, kvPair{kt.(string), string(raw)})
	}
	return out, nil
}

func checkHist(c histCase) (int, error) {
	m, err := newRepo()
	if err != nil {
		return 0, fmt.Errorf("setup: %v", err)
	}
	if err := m.apply(c); err != nil {
		return 0, err
	}
	nt := 0
	for _, q := range c.Queries {
		ok, err := m.checkQuery(c, q)
		if err != nil {
			return nt, err
		}
		if ok {
			nt++
		}
	}
	return nt, nil
}

func TestC05History(t *testing.T) {
	rapid.Check(t, func(t *rapid.T) {
		c := histCase{Binary: rapid.IntRange(0, 3).Draw(t, "binary") == 0}
		nops := rapid.IntRange(4, 36).Draw(t, "nops")
		for i := 0; i < nops; i++ {
			op := histOp{
				Kind: rapid.SampledFrom([]string{"put", "put", "put", "put", "del", "del", "commit", "newversion", "newversion", "branch", "branch", "merge", "delrange"}).Draw(t, "kind"),
				Node: rapid.IntRange(0, 7).Draw(t, "node"),
				Key:  rapid.IntRange(0, len(universe)-1).Draw(t, "key"),
			}
			// bias writes towards the newest nodes (they are the open ones): Node counts back from the end
			if op.Kind == "merge" {
				for j := rapid.IntRange(2, 3).Draw(t, "k"); j > 0; j-- {
					op.Ps = append(op.Ps, rapid.IntRange(0, 7).Draw(t, "p"))
				}
			}
			if op.Kind == "delrange" {
				op.Lo = rapid.IntRange(0, len(ends)-1).Draw(t, "lo")
				op.Hi = rapid.IntRange(0, len(ends)-1).Draw(t, "hi")
			}
			c.Ops = append(c.Ops, op)
		}
		nq := rapid.IntRange(2, 8).Draw(t, "nq")
		for i := 0; i < nq; i++ {
			c.Queries = append(c.Queries, query{Node: rapid.IntRange(0, 9).Draw(t, "qn"), Lo: rapid.IntRange(0, len(ends)-1).Draw(t, "qlo"), Hi: rapid.IntRange(0, len(ends)-1).Draw(t, "qhi")})
		}
		stats.SetCur("C05", "TestC05History", c)
		nt, err := checkHist(c)
		if !stats.Judge(t, "C05", "TestC05History", err, c) {
			return
		}
		cls := []string{"hist"}
		if c.Binary {
			cls = append(cls, "hist/binary-values")
		}
		for _, op := range c.Ops {
			if op.Kind == "delrange" {
				cls = append(cls, "hist/delrange")
				break
			}
		}
		for _, op := range c.Ops {
			if op.Kind == "merge" {
				cls = append(cls, "hist/merge")
				break
			}
		}
		for _, q := range c.Queries {
			if ends[q.Lo%len(ends)] > ends[q.Hi%len(ends)] {
				cls = append(cls, "hist/query-lo>hi")
				break
			}
		}
		stats.Count("nontrivial_queries", int64(nt))
		stats.Record(stats.HashJSON(c), nt > 0, cls, func() interface{} {
			var s []string
			for _, op := range c.Ops {
				s = append(s, fmt.Sprintf("%s n%d k%d %d-%d %v", op.Kind, op.Node, op.Key, op.Lo, op.Hi, op.Ps))
			}
			return map[string]interface{}{"test": "history", "binary": c.Binary, "ops": strings.Join(s, "; "), "queries": c.Queries}
		})
	})
}

// ---------------------------------------------------------------- bulk DeleteRange around the store's batch size

type bulkCase struct {
	N      int  `json:"n"`       // keys written at the root
	Lo     int  `json:"lo"`      // DeleteRange over keys [Lo, Hi] (indices)
	Hi     int  `json:"hi"`
	Mid    bool `json:"mid"`     // delete at a grandchild instead of the child
	PreDel int  `json:"pre_del"` // a key already deleted in the child before (index modulo N)
}

func bulkKey(i int) string { return fmt.Sprintf("k%06d", i) }

func checkBulk(c bulkCase) error {
	d := &model.DAG{}
	d.Add()
	d.Add(0)    // 1 child
	d.Add(0)    // 2 sibling
	d.Add(1)    // 3 grandchild
	b, err := drive.BuildDAG(d)
	if err != nil {
		return fmt.Errorf("build: %v", err)
	}
	data, err := b.NewData("keyvalue", "kv", nil)
	if err != nil {
		return err
	}
	db, err := datastore.GetOrderedKeyValueDB(data)
	if err != nil {
		return err
	}
	ctx := func(v int) *datastore.VersionedCtx { return datastore.NewVersionedCtx(data, b.Version[v]) }
	batcher := db.(storage.KeyValueBatcher)
	bt := batcher.NewBatch(ctx(0))
	for i := 0; i < c.N; i++ {
		tk, _ := keyvalue.NewTKey(bulkKey(i))
		bt.Put(tk, []byte(bulkKey(i)))
		if (i+1)%500 == 0 {
			if err := bt.Commit(); err != nil {
				return err
			}
			bt = batcher.NewBatch(ctx(0))
		}
	}
	if err := bt.Commit(); err != nil {
		return err
	}
	pre := c.PreDel % c.N
	tkPre, _ := keyvalue.NewTKey(bulkKey(pre))
	if err := db.Delete(ctx(1), tkPre); err != nil {
		return err
	}
	at := 1
	if c.Mid {
		at = 3
	}
	lo, hi := c.Lo%c.N, c.Hi%c.N
	if lo > hi {
		lo, hi = hi, lo
	}
	tlo, _ := keyvalue.NewTKey(bulkKey(lo))
	thi, _ := keyvalue.NewTKey(bulkKey(hi))
	if err := stats.PanicGuard("C05/DeleteRange/panic", func() error { return db.DeleteRange(ctx(at), tlo, thi) }); err != nil {
		return stats.Violf("C05/DeleteRange/error", "n=%d [%d,%d] at node %d: %v", c.N, lo, hi, at, err)
	}
	// expectations
	present := func(v, i int) bool {
		switch v {
		case 0, 2:
			return true
		case 1:
			if i == pre {
				return false
			}
			return !(at == 1 && i >= lo && i <= hi)
		default: // 3
			if i == pre {
				return false
			}
			return !(i >= lo && i <= hi)
		}
	}
	all0, _ := keyvalue.NewTKey(bulkKey(0))
	allN, _ := keyvalue.NewTKey(bulkKey(c.N))
	for v := 0; v < 4; v++ {
		tks, err := db.KeysInRange(ctx(v), all0, allN)
		if err != nil {
			return stats.Violf("C05/KeysInRange/error", "node %d: %v", v, err)
		}
		var want []string
		for i := 0; i < c.N; i++ {
			if present(v, i) {
				want = append(want, bulkKey(i))
			}
		}
		var got []string
		for _, tk := range tks {
			k, _ := keyvalue.DecodeTKey(tk)
			got = append(got, k)
		}
		if len(got) != len(want) {
			return stats.Violf("C05/DeleteRange/wrong-keys-deleted", "n=%d DeleteRange[%d,%d] at node %d: node %d lists %d keys, want %d (%s)", c.N, lo, hi, at, v, len(got), len(want), firstDiff(got, want))
		}
		for i := range got {
			if got[i] != want[i] {
				return stats.Violf("C05/DeleteRange/wrong-keys-deleted", "n=%d DeleteRange[%d,%d] at node %d: node %d %s", c.N, lo, hi, at, v, firstDiff(got, want))
			}
		}
		// point reads at the interval edges
		for _, i := range []int{lo - 1, lo, hi, hi + 1, pre} {
			if i < 0 || i >= c.N {
				continue
			}
			tk, _ := keyvalue.NewTKey(bulkKey(i))
			val, err := db.Get(ctx(v), tk)
			if err != nil {
				return stats.Violf("C05/Get/error", "%v", err)
			}
			if (val != nil) != present(v, i) {
				return stats.Violf("C05/DeleteRange/point-read-disagrees", "n=%d DeleteRange[%d,%d] at node %d: key %d at node %d present=%v want %v", c.N, lo, hi, at, i, v, val != nil, present(v, i))
			}
		}
	}
	return nil
}

func firstDiff(got, want []string) string {
	gs, ws := map[string]bool{}, map[string]bool{}
	for _, g := range got {
		gs[g] = true
	}
	for _, w := range want {
		ws[w] = true
	}
	var extra, missing []string
	for _, g := range got {
		if !ws[g] {
			extra = append(extra, g)
		}
	}
	for _, w := range want {
		if !gs[w] {
			missing = append(missing, w)
		}
	}
	sort.Strings(extra)
	sort.Strings(missing)
	if len(extra) > 4 {
		extra = extra[:4]
	}
	if len(missing) > 4 {
		missing = missing[:4]
	}
	return fmt.Sprintf("still listed though deleted: %v; missing though never deleted: %v", extra, missing)
}

func TestC05BulkDeleteRange(t *testing.T) {
	rapid.Check(t, func(t *rapid.T) {
		// the number of keys inside the deleted interval is steered to the store's internal batch size (1000) and its multiples
		span := rapid.SampledFrom([]int{1, 2, 3, 17, 998, 999, 1000, 1001, 1002, 1999, 2000, 2001, 3000}).Draw(t, "span")
		lo := rapid.IntRange(0, 40).Draw(t, "lo")
		tailn := rapid.IntRange(0, 40).Draw(t, "tail")
		c := bulkCase{N: lo + span + tailn, Lo: lo, Hi: lo + span - 1, Mid: rapid.Bool().Draw(t, "mid")}
		switch rapid.IntRange(0, 2).Draw(t, "prek") {
		case 0:
			c.PreDel = rapid.IntRange(0, c.N-1).Draw(t, "pre")
		case 1:
			c.PreDel = c.Lo + rapid.IntRange(0, span-1).Draw(t, "prein")
		default:
			c.PreDel = c.Hi
		}
		stats.SetCur("C05", "TestC05BulkDeleteRange", c)
		if !stats.Judge(t, "C05", "TestC05BulkDeleteRange", checkBulk(c), c) {
			return
		}
		cls := []string{"bulk"}
		if span%1000 == 0 {
			cls = append(cls, "bulk/span-multiple-of-batch")
		}
		if c.PreDel >= c.Lo && c.PreDel <= c.Hi {
			cls = append(cls, "bulk/predeleted-key-inside-range")
		}
		stats.Record(stats.HashJSON(c), span >= 2, cls, func() interface{} { return map[string]interface{}{"test": "bulk-delete-range", "case": c} })
	})
}

func TestReplay(t *testing.T) {
	stats.RunReplay(t, map[string]func(json.RawMessage) error{
		"TestC05History": func(raw json.RawMessage) error {
			var c histCase
			if err := json.Unmarshal(raw, &c); err != nil {
				return err
			}
			_, err := checkHist(c)
			return err
		},
		"TestC05BulkDeleteRange": func(raw json.RawMessage) error {
			var c bulkCase
			if err := json.Unmarshal(raw, &c); err != nil {
				return err
			}
			return checkBulk(c)
		},
	})
}
