// C08 — label indices, voxels and mappings stay consistent under proofreading.
package c08

import (
	"encoding/json"
	"fmt"
	"os"
	"sort"
	"strings"
	"testing"

	"pgregory.net/rapid"

	"verif/drive"
	"verif/lmdrive"
	"verif/model"
	"verif/stats"
)

func TestMain(m *testing.M) {
	drive.Open()
	rc := m.Run()
	drive.Close()
	stats.Flush()
	os.Exit(rc)
}

// ------------------------------------------------------------------ case

type box struct {
	Off  [3]int32 `json:"off"`  // relative to the extent origin, voxels
	Size [3]int32 `json:"size"` // voxels
	SV   int      `json:"sv"`   // palette index
}

type lop struct {
	Kind  string  `json:"kind"` // ingest mutate merge cleave splitsv renumber commit newversion branch
	Node  int     `json:"node"`
	A     int     `json:"a,omitempty"`
	B     int     `json:"b,omitempty"`
	N     int     `json:"n,omitempty"`
	Via   int     `json:"via,omitempty"` // ingest path: 0 POST raw, 1 POST blocks
	BBox  [6]int32 `json:"bbox,omitempty"` // block-unit box (off xyz, size xyz) for ingest/mutate; voxel box for split shapes
	Paint []box   `json:"paint,omitempty"`
	Shape int     `json:"shape,omitempty"` // split shape kind
	Given bool    `json:"given,omitempty"` // split-supervoxel with caller-provided split/remain ids
}

type c08Case struct {
	Origin  [3]int32 `json:"origin"`  // origin block coordinate of the extent
	Palette []uint64 `json:"palette"` // supervoxel ids used by paints
	Canvas  []box    `json:"canvas"`  // initial layout painted over background
	Ops     []lop    `json:"ops"`
}

var nb = [3]int32{3, 2, 2}

const blockEdge = 16

func (c c08Case) geom() model.LabelGeom {
	return model.LabelGeom{B: blockEdge, OB: c.Origin, NB: nb}
}

func paint(g model.LabelGeom, arr []uint64, boxes []box, pal []uint64) {
	s := g.Size()
	for _, b := range boxes {
		for z := b.Off[2]; z < b.Off[2]+b.Size[2] && z < s[2]; z++ {
			for y := b.Off[1]; y < b.Off[1]+b.Size[1] && y < s[1]; y++ {
				for x := b.Off[0]; x < b.Off[0]+b.Size[0] && x < s[0]; x++ {
					if x < 0 || y < 0 || z < 0 {
						continue
					}
					arr[int(z)*int(s[1])*int(s[0])+int(y)*int(s[0])+int(x)] = pal[b.SV%len(pal)]
				}
			}
		}
	}
}

// ------------------------------------------------------------------ machine

type vnode struct {
	uuid   string
	locked bool
	parent int
	branch string
	st     *model.LabelState
}

type machine struct {
	c      c08Case
	g      model.LabelGeom
	lm     lmdrive.LM
	root   string
	nodes  []*vnode
	kids   map[int]map[string]bool
	nbr    int
	canvas []uint64
	// ids handed out by the server in this case (for freshness: never equal to anything seen before)
	issued map[uint64]bool
	applied map[string]int
}

func newMachine(c c08Case) (*machine, error) {
	g := c.geom()
	root, err := drive.NewRepo()
	if err != nil {
		return nil, err
	}
	if err := drive.NewInstance(root, "labelmap", "lm", map[string]string{"BlockSize": fmt.Sprintf("%d,%d,%d", blockEdge, blockEdge, blockEdge)}); err != nil {
		return nil, err
	}
	m := &machine{c: c, g: g, lm: lmdrive.LM{Name: "lm", G: g}, root: root, kids: map[int]map[string]bool{}, issued: map[uint64]bool{}, applied: map[string]int{}}
	m.nodes = []*vnode{{uuid: root, parent: -1, st: model.NewLabelState(g)}}
	m.canvas = make([]uint64, g.NVox())
	paint(g, m.canvas, c.Canvas, c.Palette)
	return m, nil
}

// ni resolves a node operand: the sentinel latestNode means the most recently created node, else modulo.
const latestNode = 1<<20 - 1

func (m *machine) ni(node int) int {
	if node >= latestNode {
		return len(m.nodes) - 1
	}
	return node % len(m.nodes)
}

func (m *machine) region(bb [6]int32) (off, size [3]int32, blocks [][3]int32) {
	// bb in block units relative to the extent origin, clipped to the extent
	var bo, bs [3]int32
	for a := 0; a < 3; a++ {
		bo[a] = bb[a] % nb[a]
		if bo[a] < 0 {
			bo[a] += nb[a]
		}
		bs[a] = 1 + bb[a+3]%nb[a]
		if bs[a] < 1 {
			bs[a] = 1
		}
		if bo[a]+bs[a] > nb[a] {
			bs[a] = nb[a] - bo[a]
		}
		off[a] = (m.g.OB[a] + bo[a]) * m.g.B
		size[a] = bs[a] * m.g.B
	}
	for z := int32(0); z < bs[2]; z++ {
		for y := int32(0); y < bs[1]; y++ {
			for x := int32(0); x < bs[0]; x++ {
				blocks = append(blocks, [3]int32{m.g.OB[0] + bo[0] + x, m.g.OB[1] + bo[1] + y, m.g.OB[2] + bo[2] + z})
			}
		}
	}
	return
}

func (m *machine) extract(arr []uint64, off, size [3]int32) []uint64 {
	out := make([]uint64, 0, int(size[0])*int(size[1])*int(size[2]))
	for z := off[2]; z < off[2]+size[2]; z++ {
		for y := off[1]; y < off[1]+size[1]; y++ {
			for x := off[0]; x < off[0]+size[0]; x++ {
				i, _ := m.g.Idx(x, y, z)
				out = append(out, arr[i])
			}
		}
	}
	return out
}

func sortedKeys(m map[uint64]uint64) []uint64 {
	var out []uint64
	for k := range m {
		out = append(out, k)
	}
	sort.Slice(out, func(i, j int) bool { return out[i] < out[j] })
	return out
}

// apply executes one op against the server and the model.  Returns a violation or nil.
func (m *machine) apply(i int, o lop) error {
	ni := m.ni(o.Node)
	n := m.nodes[ni]
	what := fmt.Sprintf("op %d %s at node %d", i, o.Kind, ni)
	bad := func(r drive.Resp, sig string) error {
		if r.IsPanic() {
			return stats.Violf("C08/"+o.Kind+"/panic", "%s: %s", what, r)
		}
		return nil
	}
	switch o.Kind {
	case "commit":
		if !n.locked {
			if err := drive.Commit(n.uuid); err != nil {
				return stats.Violf("C08/commit/refused", "%s: %v", what, err)
			}
			n.locked = true
		}
		return nil
	case "newversion", "branch":
		if !n.locked {
			if err := drive.Commit(n.uuid); err != nil {
				return stats.Violf("C08/commit/refused", "%s: %v", what, err)
			}
			n.locked = true
		}
		if m.kids[ni] == nil {
			m.kids[ni] = map[string]bool{}
		}
		br := n.branch
		var child string
		var err error
		if o.Kind == "newversion" && !m.kids[ni][br] {
			child, err = drive.NewVersion(n.uuid)
		} else {
			m.nbr++
			br = fmt.Sprintf("br%d", m.nbr)
			child, err = drive.Branch(n.uuid, br)
		}
		if err != nil {
			return stats.Violf("C08/newversion/refused", "%s: %v", what, err)
		}
		m.kids[ni][br] = true
		m.nodes = append(m.nodes, &vnode{uuid: child, parent: ni, branch: br, st: n.st.Clone()})
		m.applied["version"]++
		return nil
	}
	if n.locked {
		return nil // mutations are only generated against open nodes
	}
	switch o.Kind {
	case "ingest", "mutate":
		off, size, blocks := m.region(o.BBox)
		anyWritten, allWritten := false, true
		for _, b := range blocks {
			if n.st.Wr[b] {
				anyWritten = true
			} else {
				allWritten = false
			}
		}
		if o.Kind == "ingest" {
			if anyWritten {
				return nil // ingest only onto unwritten blocks
			}
			vox := m.extract(m.canvas, off, size)
			var r drive.Resp
			if o.Via == 1 {
				var data [][]uint64
				for _, b := range blocks {
					bo := [3]int32{b[0] * m.g.B, b[1] * m.g.B, b[2] * m.g.B}
					data = append(data, m.extract(m.canvas, bo, [3]int32{m.g.B, m.g.B, m.g.B}))
				}
				var err error
				r, err = m.lm.PostBlocks(n.uuid, blocks, data, "")
				if err != nil {
					return nil // harness-side encoder refused (C09's subject)
				}
			} else {
				r = m.lm.PostRaw(n.uuid, off, size, vox, false)
			}
			if err := bad(r, ""); err != nil {
				return err
			}
			if !r.OK() {
				return stats.Violf("C08/ingest/refused", "%s off %v size %v via %d: %s", what, off, size, o.Via, r)
			}
			n.st.Write(off, size, vox)
			m.applied["ingest"]++
			return nil
		}
		if !allWritten {
			return nil // mutate only over written blocks
		}
		cur := n.st.Clone()
		// paint new boxes (relative to the region) with palette ids that already exist in the palette
		var shifted []box
		for _, b := range o.Paint {
			nbx := b
			for a := 0; a < 3; a++ {
				nbx.Off[a] = (off[a] - m.g.Offset()[a]) + b.Off[a]%size[a]
				if nbx.Size[a] > size[a] {
					nbx.Size[a] = size[a]
				}
			}
			shifted = append(shifted, nbx)
		}
		arr := append([]uint64(nil), cur.SV...)
		paint(m.g, arr, shifted, m.c.Palette)
		// keep the paint inside the region: copy only the region back
		vox := m.extract(arr, off, size)
		// domain: a supervoxel id that no longer exists (it was split) must not be re-introduced by a write
		for _, v := range vox {
			if b, ok := n.st.Map[v]; ok && b == 0 && v != 0 {
				return nil
			}
		}
		r := m.lm.PostRaw(n.uuid, off, size, vox, true)
		if err := bad(r, ""); err != nil {
			return err
		}
		if !r.OK() {
			return stats.Violf("C08/mutate/refused", "%s off %v size %v: %s", what, off, size, r)
		}
		n.st.Write(off, size, vox)
		m.applied["mutate"]++
	case "merge":
		bodies := sortedKeys(n.st.Bodies())
		if len(bodies) < 2 {
			return nil
		}
		target := bodies[o.A%len(bodies)]
		var merged []uint64
		k := 1 + o.N%3
		for j := 0; j < k; j++ {
			b := bodies[(o.B+j)%len(bodies)]
			dup := b == target
			for _, x := range merged {
				if x == b {
					dup = true
				}
			}
			if !dup {
				merged = append(merged, b)
			}
		}
		if len(merged) == 0 {
			return nil
		}
		_, r := m.lm.Merge(n.uuid, target, merged)
		if err := bad(r, ""); err != nil {
			return err
		}
		if !r.OK() {
			return stats.Violf("C08/merge/refused", "%s target %d merged %v: %s", what, target, merged, r)
		}
		n.st.Merge(target, merged)
		m.applied["merge"]++
	case "cleave":
		bodies := sortedKeys(n.st.Bodies())
		if len(bodies) == 0 {
			return nil
		}
		body := bodies[o.A%len(bodies)]
		svs := n.st.SupervoxelsOf(body)
		if len(svs) < 2 {
			return nil // cleaving every supervoxel is a documented 400
		}
		k := 1 + o.N%(len(svs)-1)
		var pick []uint64
		for j := 0; j < k; j++ {
			pick = append(pick, svs[(o.B+j)%len(svs)])
		}
		pick = uniq(pick)
		if len(pick) >= len(svs) {
			return nil
		}
		resp, r := m.lm.Cleave(n.uuid, body, pick)
		if err := bad(r, ""); err != nil {
			return err
		}
		if !r.OK() {
			return stats.Violf("C08/cleave/refused", "%s body %d svs %v: %s", what, body, pick, r)
		}
		if err := m.fresh(n, resp.CleavedLabel, what+" CleavedLabel"); err != nil {
			return err
		}
		n.st.Cleave(resp.CleavedLabel, pick)
		m.applied["cleave"]++
	case "renumber":
		bodies := sortedKeys(n.st.Bodies())
		if len(bodies) == 0 {
			return nil
		}
		old := bodies[o.A%len(bodies)]
		// documented way to obtain an unused label: POST nextlabel/1
		rr := drive.Post("node/"+n.uuid+"/lm/nextlabel/1", nil)
		var nl struct{ Start, End uint64 }
		if !rr.OK() || json.Unmarshal(rr.Body, &nl) != nil {
			return stats.Violf("C08/nextlabel/refused", "%s: %s", what, rr)
		}
		if err := m.fresh(n, nl.Start, what+" nextlabel"); err != nil {
			return err
		}
		r := m.lm.Renumber(n.uuid, nl.Start, old)
		if err := bad(r, ""); err != nil {
			return err
		}
		if !r.OK() {
			return stats.Violf("C08/renumber/refused", "%s %d -> %d: %s", what, old, nl.Start, r)
		}
		n.st.Renumber(nl.Start, old)
		m.applied["renumber"]++
	case "splitsv":
		counts := n.st.SVCounts()
		svs := sortedKeys(counts)
		if len(svs) == 0 {
			return nil
		}
		sv := svs[o.A%len(svs)]
		in := m.splitShape(n.st, sv, o)
		if len(in) == 0 || len(in) >= int(counts[sv]) {
			return nil // the split must be a non-empty proper part of the supervoxel
		}
		runs := lmdrive.RunsOf(m.g, in)
		q := ""
		if o.Given {
			rr := drive.Post("node/"+n.uuid+"/lm/nextlabel/2", nil)
			var nl struct{ Start, End uint64 }
			if !rr.OK() || json.Unmarshal(rr.Body, &nl) != nil || nl.End != nl.Start+1 {
				return stats.Violf("C08/nextlabel/refused", "%s: %s", what, rr)
			}
			if err := m.fresh(n, nl.Start, what+" nextlabel"); err != nil {
				return err
			}
			if err := m.fresh(n, nl.End, what+" nextlabel"); err != nil {
				return err
			}
			q = fmt.Sprintf("?split=%d&remain=%d", nl.Start, nl.End)
		}
		resp, r := m.lm.SplitSupervoxel(n.uuid, sv, runs, q)
		if err := bad(r, ""); err != nil {
			return err
		}
		if !r.OK() {
			return stats.Violf("C08/split-supervoxel/refused", "%s sv %d with %d voxels of %d (%d runs): %s", what, sv, len(in), counts[sv], len(runs), r)
		}
		if !o.Given {
			if err := m.fresh(n, resp.SplitSupervoxel, what+" SplitSupervoxel"); err != nil {
				return err
			}
			if err := m.fresh(n, resp.RemainSupervoxel, what+" RemainSupervoxel"); err != nil {
				return err
			}
		}
		if resp.SplitSupervoxel == resp.RemainSupervoxel || resp.SplitSupervoxel == 0 || resp.RemainSupervoxel == 0 {
			return stats.Violf("C08/split-supervoxel/bad-ids", "%s: split %d remain %d", what, resp.SplitSupervoxel, resp.RemainSupervoxel)
		}
		n.st.SplitSupervoxel(sv, resp.SplitSupervoxel, resp.RemainSupervoxel, in)
		m.applied["splitsv"]++
	}
	return nil
}

func uniq(v []uint64) []uint64 {
	sort.Slice(v, func(i, j int) bool { return v[i] < v[j] })
	var out []uint64
	for i, x := range v {
		if i == 0 || x != v[i-1] {
			out = append(out, x)
		}
	}
	return out
}

// fresh: a server-chosen id must not be present anywhere in any version's voxels or mapping, nor issued before.
func (m *machine) fresh(n *vnode, id uint64, what string) error {
	if id == 0 {
		return stats.Violf("C08/new-id/zero", "%s returned 0", what)
	}
	if m.issued[id] {
		return stats.Violf("C08/new-id/issued-twice", "%s: id %d was handed out before in this history", what, id)
	}
	for vi, v := range m.nodes {
		for _, sv := range v.st.SV {
			if sv == id {
				return stats.Violf("C08/new-id/collides-with-stored-label", "%s: id %d is a supervoxel stored at node %d", what, id, vi)
			}
		}
		for sv, b := range v.st.Map {
			if sv == id || b == id {
				return stats.Violf("C08/new-id/collides-with-mapped-label", "%s: id %d appears in the mapping of node %d", what, id, vi)
			}
		}
	}
	m.issued[id] = true
	return nil
}

// splitShape returns the voxel indices of sv selected by the op's shape.
func (m *machine) splitShape(st *model.LabelState, sv uint64, o lop) map[int]bool {
	var mine []int
	for i, v := range st.SV {
		if v == sv {
			mine = append(mine, i)
		}
	}
	in := map[int]bool{}
	if len(mine) == 0 {
		return in
	}
	switch o.Shape % 5 {
	case 0: // single voxel
		in[mine[o.B%len(mine)]] = true
	case 1: // first k voxels in scan order (runs crossing rows / sub-blocks)
		k := 1 + o.N%len(mine)
		for _, i := range mine[:k] {
			in[i] = true
		}
	case 2: // everything inside one block
		blk := m.g.BlockOf(mine[o.B%len(mine)])
		for _, i := range mine {
			if m.g.BlockOf(i) == blk {
				in[i] = true
			}
		}
	case 3: // half-space x < cut
		x0, _, _ := m.g.Coord(mine[o.B%len(mine)])
		for _, i := range mine {
			if x, _, _ := m.g.Coord(i); x <= x0 {
				in[i] = true
			}
		}
	case 4: // every other voxel (many single-voxel runs)
		for j, i := range mine {
			if j%2 == o.B%2 {
				in[i] = true
			}
		}
	}
	return in
}

// ------------------------------------------------------------------ oracle

type digest struct {
	SV, Mapped []uint64
	Sizes      map[uint64]uint64
}

func (m *machine) readDigest(n *vnode) (*digest, error) {
	sv, r := m.lm.GetRaw(n.uuid, m.g.Offset(), m.g.Size(), true, 0)
	if sv == nil {
		return nil, fmt.Errorf("raw supervoxels: %s", r)
	}
	mp, r := m.lm.GetRaw(n.uuid, m.g.Offset(), m.g.Size(), false, 0)
	if mp == nil {
		return nil, fmt.Errorf("raw mapped: %s", r)
	}
	d := &digest{SV: sv, Mapped: mp, Sizes: map[uint64]uint64{}}
	bodies := map[uint64]bool{}
	for _, b := range mp {
		if b != 0 {
			bodies[b] = true
		}
	}
	var bl []uint64
	for b := range bodies {
		bl = append(bl, b)
	}
	sort.Slice(bl, func(i, j int) bool { return bl[i] < bl[j] })
	if len(bl) > 0 {
		sz, r := m.lm.Sizes(n.uuid, bl, false)
		if sz == nil || len(sz) != len(bl) {
			return nil, fmt.Errorf("sizes: %s", r)
		}
		for i, b := range bl {
			d.Sizes[b] = sz[i]
		}
	}
	return d, nil
}

func eqU64(a, b []uint64) int {
	if len(a) != len(b) {
		return -2
	}
	for i := range a {
		if a[i] != b[i] {
			return i
		}
	}
	return -1
}

// checkLite: stored voxels and mapped voxels of a version against its model state.
func (m *machine) checkLite(vi int, what string) error {
	n := m.nodes[vi]
	d, err := m.readDigest(n)
	if err != nil {
		return stats.Violf("C08/read/failed", "%s at node %d: %v", what, vi, err)
	}
	if j := eqU64(d.SV, n.st.SV); j != -1 {
		x, y, z := m.g.Coord(max0(j))
		return stats.Violf("C08/isolation/other-version-voxels-changed", "%s: stored voxel (%d,%d,%d) of node %d reads %d, its own history gives %d", what, x, y, z, vi, at(d.SV, j), at(n.st.SV, j))
	}
	want := make([]uint64, len(n.st.SV))
	for i, sv := range n.st.SV {
		want[i] = n.st.Body(sv)
	}
	if j := eqU64(d.Mapped, want); j != -1 {
		x, y, z := m.g.Coord(max0(j))
		return stats.Violf("C08/isolation/other-version-bodies-changed", "%s: mapped voxel (%d,%d,%d) of node %d reads body %d, its own history gives %d (supervoxel %d)", what, x, y, z, vi, at(d.Mapped, j), at(want, j), at(n.st.SV, j))
	}
	ws := n.st.Bodies()
	for b, sz := range ws {
		if d.Sizes[b] != sz {
			return stats.Violf("C08/isolation/other-version-sizes-changed", "%s: body %d of node %d has size %d, its own history gives %d", what, b, vi, d.Sizes[b], sz)
		}
	}
	return nil
}

// checkVersion: model comparison + internal consistency of every read endpoint at node ni.
func (m *machine) checkVersion(ni int, what string) error {
	n := m.nodes[ni]
	uuid := n.uuid
	g := m.g
	ctx := fmt.Sprintf("%s, reading node %d", what, ni)
	// (a) stored voxels and mapping vs model
	S, r := m.lm.GetRaw(uuid, g.Offset(), g.Size(), true, 0)
	if r.IsPanic() {
		return stats.Violf("C08/raw/panic", "%s: %s", ctx, r)
	}
	if S == nil {
		return stats.Violf("C08/raw/read-failed", "%s: %s", ctx, r)
	}
	if i := eqU64(S, n.st.SV); i != -1 {
		x, y, z := g.Coord(max0(i))
		return stats.Violf("C08/model/stored-voxels-differ", "%s: voxel (%d,%d,%d) stores %d, model %d", ctx, x, y, z, at(S, i), at(n.st.SV, i))
	}
	svCount := map[uint64]uint64{}
	for _, s := range S {
		if s != 0 {
			svCount[s]++
		}
	}
	svs := sortedKeys(svCount)
	M := map[uint64]uint64{}
	if len(svs) > 0 {
		mp, r := m.lm.Mapping(uuid, svs)
		if r.IsPanic() {
			return stats.Violf("C08/mapping/panic", "%s: %s", ctx, r)
		}
		if mp == nil || len(mp) != len(svs) {
			return stats.Violf("C08/mapping/read-failed", "%s: %s", ctx, r)
		}
		for i, s := range svs {
			M[s] = mp[i]
			if mp[i] != n.st.Body(s) {
				return stats.Violf("C08/model/mapping-differs", "%s: supervoxel %d maps to %d, model %d", ctx, s, mp[i], n.st.Body(s))
			}
		}
	}
	// expected body volume from the server's own S and M
	want := make([]uint64, len(S))
	bodySize := map[uint64]uint64{}
	bodySVs := map[uint64]map[uint64]uint64{}
	for i, s := range S {
		if s != 0 {
			b := M[s]
			want[i] = b
			if b == 0 {
				return stats.Violf("C08/consistency/voxel-of-vanished-supervoxel", "%s: voxel %d holds supervoxel %d which maps to 0", ctx, i, s)
			}
			bodySize[b]++
			if bodySVs[b] == nil {
				bodySVs[b] = map[uint64]uint64{}
			}
			bodySVs[b][s]++
		}
	}
	// (c) mapped raw
	got, r := m.lm.GetRaw(uuid, g.Offset(), g.Size(), false, 0)
	if got == nil {
		return stats.Violf("C08/raw-mapped/read-failed", "%s: %s", ctx, r)
	}
	if i := eqU64(got, want); i != -1 {
		x, y, z := g.Coord(max0(i))
		return stats.Violf("C08/consistency/raw-mapped", "%s: voxel (%d,%d,%d) reads body %d, scan+mapping gives %d (supervoxel %d)", ctx, x, y, z, at(got, i), at(want, i), at(S, i))
	}
	// blocks, mapped and supervoxels
	for _, sup := range []bool{true, false} {
		blks, r, err := m.lm.GetBlocks(uuid, g.Offset(), g.Size(), sup, 0)
		if r.IsPanic() {
			return stats.Violf("C08/blocks/panic", "%s: %s", ctx, r)
		}
		if blks == nil || err != nil {
			return stats.Violf("C08/blocks/read-failed", "%s: %s %v", ctx, r, err)
		}
		ref := want
		if sup {
			ref = S
		}
		seen := map[[3]int32]bool{}
		for bc, vox := range blks {
			seen[bc] = true
			if len(vox) != int(g.B*g.B*g.B) {
				return stats.Violf("C08/consistency/blocks", "%s: block %v has %d voxels", ctx, bc, len(vox))
			}
			k := 0
			for z := bc[2] * g.B; z < (bc[2]+1)*g.B; z++ {
				for y := bc[1] * g.B; y < (bc[1]+1)*g.B; y++ {
					for x := bc[0] * g.B; x < (bc[0]+1)*g.B; x++ {
						i, ok := g.Idx(x, y, z)
						if !ok {
							return stats.Violf("C08/consistency/blocks", "%s: block %v outside the requested extent", ctx, bc)
						}
						if vox[k] != ref[i] {
							return stats.Violf("C08/consistency/blocks", "%s (supervoxels=%v): block %v voxel (%d,%d,%d) = %d, want %d", ctx, sup, bc, x, y, z, vox[k], ref[i])
						}
						k++
					}
				}
			}
		}
		// blocks not sent must be empty of labels
		for i, v := range ref {
			if v != 0 && !seen[g.BlockOf(i)] {
				return stats.Violf("C08/consistency/blocks", "%s (supervoxels=%v): block %v holds label %d but was not returned", ctx, sup, g.BlockOf(i), v)
			}
		}
	}
	bodies := sortedKeys(bodySize)
	// (d) per body
	if len(bodies) > 0 {
		sz, r := m.lm.Sizes(uuid, append(append([]uint64(nil), bodies...), 999999999), false)
		if sz == nil || len(sz) != len(bodies)+1 {
			return stats.Violf("C08/sizes/read-failed", "%s: %s", ctx, r)
		}
		for i, b := range bodies {
			if sz[i] != bodySize[b] {
				return stats.Violf("C08/consistency/sizes", "%s: body %d sizes says %d, scan %d", ctx, b, sz[i], bodySize[b])
			}
		}
		if sz[len(bodies)] != 0 {
			return stats.Violf("C08/consistency/sizes", "%s: non-existent label has size %d", ctx, sz[len(bodies)])
		}
		ssz, r := m.lm.Sizes(uuid, svs, true)
		if ssz == nil || len(ssz) != len(svs) {
			return stats.Violf("C08/sizes/read-failed", "%s: supervoxel sizes %s", ctx, r)
		}
		for i, s := range svs {
			if ssz[i] != svCount[s] {
				return stats.Violf("C08/consistency/sizes-supervoxels", "%s: supervoxel %d sizes says %d, scan %d", ctx, s, ssz[i], svCount[s])
			}
		}
	}
	for _, b := range bodies {
		if err := m.checkBody(uuid, ctx, b, S, M, bodySize[b], bodySVs[b]); err != nil {
			return err
		}
	}
	// labels that must not exist as bodies: merged-away / renumbered labels and an unused one
	ghosts := []uint64{777777777}
	for s, b := range M {
		if b != s && bodySize[s] == 0 {
			ghosts = append(ghosts, s)
		}
	}
	sort.Slice(ghosts, func(i, j int) bool { return ghosts[i] < ghosts[j] })
	if len(ghosts) > 3 {
		ghosts = ghosts[:3]
	}
	for _, gb := range ghosts {
		if v, ok, r := m.lm.Size(uuid, gb, false); ok && v != 0 {
			return stats.Violf("C08/consistency/size-of-nonexistent-body", "%s: label %d has no voxels by scan+mapping but size says %d (%s)", ctx, gb, v, r)
		}
		if svl, ok, _ := m.lm.Supervoxels(uuid, gb); ok && len(svl) > 0 {
			return stats.Violf("C08/consistency/supervoxels-of-nonexistent-body", "%s: label %d has no voxels but supervoxels lists %v", ctx, gb, svl)
		}
	}
	// (e) point lookups
	var pts [][3]int32
	step := len(S)/23 + 1
	for i := 0; i < len(S); i += step {
		x, y, z := g.Coord(i)
		pts = append(pts, [3]int32{x, y, z})
	}
	// plus one point on each body
	for _, b := range bodies {
		for i, w := range want {
			if w == b {
				x, y, z := g.Coord(i)
				pts = append(pts, [3]int32{x, y, z})
				break
			}
		}
	}
	for _, sup := range []bool{false, true} {
		ls, r := m.lm.Labels(uuid, pts, sup)
		if r.IsPanic() {
			return stats.Violf("C08/labels/panic", "%s: %s", ctx, r)
		}
		if ls == nil || len(ls) != len(pts) {
			return stats.Violf("C08/labels/read-failed", "%s: %s", ctx, r)
		}
		for j, p := range pts {
			i, _ := g.Idx(p[0], p[1], p[2])
			w := want[i]
			if sup {
				w = S[i]
			}
			if ls[j] != w {
				return stats.Violf("C08/consistency/labels", "%s (supervoxels=%v): point %v -> %d, want %d", ctx, sup, p, ls[j], w)
			}
		}
	}
	for j := 0; j < len(pts) && j < 4; j++ {
		p := pts[len(pts)-1-j]
		i, _ := g.Idx(p[0], p[1], p[2])
		l, r := m.lm.Label(uuid, p, false)
		if !r.OK() || l != want[i] {
			return stats.Violf("C08/consistency/label-at-point", "%s: point %v -> %d (%s), want %d", ctx, p, l, r, want[i])
		}
	}
	// (g) listings
	ll, order, r := m.lm.ListLabels(uuid)
	if r.IsPanic() {
		return stats.Violf("C08/listlabels/panic", "%s: %s", ctx, r)
	}
	if ll == nil {
		return stats.Violf("C08/listlabels/read-failed", "%s: %s", ctx, r)
	}
	for b, s := range bodySize {
		if ll[b] != s {
			return stats.Violf("C08/consistency/listlabels", "%s: body %d listed with size %d, scan %d", ctx, b, ll[b], s)
		}
	}
	for b, s := range ll {
		if bodySize[b] == 0 && s != 0 {
			return stats.Violf("C08/consistency/listlabels", "%s: label %d listed with size %d but has no voxels", ctx, b, s)
		}
	}
	for i := 1; i < len(order); i++ {
		if order[i] <= order[i-1] {
			return stats.Violf("C08/consistency/listlabels-order", "%s: %d after %d", ctx, order[i], order[i-1])
		}
	}
	ex, r := m.lm.ExistingLabels(uuid)
	if ex == nil && len(bodies) > 0 {
		return stats.Violf("C08/existing-labels/read-failed", "%s: %s", ctx, r)
	}
	exset := map[uint64]bool{}
	for _, e := range ex {
		exset[e] = true
	}
	for _, b := range bodies {
		if !exset[b] {
			return stats.Violf("C08/consistency/existing-labels", "%s: body %d (size %d) missing from existing-labels %v", ctx, b, bodySize[b], ex)
		}
	}
	for _, e := range ex {
		if bodySize[e] == 0 {
			// an index with zero voxels may linger; only flag when it claims voxels
			if v, ok, _ := m.lm.Size(uuid, e, false); ok && v != 0 {
				return stats.Violf("C08/consistency/existing-labels", "%s: label %d listed as existing with size %d but has no voxels", ctx, e, v)
			}
		}
	}
	// maxlabel / nextlabel are repo-wide allocation state, not versioned content: checked by C12
	return nil
}

func max0(i int) int {
	if i < 0 {
		return 0
	}
	return i
}

func at(v []uint64, i int) uint64 {
	if i < 0 || i >= len(v) {
		return 0
	}
	return v[i]
}

func (m *machine) checkBody(uuid, ctx string, b uint64, S []uint64, M map[uint64]uint64, size uint64, svs map[uint64]uint64) error {
	g := m.g
	v, ok, r := m.lm.Size(uuid, b, false)
	if r.IsPanic() {
		return stats.Violf("C08/size/panic", "%s: %s", ctx, r)
	}
	if !ok || v != size {
		return stats.Violf("C08/consistency/size", "%s: body %d size says %d (exists %v, %s), scan %d", ctx, b, v, ok, r, size)
	}
	var svl []uint64
	for s := range svs {
		svl = append(svl, s)
	}
	sort.Slice(svl, func(i, j int) bool { return svl[i] < svl[j] })
	gs, ok, r := m.lm.Supervoxels(uuid, b)
	if !ok || eqU64(gs, svl) != -1 {
		return stats.Violf("C08/consistency/supervoxels", "%s: body %d supervoxels %v (%s), scan %v", ctx, b, gs, r, svl)
	}
	ss, ok, r := m.lm.SupervoxelSizes(uuid, b)
	if !ok || len(ss) != len(svs) {
		return stats.Violf("C08/consistency/supervoxel-sizes", "%s: body %d supervoxel-sizes %v (%s), scan %v", ctx, b, ss, r, svs)
	}
	for s, c := range svs {
		if ss[s] != c {
			return stats.Violf("C08/consistency/supervoxel-sizes", "%s: body %d supervoxel %d size %d, scan %d", ctx, b, s, ss[s], c)
		}
	}
	// per-block per-supervoxel counts
	wantIdx := map[[3]int32]map[uint64]uint32{}
	voxset := map[[3]int32]bool{}
	for i, s := range S {
		if s != 0 && M[s] == b {
			bc := g.BlockOf(i)
			if wantIdx[bc] == nil {
				wantIdx[bc] = map[uint64]uint32{}
			}
			wantIdx[bc][s]++
			x, y, z := g.Coord(i)
			voxset[[3]int32{x, y, z}] = true
		}
	}
	idx, ok, r, err := m.lm.Index(uuid, b)
	if r.IsPanic() {
		return stats.Violf("C08/index/panic", "%s: %s", ctx, r)
	}
	if err != nil || !ok {
		return stats.Violf("C08/consistency/index", "%s: body %d index unreadable (%s, %v)", ctx, b, r, err)
	}
	if len(idx) != len(wantIdx) {
		return stats.Violf("C08/consistency/index", "%s: body %d index has %d blocks, scan %d (index %v, scan %v)", ctx, b, len(idx), len(wantIdx), idx, wantIdx)
	}
	for bc, wm := range wantIdx {
		gm := idx[bc]
		if len(gm) != len(wm) {
			return stats.Violf("C08/consistency/index", "%s: body %d block %v index %v, scan %v", ctx, b, bc, gm, wm)
		}
		for s, c := range wm {
			if gm[s] != c {
				return stats.Violf("C08/consistency/index", "%s: body %d block %v supervoxel %d count %d, scan %d", ctx, b, bc, s, gm[s], c)
			}
		}
	}
	// sparsevol-size
	svz, ok, r := m.lm.SparsevolSize(uuid, b, false)
	if !ok || svz.Voxels != size || svz.NumBlocks != uint64(len(wantIdx)) {
		return stats.Violf("C08/consistency/sparsevol-size", "%s: body %d sparsevol-size %+v (%s), scan voxels %d blocks %d", ctx, b, svz, r, size, len(wantIdx))
	}
	var mn, mx [3]int32
	first := true
	for bc := range wantIdx {
		for a := 0; a < 3; a++ {
			lo, hi := bc[a]*g.B, (bc[a]+1)*g.B-1
			if first || lo < mn[a] {
				mn[a] = lo
			}
			if first || hi > mx[a] {
				mx[a] = hi
			}
		}
		first = false
	}
	if svz.MinVoxel != mn || svz.MaxVoxel != mx {
		return stats.Violf("C08/consistency/sparsevol-size-bounds", "%s: body %d bounds %v..%v, scan (block accurate) %v..%v", ctx, b, svz.MinVoxel, svz.MaxVoxel, mn, mx)
	}
	// sparse volumes
	for _, format := range []string{"rles", "srles"} {
		runs, ok, r, err := m.lm.Sparsevol(uuid, b, format, false, "")
		if r.IsPanic() {
			return stats.Violf(m.negSig("C08/sparsevol-"+format+"/panic"), "%s: body %d: %s", ctx, b, r)
		}
		if err != nil || !ok {
			return stats.Violf(m.negSig("C08/consistency/sparsevol-"+format), "%s: body %d unreadable (%s, %v)", ctx, b, r, err)
		}
		got := map[[3]int32]bool{}
		for _, rn := range runs {
			if rn.N < 1 {
				return stats.Violf(m.negSig("C08/consistency/sparsevol-"+format), "%s: body %d empty run %+v", ctx, b, rn)
			}
			for k := int32(0); k < rn.N; k++ {
				p := [3]int32{rn.X + k, rn.Y, rn.Z}
				if got[p] {
					return stats.Violf(m.negSig("C08/consistency/sparsevol-"+format), "%s: body %d voxel %v covered twice", ctx, b, p)
				}
				got[p] = true
			}
		}
		if why := cmpVoxSets(got, voxset); why != "" {
			return stats.Violf(m.negSig("C08/consistency/sparsevol-"+format), "%s: body %d: %s (%d voxels returned, scan %d)", ctx, b, why, len(got), len(voxset))
		}
	}
	gotB, ok, r, err := m.lm.SparsevolBlocks(uuid, b, false)
	if r.IsPanic() {
		return stats.Violf(m.negSig("C08/sparsevol-blocks/panic"), "%s: body %d: %s", ctx, b, r)
	}
	if err != nil || !ok {
		return stats.Violf(m.negSig("C08/consistency/sparsevol-blocks"), "%s: body %d unreadable (%s, %v)", ctx, b, r, err)
	}
	if why := cmpVoxSets(gotB, voxset); why != "" {
		return stats.Violf(m.negSig("C08/consistency/sparsevol-blocks"), "%s: body %d: %s (%d voxels returned, scan %d)", ctx, b, why, len(gotB), len(voxset))
	}
	cruns, ok, r, err := m.lm.SparsevolCoarse(uuid, b, false)
	if r.IsPanic() {
		return stats.Violf("C08/sparsevol-coarse/panic", "%s: body %d: %s", ctx, b, r)
	}
	if err != nil || !ok {
		return stats.Violf("C08/consistency/sparsevol-coarse", "%s: body %d unreadable (%s, %v)", ctx, b, r, err)
	}
	gotC := map[[3]int32]bool{}
	for _, rn := range cruns {
		for k := int32(0); k < rn.N; k++ {
			gotC[[3]int32{rn.X + k, rn.Y, rn.Z}] = true
		}
	}
	wantC := map[[3]int32]bool{}
	for bc := range wantIdx {
		wantC[bc] = true
	}
	if why := cmpVoxSets(gotC, wantC); why != "" {
		return stats.Violf("C08/consistency/sparsevol-coarse", "%s: body %d blocks: %s", ctx, b, why)
	}
	return nil
}

func (m *machine) negSig(sig string) string {
	if m.c.Origin[0] < 0 || m.c.Origin[1] < 0 || m.c.Origin[2] < 0 {
		return sig + "/negative-coords"
	}
	return sig
}

func cmpVoxSets(got, want map[[3]int32]bool) string {
	for p := range want {
		if !got[p] {
			return fmt.Sprintf("%v missing", p)
		}
	}
	for p := range got {
		if !want[p] {
			return fmt.Sprintf("%v returned but not part of the body", p)
		}
	}
	return ""
}

// ------------------------------------------------------------------ property

func checkC08(c c08Case) (map[string]int, error) {
	m, err := newMachine(c)
	if err != nil {
		return nil, fmt.Errorf("setup: %v", err)
	}
	for i, o := range c.Ops {
		ni := m.ni(o.Node)
		mutating := o.Kind != "commit" && o.Kind != "newversion" && o.Kind != "branch"
		if err := m.apply(i, o); err != nil {
			return m.applied, err
		}
		if !mutating {
			continue
		}
		what := fmt.Sprintf("after op %d %s(node %d)", i, o.Kind, ni)
		err := drive.WithDeepRetry(m.root, func() error { return m.checkVersion(ni, what) })
		if err != nil {
			return m.applied, err
		}
		// O3 (isolation): every other version must still read exactly as its model state, which the op did not touch.
		// No pre-read is taken, so a version may be read here for the first time after a descendant was mutated.
		for vi := range m.nodes {
			if vi == ni {
				continue
			}
			vi := vi
			if err := drive.WithDeepRetry(m.root, func() error { return m.checkLite(vi, what) }); err != nil {
				return m.applied, err
			}
		}
	}
	// final: every version in full
	for vi := range m.nodes {
		vi := vi
		if err := drive.WithDeepRetry(m.root, func() error { return m.checkVersion(vi, "final sweep") }); err != nil {
			return m.applied, err
		}
	}
	if drive.PanicResponses > 0 {
		// handled per response; counter kept for evidence
	}
	return m.applied, nil
}

func genBox(t *rapid.T, g [3]int32, label string, npal int) box {
	var b box
	kind := rapid.IntRange(0, 3).Draw(t, label+"kind")
	for a := 0; a < 3; a++ {
		b.Off[a] = rapid.Int32Range(0, g[a]-1).Draw(t, label+"off")
		switch kind {
		case 0: // confined to a sub-block-ish
			b.Size[a] = rapid.Int32Range(1, 8).Draw(t, label+"sz")
		case 1: // medium, crossing sub-blocks
			b.Size[a] = rapid.Int32Range(4, 20).Draw(t, label+"sz")
		default: // large, spanning blocks
			b.Size[a] = rapid.Int32Range(10, g[a]).Draw(t, label+"sz")
		}
	}
	b.SV = rapid.IntRange(0, npal-1).Draw(t, label+"sv")
	return b
}

func genC08(t *rapid.T) c08Case {
	var c c08Case
	if stats.IsKnown("C08/negative-coords") {
		c.Origin = [3]int32{0, 0, 0}
	} else {
		c.Origin = rapid.SampledFrom([][3]int32{{0, 0, 0}, {0, 0, 0}, {1, 2, 3}, {-1, 0, 0}, {-1, -1, -1}, {-2, -1, 0}}).Draw(t, "origin")
	}
	np := rapid.IntRange(3, 10).Draw(t, "npal")
	base := rapid.SampledFrom([]uint64{1, 1, 1, 100, 1 << 32, 1 << 40}).Draw(t, "base")
	for i := 0; i < np; i++ {
		c.Palette = append(c.Palette, base+uint64(i)*uint64(rapid.IntRange(1, 3).Draw(t, "stride")))
	}
	c.Palette = uniq(c.Palette)
	ext := [3]int32{nb[0] * blockEdge, nb[1] * blockEdge, nb[2] * blockEdge}
	for i := rapid.IntRange(3, 12).Draw(t, "nboxes"); i > 0; i-- {
		c.Canvas = append(c.Canvas, genBox(t, ext, "cv", len(c.Palette)))
	}
	// make sure the largest palette id is part of the canvas so later writes never introduce ids above the label counter
	c.Canvas = append(c.Canvas, box{Off: [3]int32{0, 0, 0}, Size: [3]int32{2, 2, 2}, SV: len(c.Palette) - 1})
	// setup: ingest most of the extent at the root
	c.Ops = append(c.Ops, lop{Kind: "ingest", Node: 0, BBox: [6]int32{0, 0, 0, 2, 1, 1}, Via: rapid.IntRange(0, 1).Draw(t, "via0")})
	nops := rapid.IntRange(4, 18).Draw(t, "nops")
	kinds := []string{"ingest", "mutate", "mutate", "merge", "merge", "merge", "cleave", "cleave", "splitsv", "splitsv", "renumber", "commit", "newversion", "newversion", "branch"}
	for i := 0; i < nops; i++ {
		o := lop{Kind: rapid.SampledFrom(kinds).Draw(t, "kind")}
		// bias towards the newest node (open leaves)
		o.Node = rapid.SampledFrom([]int{0, 1, 2, 3, 4, 5, 6, 7}).Draw(t, "node")
		if rapid.IntRange(0, 2).Draw(t, "latest") > 0 {
			o.Node = -1
		}
		o.A = rapid.IntRange(0, 30).Draw(t, "a")
		o.B = rapid.IntRange(0, 5000).Draw(t, "b")
		o.N = rapid.IntRange(0, 3000).Draw(t, "n")
		switch o.Kind {
		case "ingest", "mutate":
			for a := 0; a < 6; a++ {
				o.BBox[a] = rapid.Int32Range(0, 2).Draw(t, "bb")
			}
			o.Via = rapid.IntRange(0, 1).Draw(t, "via")
			if o.Kind == "mutate" {
				for j := rapid.IntRange(1, 4).Draw(t, "npaint"); j > 0; j-- {
					o.Paint = append(o.Paint, genBox(t, ext, "mp", len(c.Palette)))
				}
			}
		case "splitsv":
			o.Shape = rapid.IntRange(0, 4).Draw(t, "shape")
			o.Given = rapid.Bool().Draw(t, "given")
		}
		c.Ops = append(c.Ops, o)
	}
	return c
}

func TestC08Machine(t *testing.T) {
	rapid.Check(t, func(t *rapid.T) {
		c := genC08(t)
		// resolve "latest node" markers deterministically: Node -1 means the most recently created node at execution time;
		// encode as a large sentinel that apply() maps through modulo on a growing list — so rewrite here into explicit form
		for i := range c.Ops {
			if c.Ops[i].Node < 0 {
				c.Ops[i].Node = latestNode
			}
		}
		stats.SetCur("C08", "TestC08Machine", c)
		applied, err := checkC08(c)
		if !stats.Judge(t, "C08", "TestC08Machine", err, c) {
			return
		}
		kinds := 0
		for _, k := range []string{"merge", "cleave", "splitsv", "renumber", "mutate"} {
			if applied[k] > 0 {
				kinds++
			}
		}
		cls := []string{"machine"}
		for k, v := range applied {
			if v > 0 {
				cls = append(cls, "applied/"+k)
			}
		}
		if c.Origin[0] < 0 || c.Origin[1] < 0 || c.Origin[2] < 0 {
			cls = append(cls, "negative-coords")
		}
		if c.Palette[0] >= 1<<32 {
			cls = append(cls, "labels>=2^32")
		}
		sort.Strings(cls)
		stats.Record(stats.HashJSON(c), kinds >= 2 && applied["version"] >= 1, cls, func() interface{} {
			var s []string
			for _, o := range c.Ops {
				s = append(s, fmt.Sprintf("%s@%d a%d b%d n%d", o.Kind, o.Node, o.A, o.B, o.N))
			}
			return map[string]interface{}{"test": "machine", "origin": c.Origin, "palette": c.Palette, "canvas_boxes": len(c.Canvas), "ops": strings.Join(s, "; "), "applied": applied}
		})
	})
}

func TestReplay(t *testing.T) {
	stats.RunReplay(t, map[string]func(json.RawMessage) error{
		"TestC08Machine": func(raw json.RawMessage) error {
			var c c08Case
			if err := json.Unmarshal(raw, &c); err != nil {
				return err
			}
			_, err := checkC08(c)
			return err
		},
	})
}
