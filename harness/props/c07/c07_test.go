// C07 — the version DAG stays well formed and identifiers stay unique.
package c07

import (
	"encoding/json"
	"fmt"
	"os"
	"reflect"
	"sort"
	"strings"
	"sync/atomic"
	"testing"
	"time"

	"github.com/janelia-flyem/dvid/datastore"
	"github.com/janelia-flyem/dvid/dvid"
	"github.com/janelia-flyem/dvid/server"
	"pgregory.net/rapid"

	"verif/drive"
	"verif/stats"
)

func TestMain(m *testing.M) {
	drive.Open()
	rc := m.Run()
	drive.Close()
	stats.Flush()
	os.Exit(rc)
}

// ------------------------------------------------------------ case

type pref struct {
	Kind int `json:"k"` // 0 committed node, 1 open node, 2 unknown uuid, 3 repeat previous, 4 node of another repo, 5 any node
	Idx  int `json:"i"`
}

type op struct {
	Kind string `json:"kind"` // newrepo commit newversion branch tag merge resolve note log newinstance rename delinstance delrepo
	Repo int    `json:"repo"`
	Node int    `json:"node"`
	Addr int    `json:"addr"` // 0 full uuid, 1 8-char prefix, 2 root:branch of the node's branch, 3 unknown uuid, 4 malformed, 5 empty-ish
	Name int    `json:"name"` // branch/tag/instance name kind
	UUID int    `json:"uuid"` // caller-assigned uuid kind: 0 none, 1 fresh valid, 2 existing node of this repo, 3 node of other repo, 4 malformed, 5 empty string
	Body int    `json:"body"` // 0 valid, 1 missing fields ({}), 2 wrong types, 3 empty body, 4 truncated JSON
	Ps   []pref `json:"ps,omitempty"`
	// Pool > 0 (branch, tag): the name comes from a pool of two release names shared by both kinds — a tag <name>
	// becomes a node on branch "tag-<name>", and a caller may also name a branch "tag-<name>" directly
	Pool int `json:"pool,omitempty"`
}

var relPool = []string{"rel-a", "rel-b"}

type c07Case struct {
	Ops []op `json:"ops"`
}

var uuidCounter uint64

func freshUUID() string {
	n := atomic.AddUint64(&uuidCounter, 1)
	return fmt.Sprintf("c07f%012x%016x", os.Getpid(), n)
}

// ------------------------------------------------------------ snapshot

type nodeSnap struct {
	UUID     string
	Version  int
	Branch   string
	Note     string
	Log      []string
	Locked   bool
	Parents  []int
	Children []int
}

type repoSnap struct {
	Root      string
	Alias     string
	Nodes     map[string]nodeSnap // by uuid
	Instances []string
}

type snapshot struct {
	Repos map[string]repoSnap // by root
	IDs   datastore.VerifIDState
}

func takeSnapshot() (*snapshot, error) {
	r := drive.Get("repos/info")
	if !r.OK() {
		return nil, fmt.Errorf("repos/info: %s", r)
	}
	var raw map[string]struct {
		Root          string
		Alias         string
		DataInstances map[string]json.RawMessage
		DAG           struct {
			Root  string
			Nodes map[string]struct {
				Branch    string
				Note      string
				Log       []string
				UUID      string
				VersionID int
				Locked    bool
				Parents   []int
				Children  []int
			}
		}
	}
	if err := json.Unmarshal(r.Body, &raw); err != nil {
		return nil, fmt.Errorf("repos/info json: %v", err)
	}
	s := &snapshot{Repos: map[string]repoSnap{}, IDs: datastore.VerifIDs()}
	for key, rr := range raw {
		rs := repoSnap{Root: rr.DAG.Root, Alias: rr.Alias, Nodes: map[string]nodeSnap{}}
		for name := range rr.DataInstances {
			rs.Instances = append(rs.Instances, name)
		}
		sort.Strings(rs.Instances)
		for u, n := range rr.DAG.Nodes {
			ps := append([]int(nil), n.Parents...)
			cs := append([]int(nil), n.Children...)
			rs.Nodes[u] = nodeSnap{UUID: n.UUID, Version: n.VersionID, Branch: n.Branch, Note: n.Note, Log: n.Log, Locked: n.Locked, Parents: ps, Children: cs}
		}
		if key != rr.Root || rr.Root != rr.DAG.Root {
			rs.Alias += fmt.Sprintf(" [key %s root %s dagroot %s]", key, rr.Root, rr.DAG.Root)
		}
		s.Repos[key] = rs
	}
	return s, nil
}

// metadata part compared across a rejected request
func (s *snapshot) comparable() interface{} {
	type cmpT struct {
		Repos         map[string]repoSnap
		UUIDToVersion map[dvid.UUID]dvid.VersionID
		VersionToUUID map[dvid.VersionID]dvid.UUID
		BranchToUUID  map[string]dvid.UUID
		RepoToUUID    map[dvid.RepoID]dvid.UUID
		ReposByUUID   map[dvid.UUID]dvid.UUID
	}
	return cmpT{s.Repos, s.IDs.UUIDToVersion, s.IDs.VersionToUUID, s.IDs.BranchToUUID, s.IDs.RepoToUUID, s.IDs.ReposByUUID}
}

func diffSnap(a, b *snapshot) string {
	var out []string
	for root, ra := range a.Repos {
		rb, ok := b.Repos[root]
		if !ok {
			out = append(out, "repo "+root+" disappeared")
			continue
		}
		for u, na := range ra.Nodes {
			nb, ok := rb.Nodes[u]
			if !ok {
				out = append(out, "node "+u+" disappeared")
			} else if !reflect.DeepEqual(na, nb) {
				out = append(out, fmt.Sprintf("node %s changed: %+v -> %+v", u, na, nb))
			}
		}
		for u, nb := range rb.Nodes {
			if _, ok := ra.Nodes[u]; !ok {
				out = append(out, fmt.Sprintf("node %s appeared: %+v", u, nb))
			}
		}
		if !reflect.DeepEqual(ra.Instances, rb.Instances) {
			out = append(out, fmt.Sprintf("instances %v -> %v", ra.Instances, rb.Instances))
		}
	}
	for root := range b.Repos {
		if _, ok := a.Repos[root]; !ok {
			out = append(out, "repo "+root+" appeared")
		}
	}
	if !reflect.DeepEqual(a.IDs.UUIDToVersion, b.IDs.UUIDToVersion) {
		out = append(out, fmt.Sprintf("uuid->version map changed (%d -> %d entries)%s", len(a.IDs.UUIDToVersion), len(b.IDs.UUIDToVersion), mapDiffUV(a.IDs.UUIDToVersion, b.IDs.UUIDToVersion)))
	}
	if !reflect.DeepEqual(a.IDs.VersionToUUID, b.IDs.VersionToUUID) {
		out = append(out, fmt.Sprintf("version->uuid map changed (%d -> %d entries)", len(a.IDs.VersionToUUID), len(b.IDs.VersionToUUID)))
	}
	if !reflect.DeepEqual(a.IDs.BranchToUUID, b.IDs.BranchToUUID) {
		out = append(out, fmt.Sprintf("branch heads changed: %v -> %v", a.IDs.BranchToUUID, b.IDs.BranchToUUID))
	}
	if !reflect.DeepEqual(a.IDs.RepoToUUID, b.IDs.RepoToUUID) {
		out = append(out, "repo id map changed")
	}
	if !reflect.DeepEqual(a.IDs.ReposByUUID, b.IDs.ReposByUUID) {
		out = append(out, fmt.Sprintf("uuid->repo filing changed (%d -> %d entries)", len(a.IDs.ReposByUUID), len(b.IDs.ReposByUUID)))
	}
	if len(out) > 6 {
		out = append(out[:6], "...")
	}
	return strings.Join(out, "; ")
}

func mapDiffUV(a, b map[dvid.UUID]dvid.VersionID) string {
	var out []string
	for k, v := range b {
		if av, ok := a[k]; !ok {
			out = append(out, fmt.Sprintf(" +%s=%d", k, v))
		} else if av != v {
			out = append(out, fmt.Sprintf(" %s:%d->%d", k, av, v))
		}
	}
	for k, v := range a {
		if _, ok := b[k]; !ok {
			out = append(out, fmt.Sprintf(" -%s=%d", k, v))
		}
	}
	sort.Strings(out)
	if len(out) > 4 {
		out = out[:4]
	}
	return strings.Join(out, "")
}

// ------------------------------------------------------------ invariants

func checkInvariants(s *snapshot, named map[string]map[string]bool) error {
	seenUUID := map[string]string{}
	seenVersion := map[int]string{}
	for root, r := range s.Repos {
		if strings.Contains(r.Alias, "[key ") {
			return stats.Violf("C07/invariant/repo-root-mismatch", "repo %s: %s", root, r.Alias)
		}
		byVersion := map[int]nodeSnap{}
		roots := 0
		for u, n := range r.Nodes {
			if n.UUID != u {
				return stats.Violf("C07/invariant/node-key-uuid-mismatch", "repo %s node keyed %s has UUID %s", root, u, n.UUID)
			}
			if prev, dup := seenUUID[u]; dup {
				return stats.Violf("C07/invariant/uuid-names-two-nodes", "uuid %s appears in repos %s and %s", u, prev, root)
			}
			seenUUID[u] = root
			if prev, dup := seenVersion[n.Version]; dup {
				return stats.Violf("C07/invariant/version-id-names-two-nodes", "version id %d used by %s and %s", n.Version, prev, u)
			}
			seenVersion[n.Version] = u
			byVersion[n.Version] = n
			if len(n.Parents) == 0 {
				roots++
				if u != r.Root {
					return stats.Violf("C07/invariant/second-root", "repo %s: node %s (version %d) has no parents but is not the root", root, u, n.Version)
				}
			}
			if got, ok := s.IDs.UUIDToVersion[dvid.UUID(u)]; !ok || int(got) != n.Version {
				return stats.Violf("C07/invariant/uuid-map-disagrees-with-dag", "node %s has version %d, uuid->version says %d (present %v)", u, n.Version, got, ok)
			}
			if got, ok := s.IDs.VersionToUUID[dvid.VersionID(n.Version)]; !ok || string(got) != u {
				return stats.Violf("C07/invariant/version-map-disagrees-with-dag", "version %d is node %s, version->uuid says %q (present %v)", n.Version, u, got, ok)
			}
			if got := s.IDs.ReposByUUID[dvid.UUID(u)]; string(got) != r.Root {
				return stats.Violf("C07/invariant/node-filed-under-wrong-repo", "node %s of repo %s is filed under repo %q", u, r.Root, got)
			}
		}
		if _, ok := r.Nodes[r.Root]; !ok || roots != 1 {
			return stats.Violf("C07/invariant/not-single-rooted", "repo %s has %d parentless nodes (root present %v)", root, roots, ok)
		}
		for u, n := range r.Nodes {
			seenP := map[int]bool{}
			for _, p := range n.Parents {
				pn, ok := byVersion[p]
				if !ok {
					return stats.Violf("C07/invariant/dangling-parent", "repo %s node %s parent version %d is not a node", root, u, p)
				}
				if seenP[p] {
					return stats.Violf("C07/invariant/repeated-parent", "repo %s node %s lists parent %d twice", root, u, p)
				}
				seenP[p] = true
				if !pn.Locked {
					return stats.Violf("C07/invariant/child-of-uncommitted-parent", "repo %s node %s hangs off uncommitted parent %s", root, u, pn.UUID)
				}
				found := false
				for _, c := range pn.Children {
					if c == n.Version {
						found = true
					}
				}
				if !found {
					return stats.Violf("C07/invariant/links-do-not-mirror", "repo %s node %s lists parent %s which does not list it as child", root, u, pn.UUID)
				}
			}
			seenC := map[int]bool{}
			for _, c := range n.Children {
				cn, ok := byVersion[c]
				if !ok {
					return stats.Violf("C07/invariant/dangling-child", "repo %s node %s child version %d is not a node", root, u, c)
				}
				if seenC[c] {
					return stats.Violf("C07/invariant/repeated-child", "repo %s node %s lists child %d twice", root, u, c)
				}
				seenC[c] = true
				found := false
				for _, p := range cn.Parents {
					if p == n.Version {
						found = true
					}
				}
				if !found {
					return stats.Violf("C07/invariant/links-do-not-mirror", "repo %s node %s lists child %s which does not list it as parent", root, u, cn.UUID)
				}
			}
		}
		// acyclic: DFS with colours
		colour := map[int]int{}
		var visit func(v int) bool
		visit = func(v int) bool {
			colour[v] = 1
			for _, p := range byVersion[v].Parents {
				if colour[p] == 1 {
					return false
				}
				if colour[p] == 0 {
					if _, ok := byVersion[p]; ok && !visit(p) {
						return false
					}
				}
			}
			colour[v] = 2
			return true
		}
		for v := range byVersion {
			if colour[v] == 0 && !visit(v) {
				return stats.Violf("C07/invariant/cycle", "repo %s has a cycle through version %d", root, v)
			}
		}
		// named branches created by branch requests: one linear chain with one head
		for name := range named[root] {
			var members []nodeSnap
			for _, n := range r.Nodes {
				if n.Branch == name {
					members = append(members, n)
				}
			}
			if len(members) == 0 {
				continue
			}
			heads, starts := 0, 0
			var head nodeSnap
			for _, n := range members {
				sameKids := 0
				for _, c := range n.Children {
					if byVersion[c].Branch == name {
						sameKids++
					}
				}
				if sameKids > 1 {
					return stats.Violf("C07/invariant/branch-forks", "repo %s branch %q: node %s has %d children on the same branch", root, name, n.UUID, sameKids)
				}
				if sameKids == 0 {
					heads++
					head = n
				}
				sameParents := 0
				for _, p := range n.Parents {
					if byVersion[p].Branch == name {
						sameParents++
					}
				}
				if sameParents == 0 {
					starts++
				}
			}
			if heads != 1 || starts != 1 {
				return stats.Violf("C07/invariant/branch-not-one-chain", "repo %s branch %q has %d heads and %d starting nodes", root, name, heads, starts)
			}
			if got := s.IDs.BranchToUUID[root+name]; string(got) != head.UUID {
				return stats.Violf("C07/invariant/branch-head-map-wrong", "repo %s branch %q: head is %s, uuid:branch resolves to %q", root, name, head.UUID, got)
			}
			if strings.ContainsAny(name, "/:~ ") {
				continue // such a name cannot be carried by the URL path / has addressing meaning; only the structural checks apply
			}
			rr := drive.Get("repo/" + root + "/branch-versions/" + name)
			if rr.IsPanic() {
				return stats.Violf("C07/branch-versions/panic", "%s", rr)
			}
			var chain []string
			if !rr.OK() || json.Unmarshal(rr.Body, &chain) != nil || len(chain) < len(members) {
				return stats.Violf("C07/branch-versions/wrong-chain", "repo %s branch %q (%d nodes): %s", root, name, len(members), rr)
			}
			cur := head
			for i := 0; i < len(members); i++ {
				if chain[i] != cur.UUID {
					return stats.Violf("C07/branch-versions/wrong-chain", "repo %s branch %q: position %d is %s, want %s", root, name, i, chain[i], cur.UUID)
				}
				for _, p := range cur.Parents {
					if byVersion[p].Branch == name {
						cur = byVersion[p]
					}
				}
			}
		}
	}
	// the two id maps are mutually inverse
	for u, v := range s.IDs.UUIDToVersion {
		if back, ok := s.IDs.VersionToUUID[v]; !ok || back != u {
			return stats.Violf("C07/invariant/id-maps-not-inverse", "uuid %s -> version %d -> uuid %q", u, v, back)
		}
		if _, ok := seenUUID[string(u)]; !ok {
			return stats.Violf("C07/invariant/id-map-entry-without-node", "uuid %s (version %d) is in the id maps but names no DAG node", u, v)
		}
	}
	for v, u := range s.IDs.VersionToUUID {
		if back, ok := s.IDs.UUIDToVersion[u]; !ok || back != v {
			return stats.Violf("C07/invariant/id-maps-not-inverse", "version %d -> uuid %s -> version %d", v, u, back)
		}
	}
	for u := range s.IDs.ReposByUUID {
		if _, ok := seenUUID[string(u)]; !ok {
			return stats.Violf("C07/invariant/repo-filing-entry-without-node", "uuid %s is filed under a repo but names no DAG node", u)
		}
	}
	return nil
}

// waitStable polls the instance lists of all repos until two consecutive reads 20 ms apart agree and no listed
// instance is still being deleted (bounded; only gives the server more time, never decides a verdict).
func waitStable() {
	prev := ""
	for i := 0; i < 1500; i++ {
		s, err := takeSnapshot()
		if err != nil {
			return
		}
		cur := ""
		for root, r := range s.Repos {
			cur += root + ":" + strings.Join(r.Instances, ",") + ";"
		}
		if cur == prev && i > 2 {
			return
		}
		prev = cur
		time.Sleep(20 * time.Millisecond)
	}
}

// ------------------------------------------------------------ execution

type world struct {
	roots []string                   // repos created by this case, in creation order (deleted ones removed)
	named map[string]map[string]bool // root -> branch names created through branch requests
	inst  map[string]int
}

func sortedNodes(r repoSnap) []nodeSnap {
	var ns []nodeSnap
	for _, n := range r.Nodes {
		ns = append(ns, n)
	}
	sort.Slice(ns, func(i, j int) bool { return ns[i].Version < ns[j].Version })
	return ns
}

func mutateBody(valid map[string]interface{}, kind int) []byte {
	switch kind {
	case 1:
		return []byte("{}")
	case 2:
		m := map[string]interface{}{}
		for k := range valid {
			m[k] = 12345
		}
		b, _ := json.Marshal(m)
		return b
	case 3:
		return nil
	case 4:
		b, _ := json.Marshal(valid)
		if len(b) > 3 {
			return b[:len(b)/2]
		}
		return b
	}
	b, _ := json.Marshal(valid)
	return b
}

func checkC07(c c07Case) (rejected int, grown int, err error) {
	w := &world{named: map[string]map[string]bool{}, inst: map[string]int{}}
	// start with one repo
	root, e := drive.NewRepo()
	if e != nil {
		return 0, 0, fmt.Errorf("setup: %v", e)
	}
	w.roots = append(w.roots, root)
	before, e := takeSnapshot()
	if e != nil {
		return 0, 0, e
	}
	baseRepos := map[string]bool{}
	for r := range before.Repos {
		baseRepos[r] = true
	}
	delete(baseRepos, root)
	defer func() {
		// clean up this case's repos so the server's maps stay small for later cases
		for _, r := range w.roots {
			server.VerifRPC("repos", "delete", r, "")
		}
	}()
	if err := checkInvariants(before, w.named); err != nil {
		return 0, 0, stats.Violf(stats.SigOf(err)+"/at-start", "%v", err)
	}
	for i, o := range c.Ops {
		if len(w.roots) == 0 {
			break
		}
		myRoot := w.roots[o.Repo%len(w.roots)]
		rs := before.Repos[myRoot]
		nodes := sortedNodes(rs)
		if len(nodes) == 0 {
			return rejected, grown, stats.Violf("C07/invariant/repo-without-nodes", "repo %s has no nodes before op %d", myRoot, i)
		}
		target := nodes[o.Node%len(nodes)]
		var otherNodes []nodeSnap
		for _, r := range w.roots {
			if r != myRoot {
				otherNodes = append(otherNodes, sortedNodes(before.Repos[r])...)
			}
		}
		if o.Kind == "reuse" { // composite: commit the target if needed, then a branch request re-using an existing branch name
			if !target.Locked {
				drive.Commit(target.UUID)
				if before, e = takeSnapshot(); e != nil {
					return rejected, grown, e
				}
			}
			o.Kind, o.Name, o.Addr, o.UUID, o.Body = "branch", 3+7*(o.Name%2), 0, 0, 0
		}
		if o.Kind == "grow" { // composite: commit the target if needed, then a plain branch request with a fresh name
			if !target.Locked {
				drive.Commit(target.UUID)
				if before, e = takeSnapshot(); e != nil {
					return rejected, grown, e
				}
			}
			o.Kind, o.Name, o.Addr, o.UUID, o.Body = "branch", 0, 0, 0, 0
			if o.Node%3 == 0 {
				o.Kind = "newversion"
			}
		}
		addr := target.UUID
		switch o.Addr {
		case 1:
			if len(target.UUID) >= 8 {
				addr = target.UUID[:8]
			}
		case 2:
			b := target.Branch
			if b == "" {
				b = "master"
			}
			addr = myRoot + ":" + b
		case 3:
			addr = "ffffffffffffffffffffffffffffffff"
		case 4:
			addr = "zz!"
		case 5:
			addr = ":"
		}
		assign := ""
		switch o.UUID {
		case 1:
			assign = freshUUID()
		case 2:
			assign = nodes[(o.Node+o.Name)%len(nodes)].UUID
		case 3:
			if len(otherNodes) > 0 {
				assign = otherNodes[o.Name%len(otherNodes)].UUID
			} else {
				assign = nodes[0].UUID
			}
		case 4:
			assign = "not-a-uuid"
		}
		pickParent := func(p pref, prev string) string {
			var committed, open []nodeSnap
			for _, n := range nodes {
				if n.Locked {
					committed = append(committed, n)
				} else {
					open = append(open, n)
				}
			}
			switch p.Kind {
			case 0:
				if len(committed) > 0 {
					return committed[p.Idx%len(committed)].UUID
				}
			case 1:
				if len(open) > 0 {
					return open[p.Idx%len(open)].UUID
				}
			case 2:
				return "eeeeeeeeeeeeeeeeeeeeeeeeeeeeeeee"
			case 3:
				if prev != "" {
					return prev
				}
			case 4:
				if len(otherNodes) > 0 {
					return otherNodes[p.Idx%len(otherNodes)].UUID
				}
			}
			return nodes[p.Idx%len(nodes)].UUID
		}
		var r drive.Resp
		var wantParents []string // for successful DAG-growing ops
		var wantBranch *string
		rpcErr := error(nil)
		usedRPC := false
		what := ""
		switch o.Kind {
		case "newrepo":
			valid := map[string]interface{}{"alias": fmt.Sprintf("c07-%d", i), "description": "d"}
			if assign != "" || o.UUID == 5 {
				valid["root"] = assign
			}
			r = drive.Post("repos", mutateBody(valid, o.Body))
			what = fmt.Sprintf("POST repos root=%q body=%d", assign, o.Body)
		case "commit":
			valid := map[string]interface{}{"note": "n", "log": []string{"l1"}}
			r = drive.Post("node/"+addr+"/commit", mutateBody(valid, o.Body))
			what = "POST node/" + addr + "/commit"
		case "newversion":
			valid := map[string]interface{}{"note": "nv"}
			if assign != "" || o.UUID == 5 {
				valid["uuid"] = assign
			}
			r = drive.Post("node/"+addr+"/newversion", mutateBody(valid, o.Body))
			what = fmt.Sprintf("POST node/%s/newversion uuid=%q body=%d", addr, assign, o.Body)
			wantParents = []string{target.UUID}
		case "branch":
			name := ""
			switch o.Name % 7 {
			case 0, 1, 2:
				name = fmt.Sprintf("br%d", i)
			case 3: // existing named branch of this repo (also names that only survive on inner nodes)
				var names []string
				for n := range w.named[myRoot] {
					names = append(names, n)
				}
				sort.Strings(names)
				if len(names) > 0 {
					name = names[(o.Node+o.Name/7)%len(names)]
				} else {
					name = fmt.Sprintf("br%d", i)
				}
			case 4:
				name = "master"
			case 5:
				name = ""
			case 6:
				name = "odd name/with:colon~1"
			}
			if o.Pool > 0 {
				name = "tag-" + relPool[(o.Pool-1)%len(relPool)]
			}
			valid := map[string]interface{}{"branch": name, "note": "b"}
			if assign != "" || o.UUID == 5 {
				valid["uuid"] = assign
			}
			r = drive.Post("node/"+addr+"/branch", mutateBody(valid, o.Body))
			what = fmt.Sprintf("POST node/%s/branch name=%q uuid=%q body=%d", addr, name, assign, o.Body)
			wantParents = []string{target.UUID}
			if o.Body == 0 {
				wantBranch = &name
			}
		case "tag":
			tag := ""
			switch o.Name % 5 {
			case 0, 1:
				tag = freshUUID()
			case 2:
				tag = nodes[(o.Node+1)%len(nodes)].UUID // equal to an existing UUID
			case 3:
				tag = fmt.Sprintf("v1.%d", i)
			case 4:
				tag = ""
			}
			if o.Pool > 0 {
				tag = relPool[(o.Pool-1)%len(relPool)]
			}
			valid := map[string]interface{}{"tag": tag, "note": "t"}
			r = drive.Post("node/"+addr+"/tag", mutateBody(valid, o.Body))
			what = fmt.Sprintf("POST node/%s/tag tag=%q body=%d", addr, tag, o.Body)
			wantParents = []string{target.UUID}
		case "merge", "resolve":
			var ps []string
			prev := ""
			for _, p := range o.Ps {
				u := pickParent(p, prev)
				ps = append(ps, u)
				prev = u
			}
			wantParents = ps
			if o.Kind == "merge" {
				valid := map[string]interface{}{"mergeType": "conflict-free", "parents": ps, "note": "m"}
				r = drive.Post("repo/"+myRoot+"/merge", mutateBody(valid, o.Body))
			} else {
				valid := map[string]interface{}{"data": []string{"kv"}, "parents": ps, "note": "r"}
				r = drive.Post("repo/"+myRoot+"/resolve", mutateBody(valid, o.Body))
			}
			what = fmt.Sprintf("POST repo/%s/%s parents=%v body=%d", myRoot, o.Kind, ps, o.Body)
		case "note":
			r = drive.Post("node/"+addr+"/note", mutateBody(map[string]interface{}{"note": fmt.Sprintf("note%d", i)}, o.Body))
			what = "POST node/" + addr + "/note"
		case "log":
			r = drive.Post("node/"+addr+"/log", mutateBody(map[string]interface{}{"log": []string{fmt.Sprintf("log%d", i)}}, o.Body))
			what = "POST node/" + addr + "/log"
		case "newinstance":
			name := "kv"
			if o.Name%3 != 0 {
				w.inst[myRoot]++
				name = fmt.Sprintf("kv%d", w.inst[myRoot])
			}
			r = drive.Post("repo/"+addr+"/instance", mutateBody(map[string]interface{}{"typename": "keyvalue", "dataname": name}, o.Body))
			what = "POST repo/" + addr + "/instance " + name
		case "rename":
			usedRPC = true
			from, to := "kv", fmt.Sprintf("ren%d", i)
			if len(rs.Instances) > 0 {
				from = rs.Instances[o.Name%len(rs.Instances)]
			}
			if o.Name%4 == 3 && len(rs.Instances) > 0 {
				to = rs.Instances[0]
			}
			_, rpcErr = server.VerifRPC("repo", addr, "rename", from, to, "")
			what = fmt.Sprintf("rpc repo %s rename %s %s", addr, from, to)
		case "delinstance":
			usedRPC = true
			name := "nosuch"
			if len(rs.Instances) > 0 && o.Name%4 != 3 {
				name = rs.Instances[o.Name%len(rs.Instances)]
			}
			_, rpcErr = server.VerifRPC("repo", addr, "delete", name, "")
			what = fmt.Sprintf("rpc repo %s delete %s", addr, name)
		case "delrepo":
			usedRPC = true
			_, rpcErr = server.VerifRPC("repos", "delete", addr, "")
			what = "rpc repos delete " + addr
		}
		if r.IsPanic() {
			return rejected, grown, stats.Violf("C07/"+o.Kind+"/panic", "op %d %s: %s", i, what, r)
		}
		ok := r.OK()
		if usedRPC {
			ok = rpcErr == nil
		}
		if (o.Kind == "delinstance" || o.Kind == "delrepo") && ok {
			// instance deletion finishes in the background (the instance leaves the repo's list when its keys are purged):
			// wait for the listing to become stable before the snapshot so the lag is not attributed to a later request
			waitStable()
		}
		after, e := takeSnapshot()
		if e != nil {
			return rejected, grown, stats.Violf("C07/repos-info/unreadable-after-request", "op %d %s: %v", i, what, e)
		}
		// track repos created / deleted by this case
		for rr := range after.Repos {
			if _, had := before.Repos[rr]; !had && !baseRepos[rr] {
				w.roots = append(w.roots, rr)
			}
		}
		var still []string
		for _, rr := range w.roots {
			if _, has := after.Repos[rr]; has {
				still = append(still, rr)
			}
		}
		w.roots = still
		desc := fmt.Sprintf("op %d %s -> %s (rpc err %v)", i, what, r, rpcErr)
		if !ok {
			rejected++
			if !reflect.DeepEqual(before.comparable(), after.comparable()) {
				return rejected, grown, stats.Violf("C07/"+o.Kind+"/rejected-request-changed-state", "%s: %s", desc, diffSnap(before, after))
			}
		} else {
			switch o.Kind {
			case "newversion", "branch", "merge", "tag", "resolve":
				// merge / resolve act on the repo that holds their first parent, whatever repo the URL names
				// (repo_local.go merge(): m.repos[parents[0]]); the statement asks for a well-formed graph, not for
				// a particular repo, so the new node is looked for where the code puts it
				effRoot := myRoot
				if (o.Kind == "merge" || o.Kind == "resolve") && len(wantParents) > 0 {
					for root, rs := range before.Repos {
						if _, has := rs.Nodes[wantParents[0]]; has {
							effRoot = root
						}
					}
				}
				var added []nodeSnap
				for u, n := range after.Repos[effRoot].Nodes {
					if _, had := before.Repos[effRoot].Nodes[u]; !had {
						added = append(added, n)
					}
				}
				minNew := 1
				if o.Kind == "resolve" {
					// resolve may add deletion nodes under parents besides the merge node
					if len(added) < 1 {
						return rejected, grown, stats.Violf("C07/resolve/accepted-without-new-node", "%s", desc)
					}
				} else if len(added) != minNew {
					return rejected, grown, stats.Violf("C07/"+o.Kind+"/accepted-but-not-exactly-one-new-node", "%s: %d new nodes", desc, len(added))
				}
				if o.Kind != "resolve" {
					n := added[0]
					byV := map[int]string{}
					for u, x := range after.Repos[effRoot].Nodes {
						byV[x.Version] = u
					}
					var gotP []string
					for _, p := range n.Parents {
						gotP = append(gotP, byV[p])
					}
					wp := append([]string(nil), wantParents...)
					if o.Addr != 0 && o.Kind != "merge" {
						wp = nil // the address was not the plain uuid; parent identity is checked through invariants only
					}
					if wp != nil {
						a, b := append([]string(nil), gotP...), append([]string(nil), wp...)
						sort.Strings(a)
						sort.Strings(b)
						if !reflect.DeepEqual(a, b) {
							return rejected, grown, stats.Violf("C07/"+o.Kind+"/new-node-has-wrong-parents", "%s: parents %v, requested %v", desc, gotP, wp)
						}
					}
					if (o.Kind == "newversion" || o.Kind == "branch") && assign != "" && o.Body == 0 && n.UUID != assign {
						return rejected, grown, stats.Violf("C07/"+o.Kind+"/caller-uuid-ignored", "%s: new node %s", desc, n.UUID)
					}
					if wantBranch != nil && n.Branch != *wantBranch {
						return rejected, grown, stats.Violf("C07/branch/new-node-on-wrong-branch", "%s: branch %q", desc, n.Branch)
					}
					if o.Kind == "branch" {
						if w.named[myRoot] == nil {
							w.named[myRoot] = map[string]bool{}
						}
						w.named[myRoot][n.Branch] = true
					}
				}
				grown++
			case "commit":
				if o.Addr == 0 {
					if n, ok := after.Repos[myRoot].Nodes[target.UUID]; !ok || !n.Locked {
						return rejected, grown, stats.Violf("C07/commit/accepted-but-not-locked", "%s", desc)
					}
				}
			}
		}
		if err := checkInvariants(after, w.named); err != nil {
			return rejected, grown, stats.Violf(stats.SigOf(err), "after %s: %v", desc, err)
		}
		before = after
	}
	return rejected, grown, nil
}

func genC07(t *rapid.T) c07Case {
	var c c07Case
	n := rapid.IntRange(3, 40).Draw(t, "nops")
	kinds := []string{"commit", "commit", "commit", "newversion", "newversion", "newversion", "branch", "branch", "branch", "tag", "merge", "merge", "resolve", "note", "log", "newinstance", "rename", "delinstance", "newrepo", "delrepo", "grow", "grow", "grow", "grow", "grow", "reuse", "reuse"}
	for i := 0; i < n; i++ {
		o := op{Kind: rapid.SampledFrom(kinds).Draw(t, "kind")}
		o.Repo = rapid.IntRange(0, 2).Draw(t, "repo")
		o.Node = rapid.IntRange(0, 15).Draw(t, "node")
		o.Addr = rapid.SampledFrom([]int{0, 0, 0, 0, 0, 0, 1, 2, 3, 4, 5}).Draw(t, "addr")
		o.Name = rapid.IntRange(0, 13).Draw(t, "name")
		o.UUID = rapid.SampledFrom([]int{0, 0, 0, 0, 1, 1, 2, 3, 4, 5}).Draw(t, "uuid")
		o.Body = rapid.SampledFrom([]int{0, 0, 0, 0, 0, 0, 1, 2, 3, 4}).Draw(t, "body")
		if o.Kind == "branch" || o.Kind == "tag" {
			o.Pool = rapid.SampledFrom([]int{0, 0, 0, 1, 1, 2}).Draw(t, "pool")
		}
		if o.Kind == "merge" || o.Kind == "resolve" {
			k := rapid.IntRange(2, 4).Draw(t, "k")
			for j := 0; j < k; j++ {
				o.Ps = append(o.Ps, pref{Kind: rapid.SampledFrom([]int{0, 0, 0, 0, 0, 1, 2, 3, 4, 5}).Draw(t, "pk"), Idx: rapid.IntRange(0, 15).Draw(t, "pi")})
			}
		}
		c.Ops = append(c.Ops, o)
	}
	return c
}

func classes(c c07Case) []string {
	cls := map[string]bool{"history": true}
	for _, o := range c.Ops {
		switch o.Kind {
		case "merge":
			for j, p := range o.Ps {
				switch p.Kind {
				case 1:
					cls["merge/open-parent"] = true
				case 2:
					cls["merge/unknown-parent"] = true
				case 3:
					if j > 0 {
						cls["merge/repeated-parent"] = true
					}
				case 4:
					cls["merge/foreign-parent"] = true
				}
			}
		case "newversion", "branch":
			if o.UUID == 2 || o.UUID == 3 {
				cls["duplicate-caller-uuid"] = true
			}
			if o.Kind == "branch" && o.Name%7 == 3 {
				cls["branch-name-reuse"] = true
			}
			if o.Kind == "branch" && o.Pool > 0 {
				cls["branch-named-like-a-tag"] = true
			}
		case "reuse":
			cls["branch-name-reuse"] = true
		case "tag":
			if o.Name%5 == 2 && o.Pool == 0 {
				cls["tag-equal-to-existing-uuid"] = true
			}
			if o.Pool > 0 {
				cls["tag-from-release-pool"] = true
			}
		case "delrepo":
			cls["repo-delete"] = true
		}
		if o.Body != 0 {
			cls["malformed-body"] = true
		}
	}
	var out []string
	for k := range cls {
		out = append(out, k)
	}
	sort.Strings(out)
	return out
}

func TestC07History(t *testing.T) {
	rapid.Check(t, func(t *rapid.T) {
		c := genC07(t)
		stats.SetCur("C07", "TestC07History", c)
		rejected, grown, err := checkC07(c)
		if !stats.Judge(t, "C07", "TestC07History", err, c) {
			return
		}
		stats.Count("rejected_requests", int64(rejected))
		stats.Count("accepted_dag_growing_requests", int64(grown))
		stats.Record(stats.HashJSON(c), rejected >= 1 && grown >= 2, classes(c), func() interface{} {
			var s []string
			for _, o := range c.Ops {
				s = append(s, fmt.Sprintf("%s r%d n%d a%d nm%d u%d b%d %v", o.Kind, o.Repo, o.Node, o.Addr, o.Name, o.UUID, o.Body, o.Ps))
			}
			return map[string]interface{}{"test": "history", "ops": strings.Join(s, "; ")}
		})
	})
}

func TestReplay(t *testing.T) {
	stats.RunReplay(t, map[string]func(json.RawMessage) error{
		"TestC07History": func(raw json.RawMessage) error {
			var c c07Case
			if err := json.Unmarshal(raw, &c); err != nil {
				return err
			}
			_, _, err := checkC07(c)
			return err
		},
	})
}
