// C17 — image volumes return exactly the voxels that were written.
//
// One in-process HTTP property: a generated imageblk instance (voxel type, block size, background, optional
// ROI) receives an op list of block-aligned writes (POST raw/0_1_2 ingest / mutate / with ?roi=, POST blocks)
// on several versions, interleaved with reads through every lossless read geometry (raw/0_1_2 boxes of any
// alignment, raw/0_1|0_2|1_2 PNG slices, blocks, subvolblocks, specificblocks, info/metadata extents).  The
// oracle is model.ImageVol, a sparse voxel map per version with ancestry.
package c17

import (
	"bytes"
	"encoding/binary"
	"encoding/json"
	"fmt"
	"image"
	"image/png"
	"os"
	"sort"
	"strings"
	"testing"

	"pgregory.net/rapid"

	"verif/drive"
	"verif/model"
	"verif/stats"
)

func TestMain(m *testing.M) {
	drive.Open()
	rc := m.Run()
	drive.Close()
	stats.Flush()
	os.Exit(rc)
}

// ---------------------------------------------------------------- known-finding signatures
//
// Three violations exist on the unchanged tree (minimal reproductions: replays/C17-*.json, FailRecord format):
//
// sigRawBackground: GET raw / 2-D slices return 0, not the instance's Background, for voxels of blocks that were
// never written: the handlers allocate a zeroed buffer (imageblk.go:1339-1349 NewVoxels) and GetVoxels only visits
// stored blocks (read.go:375-435); GetBlocks (read.go:472-477) and BackgroundBlock (read.go:287) do use Background.
//
// sigBlocksMultibyte: PutBlocks sizes a block as BlockSize().Prod() bytes (write.go:229) instead of
// Prod()*BytesPerElement (cf. read.go:469), so POST blocks on uint16/32/64, float32 and rgba8 stores truncated blocks;
// GET blocks then returns background (read.go:566), and GET raw over such a block panics in the readChunk goroutine
// (read.go:227 via read.go:657), which kills the process.  The check reads back through GET blocks first so that it
// reports before it would issue the crashing request.
//
// sigBlocksExtents: PutBlocks (write.go:217-304) never posts extents (PutVoxels does, write.go:170-175), so info /
// metadata extents do not cover voxels written through POST blocks.
//
// When a signature is listed in VERIF_KNOWN_SIGS the generator steers around its shape (see genImgCase) and sets the
// corresponding case field so that a replay behaves the same without the environment.

const (
	sigRawBackground   = "C17/GET-raw/unwritten-voxels-not-background"
	sigBlocksMultibyte = "C17/POST-blocks/multibyte-voxels-block-truncated"
	sigBlocksExtents   = "C17/info/extents-not-covering-after-POST-blocks"
)

// ---------------------------------------------------------------- case

type imgOp struct {
	Kind   string     `json:"kind"`
	Node   int        `json:"node"`
	Blk    [3]int32   `json:"blk"`              // block coordinate: writes; base of reads when Anchor < 0
	Span   [3]int32   `json:"span,omitempty"`   // extent in blocks (writes, block reads)
	Mutate bool       `json:"mutate,omitempty"` // wish for mutate=true when nothing is overwritten (overwrites always mutate)
	ROI    bool       `json:"roi,omitempty"`    // write restricted by ?roi=
	Seed   uint64     `json:"seed,omitempty"`   // voxel content = fill(seed, coordinate)
	Fill   int        `json:"fill,omitempty"`   // 0 hash, 1 constant, 2 hash with opaque alpha
	Anchor int        `json:"anchor"`           // reads: index into the touched-block list (mod), <0 = use Blk
	D      [3]int32   `json:"d,omitempty"`      // reads: voxel delta from the base block's min corner / block delta for block reads
	Size   [3]int32   `json:"size,omitempty"`   // reads: size in voxels
	Plane  int        `json:"plane,omitempty"`  // slice: 0 xy, 1 xz, 2 yz
	Extra  [][3]int32 `json:"extra,omitempty"`  // specificblocks: block deltas
}

type imgCase struct {
	Type string     `json:"type"`
	BS   [3]int32   `json:"block_size"`
	Bg   uint8      `json:"background"`
	ROI  [][4]int32 `json:"roi,omitempty"` // spans z,y,x0,x1 (sorted, non-overlapping), posted at the root
	// BlocksOnlyOverwrite (set by the generator when sigBlocksExtents is a listed finding): POST blocks is only
	// aimed at blocks already visible at the node (so inside the advertised extents); otherwise the op runs as POST raw.
	BlocksOnlyOverwrite bool `json:"blocks_only_overwrite,omitempty"`
	// BlockReadsOnly (set by the generator when sigRawBackground is a listed finding and the background is
	// non-zero): no GET raw over unwritten voxels; the read-back of a write uses raw only if the whole box is written.
	BlockReadsOnly bool    `json:"block_reads_only,omitempty"`
	Ops            []imgOp `json:"ops"`
}

var bytesPerVoxel = map[string]int{"uint8blk": 1, "uint16blk": 2, "uint32blk": 4, "uint64blk": 8, "float32blk": 4, "rgba8blk": 4}

const instName = "img"
const roiName = "region"

// fillVoxel writes the bytes of voxel p for a write with the given seed/fill.
func fillVoxel(dst []byte, seed uint64, fill int, x, y, z int32) {
	if fill == 1 {
		for i := range dst {
			dst[i] = byte(seed)
		}
		return
	}
	h := uint64(uint32(x))*0x9E3779B97F4A7C15 ^ uint64(uint32(y))*0xC2B2AE3D27D4EB4F ^ uint64(uint32(z))*0x165667B19E3779F9 ^ seed
	h ^= h >> 29
	h *= 0xBF58476D1CE4E5B9
	h ^= h >> 32
	var b [8]byte
	binary.LittleEndian.PutUint64(b[:], h)
	copy(dst, b[:len(dst)])
	if fill == 2 && len(dst) >= 4 {
		dst[len(dst)-1] = 0xff
		if len(dst) == 8 {
			dst[6] = 0xff
		}
	}
}

func boxData(seed uint64, fill int, off, size [3]int32, bpv int) []byte {
	out := make([]byte, int(size[0])*int(size[1])*int(size[2])*bpv)
	i := 0
	for z := int32(0); z < size[2]; z++ {
		for y := int32(0); y < size[1]; y++ {
			for x := int32(0); x < size[0]; x++ {
				fillVoxel(out[i:i+bpv], seed, fill, off[0]+x, off[1]+y, off[2]+z)
				i += bpv
			}
		}
	}
	return out
}

// ---------------------------------------------------------------- execution

type caseInfo struct {
	classes    map[string]bool
	nontrivial bool
}

func (ci *caseInfo) add(cl string) { ci.classes[cl] = true }

type world struct {
	c       imgCase
	bpv     int
	root    string
	m       *model.ImageVol
	uuid    []string
	locked  []bool
	branch  []string
	kids    map[int]map[string]bool
	nbranch int
	touched [][3]int32
	seen    map[[3]int32]bool
	inROI   map[[3]int32]bool
	info    *caseInfo
	// rawCover[v]: blocks whose voxels were covered by a POST raw box at version v (the only write path that
	// is seen to post extents); used to tell the POST-blocks extents finding from any other extents failure
	rawCover []map[[3]int32]bool
}

// rawBounds is Bounds restricted to the blocks written through POST raw at v or an ancestor.
func (w *world) rawBounds(v int) (min, max [3]int32, ok bool) {
	for u := range w.m.DAG.Ancestors(v) {
		for c := range w.rawCover[u] {
			for a := 0; a < 3; a++ {
				lo, hi := c[a]*w.c.BS[a], (c[a]+1)*w.c.BS[a]-1
				if !ok || lo < min[a] {
					min[a] = lo
				}
				if !ok || hi > max[a] {
					max[a] = hi
				}
			}
			ok = true
		}
	}
	return
}

func p3(p [3]int32) string { return fmt.Sprintf("%d_%d_%d", p[0], p[1], p[2]) }

// req issues a request; a recovered panic is a violation, and (for well-formed in-domain requests) so is a refusal.
func (w *world) req(method, endpoint, url string, body []byte) (drive.Resp, error) {
	r := drive.Do(method, url, body)
	if r.IsPanic() {
		return r, stats.Violf("C17/"+endpoint+"/panic", "%s %s: %s", method, url, r)
	}
	if !r.OK() {
		return r, stats.Violf("C17/"+endpoint+"/refused", "%s %s: %s", method, url, r)
	}
	return r, nil
}

// retry evaluates an oracle; only a mismatch that survives a deep settle is believed.
func (w *world) retry(oracle func() error) error {
	if err := oracle(); err == nil {
		return nil
	}
	return drive.WithDeepRetry(w.root, oracle)
}

func (w *world) touch(cs [][3]int32) {
	for _, c := range cs {
		if !w.seen[c] {
			w.seen[c] = true
			w.touched = append(w.touched, c)
		}
	}
}

func (w *world) baseBlock(op imgOp) [3]int32 {
	if op.Anchor >= 0 && len(w.touched) > 0 {
		return w.touched[op.Anchor%len(w.touched)]
	}
	return op.Blk
}

func (w *world) blockMin(c [3]int32) [3]int32 {
	return [3]int32{c[0] * w.c.BS[0], c[1] * w.c.BS[1], c[2] * w.c.BS[2]}
}

func firstDiff(a, b []byte) int {
	n := len(a)
	if len(b) < n {
		n = len(b)
	}
	for i := 0; i < n; i++ {
		if a[i] != b[i] {
			return i
		}
	}
	if len(a) != len(b) {
		return n
	}
	return -1
}

// describeDiff explains the first differing voxel of a box read.
func (w *world) describeDiff(got, want []byte, written []bool, off, size [3]int32, i int) (string, bool) {
	vi := i / w.bpv
	x := int32(vi % int(size[0]))
	y := int32((vi / int(size[0])) % int(size[1]))
	z := int32(vi / (int(size[0]) * int(size[1])))
	p := [3]int32{off[0] + x, off[1] + y, off[2] + z}
	lo, hi := vi*w.bpv, (vi+1)*w.bpv
	g := []byte(nil)
	if hi <= len(got) {
		g = got[lo:hi]
	}
	wr := vi < len(written) && written[vi]
	return fmt.Sprintf("voxel %v (block %v, written=%v): got %x, model %x; box offset %v size %v", p, w.m.BlockOf(p), wr, g, want[lo:hi], off, size), wr
}

// classifyBox records geometry classes of a voxel box read at node v and reports whether it is non-trivial
// (crosses >=1 block border and covers both written and unwritten voxels).
func (w *world) classifyBox(v int, off, size [3]int32, written []bool) {
	cross := false
	for a := 0; a < 3; a++ {
		if model.FloorDiv(off[a], w.c.BS[a]) != model.FloorDiv(off[a]+size[a]-1, w.c.BS[a]) {
			cross = true
		}
	}
	nw := 0
	for _, x := range written {
		if x {
			nw++
		}
	}
	switch {
	case nw == 0:
		w.info.add("read/wholly-outside")
	case nw == len(written):
		w.info.add("read/inside")
	default:
		w.info.add("read/partly-outside")
	}
	if cross {
		w.info.add("read/crosses-border")
	}
	if cross && nw > 0 && nw < len(written) {
		w.info.nontrivial = true
	}
	// child-version read: some block of the box resolves to a proper ancestor
	b0 := w.m.BlockOf(off)
	b1 := w.m.BlockOf([3]int32{off[0] + size[0] - 1, off[1] + size[1] - 1, off[2] + size[2] - 1})
	for z := b0[2]; z <= b1[2]; z++ {
		for y := b0[1]; y <= b1[1]; y++ {
			for x := b0[0]; x <= b1[0]; x++ {
				if b, at := w.m.Block(v, [3]int32{x, y, z}); b != nil && at != v {
					w.info.add("child-version-read")
				}
			}
		}
	}
}

// readBox3d compares GET raw/0_1_2 with the model.
func (w *world) readBox3d(v int, off, size [3]int32, what string, useROI bool) error {
	want, written := w.m.ReadBox(v, off, size)
	url := fmt.Sprintf("node/%s/%s/raw/0_1_2/%s/%s", w.uuid[v], instName, p3(size), p3(off))
	ep := "GET-raw"
	if useROI {
		url += "?roi=" + roiName
		ep = "GET-raw-roi"
		// documented: voxels outside the ROI are zeroed.  Only asserted for background 0 (see assumptions).
		i := 0
		for z := int32(0); z < size[2]; z++ {
			for y := int32(0); y < size[1]; y++ {
				for x := int32(0); x < size[0]; x++ {
					if !w.inROI[w.m.BlockOf([3]int32{off[0] + x, off[1] + y, off[2] + z})] {
						for k := 0; k < w.bpv; k++ {
							want[i*w.bpv+k] = 0
						}
					}
					i++
				}
			}
		}
	}
	return w.retry(func() error {
		r, err := w.req("GET", ep, url, nil)
		if err != nil {
			return err
		}
		if len(r.Body) != len(want) {
			return stats.Violf("C17/"+ep+"/wrong-length", "%s: %s returned %d bytes, want %d", what, url, len(r.Body), len(want))
		}
		if i := firstDiff(r.Body, want); i >= 0 {
			msg, wr := w.describeDiff(r.Body, want, written, off, size, i)
			sig := "C17/" + ep + "/differs-from-model"
			if !wr && !useROI {
				sig = sigRawBackground
			}
			return stats.Violf(sig, "%s: %s: %s", what, url, msg)
		}
		return nil
	})
}

// decodeSlice turns a PNG into little-endian voxel bytes, row major.
func decodeSlice(b []byte, bpv int) (pix []byte, wd, ht int, err error) {
	img, err := png.Decode(bytes.NewReader(b))
	if err != nil {
		return nil, 0, 0, err
	}
	r := img.Bounds()
	wd, ht = r.Dx(), r.Dy()
	var src []byte
	var stride, bpp int
	swap16 := false
	switch im := img.(type) {
	case *image.Gray:
		src, stride, bpp = im.Pix, im.Stride, 1
	case *image.Gray16:
		src, stride, bpp, swap16 = im.Pix, im.Stride, 2, true
	case *image.NRGBA:
		src, stride, bpp = im.Pix, im.Stride, 4
	case *image.RGBA: // opaque truecolour: alpha is 255, so premultiplied == straight
		src, stride, bpp = im.Pix, im.Stride, 4
	case *image.NRGBA64:
		src, stride, bpp = im.Pix, im.Stride, 8
	case *image.RGBA64: // opaque
		src, stride, bpp = im.Pix, im.Stride, 8
	default:
		return nil, wd, ht, fmt.Errorf("unexpected decoded image type %T", img)
	}
	if bpp != bpv {
		return nil, wd, ht, fmt.Errorf("decoded image %T has %d bytes/pixel, voxel has %d", img, bpp, bpv)
	}
	pix = make([]byte, wd*ht*bpv)
	for y := 0; y < ht; y++ {
		copy(pix[y*wd*bpv:(y+1)*wd*bpv], src[y*stride:y*stride+wd*bpv])
	}
	if swap16 {
		for i := 0; i+1 < len(pix); i += 2 {
			pix[i], pix[i+1] = pix[i+1], pix[i]
		}
	}
	return
}

var planeStr = []string{"0_1", "0_2", "1_2"}
var planeName = []string{"xy", "xz", "yz"}
var planeAxes = [][2]int{{0, 1}, {0, 2}, {1, 2}}

// readSlice compares GET raw/<plane> (PNG, lossless for every voxel type) with the model.
func (w *world) readSlice(v int, plane int, off [3]int32, wd, ht int32, what string) error {
	ax := planeAxes[plane]
	size := [3]int32{1, 1, 1}
	size[ax[0]], size[ax[1]] = wd, ht
	// the model box in x-fastest order is exactly the image in row-major order for all three planes,
	// because the box is 1 voxel thick along the remaining axis.
	want, written := w.m.ReadBox(v, off, size)
	url := fmt.Sprintf("node/%s/%s/raw/%s/%d_%d/%s", w.uuid[v], instName, planeStr[plane], wd, ht, p3(off))
	ep := "GET-slice-" + planeName[plane]
	return w.retry(func() error {
		r, err := w.req("GET", ep, url, nil)
		if err != nil {
			return err
		}
		pix, gw, gh, err := decodeSlice(r.Body, w.bpv)
		if err != nil {
			return stats.Violf("C17/"+ep+"/undecodable", "%s: %s: %v", what, url, err)
		}
		if gw != int(wd) || gh != int(ht) {
			return stats.Violf("C17/"+ep+"/wrong-size", "%s: %s returned %dx%d", what, url, gw, gh)
		}
		if i := firstDiff(pix, want); i >= 0 {
			msg, wr := w.describeDiff(pix, want, written, off, size, i)
			sig := "C17/" + ep + "/differs-from-model"
			if !wr {
				sig = sigRawBackground
			}
			return stats.Violf(sig, "%s: %s: %s", what, url, msg)
		}
		return nil
	})
}

// readBlocks compares GET blocks/<coord>/<span> with the model (unset blocks read as background).
func (w *world) readBlocks(v int, c [3]int32, span int32, what string) error {
	url := fmt.Sprintf("node/%s/%s/blocks/%s/%d", w.uuid[v], instName, p3(c), span)
	bb := w.m.BlockBytes()
	return w.retry(func() error {
		r, err := w.req("GET", "GET-blocks", url, nil)
		if err != nil {
			return err
		}
		if len(r.Body) != bb*int(span) {
			return stats.Violf("C17/GET-blocks/wrong-length", "%s: %s returned %d bytes, want %d", what, url, len(r.Body), bb*int(span))
		}
		for i := int32(0); i < span; i++ {
			cc := [3]int32{c[0] + i, c[1], c[2]}
			want, at := w.m.Block(v, cc)
			sig := "C17/GET-blocks/differs-from-model"
			if want == nil {
				want = w.m.BackgroundBlock()
				sig = "C17/GET-blocks/unset-block-not-background"
			} else if at != v {
				w.info.add("child-version-read")
			}
			got := r.Body[int(i)*bb : int(i+1)*bb]
			if d := firstDiff(got, want); d >= 0 {
				return stats.Violf(sig, "%s: %s: block %v byte %d: got %x, model %x", what, url, cc, d, got[d], want[d])
			}
		}
		return nil
	})
}

// parseBlockStream decodes the subvolblocks / specificblocks stream.
func parseBlockStream(b []byte) (map[[3]int32][]byte, []string) {
	out := map[[3]int32][]byte{}
	var problems []string
	for len(b) > 0 {
		if len(b) < 16 {
			problems = append(problems, fmt.Sprintf("trailing %d bytes", len(b)))
			break
		}
		var c [3]int32
		for i := 0; i < 3; i++ {
			c[i] = int32(binary.LittleEndian.Uint32(b[4*i:]))
		}
		n := int(int32(binary.LittleEndian.Uint32(b[12:])))
		b = b[16:]
		if n < 0 || n > len(b) {
			problems = append(problems, fmt.Sprintf("block %v claims %d bytes, %d left", c, n, len(b)))
			break
		}
		if _, dup := out[c]; dup {
			problems = append(problems, fmt.Sprintf("block %v sent twice", c))
		}
		out[c] = b[:n]
		b = b[n:]
	}
	return out, problems
}

// checkStream compares a block stream with the model: exactly the visible blocks among coords, bit-identical.
func (w *world) checkStream(v int, ep, url string, coords [][3]int32, what string) error {
	return w.retry(func() error {
		r, err := w.req("GET", ep, url, nil)
		if err != nil {
			return err
		}
		got, problems := parseBlockStream(r.Body)
		if len(problems) > 0 {
			return stats.Violf("C17/"+ep+"/malformed-stream", "%s: %s: %s", what, url, strings.Join(problems, "; "))
		}
		asked := map[[3]int32]bool{}
		for _, c := range coords {
			asked[c] = true
			want, at := w.m.Block(v, c)
			g, ok := got[c]
			switch {
			case want == nil && ok:
				return stats.Violf("C17/"+ep+"/unset-block-in-stream", "%s: %s: block %v was never written at this version or an ancestor but is in the stream (%d bytes)", what, url, c, len(g))
			case want != nil && !ok:
				return stats.Violf("C17/"+ep+"/written-block-missing", "%s: %s: block %v (written at node %d) missing from the stream", what, url, c, at)
			case want != nil:
				if at != v {
					w.info.add("child-version-read")
				}
				if d := firstDiff(g, want); d >= 0 {
					return stats.Violf("C17/"+ep+"/differs-from-model", "%s: %s: block %v differs at byte %d (got %d bytes, model %d)", what, url, c, d, len(g), len(want))
				}
			}
		}
		for c := range got {
			if !asked[c] {
				return stats.Violf("C17/"+ep+"/unrequested-block", "%s: %s: block %v was not requested", what, url, c)
			}
		}
		return nil
	})
}

func (w *world) readSubvol(v int, c0, span [3]int32, what string) error {
	var coords [][3]int32
	for z := int32(0); z < span[2]; z++ {
		for y := int32(0); y < span[1]; y++ {
			for x := int32(0); x < span[0]; x++ {
				coords = append(coords, [3]int32{c0[0] + x, c0[1] + y, c0[2] + z})
			}
		}
	}
	size := [3]int32{span[0] * w.c.BS[0], span[1] * w.c.BS[1], span[2] * w.c.BS[2]}
	url := fmt.Sprintf("node/%s/%s/subvolblocks/%s/%s?compression=uncompressed", w.uuid[v], instName, p3(size), p3(w.blockMin(c0)))
	return w.checkStream(v, "GET-subvolblocks", url, coords, what)
}

func (w *world) readSpecific(v int, coords [][3]int32, what string) error {
	if len(coords) == 0 {
		return nil
	}
	var parts []string
	for _, c := range coords {
		parts = append(parts, fmt.Sprintf("%d,%d,%d", c[0], c[1], c[2]))
	}
	url := fmt.Sprintf("node/%s/%s/specificblocks?compression=uncompressed&blocks=%s", w.uuid[v], instName, strings.Join(parts, ","))
	return w.checkStream(v, "GET-specificblocks", url, coords, what)
}

// checkExtents: the extents advertised by info and metadata must cover every voxel visible at node v.
func (w *world) checkExtents(v int, what string) error {
	min, max, ok := w.m.Bounds(v)
	if !ok {
		return nil
	}
	rmin, rmax, rok := w.rawBounds(v)
	return w.retry(func() error {
		r, err := w.req("GET", "GET-info", fmt.Sprintf("node/%s/%s/info", w.uuid[v], instName), nil)
		if err != nil {
			return err
		}
		var info struct {
			Extended struct{ MinPoint, MaxPoint *[3]int32 }
			Extents  struct{ MinPoint, MaxPoint *[3]int32 }
		}
		if err := json.Unmarshal(r.Body, &info); err != nil {
			return stats.Violf("C17/GET-info/bad-json", "%s: %v: %s", what, err, r)
		}
		// a failure to cover voxels written through POST raw gets the general signature; a failure that only
		// concerns voxels written through POST blocks gets its own
		sigFor := func(lo, hi *[3]int32) string {
			if rok {
				if lo == nil || hi == nil {
					return "C17/info/extents-not-covering"
				}
				for a := 0; a < 3; a++ {
					if lo[a] > rmin[a] || hi[a] < rmax[a] {
						return "C17/info/extents-not-covering"
					}
				}
			}
			return sigBlocksExtents
		}
		cover := func(name string, lo, hi *[3]int32) error {
			if lo == nil || hi == nil {
				return stats.Violf(sigFor(lo, hi), "%s: node %d: %s extents are null but voxels %v..%v are written", what, v, name, min, max)
			}
			for a := 0; a < 3; a++ {
				if lo[a] > min[a] || hi[a] < max[a] {
					return stats.Violf(sigFor(lo, hi), "%s: node %d: %s extents %v..%v do not cover written voxels %v..%v", what, v, name, *lo, *hi, min, max)
				}
			}
			return nil
		}
		if err := cover("info.Extended", info.Extended.MinPoint, info.Extended.MaxPoint); err != nil {
			return err
		}
		if err := cover("info.Extents", info.Extents.MinPoint, info.Extents.MaxPoint); err != nil {
			return err
		}
		r, err = w.req("GET", "GET-metadata", fmt.Sprintf("node/%s/%s/metadata", w.uuid[v], instName), nil)
		if err != nil {
			return err
		}
		var md struct {
			Axes []struct{ Size, Offset int32 }
		}
		if err := json.Unmarshal(r.Body, &md); err != nil || len(md.Axes) != 3 {
			return stats.Violf("C17/GET-metadata/bad-json", "%s: %v: %s", what, err, r)
		}
		for a := 0; a < 3; a++ {
			if md.Axes[a].Offset > min[a] || md.Axes[a].Offset+md.Axes[a].Size-1 < max[a] {
				mlo := [3]int32{md.Axes[0].Offset, md.Axes[1].Offset, md.Axes[2].Offset}
				mhi := [3]int32{mlo[0] + md.Axes[0].Size - 1, mlo[1] + md.Axes[1].Size - 1, mlo[2] + md.Axes[2].Size - 1}
				return stats.Violf(sigFor(&mlo, &mhi), "%s: node %d: metadata axis %d offset %d size %d does not cover written voxels %v..%v", what, v, a, md.Axes[a].Offset, md.Axes[a].Size, min, max)
			}
		}
		return nil
	})
}

func (w *world) openNodes() []int {
	var out []int
	for i, l := range w.locked {
		if !l {
			out = append(out, i)
		}
	}
	return out
}

func clampSpan(s [3]int32) [3]int32 {
	for i := range s {
		if s[i] < 1 {
			s[i] = 1
		}
	}
	return s
}

// runImg executes a case.  Messages are made deterministic (server-chosen UUIDs replaced by node ordinals) so
// that rapid recognises the same failure while shrinking.
func runImg(c imgCase) (*caseInfo, error) {
	var w *world
	info, err := runImg1(c, &w)
	if v, ok := err.(*stats.Violation); ok && w != nil {
		for i, u := range w.uuid {
			v.Msg = strings.ReplaceAll(v.Msg, u, fmt.Sprintf("<node%d>", i))
		}
	}
	return info, err
}

func runImg1(c imgCase, wp **world) (*caseInfo, error) {
	info := &caseInfo{classes: map[string]bool{}}
	bpv, ok := bytesPerVoxel[c.Type]
	if !ok || c.BS[0] < 1 || c.BS[1] < 1 || c.BS[2] < 1 {
		return info, fmt.Errorf("bad case: type %q block size %v", c.Type, c.BS)
	}
	root, err := drive.NewRepo()
	if err != nil {
		return info, fmt.Errorf("setup: %v", err)
	}
	bsStr := fmt.Sprintf("%d,%d,%d", c.BS[0], c.BS[1], c.BS[2])
	cfg := map[string]string{"BlockSize": bsStr}
	if c.Bg != 0 {
		cfg["Background"] = fmt.Sprintf("%d", c.Bg)
	}
	if err := drive.NewInstance(root, c.Type, instName, cfg); err != nil {
		return info, stats.Violf("C17/new-instance/refused", "%v", err)
	}
	bg := make([]byte, bpv)
	if c.Bg != 0 {
		// only generated for 1-byte voxels, where "background value" has a single reading
		for i := range bg {
			bg[i] = c.Bg
		}
	}
	w := &world{c: c, bpv: bpv, root: root, m: model.NewImageVol(c.BS, bpv, bg), uuid: []string{root}, locked: []bool{false},
		branch: []string{""}, kids: map[int]map[string]bool{}, seen: map[[3]int32]bool{}, inROI: map[[3]int32]bool{}, info: info}
	*wp = w
	if len(c.ROI) > 0 {
		if err := drive.NewInstance(root, "roi", roiName, map[string]string{"BlockSize": bsStr}); err != nil {
			return info, fmt.Errorf("setup roi: %v", err)
		}
		body, _ := json.Marshal(c.ROI)
		if _, err := w.req("POST", "POST-roi", "node/"+root+"/"+roiName+"/roi", body); err != nil {
			return info, err
		}
		for _, s := range c.ROI {
			for x := s[2]; x <= s[3]; x++ {
				w.inROI[[3]int32{x, s[1], s[0]}] = true
			}
		}
	}
	w.rawCover = []map[[3]int32]bool{{}}

	for i, op := range c.Ops {
		what := fmt.Sprintf("op %d %s", i, opString(op))
		switch op.Kind {
		case "raw", "blocks":
			open := w.openNodes()
			v := open[op.Node%len(open)]
			span := clampSpan(op.Span)
			if op.Kind == "blocks" {
				span[1], span[2] = 1, 1
				if c.BlocksOnlyOverwrite {
					if len(w.touched) > 0 {
						op.Blk = w.touched[int(op.Seed%uint64(len(w.touched)))]
					}
					for span[0] > 1 && !w.m.Written(v, [3]int32{op.Blk[0] + span[0] - 1, op.Blk[1], op.Blk[2]}) {
						span[0]--
					}
					all := true
					for x := int32(0); x < span[0]; x++ {
						all = all && w.m.Written(v, [3]int32{op.Blk[0] + x, op.Blk[1], op.Blk[2]})
					}
					if !all {
						op.Kind = "raw"
					}
				}
			}
			off := w.blockMin(op.Blk)
			size := [3]int32{span[0] * c.BS[0], span[1] * c.BS[1], span[2] * c.BS[2]}
			useROI := op.ROI && len(c.ROI) > 0 && op.Kind == "raw"
			var keep func([3]int32) bool
			if useROI {
				keep = func(b [3]int32) bool { return w.inROI[b] }
			}
			// overwriting a visible block is a mutation by the help text; a first write may be either
			mutate := op.Mutate
			nIn, nOut := 0, 0
			for z := int32(0); z < span[2]; z++ {
				for y := int32(0); y < span[1]; y++ {
					for x := int32(0); x < span[0]; x++ {
						b := [3]int32{op.Blk[0] + x, op.Blk[1] + y, op.Blk[2] + z}
						if keep != nil && !keep(b) {
							nOut++
							continue
						}
						nIn++
						if w.m.Written(v, b) {
							mutate = true
							if _, at := w.m.Block(v, b); at != v {
								info.add("overwrite-of-ancestor-block")
							} else {
								info.add("overwrite-same-version")
							}
						}
					}
				}
			}
			data := boxData(op.Seed, op.Fill, off, size, bpv)
			var url, ep string
			if op.Kind == "raw" {
				url = fmt.Sprintf("node/%s/%s/raw/0_1_2/%s/%s", w.uuid[v], instName, p3(size), p3(off))
				ep = "POST-raw"
			} else {
				url = fmt.Sprintf("node/%s/%s/blocks/%s/%d", w.uuid[v], instName, p3(op.Blk), span[0])
				ep = "POST-blocks"
			}
			var q []string
			if mutate {
				q = append(q, "mutate=true")
				info.add("mutate")
			} else {
				info.add("ingest")
			}
			if useROI {
				q = append(q, "roi="+roiName)
				ep = "POST-raw-roi"
				info.add("roi-write")
				if nIn > 0 && nOut > 0 {
					info.add("roi-write/partly-inside")
				}
			}
			if len(q) > 0 {
				url += "?" + strings.Join(q, "&")
			}
			body := data
			if op.Kind == "blocks" {
				// block stream: each block x-fastest, blocks along x
				body = make([]byte, 0, len(data))
				mm := model.NewImageVol(c.BS, bpv, bg)
				for _, b := range mm.WriteBox(0, off, size, data, nil) {
					body = append(body, mm.Blocks[0][b]...)
				}
				info.add("post-blocks")
			}
			if _, err := w.req("POST", ep, url, body); err != nil {
				return info, err
			}
			written := w.m.WriteBox(v, off, size, data, keep)
			w.touch(written)
			if op.Kind == "raw" {
				for _, b := range written {
					w.rawCover[v][b] = true
				}
			}
			if op.Blk[0] < 0 || op.Blk[1] < 0 || op.Blk[2] < 0 {
				info.add("negative-block-coord")
			}
			drive.Settle(root)
			// read-back of the written box: first through the block endpoint (which tolerates a malformed stored
			// block), then as a block-aligned subvolume
			for z := int32(0); z < span[2]; z++ {
				for y := int32(0); y < span[1]; y++ {
					if err := w.readBlocks(v, [3]int32{op.Blk[0], op.Blk[1] + y, op.Blk[2] + z}, span[0], what+" read-back"); err != nil {
						if op.Kind == "blocks" && bpv > 1 && stats.SigOf(err) == "C17/GET-blocks/differs-from-model" {
							return info, stats.Violf(sigBlocksMultibyte, "%v", err)
						}
						return info, err
					}
				}
			}
			if !(c.BlockReadsOnly && nOut > 0) {
				if err := w.readBox3d(v, off, size, what+" read-back", false); err != nil {
					return info, err
				}
			}
		case "newversion", "branch":
			u := op.Node % w.m.DAG.N()
			if !w.locked[u] {
				if err := drive.Commit(w.uuid[u]); err != nil {
					return info, stats.Violf("C17/commit/refused", "%s: %v", what, err)
				}
				w.locked[u] = true
			}
			if w.kids[u] == nil {
				w.kids[u] = map[string]bool{}
			}
			var child string
			var err error
			br := w.branch[u]
			if op.Kind == "newversion" && !w.kids[u][br] {
				child, err = drive.NewVersion(w.uuid[u])
			} else {
				w.nbranch++
				br = fmt.Sprintf("br%d", w.nbranch)
				child, err = drive.Branch(w.uuid[u], br)
			}
			if err != nil {
				return info, stats.Violf("C17/newversion/refused", "%s: %v", what, err)
			}
			w.kids[u][br] = true
			w.m.AddVersion(u)
			w.rawCover = append(w.rawCover, map[[3]int32]bool{})
			w.uuid = append(w.uuid, child)
			w.locked = append(w.locked, false)
			w.branch = append(w.branch, br)
		case "read3d", "roiread":
			v := op.Node % w.m.DAG.N()
			base := w.blockMin(w.baseBlock(op))
			off := [3]int32{base[0] + op.D[0], base[1] + op.D[1], base[2] + op.D[2]}
			size := clampSpan(op.Size)
			useROI := op.Kind == "roiread" && len(c.ROI) > 0 && c.Bg == 0
			_, written := w.m.ReadBox(v, off, size)
			w.classifyBox(v, off, size, written)
			if useROI {
				info.add("roi-read")
			}
			if err := w.readBox3d(v, off, size, what, useROI); err != nil {
				return info, err
			}
		case "slice":
			v := op.Node % w.m.DAG.N()
			base := w.blockMin(w.baseBlock(op))
			off := [3]int32{base[0] + op.D[0], base[1] + op.D[1], base[2] + op.D[2]}
			size := clampSpan(op.Size)
			plane := ((op.Plane % 3) + 3) % 3
			ax := planeAxes[plane]
			box := [3]int32{1, 1, 1}
			box[ax[0]], box[ax[1]] = size[0], size[1]
			_, written := w.m.ReadBox(v, off, box)
			w.classifyBox(v, off, box, written)
			info.add("slice-" + planeName[plane])
			if err := w.readSlice(v, plane, off, size[0], size[1], what); err != nil {
				return info, err
			}
		case "getblocks":
			v := op.Node % w.m.DAG.N()
			b := w.baseBlock(op)
			c0 := [3]int32{b[0] + op.D[0], b[1] + op.D[1], b[2] + op.D[2]}
			span := clampSpan(op.Span)
			info.add("get-blocks")
			if err := w.readBlocks(v, c0, span[0], what); err != nil {
				return info, err
			}
		case "subvol":
			v := op.Node % w.m.DAG.N()
			b := w.baseBlock(op)
			c0 := [3]int32{b[0] + op.D[0], b[1] + op.D[1], b[2] + op.D[2]}
			span := clampSpan(op.Span)
			info.add("subvolblocks")
			if span == [3]int32{1, 1, 1} {
				info.add("subvolblocks/single-block")
			}
			if err := w.readSubvol(v, c0, span, what); err != nil {
				return info, err
			}
		case "specific":
			v := op.Node % w.m.DAG.N()
			b := w.baseBlock(op)
			seen := map[[3]int32]bool{}
			var coords [][3]int32
			for _, d := range append([][3]int32{op.D}, op.Extra...) {
				cc := [3]int32{b[0] + d[0], b[1] + d[1], b[2] + d[2]}
				if !seen[cc] {
					seen[cc] = true
					coords = append(coords, cc)
				}
			}
			info.add("specificblocks")
			if err := w.readSpecific(v, coords, what); err != nil {
				return info, err
			}
		case "info":
			v := op.Node % w.m.DAG.N()
			info.add("info")
			if err := w.checkExtents(v, what); err != nil {
				return info, err
			}
		default:
			return info, fmt.Errorf("bad case: unknown op kind %q", op.Kind)
		}
	}

	// final sweep: at every version exactly the blocks visible there are set, with the model's content, and the
	// extents cover them
	if len(w.touched) > 0 {
		coords := append([][3]int32(nil), w.touched...)
		sort.Slice(coords, func(i, j int) bool {
			a, b := coords[i], coords[j]
			if a[2] != b[2] {
				return a[2] < b[2]
			}
			if a[1] != b[1] {
				return a[1] < b[1]
			}
			return a[0] < b[0]
		})
		for v := 0; v < w.m.DAG.N(); v++ {
			if err := w.readSpecific(v, coords, fmt.Sprintf("final sweep node %d", v)); err != nil {
				return info, err
			}
			if err := w.checkExtents(v, fmt.Sprintf("final sweep node %d", v)); err != nil {
				return info, err
			}
		}
	}
	return info, nil
}

func checkImg(c imgCase) error {
	_, err := runImg(c)
	return err
}

func opString(op imgOp) string {
	switch op.Kind {
	case "raw", "blocks":
		return fmt.Sprintf("%s n%d blk%v span%v mutate=%v roi=%v fill=%d", op.Kind, op.Node, op.Blk, op.Span, op.Mutate, op.ROI, op.Fill)
	case "newversion", "branch", "info":
		return fmt.Sprintf("%s n%d", op.Kind, op.Node)
	case "slice":
		return fmt.Sprintf("slice-%s n%d anchor%d blk%v d%v size%v", planeName[((op.Plane%3)+3)%3], op.Node, op.Anchor, op.Blk, op.D, op.Size[:2])
	case "read3d", "roiread":
		return fmt.Sprintf("%s n%d anchor%d blk%v d%v size%v", op.Kind, op.Node, op.Anchor, op.Blk, op.D, op.Size)
	}
	return fmt.Sprintf("%s n%d anchor%d blk%v d%v span%v extra%v", op.Kind, op.Node, op.Anchor, op.Blk, op.D, op.Span, op.Extra)
}

// ---------------------------------------------------------------- generator

var blockSizes = [][3]int32{{16, 16, 16}, {16, 16, 16}, {16, 16, 16}, {32, 32, 32}, {16, 32, 16}, {32, 16, 8}, {8, 16, 32}}
var typeNames = []string{"uint8blk", "uint8blk", "uint16blk", "uint32blk", "uint64blk", "float32blk", "rgba8blk"}

func genBlk(t *rapid.T, label string) [3]int32 {
	return [3]int32{
		rapid.Int32Range(-3, 3).Draw(t, label+"x"),
		rapid.Int32Range(-2, 2).Draw(t, label+"y"),
		rapid.Int32Range(-2, 2).Draw(t, label+"z"),
	}
}

func genDelta(t *rapid.T, bs int32, label string) int32 {
	switch rapid.IntRange(0, 5).Draw(t, label+"k") {
	case 0, 1, 2: // at or next to the block's faces
		return rapid.SampledFrom([]int32{0, 0, -1, 1, -2, bs - 1, bs - 2, bs / 2, -bs + 1, -bs, bs}).Draw(t, label)
	case 3, 4: // anywhere from just before the block to its far face
		return rapid.Int32Range(-3, bs).Draw(t, label)
	}
	return rapid.Int32Range(-bs-2, bs+1).Draw(t, label)
}

func genSize(t *rapid.T, bs int32, label string) int32 {
	if rapid.Bool().Draw(t, label+"edge") {
		return rapid.SampledFrom([]int32{1, 2, 3, bs - 1, bs, bs + 1, bs + 2, 2 * bs, 2*bs + 1}).Draw(t, label)
	}
	return rapid.Int32Range(1, 2*bs+3).Draw(t, label)
}

func genROI(t *rapid.T) [][4]int32 {
	var spans [][4]int32
	for z := int32(-2); z <= 2; z++ {
		for y := int32(-2); y <= 2; y++ {
			switch rapid.IntRange(0, 3).Draw(t, "roirow") {
			case 0: // row absent
			case 1: // whole row
				spans = append(spans, [4]int32{z, y, -3, 5})
			default:
				x := rapid.Int32Range(-3, 1).Draw(t, "roix0")
				for n := rapid.IntRange(1, 2).Draw(t, "roin"); n > 0; n-- {
					ln := rapid.Int32Range(1, 3).Draw(t, "roilen")
					spans = append(spans, [4]int32{z, y, x, x + ln - 1})
					x += ln + rapid.Int32Range(1, 2).Draw(t, "roigap")
				}
			}
		}
	}
	return spans
}

var opKinds = []string{"raw", "raw", "raw", "raw", "blocks", "blocks", "newversion", "newversion", "branch",
	"read3d", "read3d", "read3d", "slice", "slice", "slice", "roiread", "getblocks", "subvol", "subvol", "specific", "info"}

func genImgCase(t *rapid.T) imgCase {
	c := imgCase{
		Type: rapid.SampledFrom(typeNames).Draw(t, "type"),
		BS:   rapid.SampledFrom(blockSizes).Draw(t, "bs"),
	}
	bpv := bytesPerVoxel[c.Type]
	if bpv == 1 && rapid.Bool().Draw(t, "bgnz") {
		c.Bg = uint8(rapid.IntRange(1, 255).Draw(t, "bg"))
	}
	if rapid.IntRange(0, 2).Draw(t, "hasroi") > 0 {
		c.ROI = genROI(t)
	}
	neg := rapid.IntRange(0, 3).Draw(t, "neg") > 0 // most cases use negative block coordinates too
	kinds := opKinds
	if c.Bg != 0 && stats.IsKnown(sigRawBackground) {
		// GET raw / slices leave unwritten voxels 0 instead of the background: keep the non-zero background but
		// read only through the block endpoints
		var ks []string
		for _, k := range opKinds {
			switch k {
			case "read3d", "slice", "roiread":
				ks = append(ks, "getblocks")
			default:
				ks = append(ks, k)
			}
		}
		kinds = ks
		c.BlockReadsOnly = true
		stats.Excluded(sigRawBackground)
	}
	// one op = one element of a rapid slice, so that shrinking can delete whole ops
	opGen := rapid.Custom(func(t *rapid.T) imgOp {
		op := imgOp{Kind: rapid.SampledFrom(kinds).Draw(t, "kind"), Node: rapid.IntRange(0, 7).Draw(t, "node"), Anchor: -1}
		switch op.Kind {
		case "raw", "blocks":
			op.Blk = genBlk(t, "w")
			if !neg {
				for a := range op.Blk {
					if op.Blk[a] < 0 {
						op.Blk[a] = -op.Blk[a]
					}
				}
			}
			op.Span = [3]int32{rapid.Int32Range(1, 3).Draw(t, "sx"), rapid.Int32Range(1, 2).Draw(t, "sy"), rapid.Int32Range(1, 2).Draw(t, "sz")}
			op.Mutate = rapid.Bool().Draw(t, "mutate")
			op.ROI = rapid.Bool().Draw(t, "useroi") && len(c.ROI) > 0 && op.Kind == "raw"
			op.Seed = rapid.Uint64().Draw(t, "seed")
			op.Fill = rapid.SampledFrom([]int{0, 0, 0, 1, 2}).Draw(t, "fill")
		case "newversion", "branch", "info":
		case "read3d", "roiread", "slice":
			op.Anchor = rapid.IntRange(-1, 7).Draw(t, "anchor")
			op.Blk = genBlk(t, "r")
			for a := 0; a < 3; a++ {
				op.D[a] = genDelta(t, c.BS[a], fmt.Sprintf("d%d", a))
			}
			var sz [3]int32 // per volume axis
			if op.Kind == "slice" {
				op.Plane = rapid.IntRange(0, 2).Draw(t, "plane")
				ax := planeAxes[op.Plane]
				sz = [3]int32{1, 1, 1}
				sz[ax[0]], sz[ax[1]] = genSize(t, c.BS[ax[0]], "w"), genSize(t, c.BS[ax[1]], "h")
			} else {
				for a := 0; a < 3; a++ {
					sz[a] = genSize(t, c.BS[a], fmt.Sprintf("s%d", a))
				}
			}
			if rapid.IntRange(0, 5).Draw(t, "far") > 0 {
				// the box meets the base block on every axis (by construction): start no later than the block's last
				// voxel, and reach at least its first
				for a := 0; a < 3; a++ {
					if op.D[a] >= c.BS[a] {
						op.D[a] = c.BS[a] - 1
					}
					if op.D[a]+sz[a] <= 0 {
						if op.Kind == "slice" && sz[a] == 1 && a != planeAxes[op.Plane][0] && a != planeAxes[op.Plane][1] {
							op.D[a] = 0 // the slice's fixed coordinate: move it into the block
						} else {
							sz[a] += -op.D[a]
						}
					}
				}
			}
			if op.Kind == "slice" {
				ax := planeAxes[op.Plane]
				op.Size = [3]int32{sz[ax[0]], sz[ax[1]], 1}
			} else {
				op.Size = sz
			}
		case "getblocks", "subvol", "specific":
			op.Anchor = rapid.IntRange(-1, 7).Draw(t, "anchor")
			op.Blk = genBlk(t, "r")
			op.D = [3]int32{rapid.Int32Range(-2, 1).Draw(t, "bdx"), rapid.Int32Range(-1, 1).Draw(t, "bdy"), rapid.Int32Range(-1, 1).Draw(t, "bdz")}
			op.Span = [3]int32{rapid.SampledFrom([]int32{1, 1, 2, 3, 4}).Draw(t, "sx"), rapid.SampledFrom([]int32{1, 1, 2}).Draw(t, "sy"), rapid.SampledFrom([]int32{1, 1, 2}).Draw(t, "sz")}
			if op.Kind == "specific" {
				op.Extra = rapid.SliceOfN(rapid.Custom(func(t *rapid.T) [3]int32 {
					return [3]int32{rapid.Int32Range(-2, 2).Draw(t, "ex"), rapid.Int32Range(-1, 1).Draw(t, "ey"), rapid.Int32Range(-1, 1).Draw(t, "ez")}
				}), 0, 5).Draw(t, "extra")
			}
		}
		return op
	})
	// every history starts with data: a first write, then the generated ops
	first := imgOp{Kind: "raw", Anchor: -1, Blk: genBlk(t, "w0"),
		Span:   [3]int32{rapid.Int32Range(1, 3).Draw(t, "sx0"), rapid.Int32Range(1, 2).Draw(t, "sy0"), rapid.Int32Range(1, 2).Draw(t, "sz0")},
		Mutate: rapid.Bool().Draw(t, "mutate0"),
		ROI:    rapid.IntRange(0, 3).Draw(t, "useroi0") == 0 && len(c.ROI) > 0,
		Seed:   rapid.Uint64().Draw(t, "seed0"),
		Fill:   rapid.SampledFrom([]int{0, 0, 0, 1, 2}).Draw(t, "fill0")}
	if !neg {
		for a := range first.Blk {
			if first.Blk[a] < 0 {
				first.Blk[a] = -first.Blk[a]
			}
		}
	}
	c.Ops = append([]imgOp{first}, rapid.SliceOfN(opGen, 2, 20).Draw(t, "ops")...)
	hasBlocks := false
	for i := range c.Ops {
		if c.Ops[i].Kind != "blocks" {
			continue
		}
		if bpv > 1 && stats.IsKnown(sigBlocksMultibyte) {
			c.Ops[i].Kind = "raw"
			stats.Excluded(sigBlocksMultibyte)
			continue
		}
		hasBlocks = true
	}
	if hasBlocks && stats.IsKnown(sigBlocksExtents) {
		// POST blocks does not extend the extents: aim it only at blocks that are already visible (and so inside
		// the extents posted by the POST raw that created them)
		c.BlocksOnlyOverwrite = true
		stats.Excluded(sigBlocksExtents)
	}
	return c
}

func TestC17Volume(t *testing.T) {
	rapid.Check(t, func(t *rapid.T) {
		c := genImgCase(t)
		stats.SetCur("C17", "TestC17Volume", c)
		info, err := runImg(c)
		if !stats.Judge(t, "C17", "TestC17Volume", err, c) {
			return
		}
		stats.Count("ops_executed", int64(len(c.Ops)))
		cls := []string{"type/" + c.Type, fmt.Sprintf("bs/%d,%d,%d", c.BS[0], c.BS[1], c.BS[2])}
		if c.BS[0] != c.BS[1] || c.BS[1] != c.BS[2] {
			cls = append(cls, "noncubic")
		}
		if c.Bg != 0 {
			cls = append(cls, "bg-nonzero")
		}
		for k := range info.classes {
			cls = append(cls, k)
		}
		sort.Strings(cls)
		stats.Record(stats.HashJSON(c), info.nontrivial, cls, func() interface{} {
			var s []string
			for _, op := range c.Ops {
				s = append(s, opString(op))
			}
			return map[string]interface{}{"test": "volume", "type": c.Type, "block_size": c.BS, "background": c.Bg, "roi_spans": len(c.ROI), "ops": strings.Join(s, "; ")}
		})
	})
}

func TestReplay(t *testing.T) {
	stats.RunReplay(t, map[string]func(json.RawMessage) error{
		"TestC17Volume": func(raw json.RawMessage) error {
			var c imgCase
			if err := json.Unmarshal(raw, &c); err != nil {
				return err
			}
			return checkImg(c)
		},
	})
}
