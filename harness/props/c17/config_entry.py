# Proposed CHECKS entry for /verif/checks_config.py (style of the existing entries; T(...) is defined there).
# Measured: ~55 ms per case single process, ~65 ms per case with 4 shards in parallel (4 x 350 cases = 22.6 s wall),
# ~230 ms per case with 16 shards in parallel (store I/O bound, not CPU bound) -> 16 x 1700 cases ~ 6.5 min.
# Known findings (to be listed in KNOWN_FINDINGS, reproductions in harness/props/c17/replays/):
#   C17/GET-raw/unwritten-voxels-not-background            replays/C17-raw-background.json
#   C17/POST-blocks/multibyte-voxels-block-truncated       replays/C17-blocks-multibyte.json
#   C17/info/extents-not-covering-after-POST-blocks        replays/C17-blocks-extents.json
ENTRY = {
    "C17": {
        "pkg": "c17",
        "level": "exploration",
        "tests": [
            T("TestC17Volume", (350, 4), (1700, 16)),
        ],
        "required_classes": [
            "type/uint8blk", "type/uint16blk", "type/uint32blk", "type/uint64blk", "type/float32blk", "type/rgba8blk",
            "noncubic", "negative-block-coord", "roi-write", "roi-write/partly-inside", "child-version-read",
            "slice-xy", "slice-xz", "slice-yz", "read/partly-outside", "read/wholly-outside", "read/inside",
            "read/crosses-border", "mutate", "ingest", "post-blocks", "get-blocks", "subvolblocks",
            "subvolblocks/single-block", "specificblocks", "info", "overwrite-of-ancestor-block", "bg-nonzero",
        ],
        "rule": "rapid-generated imageblk instance (type in {uint8,uint16,uint32,uint64,float32,rgba8}blk; block size in {16^3 x3, 32^3, 16x32x16, 32x16x8, 8x16x32}; background 0 or 1..255 for 1-byte voxels; optional ROI instance of the same block size with generated spans over block rows z,y in -2..2 posted at the root) and an op list (1 initial write + 2..20 ops) interpreted against the state at execution time: POST raw/0_1_2 of 1..3 x 1..2 x 1..2 blocks at block coordinates in [-3,3]x[-2,2]x[-2,2] (ingest when no block of the box is visible, mutate=true for overwrites and optionally for first writes, optionally ?roi=), POST blocks/<coord>/<span 1..3>, newversion / branch (commit + child), GET raw/0_1_2 boxes and GET raw/0_1|0_2|1_2 PNG slices positioned relative to a previously written block (offset -bs-2..bs+1 per axis biased to block faces, size 1..2*bs+3 biased to bs-1,bs,bs+1,2bs+1; 5/6 of the boxes meet that block by construction, 1/9 use an absolute block coordinate), GET raw?roi=, GET blocks, subvolblocks and specificblocks with compression=uncompressed, GET info + metadata; voxel content = hash(seed, voxel coordinate) or constant or opaque-alpha hash. After every write the written box is read back (GET blocks rows, then GET raw); after the history every touched block is requested through specificblocks at every version and the extents are checked at every version. Oracle: model.ImageVol (sparse block map per version, tree ancestry): bit-identical bytes, unwritten voxels = background, unset blocks absent from block streams, advertised extents (info.Extended, info.Extents, metadata axes) cover every visible written voxel, a roi= write changes only blocks inside the ROI. Non-trivial: some raw/slice read box crosses >=1 block border and covers both written and unwritten voxels. Distinct = hash of the case value.",
        "assumptions": [
            "2-D slices are compared through PNG only (lossless for 8/16-bit gray and 32/64-bit NRGBA as produced by the server); Go's image/png decoder is trusted; jpg is lossy and not compared",
            "a non-zero Background is only generated for 1-byte voxels, where the documented 'integer value that signifies background in any element' has a single reading",
            "version graphs are trees (commit/newversion/branch); resolution through merges is C01's subject",
            "GET raw?roi= : voxels outside the ROI are documented as zeroed; only asserted with background 0",
            "mutate=false is only used when no block of the written box is visible at the node (documented meaning of ingestion); mutate=true is also used for first writes, as the upstream tests do",
            "block streams (subvolblocks, specificblocks) are compared as sets of blocks (no order is documented)",
        ],
    },
}
