// C18 — spatial keys, packed block indices and run-length volumes preserve geometry.
package c18

import (
	"bytes"
	"encoding/binary"
	"encoding/json"
	"fmt"
	"os"
	"sort"
	"testing"

	"github.com/janelia-flyem/dvid/datatype/common/labels"
	"github.com/janelia-flyem/dvid/datatype/roi"
	"github.com/janelia-flyem/dvid/dvid"
	"pgregory.net/rapid"

	"verif/drive"
	"verif/stats"
)

func TestMain(m *testing.M) {
	drive.Open()
	rc := m.Run()
	drive.Close()
	stats.Flush()
	os.Exit(rc)
}

// ---------------------------------------------------------------- keys

var int32Edges = []int32{0, 1, -1, 2, -2, 127, 128, 255, 256, -128, -129, -256, -257, 65535, 65536, -65536, -65537,
	1<<20 - 1, 1 << 20, -(1<<20 - 1), -(1 << 20), 1<<24 - 1, 1 << 24, -(1 << 24), 1<<31 - 1, 1<<31 - 2, -(1 << 31), -(1<<31 - 1)}

func genInt32(t *rapid.T, label string) int32 {
	if rapid.IntRange(0, 2).Draw(t, label+"k") == 0 {
		return rapid.SampledFrom(int32Edges).Draw(t, label)
	}
	return rapid.Int32().Draw(t, label)
}

type keyCase struct {
	A [3]int32 `json:"a"`
	B [3]int32 `json:"b"`
}

func cmpZYX(a, b [3]int32) int {
	for _, i := range []int{2, 1, 0} {
		if a[i] < b[i] {
			return -1
		}
		if a[i] > b[i] {
			return 1
		}
	}
	return 0
}

func sign(i int) int {
	if i < 0 {
		return -1
	}
	if i > 0 {
		return 1
	}
	return 0
}

func checkKeys(c keyCase) error {
	return stats.PanicGuard("C18/keys/panic", func() error {
		enc := func(p [3]int32) ([][]byte, error) {
			pt := dvid.Point3d{p[0], p[1], p[2]}
			b1 := pt.ToZYXBytes()
			var back dvid.Point3d
			if err := back.FromZYXBytes(b1); err != nil || back != pt {
				return nil, stats.Violf("C18/ToZYXBytes/roundtrip", "%v -> %x -> %v (%v)", pt, b1, back, err)
			}
			idx := dvid.IndexZYX{p[0], p[1], p[2]}
			b2 := idx.Bytes()
			var idx2 dvid.IndexZYX
			if err := idx2.IndexFromBytes(b2); err != nil || idx2 != idx {
				return nil, stats.Violf("C18/IndexZYX.Bytes/roundtrip", "%v -> %x -> %v (%v)", idx, b2, idx2, err)
			}
			s := idx.ToIZYXString()
			x, y, z, err := s.Unpack()
			if err != nil || x != p[0] || y != p[1] || z != p[2] {
				return nil, stats.Violf("C18/IZYXString/roundtrip", "%v -> (%d,%d,%d) (%v)", p, x, y, z, err)
			}
			i3, err := s.IndexZYX()
			if err != nil || i3 != idx {
				return nil, stats.Violf("C18/IZYXString/roundtrip", "%v IndexZYX() -> %v (%v)", p, i3, err)
			}
			cp, err := s.ToChunkPoint3d()
			if err != nil || cp != (dvid.ChunkPoint3d{p[0], p[1], p[2]}) {
				return nil, stats.Violf("C18/IZYXString/roundtrip", "%v ToChunkPoint3d -> %v (%v)", p, cp, err)
			}
			s2 := dvid.ChunkPoint3d{p[0], p[1], p[2]}.ToIZYXString()
			if s2 != s {
				return nil, stats.Violf("C18/IZYXString/constructors-disagree", "%v: %x vs %x", p, s, s2)
			}
			return [][]byte{b1, b2, []byte(s)}, nil
		}
		ea, err := enc(c.A)
		if err != nil {
			return err
		}
		eb, err := enc(c.B)
		if err != nil {
			return err
		}
		want := cmpZYX(c.A, c.B)
		for i := range ea {
			if got := sign(bytes.Compare(ea[i], eb[i])); got != want {
				return stats.Violf("C18/keys/order", "encoding %d: a=%v b=%v numeric zyx order %d, byte order %d", i, c.A, c.B, want, got)
			}
		}
		return nil
	})
}

func TestC18Keys(t *testing.T) {
	rapid.Check(t, func(t *rapid.T) {
		var c keyCase
		for i := 0; i < 3; i++ {
			c.A[i] = genInt32(t, fmt.Sprintf("a%d", i))
		}
		switch rapid.IntRange(0, 3).Draw(t, "rel") {
		case 0: // independent
			for i := 0; i < 3; i++ {
				c.B[i] = genInt32(t, fmt.Sprintf("b%d", i))
			}
		case 1: // differ in one axis by a small delta (wrapping allowed: still a valid int32)
			c.B = c.A
			ax := rapid.IntRange(0, 2).Draw(t, "ax")
			c.B[ax] = c.A[ax] + int32(rapid.SampledFrom([]int{1, -1, 255, 256, -256, 65536}).Draw(t, "d"))
		case 2: // sign flipped on one axis
			c.B = c.A
			ax := rapid.IntRange(0, 2).Draw(t, "ax")
			c.B[ax] = -c.A[ax]
		case 3:
			c.B = c.A
		}
		if !stats.Judge(t, "C18", "TestC18Keys", checkKeys(c), c) {
			return
		}
		diffSign := false
		for i := 0; i < 3; i++ {
			if (c.A[i] < 0) != (c.B[i] < 0) {
				diffSign = true
			}
		}
		cls := []string{"keys"}
		if diffSign {
			cls = append(cls, "keys/different-signs")
		}
		stats.Record(stats.HashJSON(c), diffSign, cls, func() interface{} { return map[string]interface{}{"test": "keys", "case": c} })
	})
}

// packed block index
type packCase struct {
	A [3]int32 `json:"a"`
	B [3]int32 `json:"b"`
}

func checkPacked(c packCase) error {
	return stats.PanicGuard("C18/packed/panic", func() error {
		ea := labels.EncodeBlockIndex(c.A[0], c.A[1], c.A[2])
		x, y, z := labels.DecodeBlockIndex(ea)
		if x != c.A[0] || y != c.A[1] || z != c.A[2] {
			return stats.Violf("C18/EncodeBlockIndex/roundtrip", "%v -> %#x -> (%d,%d,%d)", c.A, ea, x, y, z)
		}
		want := dvid.ChunkPoint3d{c.A[0], c.A[1], c.A[2]}.ToIZYXString()
		if got := labels.BlockIndexToIZYXString(ea); got != want {
			return stats.Violf("C18/BlockIndexToIZYXString/differs", "%v -> %s, want %s", c.A, got, want)
		}
		back, err := labels.IZYXStringToBlockIndex(want)
		if err != nil || back != ea {
			return stats.Violf("C18/IZYXStringToBlockIndex/differs", "%v: %#x vs %#x (%v)", c.A, back, ea, err)
		}
		eb := labels.EncodeBlockIndex(c.B[0], c.B[1], c.B[2])
		if (ea == eb) != (c.A == c.B) {
			return stats.Violf("C18/EncodeBlockIndex/not-injective", "%v -> %#x, %v -> %#x", c.A, ea, c.B, eb)
		}
		return nil
	})
}

func genPacked(t *rapid.T, label string) int32 {
	lim := int32(1<<20 - 1)
	switch rapid.IntRange(0, 2).Draw(t, label+"k") {
	case 0:
		return rapid.SampledFrom([]int32{0, 1, -1, lim, -lim, lim - 1, -(lim - 1), 1 << 19, -(1 << 19), 1<<19 - 1, 1<<10 - 1, -(1 << 10)}).Draw(t, label)
	case 1:
		return rapid.Int32Range(-40, 40).Draw(t, label)
	}
	return rapid.Int32Range(-lim, lim).Draw(t, label)
}

func TestC18Packed(t *testing.T) {
	rapid.Check(t, func(t *rapid.T) {
		var c packCase
		for i := 0; i < 3; i++ {
			c.A[i] = genPacked(t, fmt.Sprintf("a%d", i))
			c.B[i] = genPacked(t, fmt.Sprintf("b%d", i))
		}
		if rapid.Bool().Draw(t, "near") {
			c.B = c.A
			ax := rapid.IntRange(0, 2).Draw(t, "ax")
			c.B[ax] = -c.A[ax]
		}
		if !stats.Judge(t, "C18", "TestC18Packed", checkPacked(c), c) {
			return
		}
		neg := c.A[0] < 0 || c.A[1] < 0 || c.A[2] < 0
		stats.Record(stats.HashJSON(c), neg, []string{"packed"}, func() interface{} { return map[string]interface{}{"test": "packed", "case": c} })
	})
}

// ---------------------------------------------------------------- RLEs

type run struct {
	X, Y, Z int32
	N       int32
}

type rleCase struct {
	Runs   []run    `json:"runs"`   // non-overlapping, in generated (shuffled) order
	Sub    []run    `json:"sub"`    // subset of Runs' voxels
	Other  []run    `json:"other"`  // second run set (non-overlapping within itself) for Add
	Block  [3]int32 `json:"block"`  // block size
	Bounds [6]*int32 `json:"bounds"` // minx,maxx,miny,maxy,minz,maxz (nil = unbounded)
	NilB   bool     `json:"nil_bounds"`
	Pts    [][3]int32 `json:"pts"`
}

type vox [3]int32

func voxels(rs []run) map[vox]int {
	m := map[vox]int{}
	for _, r := range rs {
		for i := int32(0); i < r.N; i++ {
			m[vox{r.X + i, r.Y, r.Z}]++
		}
	}
	return m
}

func toRLEs(rs []run) dvid.RLEs {
	out := make(dvid.RLEs, len(rs))
	for i, r := range rs {
		out[i] = dvid.NewRLE(dvid.Point3d{r.X, r.Y, r.Z}, r.N)
	}
	return out
}

func fromRLEs(rl dvid.RLEs) []run {
	out := make([]run, len(rl))
	for i, r := range rl {
		p := r.StartPt()
		out[i] = run{p[0], p[1], p[2], r.Length()}
	}
	return out
}

func sameSet(a, b map[vox]int) (bool, string) {
	for v, n := range a {
		if b[v] == 0 {
			return false, fmt.Sprintf("voxel %v missing from result", v)
		}
		_ = n
	}
	for v := range b {
		if a[v] == 0 {
			return false, fmt.Sprintf("voxel %v invented in result", v)
		}
	}
	return true, ""
}

func noDup(m map[vox]int) (bool, string) {
	for v, n := range m {
		if n > 1 {
			return false, fmt.Sprintf("voxel %v covered %d times", v, n)
		}
	}
	return true, ""
}

func floorDiv(a, b int32) int32 {
	q := a / b
	if (a%b != 0) && ((a < 0) != (b < 0)) {
		q--
	}
	return q
}

func checkRLE(c rleCase) error {
	return stats.PanicGuard("C18/RLEs/panic", func() error {
		set := voxels(c.Runs)
		rl := toRLEs(c.Runs)
		orig := append(dvid.RLEs(nil), rl...)
		unchanged := func(what string) error {
			for i := range rl {
				if rl[i] != orig[i] {
					return stats.Violf("C18/RLEs/"+what+"-mutates-receiver", "run %d changed from %s to %s", i, orig[i], rl[i])
				}
			}
			return nil
		}

		// Normalize
		norm := rl.Normalize()
		if ok, why := sameSet(set, voxels(fromRLEs(norm))); !ok {
			return stats.Violf("C18/RLEs.Normalize/voxel-set", "%s", why)
		}
		if ok, why := noDup(voxels(fromRLEs(norm))); !ok {
			return stats.Violf("C18/RLEs.Normalize/voxel-set", "%s", why)
		}
		nr := fromRLEs(norm)
		for i := 1; i < len(nr); i++ {
			a, b := nr[i-1], nr[i]
			if !(a.Z < b.Z || (a.Z == b.Z && (a.Y < b.Y || (a.Y == b.Y && a.X < b.X)))) {
				return stats.Violf("C18/RLEs.Normalize/not-sorted", "%v before %v", a, b)
			}
			if a.Z == b.Z && a.Y == b.Y && a.X+a.N >= b.X {
				return stats.Violf("C18/RLEs.Normalize/adjacent-left", "%v and %v adjacent/overlapping", a, b)
			}
		}
		if err := unchanged("Normalize"); err != nil {
			return err
		}

		// Partition
		bs := dvid.Point3d{c.Block[0], c.Block[1], c.Block[2]}
		brles, err := rl.Partition(bs)
		if err != nil {
			return stats.Violf("C18/RLEs.Partition/error", "%v", err)
		}
		got := map[vox]int{}
		for key, frs := range brles {
			bx, by, bz, err := key.Unpack()
			if err != nil {
				return stats.Violf("C18/RLEs.Partition/bad-key", "%v", err)
			}
			for _, fr := range fromRLEs(frs) {
				if fr.N < 1 {
					return stats.Violf("C18/RLEs.Partition/empty-fragment", "%v in block (%d,%d,%d)", fr, bx, by, bz)
				}
				for i := int32(0); i < fr.N; i++ {
					v := vox{fr.X + i, fr.Y, fr.Z}
					if floorDiv(v[0], bs[0]) != bx || floorDiv(v[1], bs[1]) != by || floorDiv(v[2], bs[2]) != bz {
						return stats.Violf("C18/RLEs.Partition/fragment-outside-block", "voxel %v filed under block (%d,%d,%d), block size %v", v, bx, by, bz, bs)
					}
					got[v]++
				}
			}
		}
		if ok, why := sameSet(set, got); !ok {
			return stats.Violf("C18/RLEs.Partition/voxel-set", "%s", why)
		}
		if ok, why := noDup(got); !ok {
			return stats.Violf("C18/RLEs.Partition/voxel-set", "%s", why)
		}
		if n := brles.NumVoxels(); n != uint64(len(set)) {
			return stats.Violf("C18/BlockRLEs.NumVoxels/differs", "%d vs %d", n, len(set))
		}

		// Split(subset)
		subset := voxels(c.Sub)
		remain, err := rl.Split(toRLEs(c.Sub))
		if err != nil {
			return stats.Violf("C18/RLEs.Split/error-on-subset", "%v", err)
		}
		want := map[vox]int{}
		for v := range set {
			if subset[v] == 0 {
				want[v] = 1
			}
		}
		rem := voxels(fromRLEs(remain))
		if ok, why := sameSet(want, rem); !ok {
			return stats.Violf("C18/RLEs.Split/voxel-set", "%s (|set|=%d |sub|=%d |remain|=%d)", why, len(set), len(subset), len(rem))
		}
		if ok, why := noDup(rem); !ok {
			return stats.Violf("C18/RLEs.Split/voxel-set", "%s", why)
		}
		if err := unchanged("Split"); err != nil {
			return err
		}

		// FitToBounds
		var ob *dvid.OptionalBounds
		if !c.NilB {
			ob = new(dvid.OptionalBounds)
			if c.Bounds[0] != nil {
				ob.SetMinX(*c.Bounds[0])
			}
			if c.Bounds[1] != nil {
				ob.SetMaxX(*c.Bounds[1])
			}
			if c.Bounds[2] != nil {
				ob.SetMinY(*c.Bounds[2])
			}
			if c.Bounds[3] != nil {
				ob.SetMaxY(*c.Bounds[3])
			}
			if c.Bounds[4] != nil {
				ob.SetMinZ(*c.Bounds[4])
			}
			if c.Bounds[5] != nil {
				ob.SetMaxZ(*c.Bounds[5])
			}
		}
		fit := rl.FitToBounds(ob)
		want = map[vox]int{}
		for v := range set {
			in := true
			if !c.NilB {
				for ax := 0; ax < 3; ax++ {
					if lo := c.Bounds[2*ax]; lo != nil && v[ax] < *lo {
						in = false
					}
					if hi := c.Bounds[2*ax+1]; hi != nil && v[ax] > *hi {
						in = false
					}
				}
			}
			if in {
				want[v] = 1
			}
		}
		fv := voxels(fromRLEs(fit))
		if ok, why := sameSet(want, fv); !ok {
			sig := "C18/RLEs.FitToBounds/voxel-set"
			if c.NilB {
				sig = "C18/RLEs.FitToBounds/nil-bounds"
			}
			return stats.Violf(sig, "%s (nil bounds=%v, |set|=%d, |fit|=%d, want %d)", why, c.NilB, len(set), len(fv), len(want))
		}
		if ok, why := noDup(fv); !ok {
			return stats.Violf("C18/RLEs.FitToBounds/voxel-set", "%s", why)
		}
		if err := unchanged("FitToBounds"); err != nil {
			return err
		}

		// Add (union as a set)
		acc := append(dvid.RLEs(nil), rl...)
		acc.Add(toRLEs(c.Other))
		uni := map[vox]int{}
		for v := range set {
			uni[v] = 1
		}
		for v := range voxels(c.Other) {
			uni[v] = 1
		}
		if ok, why := sameSet(uni, voxels(fromRLEs(acc))); !ok {
			return stats.Violf("C18/RLEs.Add/voxel-set", "%s", why)
		}

		// Excise: each run minus each sub run of the same row
		for _, a := range c.Runs {
			for _, b := range c.Sub {
				ra, rb := dvid.NewRLE(dvid.Point3d{a.X, a.Y, a.Z}, a.N), dvid.NewRLE(dvid.Point3d{b.X, b.Y, b.Z}, b.N)
				frags := ra.Excise(rb)
				inter := ra.Intersects(rb)
				va, vb := voxels([]run{a}), voxels([]run{b})
				overlap := false
				for v := range va {
					if vb[v] > 0 {
						overlap = true
					}
				}
				if inter != overlap {
					return stats.Violf("C18/RLE.Intersects/differs", "%v %v: %v vs %v", a, b, inter, overlap)
				}
				if !overlap {
					if frags != nil {
						return stats.Violf("C18/RLE.Excise/non-intersecting-not-nil", "%v minus %v -> %v", a, b, frags)
					}
					continue
				}
				w := map[vox]int{}
				for v := range va {
					if vb[v] == 0 {
						w[v] = 1
					}
				}
				if ok, why := sameSet(w, voxels(fromRLEs(frags))); !ok {
					return stats.Violf("C18/RLE.Excise/voxel-set", "%v minus %v: %s", a, b, why)
				}
			}
		}

		// binary (de)serialisation
		mb, err := rl.MarshalBinary()
		if err != nil {
			return stats.Violf("C18/RLEs.MarshalBinary/error", "%v", err)
		}
		var back dvid.RLEs
		if err := back.UnmarshalBinary(mb); err != nil {
			return stats.Violf("C18/RLEs.UnmarshalBinary/error", "%v", err)
		}
		if len(back) != len(rl) {
			return stats.Violf("C18/RLEs.binary/roundtrip", "%d runs -> %d", len(rl), len(back))
		}
		for i := range rl {
			if back[i] != rl[i] {
				return stats.Violf("C18/RLEs.binary/roundtrip", "run %d: %s -> %s", i, rl[i], back[i])
			}
			one, _ := rl[i].MarshalBinary()
			var r1 dvid.RLE
			if err := r1.UnmarshalBinary(one); err != nil || r1 != rl[i] {
				return stats.Violf("C18/RLE.binary/roundtrip", "run %d: %s -> %s (%v)", i, rl[i], r1, err)
			}
			var wb bytes.Buffer
			rl[i].WriteTo(&wb)
			if !bytes.Equal(wb.Bytes(), one) {
				return stats.Violf("C18/RLE.WriteTo/differs-from-MarshalBinary", "run %d", i)
			}
		}
		// wire format of ReadRLEs: 8-byte header (byte 0 = binary encoding), uint32 #spans, spans
		wire := make([]byte, 12)
		wire[0] = dvid.EncodingBinary
		wire[1] = 3
		binary.LittleEndian.PutUint32(wire[8:], uint32(len(rl)))
		wire = append(wire, mb...)
		rr, err := dvid.ReadRLEs(bytes.NewReader(wire))
		if err != nil {
			return stats.Violf("C18/ReadRLEs/error", "%v", err)
		}
		if len(rr) != len(rl) {
			return stats.Violf("C18/ReadRLEs/roundtrip", "%d runs -> %d", len(rl), len(rr))
		}
		for i := range rl {
			if rr[i] != rl[i] {
				return stats.Violf("C18/ReadRLEs/roundtrip", "run %d: %s -> %s", i, rl[i], rr[i])
			}
		}

		// Stats, Within, Offset
		nv, nrn := rl.Stats()
		if nv != uint64(len(set)) || int(nrn) != len(rl) {
			return stats.Violf("C18/RLEs.Stats/differs", "%d voxels %d runs vs %d %d", nv, nrn, len(set), len(rl))
		}
		pts := make([]dvid.Point3d, len(c.Pts))
		for i, p := range c.Pts {
			pts[i] = dvid.Point3d{p[0], p[1], p[2]}
		}
		in := rl.Within(pts)
		inSet := map[int]bool{}
		for _, i := range in {
			inSet[i] = true
		}
		for i, p := range c.Pts {
			if (set[vox(p)] > 0) != inSet[i] {
				return stats.Violf("C18/RLEs.Within/differs", "point %v: within=%v, in set=%v", p, inSet[i], set[vox(p)] > 0)
			}
		}
		return nil
	})
}

func genRuns(t *rapid.T, label string, base [3]int32, maxRows, maxRuns int) []run {
	var out []run
	nrows := rapid.IntRange(0, maxRows).Draw(t, label+"rows")
	seen := map[[2]int32]bool{}
	for r := 0; r < nrows; r++ {
		y := base[1] + rapid.Int32Range(-3, 12).Draw(t, label+"y")
		z := base[2] + rapid.Int32Range(-3, 12).Draw(t, label+"z")
		if seen[[2]int32{y, z}] {
			continue
		}
		seen[[2]int32{y, z}] = true
		x := base[0] + rapid.Int32Range(-20, 20).Draw(t, label+"x0")
		n := rapid.IntRange(1, maxRuns).Draw(t, label+"nruns")
		for i := 0; i < n; i++ {
			gap := rapid.SampledFrom([]int32{0, 0, 1, 2, 7, 8, 9, 30}).Draw(t, label+"gap")
			ln := rapid.SampledFrom([]int32{1, 1, 2, 3, 7, 8, 9, 15, 16, 17, 31, 33, 70}).Draw(t, label+"len")
			x += gap
			out = append(out, run{x, y, z, ln})
			x += ln
		}
	}
	return out
}

func genRLECase(t *rapid.T) rleCase {
	var c rleCase
	base := [3]int32{
		rapid.SampledFrom([]int32{0, 0, -40, -1000, 1 << 20, -(1 << 20), 1 << 29}).Draw(t, "bx"),
		rapid.SampledFrom([]int32{0, 0, -5, -1000, 1 << 20, -(1 << 29)}).Draw(t, "by"),
		rapid.SampledFrom([]int32{0, 0, -5, 1000, -(1 << 20)}).Draw(t, "bz"),
	}
	runs := genRuns(t, "r", base, 4, 4)
	// subset: for each run, optionally one or two sub-intervals
	for _, r := range runs {
		switch rapid.IntRange(0, 4).Draw(t, "subk") {
		case 0: // nothing
		case 1: // whole
			c.Sub = append(c.Sub, r)
		case 2: // prefix / suffix / middle
			a := rapid.Int32Range(0, r.N-1).Draw(t, "sa")
			n := rapid.Int32Range(1, r.N-a).Draw(t, "sn")
			c.Sub = append(c.Sub, run{r.X + a, r.Y, r.Z, n})
		case 3: // two pieces
			if r.N >= 3 {
				a := rapid.Int32Range(1, r.N-2).Draw(t, "sm")
				c.Sub = append(c.Sub, run{r.X, r.Y, r.Z, a})
				if rapid.Bool().Draw(t, "adjacent") {
					c.Sub = append(c.Sub, run{r.X + a, r.Y, r.Z, r.N - a})
				} else {
					c.Sub = append(c.Sub, run{r.X + a + 1, r.Y, r.Z, r.N - a - 1})
				}
			}
		case 4: // single voxel
			a := rapid.Int32Range(0, r.N-1).Draw(t, "sv")
			c.Sub = append(c.Sub, run{r.X + a, r.Y, r.Z, 1})
		}
	}
	c.Runs = rapid.Permutation(runs).Draw(t, "perm")
	if len(runs) == 0 {
		c.Runs = []run{}
	}
	if len(c.Sub) > 1 {
		c.Sub = rapid.Permutation(c.Sub).Draw(t, "subperm")
	}
	c.Other = genRuns(t, "o", base, 2, 2)
	c.Block = rapid.SampledFrom([][3]int32{{8, 8, 8}, {16, 16, 16}, {32, 32, 32}, {64, 64, 64}, {16, 32, 8}, {5, 7, 3}}).Draw(t, "block")
	c.NilB = rapid.IntRange(0, 7).Draw(t, "nilb") == 0
	for i := 0; i < 6; i++ {
		if rapid.Bool().Draw(t, "hasb") {
			v := base[i/2] + rapid.Int32Range(-25, 80).Draw(t, "bv")
			c.Bounds[i] = &v
		}
	}
	np := rapid.IntRange(0, 6).Draw(t, "npts")
	for i := 0; i < np; i++ {
		if len(runs) > 0 && rapid.Bool().Draw(t, "onrun") {
			r := runs[rapid.IntRange(0, len(runs)-1).Draw(t, "pr")]
			c.Pts = append(c.Pts, [3]int32{r.X + rapid.Int32Range(-1, r.N).Draw(t, "po"), r.Y, r.Z})
		} else {
			c.Pts = append(c.Pts, [3]int32{base[0] + rapid.Int32Range(-30, 100).Draw(t, "px"), base[1] + rapid.Int32Range(-4, 13).Draw(t, "py"), base[2] + rapid.Int32Range(-4, 13).Draw(t, "pz")})
		}
	}
	return c
}

func rleClasses(c rleCase) (nt bool, cls []string) {
	adj, cross, neg := false, false, false
	byRow := map[[2]int32][]run{}
	for _, r := range c.Runs {
		byRow[[2]int32{r.Y, r.Z}] = append(byRow[[2]int32{r.Y, r.Z}], r)
		if floorDiv(r.X, c.Block[0]) != floorDiv(r.X+r.N-1, c.Block[0]) {
			cross = true
		}
		if r.X < 0 || r.Y < 0 || r.Z < 0 {
			neg = true
		}
	}
	for _, rs := range byRow {
		sort.Slice(rs, func(i, j int) bool { return rs[i].X < rs[j].X })
		for i := 1; i < len(rs); i++ {
			if rs[i-1].X+rs[i-1].N == rs[i].X {
				adj = true
			}
		}
	}
	cls = []string{"rle"}
	if adj {
		cls = append(cls, "rle/adjacent-runs")
	}
	if cross {
		cls = append(cls, "rle/run-crosses-block-edge")
	}
	if neg {
		cls = append(cls, "rle/negative-coords")
	}
	if c.NilB {
		cls = append(cls, "rle/nil-bounds")
	}
	if len(c.Sub) > 0 {
		cls = append(cls, "rle/nonempty-split")
	}
	return adj && cross, cls
}

func TestC18RLEs(t *testing.T) {
	rapid.Check(t, func(t *rapid.T) {
		c := genRLECase(t)
		if stats.IsKnown("C18/RLEs.FitToBounds/nil-bounds") && c.NilB {
			c.NilB = false
			stats.Excluded("C18/RLEs.FitToBounds/nil-bounds")
		}
		if !stats.Judge(t, "C18", "TestC18RLEs", checkRLE(c), c) {
			return
		}
		nt, cls := rleClasses(c)
		stats.Record(stats.HashJSON(c), nt, cls, func() interface{} { return map[string]interface{}{"test": "rles", "case": c} })
	})
}

// ---------------------------------------------------------------- ROI (HTTP + VoxelBoundsInside)

type roiCase struct {
	BlockSize int32      `json:"block_size"`
	Spans     [][4]int32 `json:"spans"` // z,y,x0,x1 non-overlapping
	Pts       [][3]int32 `json:"pts"`   // voxel coordinates
	MaskOff   [3]int32   `json:"mask_offset"`
	MaskSize  [3]int32   `json:"mask_size"`
	Boxes     [][6]int32 `json:"boxes"` // voxel extents min xyz, max xyz for VoxelBoundsInside
}

func (c roiCase) member(block [3]int32) bool {
	for _, s := range c.Spans {
		if s[0] == block[2] && s[1] == block[1] && s[2] <= block[0] && block[0] <= s[3] {
			return true
		}
	}
	return false
}

func checkROI(c roiCase) error {
	root, err := drive.NewRepo()
	if err != nil {
		return err
	}
	if err := drive.NewInstance(root, "roi", "r", map[string]string{"BlockSize": fmt.Sprintf("%d,%d,%d", c.BlockSize, c.BlockSize, c.BlockSize)}); err != nil {
		return err
	}
	body, _ := json.Marshal(c.Spans)
	if r := drive.Post("node/"+root+"/r/roi", body); !r.OK() {
		if r.IsPanic() {
			return stats.Violf("C18/roi/panic", "%s", r)
		}
		return stats.Violf("C18/roi/POST-refused", "%s", r)
	}
	// GET roi returns the posted block set, sorted z,y,x0
	r := drive.Get("node/" + root + "/r/roi")
	if !r.OK() {
		return stats.Violf("C18/roi/GET-failed", "%s", r)
	}
	var got [][4]int32
	if err := json.Unmarshal(r.Body, &got); err != nil {
		return stats.Violf("C18/roi/GET-bad-json", "%v: %s", err, r)
	}
	blocks := func(sp [][4]int32) map[vox]int {
		m := map[vox]int{}
		for _, s := range sp {
			for x := s[2]; x <= s[3]; x++ {
				m[vox{x, s[1], s[0]}]++
			}
		}
		return m
	}
	if ok, why := sameSet(blocks(c.Spans), blocks(got)); !ok {
		return stats.Violf("C18/roi/GET-span-set-differs", "%s", why)
	}
	for i := 1; i < len(got); i++ {
		a, b := got[i-1], got[i]
		if !(a[0] < b[0] || (a[0] == b[0] && (a[1] < b[1] || (a[1] == b[1] && a[2] < b[2])))) {
			return stats.Violf("C18/roi/GET-not-sorted", "%v before %v", a, b)
		}
	}
	// ptquery
	if len(c.Pts) > 0 {
		pb, _ := json.Marshal(c.Pts)
		r := drive.Post("node/"+root+"/r/ptquery", pb)
		if !r.OK() {
			if r.IsPanic() {
				return stats.Violf("C18/roi-ptquery/panic", "%s", r)
			}
			return stats.Violf("C18/roi-ptquery/refused", "%s", r)
		}
		var ans []bool
		if err := json.Unmarshal(r.Body, &ans); err != nil || len(ans) != len(c.Pts) {
			return stats.Violf("C18/roi-ptquery/bad-answer", "%s", r)
		}
		for i, p := range c.Pts {
			b := [3]int32{floorDiv(p[0], c.BlockSize), floorDiv(p[1], c.BlockSize), floorDiv(p[2], c.BlockSize)}
			if ans[i] != c.member(b) {
				sig := "C18/roi-ptquery/differs-from-spans"
				return stats.Violf(sig, "point %v (block %v): answered %v, spans say %v", p, b, ans[i], c.member(b))
			}
		}
	}
	// mask
	{
		url := fmt.Sprintf("node/%s/r/mask/0_1_2/%d_%d_%d/%d_%d_%d", root, c.MaskSize[0], c.MaskSize[1], c.MaskSize[2], c.MaskOff[0], c.MaskOff[1], c.MaskOff[2])
		r := drive.Get(url)
		if !r.OK() {
			if r.IsPanic() {
				return stats.Violf(maskSig(c, "panic"), "%s", r)
			}
			return stats.Violf(maskSig(c, "refused"), "%s", r)
		}
		n := int(c.MaskSize[0]) * int(c.MaskSize[1]) * int(c.MaskSize[2])
		if len(r.Body) != n {
			return stats.Violf(maskSig(c, "wrong-size"), "%d bytes for %v", len(r.Body), c.MaskSize)
		}
		i := 0
		for z := int32(0); z < c.MaskSize[2]; z++ {
			for y := int32(0); y < c.MaskSize[1]; y++ {
				for x := int32(0); x < c.MaskSize[0]; x++ {
					v := [3]int32{c.MaskOff[0] + x, c.MaskOff[1] + y, c.MaskOff[2] + z}
					b := [3]int32{floorDiv(v[0], c.BlockSize), floorDiv(v[1], c.BlockSize), floorDiv(v[2], c.BlockSize)}
					want := c.member(b)
					if (r.Body[i] != 0) != want {
						return stats.Violf(maskSig(c, "differs-from-spans"), "voxel %v (block %v): mask %d, spans say %v; offset %v size %v", v, b, r.Body[i], want, c.MaskOff, c.MaskSize)
					}
					i++
				}
			}
		}
	}
	// VoxelBoundsInside on the sorted spans
	sorted := make([]dvid.Span, len(got))
	for i, s := range got {
		sorted[i] = dvid.Span{s[0], s[1], s[2], s[3]}
	}
	bs := dvid.Point3d{c.BlockSize, c.BlockSize, c.BlockSize}
	for _, bx := range c.Boxes {
		e := dvid.Extents3d{MinPoint: dvid.Point3d{bx[0], bx[1], bx[2]}, MaxPoint: dvid.Point3d{bx[3], bx[4], bx[5]}}
		in, err := roi.VoxelBoundsInside(e, bs, sorted)
		if err != nil {
			return stats.Violf("C18/VoxelBoundsInside/error", "%v", err)
		}
		want := false
		for bz := floorDiv(bx[2], c.BlockSize); bz <= floorDiv(bx[5], c.BlockSize) && !want; bz++ {
			for by := floorDiv(bx[1], c.BlockSize); by <= floorDiv(bx[4], c.BlockSize) && !want; by++ {
				for b := floorDiv(bx[0], c.BlockSize); b <= floorDiv(bx[3], c.BlockSize); b++ {
					if c.member([3]int32{b, by, bz}) {
						want = true
						break
					}
				}
			}
		}
		if in != want {
			return stats.Violf("C18/VoxelBoundsInside/differs-from-spans", "extents %v: %v, spans say %v", bx, in, want)
		}
	}
	return nil
}

func maskSig(c roiCase, what string) string {
	if c.MaskOff[0] < 0 || c.MaskOff[1] < 0 || c.MaskOff[2] < 0 {
		return "C18/roi-mask/negative-offset/" + what
	}
	return "C18/roi-mask/" + what
}

func genROICase(t *rapid.T) roiCase {
	c := roiCase{BlockSize: rapid.SampledFrom([]int32{16, 32}).Draw(t, "bs")}
	neg := rapid.Bool().Draw(t, "neg")
	lo := int32(0)
	if neg {
		lo = -3
	}
	if stats.IsKnown("C18/roi-mask/negative-offset/differs-from-spans") && neg {
		// keep negative spans and points, but the mask box is generated non-negative below
		stats.Excluded("C18/roi-mask/negative-offset/differs-from-spans")
	}
	nrows := rapid.IntRange(0, 5).Draw(t, "nrows")
	seen := map[[2]int32]bool{}
	var spans [][4]int32
	for r := 0; r < nrows; r++ {
		z := rapid.Int32Range(lo, 3).Draw(t, "z")
		y := rapid.Int32Range(lo, 3).Draw(t, "y")
		if seen[[2]int32{z, y}] {
			continue
		}
		seen[[2]int32{z, y}] = true
		x := rapid.Int32Range(lo, 2).Draw(t, "x0")
		for i := rapid.IntRange(1, 3).Draw(t, "n"); i > 0; i-- {
			x += rapid.Int32Range(0, 2).Draw(t, "gap")
			ln := rapid.Int32Range(1, 3).Draw(t, "len")
			spans = append(spans, [4]int32{z, y, x, x + ln - 1})
			x += ln
		}
	}
	if len(spans) > 0 {
		c.Spans = rapid.Permutation(spans).Draw(t, "perm")
	} else {
		c.Spans = [][4]int32{}
	}
	vlo, vhi := lo*c.BlockSize-2, 4*c.BlockSize+2
	for i := rapid.IntRange(0, 8).Draw(t, "npts"); i > 0; i-- {
		c.Pts = append(c.Pts, [3]int32{rapid.Int32Range(vlo, 9*c.BlockSize).Draw(t, "px"), rapid.Int32Range(vlo, vhi).Draw(t, "py"), rapid.Int32Range(vlo, vhi).Draw(t, "pz")})
	}
	mlo := vlo
	if !neg || stats.IsKnown("C18/roi-mask/negative-offset/differs-from-spans") {
		mlo = 0
	}
	for i := 0; i < 3; i++ {
		c.MaskOff[i] = rapid.Int32Range(mlo, 3*c.BlockSize).Draw(t, "mo")
		c.MaskSize[i] = rapid.Int32Range(1, 2*c.BlockSize+3).Draw(t, "ms")
	}
	c.MaskSize[0] = rapid.Int32Range(1, 5*c.BlockSize).Draw(t, "msx")
	for i := rapid.IntRange(0, 3).Draw(t, "nbox"); i > 0; i-- {
		var b [6]int32
		for a := 0; a < 3; a++ {
			b[a] = rapid.Int32Range(vlo, vhi).Draw(t, "b0")
			b[a+3] = b[a] + rapid.Int32Range(0, 3*c.BlockSize).Draw(t, "bd")
		}
		c.Boxes = append(c.Boxes, b)
	}
	return c
}

func TestC18ROI(t *testing.T) {
	rapid.Check(t, func(t *rapid.T) {
		c := genROICase(t)
		stats.SetCur("C18", "TestC18ROI", c)
		if !stats.Judge(t, "C18", "TestC18ROI", checkROI(c), c) {
			return
		}
		neg := false
		for _, s := range c.Spans {
			if s[0] < 0 || s[1] < 0 || s[2] < 0 {
				neg = true
			}
		}
		cls := []string{"roi"}
		if neg {
			cls = append(cls, "roi/negative-spans")
		}
		if c.MaskOff[0] < 0 || c.MaskOff[1] < 0 || c.MaskOff[2] < 0 {
			cls = append(cls, "roi/negative-mask-offset")
		}
		stats.Record(stats.HashJSON(c), len(c.Spans) >= 2 && len(c.Pts) > 0, cls, func() interface{} { return map[string]interface{}{"test": "roi", "case": c} })
	})
}

// ---------------------------------------------------------------- fuzz: ReadRLEs / UnmarshalBinary never crash, and re-encode what they decoded

func fuzzRLE(data []byte) error {
	return stats.PanicGuard("C18/ReadRLEs/panic", func() error {
		var rl dvid.RLEs
		if err := rl.UnmarshalBinary(data); err == nil {
			mb, err := rl.MarshalBinary()
			if err != nil || !bytes.Equal(mb, data) {
				return stats.Violf("C18/RLEs.binary/roundtrip", "decode->encode changed %d bytes", len(data))
			}
		}
		if len(data) >= 12 && binary.LittleEndian.Uint32(data[8:12]) > 1<<16 {
			return nil // span count lies by a lot: allocation behaviour is C20's subject, not geometry
		}
		rr, err := dvid.ReadRLEs(bytes.NewReader(data))
		if err == nil {
			n := binary.LittleEndian.Uint32(data[8:12])
			if uint32(len(rr)) != n {
				return stats.Violf("C18/ReadRLEs/roundtrip", "header says %d spans, got %d", n, len(rr))
			}
			mb, _ := rr.MarshalBinary()
			if !bytes.Equal(mb, data[12:12+16*int(n)]) {
				return stats.Violf("C18/ReadRLEs/roundtrip", "decoded spans re-encode differently")
			}
		}
		return nil
	})
}

func FuzzC18ReadRLEs(f *testing.F) {
	f.Add([]byte{0, 3, 0, 0, 0, 0, 0, 0, 1, 0, 0, 0, 1, 0, 0, 0, 2, 0, 0, 0, 3, 0, 0, 0, 4, 0, 0, 0})
	f.Add([]byte{0, 3, 0, 0, 0, 0, 0, 0, 2, 0, 0, 0, 1, 0, 0, 0})
	f.Add([]byte{1, 2, 3})
	f.Fuzz(func(t *testing.T, data []byte) {
		if err := fuzzRLE(data); err != nil {
			fmt.Printf("REPLAY-FAIL sig=%s msg=%s\n", stats.SigOf(err), err.Error())
			t.Fatalf("%v", err)
		}
	})
}

func TestReplay(t *testing.T) {
	stats.RunReplay(t, map[string]func(json.RawMessage) error{
		"TestC18Keys": func(raw json.RawMessage) error {
			var c keyCase
			if err := json.Unmarshal(raw, &c); err != nil {
				return err
			}
			return checkKeys(c)
		},
		"TestC18Packed": func(raw json.RawMessage) error {
			var c packCase
			if err := json.Unmarshal(raw, &c); err != nil {
				return err
			}
			return checkPacked(c)
		},
		"TestC18RLEs": func(raw json.RawMessage) error {
			var c rleCase
			if err := json.Unmarshal(raw, &c); err != nil {
				return err
			}
			return checkRLE(c)
		},
		"TestC18ROI": func(raw json.RawMessage) error {
			var c roiCase
			if err := json.Unmarshal(raw, &c); err != nil {
				return err
			}
			return checkROI(c)
		},
	})
}
