// Package blockgen holds the rapid generators shared by the label-block properties (C09, C10):
// block shapes, per-sub-block contents (model.BlockSpec), split run sets and block coordinates.
// Everything random is drawn through rapid; large arrays are expanded deterministically from the
// drawn values by model.BlockSpec.Build / RunSpec.Build.
package blockgen

import (
	"fmt"
	"sort"

	"github.com/janelia-flyem/dvid/datatype/common/labels"
	"pgregory.net/rapid"

	"verif/model"
	"verif/stats"
)

// KSpecial are the distinct-label counts per sub-block that sit at bit-width boundaries.
var KSpecial = []int{1, 2, 3, 4, 5, 7, 8, 9, 15, 16, 17, 31, 33, 63, 65, 127, 129, 255, 257, 511, 512}

// Opts tunes the shape distribution.
type Opts struct {
	MaxSmallG int  // upper bound of g for the common (small) shapes; default 4
	Big       bool // allow the occasional 64^3 / g up to 8 / elongated shape
	FixedG    *[3]int
	// EvenOnly steers around the known finding "MakeBlock fails when the number of sub-blocks is odd":
	// an odd gx*gy*gz is made even by enlarging the x axis by one sub-block.
	EvenOnly bool
	// EvenOnlySig is the known-finding signature counted (stats.Excluded) whenever a shape was altered.
	EvenOnlySig string
}

// Shape draws sub-block counts per axis.
func Shape(t *rapid.T, name string, o Opts) [3]int {
	g := shape(t, name, o)
	if o.EvenOnly && (g[0]*g[1]*g[2])%2 == 1 {
		g[0]++
		if o.EvenOnlySig != "" {
			stats.Excluded(o.EvenOnlySig)
		}
	}
	return g
}

func shape(t *rapid.T, name string, o Opts) [3]int {
	if o.FixedG != nil {
		return *o.FixedG
	}
	mx := o.MaxSmallG
	if mx < 2 {
		mx = 4
	}
	kinds := []string{"small-cubic", "small-cubic", "small-any", "small-any", "small-any"}
	if o.Big {
		kinds = append(kinds, "any8")
		if rapid.IntRange(0, 9).Draw(t, name+"-rare") == 9 {
			kinds = []string{"cubic8", "elongated", "any8"}
		}
	}
	switch rapid.SampledFrom(kinds).Draw(t, name+"-shapekind") {
	case "small-cubic":
		g := rapid.IntRange(2, mx).Draw(t, name+"-g")
		return [3]int{g, g, g}
	case "small-any":
		return [3]int{rapid.IntRange(2, mx).Draw(t, name+"-gx"), rapid.IntRange(2, mx).Draw(t, name+"-gy"), rapid.IntRange(2, mx).Draw(t, name+"-gz")}
	case "any8":
		return [3]int{rapid.IntRange(2, 8).Draw(t, name+"-gx"), rapid.IntRange(2, 8).Draw(t, name+"-gy"), rapid.IntRange(2, 8).Draw(t, name+"-gz")}
	case "cubic8":
		g := rapid.SampledFrom([]int{5, 6, 7, 8, 8}).Draw(t, name+"-g")
		return [3]int{g, g, g}
	default: // elongated: one long axis (up to the 1024-voxel limit = 128 sub-blocks), the others minimal
		long := rapid.SampledFrom([]int{8, 16, 33, 64, 128}).Draw(t, name+"-long")
		g := [3]int{2, 2, 2}
		g[rapid.IntRange(0, 2).Draw(t, name+"-axis")] = long
		return g
	}
}

// K draws a distinct-label count for a sub-block.
func K(t *rapid.T, name string) int {
	switch rapid.IntRange(0, 9).Draw(t, name+"-kkind") {
	case 0, 1, 2, 3, 4:
		return rapid.SampledFrom(KSpecial).Draw(t, name)
	case 5, 6:
		return rapid.IntRange(1, 512).Draw(t, name)
	default:
		return rapid.IntRange(1, 12).Draw(t, name)
	}
}

// Label draws one label from the boundary-heavy palette.
func Label(t *rapid.T, name string) uint64 {
	return rapid.OneOf(
		rapid.SampledFrom(model.SpecialLabels),
		rapid.Uint64Range(1, 20),
		rapid.Uint64Range(1<<32-3, 1<<32+3),
		rapid.Uint64Range(1<<63-2, 1<<63+2),
		rapid.Uint64Range(1<<64-4, 1<<64-1),
		rapid.Uint64(),
	).Draw(t, name)
}

// Spec draws the content description of one block with the given shape.
func Spec(t *rapid.T, name string, g [3]int) model.BlockSpec {
	s := model.BlockSpec{G: g, Seed: rapid.Uint64().Draw(t, name+"-seed")}
	s.Kind = rapid.SampledFrom([]string{"mixed", "mixed", "mixed", "mixed", "mixed", "some-solid", "some-solid", "some-solid", "solid", "zero", "two-in-one"}).Draw(t, name+"-kind")
	switch s.Kind {
	case "zero":
		return s
	case "solid":
		s.LabelA = Label(t, name+"-a")
		return s
	case "two-in-one":
		s.LabelA = Label(t, name+"-a")
		s.LabelB = Label(t, name+"-b")
		if s.LabelB == s.LabelA {
			s.LabelB = s.LabelA + 1
		}
		return s
	}
	n := rapid.IntRange(1, 4).Draw(t, name+"-nk")
	for i := 0; i < n; i++ {
		s.KList = append(s.KList, K(t, fmt.Sprintf("%s-k%d", name, i)))
	}
	if s.Kind == "some-solid" {
		s.SolidPct = rapid.SampledFrom([]int{10, 50, 90}).Draw(t, name+"-solidpct")
	}
	s.Fill = rapid.SampledFrom([]string{"random", "runs", "runs"}).Draw(t, name+"-fill")
	s.Specials = rapid.SampledFrom([]uint8{0, 0, 1, 0x3f, 0xff, 0x21, 0x12}).Draw(t, name+"-specials")
	if rapid.IntRange(0, 3).Draw(t, name+"-specials-any") == 0 {
		s.Specials = rapid.Uint8().Draw(t, name+"-specials-mask")
	}
	s.Base = rapid.SampledFrom([]uint64{1, 1, 2, 1000, 1<<32 - 3, 1<<63 - 2, 1<<64 - 40, 1<<64 - 600}).Draw(t, name+"-base")
	s.Extra = rapid.SampledFrom([]int{0, 0, 1, 2, 3, 8, 40}).Draw(t, name+"-extra")
	return s
}

// Classes gives histogram labels for one built block.
func Classes(prefix string, s model.BlockSpec, arr []uint64) (cls []string, maxK, nLabels int) {
	d := s.Dims()
	cls = append(cls, prefix+"kind="+s.Kind)
	if s.G[0] == s.G[1] && s.G[1] == s.G[2] {
		cls = append(cls, prefix+"shape=cubic")
	} else {
		cls = append(cls, prefix+"shape=noncubic")
	}
	switch n := d.N(); {
	case n <= 16*16*16:
		cls = append(cls, prefix+"size=16^3")
	case n <= 32*32*32:
		cls = append(cls, prefix+"size<=32^3")
	case n < 64*64*64:
		cls = append(cls, prefix+"size<64^3")
	default:
		cls = append(cls, prefix+"size>=64^3")
	}
	if s.G[0] >= 16 || s.G[1] >= 16 || s.G[2] >= 16 {
		cls = append(cls, prefix+"shape=elongated")
	}
	bits := map[int]bool{}
	for _, k := range model.SubBlockLabelCounts(arr, d) {
		if k > maxK {
			maxK = k
		}
		b := 0
		for (1 << uint(b)) < k {
			b++
		}
		bits[b] = true
	}
	for b := range bits {
		cls = append(cls, fmt.Sprintf("%sbits=%d", prefix, b))
	}
	sort.Strings(cls[len(cls)-len(bits):])
	if maxK >= 257 {
		cls = append(cls, prefix+"k>=257")
	}
	if maxK >= 3 {
		cls = append(cls, prefix+"k>=3")
	}
	lbls := model.SortedLabels(arr)
	nLabels = len(lbls)
	switch {
	case nLabels == 1 && lbls[0] == 0:
		cls = append(cls, prefix+"only-label-0")
	case nLabels == 1:
		cls = append(cls, prefix+"solid")
	case nLabels == 2:
		cls = append(cls, prefix+"two-labels")
	}
	for _, l := range lbls {
		if l >= 1<<32 {
			cls = append(cls, prefix+"labels>=2^32")
			break
		}
	}
	if lbls[len(lbls)-1] == 1<<64-1 {
		cls = append(cls, prefix+"label=2^64-1")
	}
	if lbls[0] == 0 && nLabels > 1 {
		cls = append(cls, prefix+"has-label-0")
	}
	return
}

// BCoord draws a block coordinate; negative reports whether any component is negative.
func BCoord(t *rapid.T, name string, allowNegative bool) (bc [3]int32, negative bool) {
	kind := "nonneg"
	if allowNegative {
		kind = rapid.SampledFrom([]string{"nonneg", "nonneg", "negative"}).Draw(t, name+"-sign")
	}
	for i := 0; i < 3; i++ {
		bc[i] = int32(rapid.IntRange(0, 5).Draw(t, fmt.Sprintf("%s-%d", name, i)))
	}
	if kind == "negative" {
		mask := rapid.IntRange(1, 7).Draw(t, name+"-negmask")
		for i := 0; i < 3; i++ {
			if mask&(1<<uint(i)) != 0 {
				bc[i] = -1 - bc[i]
			}
		}
		negative = true
	}
	return
}

// RunSpec describes a split's sparse volume inside one block (block-local coordinates).
type RunSpec struct {
	Kind     string      `json:"kind"` // empty | whole | single | explicit | random | follow
	Seed     uint64      `json:"seed,omitempty"`
	Density  int         `json:"density,omitempty"`  // random: percent of rows that get runs
	Explicit []model.Run `json:"explicit,omitempty"` // explicit / single
	Follow   uint64      `json:"follow,omitempty"`   // follow: runs trace this label's voxels, cut and padded by Seed
}

// DrawRuns draws a run-set description for a block of size d containing the given labels.
func DrawRuns(t *rapid.T, name string, d model.Dims, present []uint64) RunSpec {
	rs := RunSpec{Kind: rapid.SampledFrom([]string{"empty", "whole", "single", "explicit", "explicit", "random", "random", "follow", "follow"}).Draw(t, name+"-kind")}
	pt := func(n string) model.Run {
		return model.Run{
			X: int32(rapid.IntRange(0, d[0]-1).Draw(t, n+"-x")),
			Y: int32(rapid.IntRange(0, d[1]-1).Draw(t, n+"-y")),
			Z: int32(rapid.IntRange(0, d[2]-1).Draw(t, n+"-z")),
		}
	}
	switch rs.Kind {
	case "single":
		r := pt(name + "-pt")
		r.Len = 1
		rs.Explicit = []model.Run{r}
	case "explicit":
		n := rapid.IntRange(1, 6).Draw(t, name+"-n")
		for i := 0; i < n; i++ {
			r := pt(fmt.Sprintf("%s-r%d", name, i))
			r.Len = int32(rapid.IntRange(1, d[0]).Draw(t, fmt.Sprintf("%s-r%d-len", name, i)))
			rs.Explicit = append(rs.Explicit, r)
		}
	case "random":
		rs.Seed = rapid.Uint64().Draw(t, name+"-seed")
		rs.Density = rapid.SampledFrom([]int{5, 30, 100}).Draw(t, name+"-density")
	case "follow":
		rs.Seed = rapid.Uint64().Draw(t, name+"-seed")
		rs.Follow = rapid.SampledFrom(present).Draw(t, name+"-follow")
	}
	return rs
}

// Build expands the run set (block-local, non-overlapping, inside the block).
func (rs RunSpec) Build(d model.Dims, arr []uint64) []model.Run {
	switch rs.Kind {
	case "empty":
		return nil
	case "whole":
		var out []model.Run
		for z := 0; z < d[2]; z++ {
			for y := 0; y < d[1]; y++ {
				out = append(out, model.Run{X: 0, Y: int32(y), Z: int32(z), Len: int32(d[0])})
			}
		}
		return out
	case "single", "explicit":
		return model.SanitizeRuns(d, rs.Explicit)
	case "random":
		seed := rs.Seed
		var out []model.Run
		for z := 0; z < d[2]; z++ {
			for y := 0; y < d[1]; y++ {
				if int(model.XorShift(&seed)%100) >= rs.Density {
					continue
				}
				x := int(model.XorShift(&seed) % 6)
				for x < d[0] {
					n := 1 + int(model.XorShift(&seed)%14)
					if x+n > d[0] {
						n = d[0] - x
					}
					out = append(out, model.Run{X: int32(x), Y: int32(y), Z: int32(z), Len: int32(n)})
					x += n + 1 + int(model.XorShift(&seed)%12)
				}
			}
		}
		return out
	case "follow":
		// runs over the label's voxels; some rows are skipped, some runs shortened, some extended
		// by a few voxels over neighbouring labels (partly outside the target label)
		seed := rs.Seed
		base := model.RunsOfMask(d, model.MaskOf(arr, map[uint64]bool{rs.Follow: true}))
		var out []model.Run
		for _, r := range base {
			switch model.XorShift(&seed) % 4 {
			case 0:
				continue
			case 1:
				r.Len = 1 + int32(model.XorShift(&seed)%uint64(r.Len))
			case 2:
				r.X -= int32(model.XorShift(&seed) % 3)
				r.Len += int32(model.XorShift(&seed) % 6)
			}
			out = append(out, r)
		}
		return model.SanitizeRuns(d, out)
	}
	return nil
}

// PermuteTable returns the same block with its block-level label table reordered (order derived from
// seed) and the sub-block indices remapped.  MakeBlock fills the table in Go map iteration order, i.e.
// randomly; the format does not prescribe an order, so this is the same block content, but it makes
// everything that depends on table positions (duplicate entries after ReplaceLabel, "last matching
// entry wins" loops) reproducible.  The result is produced by UnmarshalBinary of a serialisation
// written here from the documented layout.
func PermuteTable(b *labels.Block, seed uint64) (*labels.Block, error) {
	n := len(b.Labels)
	if n < 2 {
		return b, nil
	}
	order := make([]int, n) // order[newPos] = oldPos
	for i := range order {
		order[i] = i
	}
	key := func(old int) uint64 {
		x := b.Labels[old]*0x9E3779B97F4A7C15 ^ seed
		x ^= x >> 29
		x *= 0xBF58476D1CE4E5B9
		x ^= x >> 32
		return x
	}
	sort.Slice(order, func(i, j int) bool {
		ki, kj := key(order[i]), key(order[j])
		if ki != kj {
			return ki < kj
		}
		return b.Labels[order[i]] < b.Labels[order[j]]
	})
	newPos := make([]uint32, n)
	for np, old := range order {
		newPos[old] = uint32(np)
	}
	buf := make([]byte, 0, 16+n*8+len(b.NumSBLabels)*2+len(b.SBIndices)*4+len(b.SBValues))
	le := func(v uint64, nb int) {
		for i := 0; i < nb; i++ {
			buf = append(buf, byte(v>>(8*uint(i))))
		}
	}
	le(uint64(b.Size[0]/8), 4)
	le(uint64(b.Size[1]/8), 4)
	le(uint64(b.Size[2]/8), 4)
	le(uint64(n), 4)
	for _, old := range order {
		le(b.Labels[old], 8)
	}
	for _, v := range b.NumSBLabels {
		le(uint64(v), 2)
	}
	for _, v := range b.SBIndices {
		le(uint64(newPos[v]), 4)
	}
	buf = append(buf, b.SBValues...)
	nb := new(labels.Block)
	if err := nb.UnmarshalBinary(buf); err != nil {
		return nil, err
	}
	return nb, nil
}
