// Package c14 holds the check of property C14 (see c14_test.go).  This file documents the findings of the check;
// it contains no code.
//
// # C14 findings on the unchanged tree
//
// Each finding fails TestC14Pyramid on the unmodified /repo and has a hand-minimised replay file under
// harness/props/c14/findings/ (format of $VERIF_LASTFAIL; run with
// VERIF_REPLAY=<file> go test -tags "badger filelog verif" -modfile /verif/build/repo/verif.mod ./props/c14 -run 'TestReplay$' -v).
// Every replay was executed and fails with the listed signature.  The generator steers around a finding when one of its
// signatures is listed in $VERIF_KNOWN_SIGS; with the three signatures marked (*) listed, 8 seeds x 200, 8 seeds x 600 and 16 seeds x 300 cases pass (11200 cases),
// and each of the eight breaking changes tried (see the end of this file) is still caught.
//
// 1. Blocks with a negative odd coordinate: down-sampling panics or files the block under the wrong octant.
//
//	Signatures: C14/blocks/panic/negative-coords (*)            findings/neg-odd-block-panic.json
//	            C14/raw-ingest/panic/negative-coords             findings/neg-odd-block-panic-raw.json
//	            C14/blocks/scale1/differs-from-vote/negative-coords   findings/neg-odd-block-wrong-octant.json
//	            (the same root cause can surface as C14/<blocks|raw-ingest|raw-mutate|split-supervoxel|split>/panic/negative-coords
//	            and C14/<op>/<scale1|scale2+>/differs-from-vote/negative-coords)
//
//	Minimal cases (labelmap, BlockSize 16, MaxDownresLevel 1):
//	 (a) POST blocks?downres=true (or POST raw/0_1_2/16_16_16/-16_0_0) of the single block (-1,0,0) is answered
//	     500 "Panic detected ... index out of range [-1]"; the level-0 block has been stored, level 1 has not been written.
//	 (b) POST blocks?downres=true of the single block (-1,1,0), solid label 1: 200.  GET blocks/raw scale=1 of the level-1
//	     block (-1,0,0) shows the 8x8x16 down-sampled voxels at x in [-8,0), y in [0,8) (octant x=1,y=0) instead of
//	     y in [8,16) (octant x=1,y=1): 1024 of 4096 level-1 voxels differ from the documented vote.
//
//	Cause: getHiresChanges (/repo/datatype/labelmap/downres.go:31-35) computes the parent block with an arithmetic shift
//	(hresCoord >> 1, floor: correct) but the octant number with Go's truncating remainder:
//	   octidx := ((hresCoord[2] % 2) << 2) + ((hresCoord[1] % 2) << 1) + (hresCoord[0] % 2)
//	For a negative odd coordinate c, c % 2 == -1, so octidx is too small by 2, 4 or 8 per negative odd axis: either negative
//	(oct[octidx] at :40 panics; the panic happens inside downres.Mutation.Execute, /repo/datatype/common/downres/downres.go:103-112,
//	with the mutation's lock held and the per-scale update counters of the remaining scales never decremented) or a valid but
//	wrong octant (silent misplacement).  The same expression runs for every hiresScale, so a level-0 block with an even
//	negative coordinate is hit one level up (c>>k negative and odd): found first with block (-3,-12,1), MaxDownresLevel 3,
//	panicking at hiresScale 2.  `c & 1` instead of `c % 2` gives the floor-consistent octant.
//	All write paths share it: storeBlocks (write.go:543), PutLabels (write.go:153), SplitSupervoxel (mutate.go:1087),
//	SplitLabels (mutate.go:848).
//
//	Steering when known (case flag avoid_neg_odd): writes only touch blocks whose coordinate is, on every axis and at every
//	level below MaxDownresLevel, non-negative or even; negative even coordinates (and reads at negative offsets) stay in
//	the search.  Listing any one of the negative-coords signatures switches the steering on.  A failure met at negative
//	coordinates while steering is on is not this finding's shape and carries the suffix /negative-coords-even-only.
//
// 2. GET raw of exactly one block that is not stored panics.
//
//	Signature: C14/read-raw/single-unset-block/panic (*)          findings/raw-get-single-unset-block.json
//
//	Minimal case: fresh labelmap (BlockSize 16), GET raw/0_1_2/16_16_16/0_0_0?supervoxels=true (any scale, any version) ->
//	500 "Panic detected ... invalid memory address or nil pointer dereference".  Any larger or unaligned box over the same
//	unset region returns zeros.  Met by this check when the top level of the pyramid is a single block and nothing (or
//	only zeros/filtered writes) is stored there.
//
//	Cause: writeBlockToHTTP (/repo/datatype/labelmap/blocks.go:231-266) takes a single-block shortcut when the request is
//	one aligned block and no compression is asked for: streamRawBlock (:294-311) calls getLabelBlock, which returns
//	(nil, nil) for a missing key (:325), and then dereferences the nil *labels.Block in block.WriteLabelVolume (:307) (or in
//	modifyBlockMapping at :305 without supervoxels=true).  The compressed variant sendCompressedBlock (:268-290) turns the
//	same situation into a 400 "unable to get label block" instead of zeros.  This is a read-path defect rather than a
//	pyramid defect (it belongs as much to C08/C20); it is reported here because the documented observation of C14
//	(GET raw with scale=k) runs into it.
//
//	Steering when known: the raw read of a level whose extent is exactly one block is skipped when GET blocks returned no
//	block for it (counted in evidence as excluded); the blocks read of that level is still compared with the vote.
//
// 3. A supervoxel that was split on another branch is indexed under label 0 when written on this branch; a later split
// on this branch misses those blocks.
//
//	Signatures: C14/split-supervoxel/scale0/differs-from-written/id-split-on-other-branch (*)   findings/split-after-sibling-branch-split.json
//	            C14/split/scale0/differs-from-written/id-split-on-other-branch (same shape through the body split)
//
//	Minimal case (BlockSize 16, MaxDownresLevel 1): root: POST blocks block (0,0,0) solid supervoxel 1; commit; child A:
//	split-supervoxel/1 (one voxel) -> 1 no longer exists on A.  Branch B off the root (1 still exists there): POST blocks
//	block (1,0,0) solid supervoxel 1 (200); split-supervoxel/1 on B (one voxel of block (0,0,0)) -> 200, but block (1,0,0)
//	still stores 1 although supervoxel 1 "no longer exists" and every remaining voxel should carry the remain id: 4096
//	level-0 voxels differ from what the documented operations give.  GET index/1 on B after the ingest lists one block
//	(4096 voxels) instead of two.
//
//	Cause: aggregateBlockChanges (/repo/datatype/labelmap/labelidx.go:948) maps each ingested supervoxel to its body with
//	   label, _ := svmap.mapLabel(supervoxel, mappedVersions)
//	and ignores the second result.  mapLabel (vcache.go:78-93) returns (label, false) when the id has no mapping entry at
//	all, but for an id that has entries only at versions outside the lineage it returns vmap.value's (0, false)
//	(vcache.go:440-456: label stays 0 when no entry's version is among the ancestors).  The split on branch A left the entry
//	"1 -> 0 at version A", so on branch B the new voxels of supervoxel 1 are booked under label 0 and the index of body 1
//	never learns about block (1,0,0); SplitSupervoxel/SplitLabels walk the index, so they skip the block.  The pyramid above
//	is consistent with the (wrong) level 0; this is an index/mapping isolation defect between branches (C08's subject) that
//	this check meets because it compares level 0 with the model of what was written.
//
//	Steering when known: split-supervoxel / split whose target id (or a supervoxel of the target body) was split away at a
//	version that is not on the lineage of the node is not issued (counted as excluded); everything else on sibling
//	branches stays in the search.
//
// # Observations that are not violations
//
//   - labelmap.AnyScaleUpdating (/repo/datatype/labelmap/labelmap.go:1935-1945) polls scales 0..MaxDownresLevel-1 although
//     the counters are kept for scales 1..MaxDownresLevel (downres.NewMutation, downres.go:69-71): the top scale is never
//     looked at.  All four write paths call Mutation.Execute synchronously before answering, so with the Badger store the
//     idle report cannot be early; with a store implementing storage.KeyValueRequester (gbucket only) putChunk's callback
//     (write.go:208-236) runs BlockMutated asynchronously and could arrive after Execute closed the mutation
//     ("bad attempt to mutate block ... when mutation already closed", block never down-sampled) - not reachable here.
//   - The per-operation comparison is made as soon as the request has returned and the instance's own idle predicates
//     (Updating, SyncPending, per-scale counters) are quiet; a mismatch is re-read after datastore.BlockOnUpdating only to
//     label it (still wrong: ordinary signature; gone: C14/idle/reported-idle-before-pyramid-complete).  The final sweep
//     of every version is made after datastore.BlockOnUpdating + the AnyScaleUpdating poll, as the upstream tests do.
//     Neither kind has been seen to differ.
//   - The body split endpoint (disabled by default) is enabled the documented way, by loading a TOML configuration with
//     [server] allowLabelmapSplit = true after the test datastore is open.
//
// # Sensitivity (scratch copy of /repo, one change at a time, known signatures listed, 1 process)
//
//	M1 tie-break to the larger label in downresArray (compressed.go:1230)            caught, case 1   (C14/blocks/scale1/differs-from-vote)
//	M2 Mutation.Execute stops after level 1 (downres.go:106)                          caught, case 2   (C14/blocks/scale2+/differs-from-vote)
//	M3 getHiresChanges drops octant 7 (downres.go:40)                                 caught, case 2   (scale1)
//	M4 downresOctant skips the store of a lores block that became all zero            caught, cases 36 / 11 / 12 on three seeds (C14/raw-mutate/scale1)
//	M5 downresOctant starts from an empty block instead of the stored lores block     caught, case 1
//	M6 split-supervoxel defaults to downres=false (handlers.go:1685)                  caught, case 21  (C14/split-supervoxel/scale1)
//	M7 StoreDownres drops one lores block when a mutation touches >=2 at scale>=2     caught, case 83  (C14/blocks/scale2+)
//	M8 revert of commit 1304178 (solid-block shortcut with nil octants)               caught, case 2
package c14
